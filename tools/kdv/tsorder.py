"""Decoding depends on the ORDER of the records of a stream, not on their timestamps (shared by C04 / C09 / C10 / C20).

Statement used (on the real code alone): what `TracesParser.feed_generator` reports for a stream — which records make up
each trace, every text, every composite payload, the final tables, the aborting exception — stays the same when the records
keep their order and contents but carry other timestamps: descending, shuffled, or ascending with other gaps (records of
several CPUs are merged by arrival, their clocks need not agree; the properties speak of "the most recent START", "the
first nested record", "in stream order").  Timestamps stay pairwise distinct, so records that differ only in their timestamp
stay different values (value-equal records are finding K5's territory).  A decoder that sorts its window by time, picks "the
oldest" nested record, or pairs by time instead of by position fails it."""
from . import core


def retime(events_hex, order):
    """The same records with timestamps `order[i]` (bytes 0..8 of a record)."""
    out = []
    for h, t in zip(events_hex, order):
        r = bytes.fromhex(h)
        out.append((t.to_bytes(8, 'little') + r[8:]).hex())
    return out


def normalised(case):
    """The pipeline's answer with every window given as record INDICES instead of timestamps."""
    from . import pipeline as PL
    outs, err, parser = PL.run_traces(case)
    idx = {}
    for i, h in enumerate(case['events']):
        idx.setdefault(int.from_bytes(bytes.fromhex(h)[:8], 'little'), i)
    for o in outs:
        o['ts'] = [idx.get(t, -1) for t in o['ts']]
    return PL.answer(outs, err, parser)


def section(rep, rng, tier, prop, name='timestamp-order'):
    from . import pipeline as PL
    sec = rep.section(name)
    n = 120 if tier == 'quick' else 4000
    sec['rule'] = ('%d random scenarios (complete operations of every kind, one in two damaged by a dropped / duplicated record) '
                   'decoded as generated and with the same records re-stamped: descending, shuffled, and ascending with other '
                   'gaps (timestamps pairwise distinct); windows compared by record index, texts, composite payloads, tables and '
                   'exception must be the same (oracle on the code alone)' % n)
    done = set()
    for k in range(n):
        case = PL.random_scenario(rng, perturb=(k % 2 == 1))
        ev = case['events']
        m = len(ev)
        if m < 2:
            continue
        start = rng.randrange(1, 1 << 40)
        case = dict(case, events=retime(ev, [start + 5 * i for i in range(m)]))     # pairwise distinct also in the base
        ev = case['events']
        base = normalised(case)
        shuffled = rng.sample(range(start, start + 4 * m), m)
        variants = [('descending', [start + 3 * (m - i) for i in range(m)]), ('shuffled', shuffled),
                    ('other-gaps', sorted(rng.sample(range(start, start + 1000 * m), m)))]
        for what, order in variants:
            sec['cases'] += 1
            c2 = dict(case, events=retime(ev, order))
            got = normalised(c2)
            if got == base:
                sec['distinct_nontrivial'] += 1
                continue
            sig = 'stream:depends-on-timestamps'
            if sig in done:
                continue
            done.add(sig)
            # shrink: fewest re-stamped... keep the whole (small) scenario, name the first differing trace
            fa, fb = PL.parse_answer(base), PL.parse_answer(got)
            what2 = 'tables / exception / number of traces'
            for x, y in zip(fa[0], fb[0]):
                if x != y:
                    tx = lambda t: '%s over records %s: %r %s' % (t['name'], t['ts'], (t['text'] if t.get('text') is not None else t.get('raw', ''))[:140], str(t.get('extra', ''))[:100])  # noqa: E731
                    what2 = 'as generated: %s; re-stamped: %s' % (tx(x), tx(y))
                    break
            rep.add_failure(sig, '%s: the same records in the same order with %s timestamps decode differently (%s)'
                            % (prop, what, what2), {'section': name, 'case': case, 'retimed': c2, 'how': what})


def replay(rp):
    a, b = normalised(rp['case']), normalised(rp['retimed'])
    lines = ['as generated             : ' + a[:1500], 're-stamped (%s): ' % rp.get('how', '?') + b[:1500]]
    return a != b, lines
