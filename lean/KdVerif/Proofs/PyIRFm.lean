import KdVerif.Spec.PyIRFmExpected
/-
  The expected IR of the line builders (`Spec/PyIRFmExpected`), run by the interpreter of `Model/PyIRFm`, is
  `Format.formatTimestamp / formatProcess / formatKevent / formatTrace / formatCallstack / formatLog` — for every setting
  of the switches, every colour machinery, every pair of tables, every argument.  Core Lean only.
-/
namespace KdVerif.PyIRFm
open KdVerif.Format
open KdVerif.Filters (LogRec)

/-! ### Python ints that are natural numbers -/

@[simp] theorem asNat_natCast (n : Nat) : asNat (n : Int) = some n := rfl

@[simp] theorem lookupInt_natCast {β : Type} (tbl : List (Nat × β)) (n : Nat) : lookupInt tbl (n : Int) = tbl.lookup n := rfl

@[simp] theorem toString_natCast (n : Nat) : toString (n : Int) = toString n := rfl

@[simp] theorem int_repr_natCast (n : Nat) : (n : Int).repr = n.repr := rfl

theorem strRep_space (n : Nat) : strRep " " n = spaces n := by
  induction n with
  | zero => rfl
  | succ n ih =>
    have h1 : strRep " " (n + 1) = " " ++ strRep " " n := by simp [strRep, List.replicate_succ, String.join_cons]
    have h2 : spaces (n + 1) = " " ++ spaces n := by
      simp only [spaces, List.replicate_succ, String.ofList_cons]; rfl
    rw [h1, h2, ih]

/-! ### environments and single statements -/

theorem Env.set_same (env : Env) (i : Nat) (v : Val) (h : env i = some v) : env.set i v = env := by
  funext j; unfold Env.set; split
  · next hj => rw [hj, h]
  · rfl

@[simp] theorem Env.set_set (env : Env) (i : Nat) (a b : Val) : (env.set i a).set i b = env.set i b := by
  funext j; unfold Env.set; split <;> rfl

@[simp] theorem Env.set_get (env : Env) (i : Nat) (v : Val) : (env.set i v) i = some v := by simp [Env.set]

theorem Env.set_get_ne (env : Env) (i j : Nat) (v : Val) (h : j ≠ i) : (env.set i v) j = env j := by simp [Env.set, h]

theorem exec_seq_normal {cx : Ctx} {cal : Callees} {a b : Stmt} {env env' : Env}
    (h : exec cx cal a env = (.normal, env')) : exec cx cal (.seq a b) env = exec cx cal b env' := by
  simp [exec, h]

theorem exec_assign {cx : Ctx} {cal : Callees} {v : Nat} {e : Expr} {env : Env} {x : Val}
    (h : eval cx cal env e = .ok x) : exec cx cal (.assign v e) env = (.normal, env.set v x) := by
  simp [exec, h]

theorem exec_append {cx : Ctx} {cal : Callees} {v : Nat} {e : Expr} {env : Env} {cur s : String}
    (hv : env v = some (.str cur)) (he : eval cx cal env e = .ok (.str s)) :
    exec cx cal (.append v e) env = (.normal, env.set v (.str (cur ++ s))) := by
  simp [exec, hv, he]

/-- a conditional append (either spelling of the source) appends the text or the empty string -/
theorem exec_appendIf {cx : Ctx} {cal : Callees} {v : Nat} {c e : Expr} {env : Env} {cur s : String} {b : Bool}
    (hv : env v = some (.str cur)) (hc : evalCond cx cal env c = .ok b)
    (he : b = true → eval cx cal env e = .ok (.str s)) :
    exec cx cal (.appendIf v c e) env = (.normal, env.set v (.str (cur ++ if b then s else ""))) := by
  cases b with
  | false => simp [exec, hv, hc, Env.set_same env v _ hv]
  | true => simp [exec, hv, hc, he rfl]

theorem evalCond_selfShow (cx : Ctx) (cal : Callees) (env : Env) (a : ShowAttr) :
    evalCond cx cal env (.selfShow a) = .ok (showGet cx.sh a) := by
  simp [evalCond, eval, truthy]

theorem evalCond_selfColor (cx : Ctx) (cal : Callees) (env : Env) :
    evalCond cx cal env .selfColor = .ok cx.col.on := by
  simp [evalCond, eval, truthy]

theorem ite_self_append (b : Bool) (s x : String) : (if b = true then s ++ x else s) = s ++ (if b = true then x else "") := by
  cases b <;> simp

/-! ### `_format_timestamp` and `_format_process` -/

theorem runMethod_timestamp (cx : Ctx) (cal : Callees) (ts : Nat) :
    runMethod cx cal Expected.formatTimestamp [.int ts] =
      if cx.time.anyNone then .ok (.str (formatTimestamp ts)) else .error .unmodelled := by
  obtain ⟨sh, col, tabs, qe, ⟨a, b, c, d, e⟩⟩ := cx
  cases a <;> cases b <;> cases c <;> cases d <;> cases e <;>
    simp [runMethod, Expected.formatTimestamp, exec, evalCond, eval, truthy, pyStr, applySpec, Env.ofArgs, TimeSet.get,
      TimeSet.anyNone, formatTimestamp]

theorem runMethod_process (cx : Ctx) (cal : Callees) (tid : Nat) :
    runMethod cx cal Expected.formatProcess [.int tid] = .ok (.str (formatProcess cx.tabs tid)) := by
  cases hp : cx.tabs.threadsPids.lookup tid with
  | none =>
    cases hn : cx.tabs.pidsNames.lookup (-1) <;>
    simp [runMethod, Expected.formatProcess, Expected.processText, exec, eval, evalPieces, truthy, applySpec, Env.ofArgs,
      Env.set, formatProcess, hp, hn]
  | some pid =>
    by_cases h1 : pid = -1
    · subst h1
      cases hn : cx.tabs.pidsNames.lookup (-1) <;>
      simp [runMethod, Expected.formatProcess, Expected.processText, exec, eval, evalPieces, truthy, applySpec, Env.ofArgs,
        Env.set, formatProcess, hp, hn]
    · cases hn : cx.tabs.pidsNames.lookup pid <;>
      simp [runMethod, Expected.formatProcess, Expected.processText, exec, eval, evalPieces, truthy, applySpec, Env.ofArgs,
        Env.set, formatProcess, hp, h1, hn, String.append_assoc]

/-- what the two method calls answer, as the hand model has it -/
structure CalleesOk (cx : Ctx) (cal : Callees) : Prop where
  timestamp : ∀ ts : Nat, cal.timestamp (.int ts) = .ok (.str (formatTimestamp ts))
  process : ∀ tid : Nat, cal.process (.int tid) = .ok (.str (formatProcess cx.tabs tid))

/-- The calls of the expected program are answered by its own `_format_timestamp` / `_format_process` — under the
    model's assumption that not all five wall-clock attributes are set. -/
theorem callees_expected (cx : Ctx) (h : cx.time.anyNone = true) : CalleesOk cx (Expected.prog.callees cx) where
  timestamp ts := by
    show runMethod cx Callees.none Expected.formatTimestamp [.int ts] = _
    rw [runMethod_timestamp, if_pos h]
  process tid := runMethod_process cx Callees.none tid

/-! ### the header of trace and callstack lines -/

/-- the text `formatted_data` holds behind the header statements (the `let s := …` lines of `formatTrace` /
    `formatCallstack`) -/
def headerText (sh : Show) (t : Tables) (ts tid : Nat) : String :=
  ((("" ++ if sh.timestamp = true then formatTimestamp ts else "")
      ++ (if sh.tid = true then padLeft 11 (toString tid) ++ " " else ""))
      ++ (if sh.process = true then padRight 34 (formatProcess t tid) else ""))

theorem exec_header (cx : Ctx) (cal : Callees) (hc : CalleesOk cx cal) (first : Expr) (rest : Stmt) (env : Env)
    (fv : Val) (ts tid : Nat)
    (hf : ∀ env' : Env, env' 0 = env 0 → eval cx cal env' first = .ok fv)
    (h1 : getAttr fv .timestamp = .ok (.int ts)) (h2 : getAttr fv .tid = .ok (.int tid)) :
    exec cx cal (Expected.header first rest) env =
      exec cx cal rest (env.set 1 (.str (headerText cx.sh cx.tabs ts tid))) := by
  have e0 : exec cx cal (.assign 1 (.lit "")) env = (.normal, env.set 1 (.str "")) := exec_assign (by simp [eval])
  have hf1 : ∀ s, eval cx cal (env.set 1 (.str s)) first = .ok fv := fun s => hf _ (by simp [Env.set])
  have e1 := exec_appendIf (cx := cx) (cal := cal) (v := 1) (c := .selfShow .timestamp)
    (e := .callTimestamp (.attr first .timestamp)) (env := env.set 1 (.str "")) (cur := "") (s := formatTimestamp ts)
    (Env.set_get _ _ _) (evalCond_selfShow _ _ _ _) (fun _ => by simp [eval, hf1, h1, hc.timestamp])
  have e2 := exec_appendIf (cx := cx) (cal := cal) (v := 1) (c := .selfShow .tid)
    (e := .fstr (.fmt (.right 11) (.attr first .tid) (.lit " " .nil)))
    (env := env.set 1 (.str ("" ++ if showGet cx.sh .timestamp = true then formatTimestamp ts else "")))
    (s := padLeft 11 (toString tid) ++ " ")
    (Env.set_get _ _ _) (evalCond_selfShow _ _ _ _) (fun _ => by simp [eval, evalPieces, hf1, h2, applySpec])
  have e3 := exec_appendIf (cx := cx) (cal := cal) (v := 1) (c := .selfShow .process)
    (e := .fstr (.fmt (.left 34) (.callProcess (.attr first .tid)) .nil))
    (env := env.set 1 (.str (("" ++ if showGet cx.sh .timestamp = true then formatTimestamp ts else "")
      ++ if showGet cx.sh .tid = true then padLeft 11 (toString tid) ++ " " else "")))
    (s := padRight 34 (formatProcess cx.tabs tid))
    (Env.set_get _ _ _) (evalCond_selfShow _ _ _ _)
    (fun _ => by simp [eval, evalPieces, hf1, h2, applySpec, hc.process])
  simp only [Env.set_set] at e1 e2 e3
  unfold Expected.header
  rw [exec_seq_normal e0, exec_seq_normal e1, exec_seq_normal e2, exec_seq_normal e3]
  rfl

/-! ### `_format_trace` -/

theorem runMethod_trace (cx : Ctx) (cal : Callees) (hc : CalleesOk cx cal) (tr : TraceRec) :
    runMethod cx cal Expected.formatTrace [.trace tr] = .ok (.str (formatTrace cx.sh cx.col cx.tabs tr)) := by
  have hh := exec_header cx cal hc (.ktrace0 (.var 0)) Expected.traceTail (Env.ofArgs [.trace tr]) (.ktrace tr.timestamp tr.tid)
    tr.timestamp tr.tid (fun env' h => by simp [eval, h, Env.ofArgs]) rfl rfl
  have hm : formatTrace cx.sh cx.col cx.tabs tr =
      headerText cx.sh cx.tabs tr.timestamp tr.tid ++ (if cx.col.on = true then cx.col.hlTrace tr.body else tr.body) := by
    simp only [formatTrace, headerText, ite_self_append]
  simp only [runMethod, Expected.formatTrace, List.length_cons, List.length_nil, ne_eq, not_true_eq_false, if_false]
  rw [hh, hm]
  cases hcol : cx.col.on <;>
    simp [Expected.traceTail, exec, eval, evalCond, truthy, pyStr, Env.set, Env.ofArgs, hcol]

/-! ### `_format_callstack` -/

theorem exec_frameBody (cx : Ctx) (cal : Callees) (env : Env) (acc : List String) (k : Nat) (f : Frame)
    (h2 : env 2 = some (.strs acc)) (h3 : env 3 = some (.int k)) (h4 : env 4 = some (.frame f)) :
    ∃ env', env' 2 = some (.strs (acc ++ [spaces k ++ frameText f])) ∧
      exec cx cal Expected.frameBody env = (.normal, env') := by
  have hl : eval cx cal env Expected.frameLine = .ok (.str (frameText f)) := by
    cases hu : f.uuid <;>
      simp [Expected.frameLine, eval, evalPieces, h4, getAttr, hu, truthy, applySpec, frameText, String.append_assoc]
  refine ⟨_, ?_, by
    unfold Expected.frameBody
    rw [exec_seq_normal (exec_assign hl)]
    simp [exec, eval, Env.set, h2, h3, strRep_space]
    rfl⟩
  simp [Env.set]

theorem forEnumLoop_frames (cx : Ctx) (cal : Callees) (fs : List Frame) : ∀ (k : Nat) (env : Env) (acc : List String),
    env 2 = some (.strs acc) →
    ∃ env', env' 2 = some (.strs (acc ++ frameLines k fs)) ∧
      forEnumLoop (fun env => exec cx cal Expected.frameBody env) 3 4 k fs env = (.normal, env') := by
  induction fs with
  | nil => intro k env acc h; exact ⟨env, by simpa [frameLines] using h, rfl⟩
  | cons f fs ih =>
    intro k env acc h
    obtain ⟨env1, h1, he⟩ := exec_frameBody cx cal ((env.set 3 (.int k)).set 4 (.frame f)) acc k f
      (by simpa [Env.set] using h) (by simp [Env.set]) (by simp [Env.set])
    obtain ⟨env2, h2', he2⟩ := ih (k + 1) env1 _ h1
    exact ⟨env2, by simpa [frameLines] using h2', by simp [forEnumLoop, he, he2]⟩

theorem exec_forEnum (cx : Ctx) (cal : Callees) (i x : Nat) (it : Expr) (body : Stmt) (env : Env) :
    exec cx cal (.forEnum i x it body) env =
      match eval cx cal env it with
      | .ok (.frames l) => forEnumLoop (fun env => exec cx cal body env) i x 0 l env
      | .ok _ => (.err .unmodelled, env)
      | .error e => (.err e, env) := by
  rw [exec]; rfl

theorem runMethod_callstack (cx : Ctx) (cal : Callees) (hc : CalleesOk cx cal) (cs : Callstack) :
    runMethod cx cal Expected.formatCallstack [.callstack cs] = .ok (.str (formatCallstack cx.sh cx.tabs cs)) := by
  have hh := exec_header cx cal hc (.var 0) Expected.callstackTail (Env.ofArgs [.callstack cs]) (.callstack cs)
    cs.timestamp cs.tid (fun env' h => by simp [eval, h, Env.ofArgs]) rfl rfl
  have hm : formatCallstack cx.sh cx.tabs cs =
      "\n".intercalate (headerText cx.sh cx.tabs cs.timestamp cs.tid :: frameLines 0 cs.frames) := by
    simp only [formatCallstack, headerText, ite_self_append]
  simp only [runMethod, Expected.formatCallstack, List.length_cons, List.length_nil, ne_eq, not_true_eq_false, if_false]
  rw [hh, hm]
  obtain ⟨env', h2, he⟩ := forEnumLoop_frames cx cal cs.frames 0
    (((Env.ofArgs [.callstack cs]).set 1 (.str (headerText cx.sh cx.tabs cs.timestamp cs.tid))).set 2
      (.strs [headerText cx.sh cx.tabs cs.timestamp cs.tid])) [headerText cx.sh cx.tabs cs.timestamp cs.tid]
    (by simp [Env.set])
  unfold Expected.callstackTail
  rw [exec_seq_normal (exec_assign (x := .strs [headerText cx.sh cx.tabs cs.timestamp cs.tid]) (by simp [eval, Env.set]))]
  have hfor : exec cx cal (.forEnum 3 4 (.attr (.var 0) .frames) Expected.frameBody)
      (((Env.ofArgs [.callstack cs]).set 1 (.str (headerText cx.sh cx.tabs cs.timestamp cs.tid))).set 2
        (.strs [headerText cx.sh cx.tabs cs.timestamp cs.tid])) = (.normal, env') := by
    rw [exec_forEnum]
    simp [eval, Env.set, Env.ofArgs, getAttr, he]
  rw [exec_seq_normal hfor]
  simp [exec, eval, h2]

/-! ### `_format_kevent` -/

/-- `name` of `_format_kevent` -/
def keventNameText (codes : List (Nat × String)) (e : Kevent) : String :=
  match codes.lookup e.eventid with
  | some n => n ++ (" (" ++ pyHex e.eventid ++ ")")
  | none => pyHex e.eventid

/-- the qualifier column of `_format_kevent` -/
def keventQualText (qe : EnumDef) (e : Kevent) : String :=
  match qe.ofValue e.qual with
  | some m => padRight 15 m.name
  | none => padRight 16 "Error"

theorem formatKevent_eq (sh : Show) (qe : EnumDef) (codes : List (Nat × String)) (t : Tables) (e : Kevent) :
    formatKevent sh qe codes t e =
      (((((("" ++ if sh.timestamp = true then formatTimestamp e.timestamp else "")
        ++ (if sh.name = true then padRight 58 (keventNameText codes e) else ""))
        ++ (if sh.funcQual = true then keventQualText qe e else ""))
        ++ (if sh.tid = true then padRight 12 (pyHex e.tid) else ""))
        ++ (if sh.process = true then padRight 27 (formatProcess t e.tid) else ""))
        ++ (if sh.args = true then padRight 34 (bytesRepr e.data) else "")) := by
  simp only [formatKevent, keventNameText, keventQualText, ite_self_append]
  cases qe.ofValue e.qual <;> cases sh.funcQual <;> simp <;> rfl

theorem exec_keventName (cx : Ctx) (cal : Callees) (codes : List (Nat × String)) (e : Kevent) :
    exec cx cal Expected.keventName (Env.ofArgs [.event e, .codes codes]) =
      (.normal, (Env.ofArgs [.event e, .codes codes]).set 2 (.str (keventNameText codes e))) := by
  cases h : codes.lookup e.eventid <;>
    simp [Expected.keventName, exec, evalCond, eval, evalPieces, truthy, applySpec, getAttr, Env.ofArgs, keventNameText, h,
      String.append_assoc]

theorem exec_keventQual (cx : Ctx) (cal : Callees) (env : Env) (e : Kevent) (cur : String)
    (h0 : env 0 = some (.event e)) :
    exec cx cal Expected.keventQual (env.set 3 (.str cur)) =
      (.normal, env.set 3 (.str (cur ++ if cx.sh.funcQual = true then keventQualText cx.qe e else ""))) := by
  cases hq : cx.sh.funcQual with
  | false => simp [Expected.keventQual, exec, evalCond, eval, truthy, showGet, hq]
  | true =>
    cases ho : cx.qe.ofValue e.qual <;>
      simp [Expected.keventQual, exec, evalCond, eval, evalPieces, truthy, applySpec, getAttr, showGet, hq, Env.set, h0,
        keventQualText, ho]

theorem runMethod_kevent (cx : Ctx) (cal : Callees) (hc : CalleesOk cx cal) (codes : List (Nat × String)) (e : Kevent) :
    runMethod cx cal Expected.formatKevent [.event e, .codes codes] =
      .ok (.str (formatKevent cx.sh cx.qe codes cx.tabs e)) := by
  let env2 : Env := (Env.ofArgs [.event e, .codes codes]).set 2 (.str (keventNameText codes e))
  have g0 : ∀ s, (env2.set 3 (.str s)) 0 = some (.event e) := fun s => by simp [env2, Env.set, Env.ofArgs]
  have g2 : ∀ s, (env2.set 3 (.str s)) 2 = some (.str (keventNameText codes e)) := fun s => by simp [env2, Env.set]
  have e0 : exec cx cal (.assign 3 (.lit "")) env2 = (.normal, env2.set 3 (.str "")) := exec_assign (by simp [eval])
  have e1 := exec_appendIf (cx := cx) (cal := cal) (v := 3) (c := .selfShow .timestamp)
    (e := .callTimestamp (.attr (.var 0) .timestamp)) (env := env2.set 3 (.str "")) (s := formatTimestamp e.timestamp)
    (Env.set_get _ _ _) (evalCond_selfShow _ _ _ _) (fun _ => by simp [eval, g0, getAttr, hc.timestamp])
  have e2 := exec_appendIf (cx := cx) (cal := cal) (v := 3) (c := .selfShow .name)
    (e := .fstr (.fmt (.left 58) (.var 2) .nil))
    (env := env2.set 3 (.str ("" ++ if showGet cx.sh .timestamp = true then formatTimestamp e.timestamp else "")))
    (s := padRight 58 (keventNameText codes e))
    (Env.set_get _ _ _) (evalCond_selfShow _ _ _ _) (fun _ => by simp [eval, evalPieces, g2, applySpec])
  have e3 := fun cur => exec_keventQual cx cal env2 e cur (by simp [env2, Env.set, Env.ofArgs])
  have e4 := fun cur => exec_appendIf (cx := cx) (cal := cal) (v := 3) (c := .selfShow .tid)
    (e := .fstr (.fmt (.left 12) (.hex (.attr (.var 0) .tid)) .nil)) (env := env2.set 3 (.str cur))
    (s := padRight 12 (pyHex e.tid))
    (Env.set_get _ _ _) (evalCond_selfShow _ _ _ _) (fun _ => by simp [eval, evalPieces, g0, getAttr, applySpec])
  have e5 := fun cur => exec_appendIf (cx := cx) (cal := cal) (v := 3) (c := .selfShow .process)
    (e := .fstr (.fmt (.left 27) (.callProcess (.attr (.var 0) .tid)) .nil)) (env := env2.set 3 (.str cur))
    (s := padRight 27 (formatProcess cx.tabs e.tid))
    (Env.set_get _ _ _) (evalCond_selfShow _ _ _ _)
    (fun _ => by simp [eval, evalPieces, g0, getAttr, applySpec, hc.process])
  have e6 := fun cur => exec_appendIf (cx := cx) (cal := cal) (v := 3) (c := .selfShow .args)
    (e := .fstr (.fmt (.left 34) (.str (.attr (.var 0) .data)) .nil)) (env := env2.set 3 (.str cur))
    (s := padRight 34 (bytesRepr e.data))
    (Env.set_get _ _ _) (evalCond_selfShow _ _ _ _)
    (fun _ => by simp [eval, evalPieces, g0, getAttr, applySpec, pyStr])
  simp only [Env.set_set] at e1 e2 e3 e4 e5 e6
  simp only [runMethod, Expected.formatKevent, List.length_cons, List.length_nil, ne_eq, not_true_eq_false, if_false]
  rw [exec_seq_normal (exec_keventName cx cal codes e), exec_seq_normal e0, exec_seq_normal e1, exec_seq_normal e2,
    exec_seq_normal (e3 _), exec_seq_normal (e4 _), exec_seq_normal (e5 _), exec_seq_normal (e6 _), formatKevent_eq]
  simp [exec, eval, showGet]
  rfl

/-! ### `_format_log` -/

/-- `_format_log` never calls `_format_timestamp`: only the answer of `_format_process` matters -/
theorem runMethod_log (cx : Ctx) (cal : Callees)
    (hproc : ∀ tid : Nat, cal.process (.int tid) = .ok (.str (formatProcess cx.tabs tid))) (timeString : String) (l : LogRec) :
    runMethod cx cal Expected.formatLog [.log timeString l] = .ok (.str (formatLog cx.col cx.tabs timeString l)) := by
  have hp := hproc l.threadIdentifier
  cases hcol : cx.col.on <;> by_cases hpr : l.process = "" <;>
    simp [runMethod, Expected.formatLog, Expected.logProcess, exec, evalCond, eval, evalPieces, truthy, pyStr, applySpec,
      getAttr, logTimeFormat, Env.ofArgs, Env.set, formatLog, hcol, hpr, hp, String.append_assoc]

/-! ### the expected program -/

theorem runTimestamp_expected (cx : Ctx) (ts : Nat) :
    runTimestamp Expected.prog cx ts = if cx.time.anyNone then .ok (formatTimestamp ts) else .error .unmodelled := by
  show asStr (runMethod cx Callees.none Expected.formatTimestamp [.int ts]) = _
  rw [runMethod_timestamp]; cases cx.time.anyNone <;> rfl

theorem runProcess_expected (cx : Ctx) (tid : Nat) : runProcess Expected.prog cx tid = .ok (formatProcess cx.tabs tid) := by
  show asStr (runMethod cx Callees.none Expected.formatProcess [.int tid]) = _
  rw [runMethod_process]; rfl

theorem runKevent_expected (cx : Ctx) (h : cx.time.anyNone = true) (codes : List (Nat × String)) (e : Kevent) :
    runKevent Expected.prog cx codes e = .ok (formatKevent cx.sh cx.qe codes cx.tabs e) := by
  show asStr (runMethod cx (Expected.prog.callees cx) Expected.formatKevent [.event e, .codes codes]) = _
  rw [runMethod_kevent _ _ (callees_expected cx h)]; rfl

theorem runTrace_expected (cx : Ctx) (h : cx.time.anyNone = true) (tr : TraceRec) :
    runTrace Expected.prog cx tr = .ok (formatTrace cx.sh cx.col cx.tabs tr) := by
  show asStr (runMethod cx (Expected.prog.callees cx) Expected.formatTrace [.trace tr]) = _
  rw [runMethod_trace _ _ (callees_expected cx h)]; rfl

theorem runCallstack_expected (cx : Ctx) (h : cx.time.anyNone = true) (cs : Callstack) :
    runCallstack Expected.prog cx cs = .ok (formatCallstack cx.sh cx.tabs cs) := by
  show asStr (runMethod cx (Expected.prog.callees cx) Expected.formatCallstack [.callstack cs]) = _
  rw [runMethod_callstack _ _ (callees_expected cx h)]; rfl

theorem runLog_expected (cx : Ctx) (timeString : String) (l : LogRec) :
    runLog Expected.prog cx timeString l = .ok (formatLog cx.col cx.tabs timeString l) := by
  show asStr (runMethod cx (Expected.prog.callees cx) Expected.formatLog [.log timeString l]) = _
  rw [runMethod_log _ _ (fun tid => runMethod_process cx Callees.none tid)]; rfl

end KdVerif.PyIRFm
