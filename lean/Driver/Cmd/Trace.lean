import Driver.Util
import KdVerif.Model.Trace
import KdVerif.Model.TraceWrites
import KdVerif.Model.TraceDomain
import KdVerif.Model.Declared
import KdVerif.Gen.Decoders
import KdVerif.Gen.Host
open KdVerif KdVerif.IR KdVerif.Trace
namespace Driver.Trace

def strictUtf8 (bs : Bytes) : Except PyErr String :=
  match String.fromUTF8? (ByteArray.mk (bs.map UInt8.ofNat).toArray) with
  | some s => .ok s
  | none => .error .unicodeError

def parseCodes (s : String) : Option (List (Nat × String)) :=
  if s = "-" then some [] else (s.splitOn ";").mapM fun item =>
    match item.splitOn ":" with
    | [k, v] => do let k ← k.toNat?; let v ← stringOfHex v; pure (k, v)
    | _ => none

def mkEnv (codes : List (Nat × String)) : Env :=
  { codes := fun k => List.lookup k codes, host := Gen.Host.host, tables := Gen.Decoders.tables,
    decoders := Gen.Decoders.decoders, dec := strictUtf8 }

def dedup {α : Type} (d : Dict α) : List (Nat × α) :=
  let keys := (d.map (·.1)).eraseDups
  let sorted := keys.toArray.qsort (· < ·) |>.toList
  sorted.filterMap fun k => (d.get k).map fun v => (k, v)

def showNatDict (d : Dict Nat) : String :=
  let l := dedup d
  if l.isEmpty then "-" else ",".intercalate (l.map fun (k, v) => s!"{k}:{v}")

def showStrDict (d : Dict String) : String :=
  let l := dedup d
  if l.isEmpty then "-" else ",".intercalate (l.map fun (k, v) => s!"{k}:{hexOfString v}")

def showExtra : Extra → String
  | .none => "-"
  | .vmfault r ft pid prot =>
    s!"vmfault:{r}:{ft.getD "None"}:{match pid with | some p => toString p | none => "None"}:{match prot with | some l => "+".intercalate l | none => "None"}"
  | .launch imgs => "launch:" ++ "+".intercalate (imgs.map fun (a, u) => s!"{a}={toHex u}")
  | .perf th fr fl =>
    s!"perf:{match th with | some (p, t) => s!"{p}/{t}" | none => "None"}:{match fr with | some l => "[" ++ natListC l ++ "]" | none => "None"}:{match fl with | some l => "[" ++ "+".intercalate l ++ "]" | none => "None"}"

def showTrace (t : TraceOut) : String :=
  let txt := match t.text with
    | .ok s => hexOfString s
    | .error e => "!" ++ e.name
  s!"{t.name}|{natListC (t.events.map (·.timestamp))}|{txt}|{showExtra t.extra}"

/-- `traces <codes> <record hex>…` -/
def cmdTraces : Cmd
  | codes :: recs =>
    match parseCodes codes, parseRecs recs with
    | some cs, some es =>
      let env := mkEnv cs
      let (outs, err, sf) := run env { pairing := Pairing.PState.empty, tabs := {} } es
      let e := match err with | some x => x.name | none => "-"
      let t := sf.tabs
      "ok " ++ (if outs.isEmpty then "-" else " ".intercalate (outs.map showTrace)) ++ s!" ;err={e} ;tp={showNatDict t.threadsPids} ;pn={showStrDict t.pidsNames} ;tn={showStrDict t.tidsNames} ;gs={showStrDict t.globalStrings}"
    | _, _ => "bad-op"
  | _ => "bad-op"

/-- `tracesw <codes> <record hex>…` : the answer of `traces` followed by the `pids_names` assignments of the run,
    each tagged with the thread whose event caused it (`Model/TraceWrites.taught ∘ tableWrites`, C05). -/
def cmdTracesW : Cmd
  | codes :: recs =>
    match parseCodes codes, parseRecs recs with
    | some cs, some es =>
      let env := mkEnv cs
      let tw := taught (tableWrites env { pairing := Pairing.PState.empty, tabs := {} } es)
      let w := if tw.isEmpty then "-" else ",".intercalate (tw.map fun (t, k, v) => s!"{t}:{k}:{hexOfString v}")
      cmdTraces (codes :: recs) ++ s!" ;tw={w}"
    | _, _ => "bad-op"
  | _ => "bad-op"

/-- Thread map entries `tid:pid:namehex;…` in file order (`-` = empty map). -/
def parseThreadMap (s : String) : Option Declared.ThreadMap :=
  if s = "-" then some [] else (s.splitOn ";").mapM fun e =>
    match e.splitOn ":" with
    | [tid, pid, name] => do
      let tid ← tid.toNat?
      let pid ← pid.toNat?
      let name ← stringOfHex name
      pure (tid, pid, name)
    | _ => none

/-- `fmtp <codes> <thread map> <record hex>…` : for every trace `formatted_traces` yields, the timestamp of its
    first record, its thread and the process text computed from the tables as they are when it is yielded
    (`Model/Declared.traceProcessColumns`, C14). -/
def cmdFmtP : Cmd
  | codes :: tmap :: recs =>
    match parseCodes codes, parseThreadMap tmap, parseRecs recs with
    | some cs, some tm, some es =>
      let env := mkEnv cs
      let cols := Declared.traceProcessColumns env tm es
      let err := (run env { pairing := Pairing.PState.empty, tabs := Declared.mapTabs tm } es).2.1
      let e := match err with | some x => x.name | none => "-"
      "ok " ++ (if cols.isEmpty then "-" else " ".intercalate (cols.map fun (ts, tid, p) => s!"{ts}:{tid}:{hexOfString p}"))
        ++ s!" ;err={e}"
    | _, _, _ => "bad-op"
  | _ => "bad-op"

/-- `indomain <codes> <record hex>`: C07's `wordsOK` of one record (four words + the own-field side conditions
    of the decoder registered for its code, in the roles its qualifier allows), and its text payload. -/
def cmdInDomain : Cmd
  | [codes, r] =>
    match parseCodes codes, parseRecs [r] with
    | some cs, some [e] =>
      let env := mkEnv cs
      s!"ok {if wordsOK env e then 1 else 0} {let p := toHex (payload env e); if p = "" then "-" else p}"
    | _, _ => "bad-op"
  | _ => "bad-op"

def commands : List (String × Cmd) :=
  [("traces", cmdTraces), ("tracesw", cmdTracesW), ("fmtp", cmdFmtP), ("indomain", cmdInDomain)]

end Driver.Trace
