import KdVerif.Model.Trace
import KdVerif.Gen.Decoders
/-
  Lemmas for C20 (composite traces): the stable insertion sort of the launch trace, the dispatch of
  `handleWith` on the composite names, independence of the recursion fuel of `parseFuel`, and the evaluation of the
  generated `RealFaultAddress*` decoders (their IR is compared syntactically with `realFaultFields` in the kernel,
  so a change to `handle_real_fault_address` in the repository invalidates these lemmas).
-/
namespace KdVerif.Composite
open KdVerif KdVerif.IR KdVerif.Trace

/-! ### `sorted(key=load_addr)` -/

theorem insertStable_perm (x : Nat × Bytes) (l : List (Nat × Bytes)) : (insertStable x l).Perm (x :: l) := by
  induction l with
  | nil => exact List.Perm.refl _
  | cons y ys ih =>
    unfold insertStable
    split
    · exact List.Perm.refl _
    · exact (List.Perm.cons y ih).trans (List.Perm.swap x y ys)

theorem sortStable_perm (l : List (Nat × Bytes)) : (sortStable l).Perm l := by
  induction l with
  | nil => exact List.Perm.refl _
  | cons x xs ih =>
    show (insertStable x (sortStable xs)).Perm (x :: xs)
    exact (insertStable_perm x _).trans (List.Perm.cons x ih)

theorem insertStable_sorted (x : Nat × Bytes) (l : List (Nat × Bytes)) (h : l.Pairwise (fun a b => a.1 ≤ b.1)) :
    (insertStable x l).Pairwise (fun a b => a.1 ≤ b.1) := by
  induction l with
  | nil => simp [insertStable]
  | cons y ys ih =>
    unfold insertStable
    have hy := List.pairwise_cons.mp h
    split
    · rename_i hxy
      refine List.pairwise_cons.mpr ⟨?_, h⟩
      intro z hz
      rcases List.mem_cons.mp hz with rfl | hz
      · exact hxy
      · exact Nat.le_trans hxy (hy.1 z hz)
    · rename_i hxy
      refine List.pairwise_cons.mpr ⟨?_, ih hy.2⟩
      intro z hz
      have hz' : z ∈ x :: ys := (insertStable_perm x ys).subset hz
      rcases List.mem_cons.mp hz' with rfl | hz'
      · omega
      · exact hy.1 z hz'

theorem sortStable_sorted (l : List (Nat × Bytes)) : (sortStable l).Pairwise (fun a b => a.1 ≤ b.1) := by
  induction l with
  | nil => simp [sortStable]
  | cons x xs ih => exact insertStable_sorted x _ ih

theorem insertStable_filter (a : Nat) (x : Nat × Bytes) (l : List (Nat × Bytes)) :
    (insertStable x l).filter (fun e => e.1 == a) = (x :: l).filter (fun e => e.1 == a) := by
  induction l with
  | nil => rfl
  | cons y ys ih =>
    unfold insertStable
    split
    · rfl
    · rename_i hxy
      by_cases hya : y.1 = a
      · have hxa : ¬ x.1 = a := by omega
        simp [hya, hxa] at ih ⊢
        exact ih
      · simp [List.filter_cons, hya] at ih ⊢
        exact ih

/-- Stability: the records with one load address come out in the order they went in. -/
theorem sortStable_filter (a : Nat) (l : List (Nat × Bytes)) :
    (sortStable l).filter (fun e => e.1 == a) = l.filter (fun e => e.1 == a) := by
  induction l with
  | nil => rfl
  | cons x xs ih =>
    show (insertStable x (sortStable xs)).filter _ = _
    rw [insertStable_filter, List.filter_cons, List.filter_cons, ih]

/-! ### dispatch -/

theorem handleWith_vmfault (nested : Tabs → List Kevent → HRes) (env : Env) (t : Tabs) (events : List Kevent) :
    handleWith nested env t "MACH_vmfault" events = hMachVmfault nested env t events := by
  simp [handleWith]

theorem handleWith_launch (nested : Tabs → List Kevent → HRes) (env : Env) (t : Tabs) (events : List Kevent) :
    handleWith nested env t "DBG_DYLD_TIMING_LAUNCH_EXECUTABLE" events = hDyldLaunch env t events := by
  simp [handleWith]

theorem handleWith_perf (nested : Tabs → List Kevent → HRes) (env : Env) (t : Tabs) (events : List Kevent) :
    handleWith nested env t "PERF_Event" events = hPerfEvent env t events := by
  simp [handleWith]

theorem handleWith_generated (nested : Tabs → List Kevent → HRes) (env : Env) (t : Tabs) (events : List Kevent)
    (n : String) (hn : n ∈ realFaultClasses) :
    handleWith nested env t n events =
      match findDecoder env n with
      | some d =>
        if !d.supported then .error .unmodelled else do
        let (fs, text) ← runGeneratedObj env t d events
        pure (some { name := n, events := events, text := text, obj := some (d.cls, fs) }, t)
      | none => .ok (none, t) := by
  simp only [realFaultClasses, List.mem_cons, List.not_mem_nil, or_false] at hn
  rcases hn with rfl | rfl | rfl <;> rfl

/-! ### the recursion fuel is never exhausted -/

theorem realEvents_length (events : List Kevent) : (realEvents events).length + 2 ≤ events.length ∨ realEvents events = [] := by
  unfold realEvents
  by_cases h : 2 ≤ events.length
  · left
    have := List.length_filter_le (fun x => decide (0x1320008 ≤ x.eventid ∧ x.eventid ≤ 0x1320014)) ((events.drop 1).dropLast)
    simp only [List.length_dropLast, List.length_drop] at this
    omega
  · right
    have : (events.drop 1).dropLast = [] := by
      apply List.eq_nil_of_length_eq_zero
      simp only [List.length_dropLast, List.length_drop]; omega
    rw [this]; rfl

theorem hMachVmfault_congr (n₁ n₂ : Tabs → List Kevent → HRes) (env : Env) (t : Tabs) (events : List Kevent)
    (h : realEvents events ≠ [] → n₁ t (realEvents events) = n₂ t (realEvents events)) :
    hMachVmfault n₁ env t events = hMachVmfault n₂ env t events := by
  unfold hMachVmfault vmfaultCore
  by_cases he : realEvents events = []
  · simp [he]
  · simp only [h he]

theorem handleWith_congr (n₁ n₂ : Tabs → List Kevent → HRes) (env : Env) (t : Tabs) (name : String) (events : List Kevent)
    (h : realEvents events ≠ [] → n₁ t (realEvents events) = n₂ t (realEvents events)) :
    handleWith n₁ env t name events = handleWith n₂ env t name events := by
  unfold handleWith
  split <;> first | rfl | exact hMachVmfault_congr n₁ n₂ env t events h

theorem parseEventListWith_congr (n₁ n₂ : Tabs → List Kevent → HRes) (env : Env) (t : Tabs) (events : List Kevent)
    (h : realEvents events ≠ [] → n₁ t (realEvents events) = n₂ t (realEvents events)) :
    parseEventListWith n₁ env t events = parseEventListWith n₂ env t events := by
  unfold parseEventListWith
  split
  · rfl
  · split
    · rfl
    · split
      · exact handleWith_congr n₁ n₂ env t _ _ h
      · rfl

/-- More fuel than records: the answer does not depend on the fuel. -/
theorem parseFuel_stable (env : Env) : ∀ (n m : Nat) (t : Tabs) (events : List Kevent),
    events.length < n → events.length < m → parseFuel n env t events = parseFuel m env t events := by
  intro n
  induction n with
  | zero => intro m t events h; omega
  | succ n ih =>
    intro m t events hn hm
    match m, hm with
    | m + 1, hm =>
      show parseEventListWith (parseFuel n env) env t events = parseEventListWith (parseFuel m env) env t events
      apply parseEventListWith_congr
      intro hne
      rcases realEvents_length events with hl | hl
      · exact ih m t _ (by omega) (by omega)
      · exact absurd hl hne

/-- `parse_event_list` satisfies its recursive definition (the fuel is invisible). -/
theorem parseEventList_unfold (env : Env) (t : Tabs) (events : List Kevent) :
    parseEventList env t events = parseEventListWith (parseEventList env) env t events := by
  show parseEventListWith (parseFuel events.length env) env t events = _
  apply parseEventListWith_congr
  intro hne
  rcases realEvents_length events with hl | hl
  · exact parseFuel_stable env _ _ t _ (by omega) (by omega)
  · exact absurd hl hne

theorem handle_unfold (env : Env) (t : Tabs) (name : String) (events : List Kevent) :
    handle env t name events = handleWith (parseEventList env) env t name events := by
  show handleWith (parseFuel events.length env) env t name events = _
  apply handleWith_congr
  intro hne
  rcases realEvents_length events with hl | hl
  · exact parseFuel_stable env _ _ t _ (by omega) (by omega)
  · exact absurd hl hne

/-! ### the generated tables -/

/-- The environment uses the tables regenerated from the repository (code table, host tables and text decoder
    stay arbitrary). -/
structure StdEnv (env : Env) : Prop where
  tables : env.tables = Gen.Decoders.tables
  decoders : env.decoders = Gen.Decoders.decoders

/-- `handle_real_fault_address`: `addr_type(events, args[0], args[1] >> 16, to_vm_prot((args[1] >> 8) & 0xff),
    DbgVmFaultType(args[1] & 0xff), args[2], args[3])`, as the translator renders it. -/
def realFaultFields : List Expr :=
  [(.startArg 0), (.shr (.startArg 1) (.int 16)),
   (.ite (.band (.shr (.startArg 1) (.int 8)) (.int 255))
     (.flagsOf 42 (.band (.shr (.startArg 1) (.int 8)) (.int 255))) (.singleton (.memberConst 42 0))),
   (.enumOf 6 (.band (.startArg 1) (.int 255))), (.startArg 2), (.startArg 3)]

def isRealFaultDecoder (cls : String) (d : Decoder) : Bool :=
  d.cls == cls && d.supported && d.fields == realFaultFields

/-- Kernel-checked against the regenerated decoder table: the three names are registered, each builds the dataclass
    of its own name with exactly the constructor arguments above. -/
theorem realFault_decoders_ok :
    ∀ n ∈ realFaultClasses, ((Gen.Decoders.decoders.find? (·.name == n)).map (isRealFaultDecoder n)) = some true := by
  decide +kernel

theorem findDecoder_realFault {env : Env} (h : StdEnv env) {n : String} (hn : n ∈ realFaultClasses) :
    ∃ d, findDecoder env n = some d ∧ d.cls = n ∧ d.supported = true ∧ d.fields = realFaultFields := by
  have := realFault_decoders_ok n hn
  unfold findDecoder
  rw [h.decoders]
  cases hf : Gen.Decoders.decoders.find? (·.name == n) with
  | none => rw [hf] at this; cases this
  | some d =>
    rw [hf] at this
    simp only [Option.map_some, Option.some.injEq, isRealFaultDecoder, Bool.and_eq_true, beq_iff_eq] at this
    exact ⟨d, rfl, this.1.1, this.1.2, this.2⟩

theorem enums_vmProt : Gen.Decoders.tables.enums[42]? = some Gen.Enums.VmProtection := by rfl
theorem enums_faultType : Gen.Decoders.tables.enums[6]? = some Gen.Enums.DbgVmFaultType := by rfl

theorem find_faultType : Gen.Decoders.tables.enums.find? (·.name == "DbgVmFaultType") = some Gen.Enums.DbgVmFaultType := by
  rfl
theorem find_vmProt : Gen.Decoders.tables.enums.find? (·.name == "VmProtection") = some Gen.Enums.VmProtection := by
  rfl
theorem find_sampler : Gen.Decoders.tables.enums.find? (·.name == "SamplerAction") = some Gen.Enums.SamplerAction := by
  rfl
theorem find_callstack : Gen.Decoders.tables.enums.find? (·.name == "CallstackFlag") = some Gen.Enums.CallstackFlag := by
  rfl

theorem usesLookups_realFault (d : Decoder) (h : d.fields = realFaultFields) : usesLookups d = false := by
  unfold usesLookups; rw [h]; decide

/-! ### evaluation of the `RealFaultAddress*` constructor arguments -/

/-- `to_vm_prot`. -/
def vmProtMembers (x : Nat) : List EnumMember :=
  if x = 0 then [⟨"VM_PROT_NONE", 0⟩] else Gen.Enums.VmProtection.flagsOf x

theorem shr_cast (a k : Nat) : ((a : Int) / (2 ^ k : Int)) = ((a >>> k : Nat) : Int) := by
  rw [Nat.shiftRight_eq_div_pow]; norm_cast

theorem eval_shr_nat (c : Ctx) (a : Expr) (n k : Nat) (h : eval c a = .ok (.int n)) :
    eval c (.shr a (.int k)) = .ok (.int ((n >>> k : Nat) : Int)) := by
  simp only [eval, h, asNat, bind, Except.bind, pure, Except.pure]
  have : ¬ ((k : Int) < 0) := by omega
  simp only [this, if_false, Int.toNat_natCast, shr_cast]

theorem eval_band_nat (c : Ctx) (a : Expr) (n m : Nat) (h : eval c a = .ok (.int n)) :
    eval c (.band a (.int m)) = .ok (.int ((n &&& m : Nat) : Int)) := by
  simp only [eval, h, asNat, bind, Except.bind, pure, Except.pure, bitAnd]
  have : (0 : Int) ≤ n ∧ (0 : Int) ≤ m := by omega
  simp only [this, and_self, if_true, Int.toNat_natCast]

theorem eval_toVmProt (c : Ctx) (h42 : c.tables.enums[42]? = some Gen.Enums.VmProtection) (x : Expr) (n : Nat)
    (hx : eval c x = .ok (.int n)) :
    eval c (.ite x (.flagsOf 42 x) (.singleton (.memberConst 42 0))) = .ok (.members (vmProtMembers n)) := by
  have hs : eval c (.singleton (.memberConst 42 0)) = .ok (.members [⟨"VM_PROT_NONE", 0⟩]) := by
    simp only [eval, h42, bind, Except.bind, pure, Except.pure]; rfl
  have hf : eval c (.flagsOf 42 x) = .ok (.members (Gen.Enums.VmProtection.flagsOf n)) := by
    simp [eval, hx, h42, asNat, bind, Except.bind, pure, Except.pure]
  rw [eval]
  simp only [hx, hs, hf, bind, Except.bind, truthy, vmProtMembers]
  by_cases hz : n = 0 <;> simp [hz]

theorem eval_faultType (c : Ctx) (h6 : c.tables.enums[6]? = some Gen.Enums.DbgVmFaultType) (x : Expr) (n : Nat)
    (hx : eval c x = .ok (.int n)) :
    eval c (.enumOf 6 x) = match Gen.Enums.DbgVmFaultType.ofValue (n : Int) with
      | some m => .ok (.member "DbgVmFaultType" m)
      | none => .error .valueError := by
  simp only [eval, hx, h6, asNat, bind, Except.bind, pure, Except.pure]
  cases Gen.Enums.DbgVmFaultType.ofValue (n : Int) <;> rfl

theorem evalFields_realFault (c : Ctx) (h42 : c.tables.enums[42]? = some Gen.Enums.VmProtection)
    (h6 : c.tables.enums[6]? = some Gen.Enums.DbgVmFaultType) (a0 a1 a2 a3 : Nat)
    (hw : c.win.startArgs = [a0, a1, a2, a3]) :
    evalFields c realFaultFields =
      match Gen.Enums.DbgVmFaultType.ofValue ((a1 &&& 255 : Nat) : Int) with
      | some m => .ok [.int a0, .int ((a1 >>> 16 : Nat) : Int), .members (vmProtMembers ((a1 >>> 8) &&& 255)),
                       .member "DbgVmFaultType" m, .int a2, .int a3]
      | none => .error .valueError := by
  have e0 : eval c (.startArg 0) = .ok (.int a0) := by simp [eval, hw]
  have e1 : eval c (.startArg 1) = .ok (.int a1) := by simp [eval, hw]
  have e2 : eval c (.startArg 2) = .ok (.int a2) := by simp [eval, hw]
  have e3 : eval c (.startArg 3) = .ok (.int a3) := by simp [eval, hw]
  have eu : eval c (.shr (.startArg 1) (.int 16)) = .ok (.int ((a1 >>> 16 : Nat) : Int)) := eval_shr_nat c _ a1 16 e1
  have ep : eval c (.band (.shr (.startArg 1) (.int 8)) (.int 255)) = .ok (.int ((a1 >>> 8 &&& 255 : Nat) : Int)) :=
    eval_band_nat c _ _ 255 (eval_shr_nat c _ a1 8 e1)
  have ef : eval c (.band (.startArg 1) (.int 255)) = .ok (.int ((a1 &&& 255 : Nat) : Int)) := eval_band_nat c _ _ 255 e1
  have eprot := eval_toVmProt c h42 _ _ ep
  have etype := eval_faultType c h6 _ _ ef
  simp only [realFaultFields, evalFields, e0, eu, eprot, etype, e2, e3, bind, Except.bind, pure, Except.pure]
  cases Gen.Enums.DbgVmFaultType.ofValue ((a1 &&& 255 : Nat) : Int) <;> rfl

/-- The object a `RealFaultAddress*` handler returns for the record list `r :: rest` (it reads `r` only). -/
theorem parse_realFault {env : Env} (h : StdEnv env) (nested : Tabs → List Kevent → HRes) (t : Tabs)
    (r : Kevent) (rest : List Kevent) (n : String) (hn : n ∈ realFaultClasses) (hc : env.codes r.eventid = some n)
    (a0 a1 a2 a3 : Nat) (hv : r.values = [a0, a1, a2, a3]) :
    match Gen.Enums.DbgVmFaultType.ofValue ((a1 &&& 255 : Nat) : Int) with
    | none => parseEventListWith nested env t (r :: rest) = .error .valueError
    | some m => ∃ text, parseEventListWith nested env t (r :: rest) =
        .ok (some { name := n, events := r :: rest, text := text,
                    obj := some (n, [.int a0, .int ((a1 >>> 16 : Nat) : Int),
                                     .members (vmProtMembers ((a1 >>> 8) &&& 255)),
                                     .member "DbgVmFaultType" m, .int a2, .int a3]) }, t) := by
  obtain ⟨d, hd, hcls, hsup, hfields⟩ := findDecoder_realFault h hn
  have hhandled : isHandled env n = true := by simp [isHandled, hd]
  have hp : parseEventListWith nested env t (r :: rest) = handleWith nested env t n (r :: rest) := by
    simp [parseEventListWith, hc, hhandled]
  rw [hp, handleWith_generated nested env t _ n hn, hd]
  simp only [hsup, Bool.not_true, Bool.false_eq_true, if_false]
  have hwin : mkWindow env t (r :: rest) (usesLookups d) =
      .ok { startArgs := r.values, endArgs := ((r :: rest).getLast?.getD default).values, startTid := r.tid,
            startData := r.data, lookups := [], restFirst := none,
            globalStrings := t.globalStrings.get, threadsPids := t.threadsPids.get, tidsNames := t.tidsNames.get } := by
    rw [usesLookups_realFault d hfields]
    simp [mkWindow, bind, Except.bind, pure, Except.pure]
  have hev := evalFields_realFault
    { host := env.host, tables := env.tables,
      win := { startArgs := r.values, endArgs := ((r :: rest).getLast?.getD default).values, startTid := r.tid,
               startData := r.data, lookups := [], restFirst := none,
               globalStrings := t.globalStrings.get, threadsPids := t.threadsPids.get, tidsNames := t.tidsNames.get } }
    (by rw [h.tables]; exact enums_vmProt) (by rw [h.tables]; exact enums_faultType) a0 a1 a2 a3 hv
  unfold runGeneratedObj
  rw [hwin]
  simp only [bind, Except.bind, hfields, hev]
  cases Gen.Enums.DbgVmFaultType.ofValue ((a1 &&& 255 : Nat) : Int) with
  | none => rfl
  | some m => subst hcls; exact ⟨_, rfl⟩

/-! ### small list / enum facts -/

theorem filter_of_find?_none {α : Type} (p : α → Bool) (l : List α) (h : l.find? p = none) : l.filter p = [] := by
  induction l with
  | nil => rfl
  | cons x xs ih =>
    rw [List.find?_cons] at h
    cases hp : p x with
    | true => rw [hp] at h; cases h
    | false => rw [hp] at h; rw [List.filter_cons, hp]; exact ih h

theorem filter_of_find?_some {α : Type} (p : α → Bool) (l : List α) (r : α) (h : l.find? p = some r) :
    ∃ rest, l.filter p = r :: rest := by
  induction l with
  | nil => cases h
  | cons x xs ih =>
    rw [List.find?_cons] at h
    cases hp : p x with
    | true =>
      rw [hp] at h
      cases h
      exact ⟨xs.filter p, by rw [List.filter_cons, hp]; rfl⟩
    | false => rw [hp] at h; rw [List.filter_cons, hp]; exact ih h

theorem mapM_ok {α β : Type} (f : α → Except PyErr β) (g : α → β) (l : List α) (h : ∀ e ∈ l, f e = .ok (g e)) :
    l.mapM f = .ok (l.map g) := by
  induction l with
  | nil => rfl
  | cons x xs ih =>
    rw [List.mapM_cons, h x List.mem_cons_self, ih (fun e he => h e (List.mem_cons_of_mem _ he))]
    rfl

theorem uuidBytes_ok (e : Kevent) (h : 16 ≤ e.data.length) : uuidBytes e = .ok (e.data.take 16) := by
  simp only [uuidBytes, List.length_take]
  rw [if_pos (by omega)]

theorem inj_of_nodup_map {α β : Type} (f : α → β) : ∀ (l : List α), (l.map f).Nodup → ∀ a ∈ l, ∀ b ∈ l, f a = f b → a = b := by
  intro l
  induction l with
  | nil => intro _ a ha; cases ha
  | cons x xs ih =>
    intro hnd a ha b hb hab
    rw [List.map_cons, List.nodup_cons] at hnd
    rcases List.mem_cons.mp ha with ha' | ha' <;> rcases List.mem_cons.mp hb with hb' | hb'
    · rw [ha', hb']
    · subst ha'; exact absurd (hab ▸ List.mem_map_of_mem hb') hnd.1
    · subst hb'; exact absurd (hab.symm ▸ List.mem_map_of_mem ha') hnd.1
    · exact ih hnd.2 a ha' b hb' hab

/-- Membership of a flag name in `[m.name for m in E if m.value & x]` is the bit test of that member, for any enum
    whose iterated members have distinct names. -/
theorem contains_flag_name (d : EnumDef) (m : EnumMember) (hm : m ∈ d.iter) (hnd : (d.iter.map (·.name)).Nodup)
    (hv : 0 ≤ m.value) (x : Nat) :
    ((d.flagsOf x).map (·.name)).contains m.name = decide (m.value.toNat &&& x ≠ 0) := by
  rw [Bool.eq_iff_iff]
  simp only [List.contains_iff_mem, List.mem_map, EnumDef.flagsOf, List.mem_filter, decide_eq_true_eq]
  constructor
  · rintro ⟨m', ⟨hm', hp⟩, hname⟩
    have : m' = m := inj_of_nodup_map (·.name) d.iter hnd m' hm' m hm hname
    subst this
    exact hp.1
  · intro hp
    exact ⟨m, ⟨hm, hp, hv⟩, rfl⟩

end KdVerif.Composite
