"""C07 — missing or unexpected context never aborts the trace stream."""
import json

from .. import core
from .. import decoders as D
from .. import pipeline as P
from ..pipeline import NONE, START, END, ALL, Stream

from pykdebugparser.kevent import from_kd_buf
from pykdebugparser.traces_parser import TracesParser

MODULE = 'KdVerif.Props.C07'
NAMESPACE = 'KdVerif.C07'
TRUSTED = ['tools/gen_decoders.py: symbolic evaluator of the handler/__str__ Python subset -> IR (validated by the '
           'correspondence sections `pipeline`, `context-drop`, `indomain` on every translated decoder)',
           'IR.eval / IR.render (lean/KdVerif/Model/IR.lean) as the meaning of the IR',
           'Model/Trace.lean: hand model of TracesParser + the 15 stateful/composite handlers, tied by `pipeline` and '
           '`context-drop`; bytes.decode() is the parameter Env.dec (strict UTF-8 in the driver)',
           'Model/IRTyping.lean: the checker is NOT trusted (its soundness is the theorem wt_sound); the side conditions it '
           'collects are the definition of "in-domain word", compared with the real code by section `indomain`']
ASSUMPTIONS = ['every record carries four argument words and 32 data bytes (C01)',
               'in-domain = the own-field side conditions of the decoder registered for the record\'s code hold on the '
               'record alone (enum-valued words are members, ioctl direction bits are a key of IOC_REQUEST_PARAMS, chr() '
               'arguments are code points, host-enum words are known to the host)',
               'strings are valid text: (no_abort_reassembled) the byte strings each handler reassembles decode; or '
               '(no_abort) the text bytes of every string record lie in an alphabet on which bytes.decode is total (ASCII)',
               'code table: ids 0x1320008..0x1320014 name RealFaultAddress* records or nothing decodable (true of the '
               'bundled trace.codes)',
               'TRACE_STRING_GLOBAL with undecodable bytes (errors=backslashreplace, never raises) is outside the model']
LEVEL_TEXT = ('Lean theorems: a type discipline for the decoder IR with a soundness theorem proved once by structural '
              'induction (a well-typed expression evaluates whenever its own-field side conditions hold, whatever the lookups '
              'and context tables); kernel-checked on every run that all 454 translated decoders are well typed with no lookup '
              'assumed and that every side condition reads one record\'s own words; one totality lemma per hand-written '
              'handler; pairing invariant; induction over ALL histories (no_abort_reassembled, no_abort, no_abort_fresh).  '
              'Model tied to the real TracesParser by differential runs on complete scenarios over every registered handler '
              'with every prefix / nested record dropped, records duplicated, windows nested and interleaved.')
LEVEL_NOTE = ('Trusted: Lean kernel, the AST translator and the hand model of the 15 stateful handlers (validated '
              'differentially, not proved).  Explicit guards in the theorems: vmfaultCodesOK (custom code tables), text '
              'validity of the reassembled strings (a dropped chunk can split a multi-byte character; per-record form: text '
              'bytes in an alphabet on which bytes.decode is total).  The ioctl direction bits are an own-field condition (the '
              'property\'s own exclusion).')
TECHNIQUE = ('Lean 4 proof: IR type system + soundness by structural induction, reflective decide over the regenerated decoder '
             'table, per-handler totality lemmas, induction over histories; differential correspondence with context dropping')

TID = 5
STRING_SINGLE = ('TRACE_STRING_NEWTHREAD', 'TRACE_STRING_EXEC', 'TRACE_STRING_PROC_EXIT')
STRING_NAME = ('TRACE_STRING_THREADNAME', 'TRACE_STRING_THREADNAME_PREV')


# ---------------------------------------------------------------------------------------------------------
# the oracle: the property stated directly on the real code, independent of the Lean model

def run_real(case):
    """Feed the case to the real TracesParser; returns None or (handler name, exception name, where)."""
    codes = {int(k): v for k, v in case['codes'].items()}
    parser = TracesParser(codes, {}, {})
    events = [from_kd_buf(bytes.fromhex(h)) for h in case['events']]
    cur = [None, -1]

    def gen():
        for i, e in enumerate(events):
            cur[0], cur[1] = e, i
            yield e
    try:
        for t in parser.feed_generator(gen()):
            try:
                str(t)
            except Exception as ex:  # noqa: BLE001
                return codes.get(t.ktraces[0].eventid, '?'), core.err_name(ex), 'str() of the trace delivered at event %d' % cur[1]
    except Exception as ex:  # noqa: BLE001
        return codes.get(cur[0].eventid, '?'), core.err_name(ex), 'feed_generator at event %d' % cur[1]
    return None


def payload_ascii(case):
    """Text bytes of every string-carrying record are ASCII (the per-record text hypothesis, computed on the input)."""
    codes = {int(k): v for k, v in case['codes'].items()}
    for h in case['events']:
        r = bytes.fromhex(h)
        dbg = int.from_bytes(r[48:52], 'little')
        name = codes.get(dbg & 0xfffffffc)
        data = r[8:40]
        if name == 'VFS_LOOKUP':
            p = data[8:] if dbg & 1 else data
        elif name == 'TRACE_STRING_GLOBAL':
            p = data[16:] if dbg & 1 else data
        elif name in STRING_SINGLE or name in STRING_NAME:
            p = data
        else:
            continue
        if any(b >= 128 for b in p):
            return False
    return True


def make_oracle(suffix='', need_ascii=False):
    def oracle(case, got):
        if need_ascii and not payload_ascii(case):
            return None                      # a dropped chunk may have split a multi-byte character: not in-domain
        r = run_real(case)
        if r is None:
            return None
        name, exc, where = r
        return ('abort:%s:%s%s' % (name, exc, suffix),
                '%s raised in the handler of %s (%s); history of %d records: %s' % (
                    exc, name, where, len(case['events']), case.get('label', '')))
    return oracle


# ---------------------------------------------------------------------------------------------------------
# in-domain words for every registered handler, found by search on the real handler

_PAIR = {'BSC_ioctl': ([3, 0x20006601, 0x1000, 0], [0, 0, 0, 0])}    # _IO('f', 1): the search does not try direction bits
END_CANDIDATES = ([0, 1, 0, 0], [0, 0, 0, 0], [0, 2, 0, 0], [0, 3, 0, 0], [0, 4, 0, 0], [0, 1, 1, 1])


BASE = [0x1a2b, 0x3c4d, 0x5e6f, 0x7081]
CAND = [7, 1, 2, 3, 4, 0, 5, 6, 8, 9, 10, 11, 12, 16, 17, 0x40, 0x100]
FULL_LOOKUPS = [['/a', 1], ['/b', 2], ['/c', 3], ['/d', 4], ['/e', 5], ['/f', 6]]


def renders_with_full_context(name, start, end):
    """The real handler renders these words when ALL the context it may want is present (six lookups, every START
    word announced as a global string id): in-domain-ness of the words, independent of what context is missing later."""
    c = {'name': name, 'start': start, 'end': end, 'tid': 77, 'lookups': FULL_LOOKUPS,
         'gs': {str(w): 'str%d' % w for w in start}, 'tp': {}, 'tn': {}}
    try:
        return D.impl_fn(c).startswith('ok')
    except Exception:  # noqa: BLE001
        return False


def find_words(name, end):
    start = list(BASE)
    if renders_with_full_context(name, start, end):
        return start
    for k in range(4):
        for v in CAND:
            s2 = list(start)
            s2[k] = v
            if renders_with_full_context(name, s2, end):
                return s2
    for v0 in CAND:
        for v1 in CAND:
            for k0 in range(4):
                for k1 in range(k0 + 1, 4):
                    s2 = list(start)
                    s2[k0], s2[k1] = v0, v1
                    if renders_with_full_context(name, s2, end):
                        return s2
    return None


def good_pair(name):
    """(START words, END words) on which the real handler of `name` renders with full context, or None."""
    if name not in _PAIR:
        res = None
        for end in END_CANDIDATES:
            b = find_words(name, list(end))
            if b is not None:
                res = (b, list(end))
                break
        _PAIR[name] = res
    return _PAIR[name]


# ---------------------------------------------------------------------------------------------------------
# complete scenarios, one per registered handler

def ascii_text(n, seed):
    alphabet = 'abcdefghijklmnopqrstuvwxyz/._-0123456789'
    return ''.join(alphabet[(seed * 7 + i * 11) % len(alphabet)] for i in range(n))


def straddle(first_room, n=70):
    """Text whose two-byte character straddles the boundary after `first_room` bytes (and the next one)."""
    s = ascii_text(first_room - 1, 3) + 'é' + ascii_text(30, 5) + 'é' + ascii_text(max(0, n - first_room - 33), 9)
    return s


def straddle_once(first_room, n=80):
    """One two-byte character across the first chunk boundary, ASCII after it."""
    return ascii_text(first_room - 1, 3) + 'é' + ascii_text(n - first_room, 5)


def base_scenario(name, mb=False, tid=TID, s=None):
    """Records of a complete operation whose last delivered trace is `name`'s, with all the context it wants."""
    s = s or Stream()
    path = (lambda i: straddle(24, 60) + str(i)) if mb else (lambda i: '/' + ascii_text([5, 40, 23, 24, 70, 1][i % 6], i))
    if name in ('TRACE_DATA_NEWTHREAD', 'TRACE_STRING_NEWTHREAD'):
        s.newthread(tid, 101, 33, 'launchd')
    elif name in ('TRACE_DATA_EXEC', 'TRACE_STRING_EXEC'):
        s.exec_(tid, 34, 'sh')
    elif name == 'TRACE_DATA_THREAD_TERMINATE':
        s.newthread(tid, 102, 35, 'worker')
        s.threadname(102, straddle(32) if mb else ascii_text(70, 1))
        s.ev(name, NONE, tid, [102, 0, 0, 0])
    elif name == 'TRACE_DATA_THREAD_TERMINATE_PID':
        s.ev(name, NONE, tid, [36, 7, 0, 0])
    elif name == 'TRACE_STRING_GLOBAL':
        s.gstring(tid, 77, straddle(16) if mb else ascii_text(75, 2))
        s.syscall('DBG_DYLD_TIMING_DLOPEN', tid, [0, 77, 1, 0], [0, 0x5000, 0, 0])
    elif name == 'TRACE_STRING_PROC_EXIT':
        s.ev(name, NONE, tid, data=s.name32('exited'))
    elif name in STRING_NAME:
        s.threadname(tid, straddle(32) if mb else ascii_text(70, 4), prev=name.endswith('PREV'))
    elif name == 'VFS_LOOKUP':
        s.lookup(tid, straddle(24, 80) if mb else ascii_text(80, 6), 0x1234)
    elif name == 'PERF_Event':
        s.sample(tid, 0x9, thd=(37, 103, 2), hdr=(5, 6), data=[[1, 2, 3, 4], [5, 6, 7, 8]])
    elif name == 'PERF_THD_Data':
        s.ev(name, NONE, tid, [38, 104, 0x1000, 0x12])
    elif name == 'MACH_vmfault':
        def inner():
            s.ev('RealFaultAddressPurgeable', NONE, tid, [0x1000, 0x50302, 9, 44])
            s.ev('RealFaultAddressInternal', NONE, tid, [0x1000, 0x50302, 9, 44])
            s.ev('MACH_SCHED', NONE, tid, [0, 1, 2, 3])
            return []
        s.syscall(name, tid, [0, 0x7000, 1, 0], [0, 0, 0, 2], inner=[inner])
    elif name == 'DBG_DYLD_TIMING_LAUNCH_EXECUTABLE':
        def inner():
            for i, nm in enumerate(['DYLD_uuid_map_a', 'DYLD_uuid_shared_cache_a', 'DYLD_uuid_map_b', 'DYLD_uuid_map_a']):
                s.ev(nm, NONE, tid, data=bytes(range(i, i + 16)) + [0x3000, 0x1000, 0x2000, 0x1000][i].to_bytes(8, 'little')
                     + (7).to_bytes(8, 'little'))
            return []
        s.syscall(name, tid, [0, 0x10000, 0, 0], [0, 0, 0, 0], inner=[inner])
    else:
        gp = good_pair(name)
        if gp is None:
            return None
        start, end = gp
        if name.startswith('DBG_DYLD') and name != 'DBG_DYLD_TIMING_LAUNCH_EXECUTABLE':
            for sid in sorted({start[1], start[2]} - {0}):
                s.gstring(tid, sid, straddle(16) if mb else 'lib' + ascii_text(50, sid))
        nl = 6 if name == 'BSC_posix_spawn' else 2
        s.syscall(name, tid, start, end, lookups=[(path(i), 0x100 + i) for i in range(nl)])
    return s.recs


def mutations(name, rng=None, full=True, pairs=False):
    """(label, records) — the complete scenario and everything that can be missing / repeated / nested."""
    recs = base_scenario(name)
    if recs is None:
        return []
    out = [('complete', recs)]
    mb = base_scenario(name, mb=True)
    out.append(('complete-multibyte', mb))
    # interleaved with the same operation on another thread (nothing missing: multi-byte text stays valid)
    other = base_scenario(name, mb=True, tid=TID + 1, s=None)
    inter = []
    for a, b in zip(mb, other):
        inter += [a, b]
    inter += mb[len(other):] + other[len(mb):]
    out.append(('interleaved-two-threads', retime(inter)))
    n = len(recs)
    muts = []
    for i in range(1, n + 1):
        muts.append(('prefix-dropped-%d' % i, recs[i:]))
    for i in range(n):
        muts.append(('record-dropped-%d' % i, recs[:i] + recs[i + 1:]))
    for i in range(n):
        muts.append(('record-duplicated-%d' % i, recs[:i] + [recs[i]] + recs[i:]))
    # every nested record dropped at once (a syscall that fails before any lookup happens; a dump without context)
    codes_of = [int.from_bytes(r[48:52], 'little') & 0xfffffffc for r in recs]
    own = P.IDS.get(name)
    muts.append(('only-own-records', [r for r, c in zip(recs, codes_of) if c == own]))
    # nested inside another window of the same thread, and around a complete copy of itself
    s = Stream()
    s.ts = 50
    outer_s = s.ev('BSC_open', START, TID, [0, 0, 0, 0])
    lk = s.lookup(TID, '/outer/path', 9)
    s2 = Stream()
    s2.ts = 5000
    outer_e = s2.ev('BSC_open', END, TID, [0, 3, 0, 0])
    muts.append(('nested-in-open', [outer_s] + lk + recs + [outer_e]))
    if n >= 2:
        muts.append(('nested-around-itself', retime(recs[:1] + recs + recs[1:])))
        muts.append(('twice', retime(recs + recs)))
    # the operation fails (error word 2 = ENOENT) before any lookup happens / with its lookups
    gp = _PAIR.get(name)
    if gp is not None and name not in D.stats()['unsupported']:
        end2 = [2] + list(gp[1][1:])
        if renders_with_full_context(name, gp[0], end2):
            s3 = Stream()
            er = s3.syscall(name, TID, gp[0], end2, lookups=[('/' + ascii_text(40, 8), 0x200)])
            muts.append(('fails-with-one-lookup', er))
            muts.append(('fails-without-lookup', [er[0], er[-1]]))
    if pairs:
        for i in range(n):
            for j in range(i + 1, n):
                muts.append(('two-records-dropped-%d-%d' % (i, j), recs[:i] + recs[i + 1:j] + recs[j + 1:]))
    if not full and rng is not None:
        muts = rng.sample(muts, min(len(muts), 4))
    return out + muts


def retime(recs):
    """Give the records strictly increasing timestamps again (a history is ordered by time)."""
    out = []
    for i, r in enumerate(recs):
        out.append((1000 + i).to_bytes(8, 'little') + r[8:])
    return out


LOOKUP_INDEXERS = ['BSC_posix_spawn', 'BSC_renameat', 'BSC_linkat', 'BSC_symlinkat', 'BSC_renameatx_np', 'BSC_fs_snapshot',
                   'BSC_pivot_root', 'BSC_rename', 'BSC_link', 'BSC_open', 'BSC_ioctl', 'BSC_setsockopt', 'MACH_IDLE',
                   'MSC_semaphore_timedwait_trap', 'DBG_DYLD_TIMING_MAP_IMAGE', 'DBG_DYLD_TIMING_DLOPEN',
                   'DBG_DYLD_TIMING_DLOPEN_PREFLIGHT', 'DBG_DYLD_TIMING_DLSYM', 'RealFaultAddressInternal']


def context_cases(rng, tier):
    names = D.all_handler_names()
    hand = set(D.stats()['unsupported'])
    cases, missing = [], []
    for name in names:
        full = tier != 'quick' or name in hand or name in LOOKUP_INDEXERS
        ms = mutations(name, rng, full=full, pairs=(tier != 'quick' and (name in hand or name in LOOKUP_INDEXERS)))
        if not ms:
            missing.append(name)
            continue
        for label, recs in ms:
            c = P.make_case_from(recs)
            c['label'] = '%s/%s' % (name, label)
            cases.append(c)
    return cases, missing


def section_context(rep, rng, tier):
    cases, missing = context_cases(rng, tier)
    core.run_section(
        rep, 'context-drop', cases, line_fn=P.line, impl_fn=P.impl_fn, oracle_fn=make_oracle(), skip_fn=P.unmodelled,
        nontrivial_fn=lambda c, got: '|' in got,
        kind_fn=lambda c, got: c['label'].split('/', 1)[1].rstrip('0123456789-') + ' err=' + P.parse_answer(got)[1],
        rule='for EVERY name of the real handlers table (%d): a complete scenario (in-domain words found by search on the real '
             'handler; syscalls with 2 kernel-encoded lookups, posix_spawn with 6; dyld decoders with their global strings '
             'announced; new-thread/exec pairs; multi-chunk names, strings and lookups; sampler / page-fault / launch windows with '
             'their nested records), then: every prefix dropped, every single record dropped (each lookup chunk, each data / '
             'string record of a pair, each nested sampler / fault / image record, the START, the END), every record duplicated, '
             'only the own records kept (no context at all), the operation failing with errno 2 with one / without any lookup, '
             '(thorough: every PAIR of records dropped for the hand-modelled and lookup-indexing handlers), nested inside another window, nested around a copy of itself, run '
             'twice, interleaved with the same operation on another thread; complete / interleaved variants also with two-byte '
             'characters straddling every chunk boundary.  Model vs real code: traces, ktraces, texts, aborting exception and its '
             'position (number of traces delivered before it), the four context tables.  Oracle (real code only): no exception '
             'escapes feed_generator and str(t) never raises; signature abort:<handler>:<exception>.' % len(D.all_handler_names()),
        sample_fn=lambda c: {'label': c['label'], 'events': len(c['events'])})
    if missing:
        rep.notes.append('no in-domain argument words found by search for: %s' % missing)
    rep.section('context-drop')['dist']['handlers_without_scenario'] = len(missing)


# ---------------------------------------------------------------------------------------------------------
# records of another code between the chunks of a string (main stream since fix F17), and the split-character limit

def foreign_cases():
    """Every multi-chunk string kind x every kind of foreign record x every gap between two chunks."""
    out = []
    foreign = [('TRACE_DATA_NEWTHREAD', NONE, [0xff, 1, 0, 0], None), ('TRACE_DATA_NEWTHREAD', NONE, [0xc3, 1, 0, 0], None),
               ('TRACE_DATA_EXEC', ALL, [0x80, 1, 2, 0], None), ('TRACE_DATA_THREAD_TERMINATE', NONE, [0xfffe, 0, 0, 0], None),
               ('TRACE_STRING_PROC_EXIT', NONE, None, 'xyz'), ('MACH_SCHED', NONE, [0xff, 1, 2, 3], None),
               ('VFS_LOOKUP', START | END, None, b'\xff' * 8 + b'/p')]
    kinds = [('TRACE_STRING_THREADNAME', lambda s: s.threadname(TID, ascii_text(90, 1))),
             ('TRACE_STRING_THREADNAME_PREV', lambda s: s.threadname(TID, ascii_text(90, 2), prev=True)),
             ('TRACE_STRING_GLOBAL', lambda s: s.gstring(TID, 5, ascii_text(75, 3))),
             ('VFS_LOOKUP', lambda s: s.lookup(TID, ascii_text(80, 4), 0x77))]
    for kname, build in kinds:
        chunks = build(Stream())
        for fname, q, words, data in foreign:
            if fname == kname:
                continue
            for gap in range(1, len(chunks)):
                s = Stream()
                s.ts = 500
                if data is None:
                    f = s.ev(fname, q, TID, words)
                else:
                    f = s.ev(fname, q, TID, data=s.name32(data))
                recs = retime(chunks[:gap] + [f] + chunks[gap:])
                c = P.make_case_from(recs)
                c['label'] = '%s/foreign-%s-after-chunk-%d' % (kname, fname, gap)
                out.append(c)
    return out


def split_cases():
    """A multi-byte character split by a dropped chunk: the reassembled string is not valid text (outside the hypothesis)."""
    out = []
    s = Stream()
    recs = s.lookup(TID, straddle_once(24), 7)
    out.append(('VFS_LOOKUP/middle-chunk-dropped', recs[:1] + recs[2:]))
    s = Stream()
    recs = s.syscall('BSC_open', TID, [0, 0, 0, 0], [0, 3, 0, 0], lookups=[(straddle_once(24), 7)])
    out.append(('BSC_open/lookup-middle-chunk-dropped', recs[:2] + recs[3:]))
    s = Stream()
    recs = s.threadname(TID, straddle_once(32))
    out.append(('TRACE_STRING_THREADNAME/middle-chunk-dropped', recs[:1] + recs[2:]))
    cases = []
    for label, r in out:
        c = P.make_case_from(r)
        c['label'] = label
        cases.append(c)
    return cases


def section_findings(rep):
    core.run_section(
        rep, 'foreign-record', foreign_cases(), line_fn=P.line, impl_fn=P.impl_fn, oracle_fn=make_oracle(),
        skip_fn=P.unmodelled, nontrivial_fn=lambda c, got: '|' in got,
        kind_fn=lambda c, got: c['label'].split('/')[0] + ' err=' + P.parse_answer(got)[1],
        rule='a record of another code on the same thread between two chunks of a thread name / previous name / global string / '
             'lookup (new-thread, exec and terminate data records whose words are not valid UTF-8, a process-exit name, a '
             'scheduler record, a lookup with a non-UTF-8 vnode id) at every gap: every record is in-domain, nothing may abort '
             '(before fix F17 the name handlers decoded the foreign record as text)')
    core.run_section(
        rep, 'split-character', split_cases(), line_fn=P.line, impl_fn=P.impl_fn, oracle_fn=None, skip_fn=P.unmodelled,
        nontrivial_fn=lambda c, got: 'err=UnicodeError' in got, kind_fn=lambda c, got: 'err=' + P.parse_answer(got)[1],
        rule='outside the text hypothesis (documented limit, correspondence only): a dropped chunk splits a two-byte character, '
             'the reassembled bytes are not valid text, bytes.decode() raises; model and real code agree on the exception and '
             'its position')


# ---------------------------------------------------------------------------------------------------------
# `wordsOK` of the model vs "the real handler renders" on the record alone

def indomain_line(c):
    return 'indomain %s %s' % (P.codes_arg({int(k): v for k, v in c['codes'].items()}), c['rec'])


def indomain_impl(c):
    codes = {int(k): v for k, v in c['codes'].items()}
    parser = TracesParser(codes, {}, {})
    rec = bytes.fromhex(c['rec'])
    dbg = int.from_bytes(rec[48:52], 'little') & 0xfffffffc
    evs = [from_kd_buf(rec[:48] + (dbg | q).to_bytes(4, 'little') + rec[52:]) for q in (START, END)]
    try:
        t = parser.handlers[c['name']](parser, evs)
        str(t)
        return 'ok 1 -'
    except Exception:  # noqa: BLE001
        return 'ok 0 -'


def indomain_cases(rng, tier):
    per = 6 if tier == 'quick' else 60
    cases = []
    for name in D.supported_names():
        if name not in P.IDS:
            continue
        gp = good_pair(name)
        enumish = gp is not None and list(gp[0]) != list(BASE)
        for j in range(per * (6 if enumish else 1)):
            if gp is not None and j % 3 == 0:
                words = list(gp[0])
            elif gp is not None and j % 3 == 1:
                words = list(gp[0])
                words[rng.randrange(4)] = rng.randrange(0, 48) if enumish and rng.random() < 0.6 else D.rand_word(rng)
            else:
                words = [D.rand_word(rng) for _ in range(4)]
            rec = P.impl.record(7, b''.join(w.to_bytes(8, 'little') for w in words), TID, P.IDS[name] | NONE)
            cases.append({'name': name, 'codes': {str(P.IDS[name]): name}, 'rec': rec.hex(), 'words': words})
    return cases


def section_indomain(rep, rng, tier):
    cases = indomain_cases(rng, tier)
    core.run_section(
        rep, 'indomain', cases, line_fn=indomain_line, impl_fn=indomain_impl, oracle_fn=None,
        nontrivial_fn=lambda c, got: got == 'ok 0 -' or c['words'][0] > 16,
        kind_fn=lambda c, got: 'in-domain' if got.startswith('ok 1') else 'out-of-domain',
        rule='every translated decoder x record words (the in-domain tuple found by search, the tuple with one word replaced, '
             'random boundary/16/32/64-bit words): the model\'s `wordsOK` (the side conditions the IR checker collects, evaluated '
             'on the record alone, both roles) vs "str(handler(parser, [record as START, record as END])) does not raise" on the '
             'real code with no lookups and empty context tables — the side conditions are necessary AND sufficient',
        sample_fn=lambda c: {'decoder': c['name'], 'words': c['words']})


# ---------------------------------------------------------------------------------------------------------

def shrink(rep, section, oracle):
    """Replace the recorded failing history of each signature by a locally minimal one (drop records while it still fails)."""
    done = set()
    for f in rep.failures:
        rp = f['replay']
        if rp.get('section') != section or f['signature'] in done:
            continue
        done.add(f['signature'])
        case = rp['case']
        changed = True
        budget = 400
        while changed and budget > 0:
            changed = False
            for i in reversed(range(len(case['events']))):
                budget -= 1
                cand = dict(case)
                cand['events'] = case['events'][:i] + case['events'][i + 1:]
                r = oracle(cand, None)
                if r and r[0] == f['signature']:
                    case, changed = cand, True
                    f['what'] = r[1]
                if budget <= 0:
                    break
        rp['case'] = case
        rp['line'] = P.line(case)[:4000]
        try:
            rp['impl'] = P.impl_fn(case)[:2000]
        except Exception as e:  # noqa: BLE001
            rp['impl'] = 'err ' + core.err_name(e)
        rp['history'] = describe(case)


def describe(case):
    codes = {int(k): v for k, v in case['codes'].items()}
    out = []
    for h in case['events']:
        r = bytes.fromhex(h)
        dbg = int.from_bytes(r[48:52], 'little')
        out.append('%s q=%d tid=%d words=%s' % (codes.get(dbg & 0xfffffffc, hex(dbg & 0xfffffffc)), dbg & 3,
                                                  int.from_bytes(r[40:48], 'little'),
                                                  [int.from_bytes(r[8 + 8 * i:16 + 8 * i], 'little') for i in range(4)]))
    return out


def long_windows(rep, rng, tier):
    """A call that encloses thousands of records of its thread must not abort the stream either: windows of the lengths
    tools/kdv/mined.py proposes (around 1024 and 4096; on a changed source around every number the source mentions), through
    the real feed_generator; oracle on the code alone: no exception, and the call is reported once."""
    from .. import mined
    sec = rep.section('long-windows')
    changed = mined.changed_files()
    lengths = mined.window_lengths(tier, changed)
    budget = 6000000 if (tier != 'quick' or changed) else 200000
    sec['rule'] = ('BSC_open (one lookup) / BSC_read windows enclosing n scheduler records of the same thread, n from the mined window '
                   'lengths (%d lengths, %d records in all at most): the stream must not raise and must report the call once'
                   % (len(lengths), budget))
    spent = 0
    bad = set()
    for li, nested in enumerate(lengths):
        for name in (('BSC_open', 'BSC_read') if nested <= 4200 else (('BSC_open', 'BSC_read')[li % 2],)):
            if spent + nested > budget:
                continue
            spent += nested
            s = P.Stream(rng)
            a = P.good_args(name) or [1, 2, 3, 4]
            s.ev(name, P.START, 11, a)
            if name == 'BSC_open':
                s.lookup(11, '/long/window', 0x41)
            for i in range(nested - (1 if name == 'BSC_open' else 0)):
                s.ev('MACH_SCHED', P.NONE, 11, [0, 0x1000 + i, 0x2222, 0x3333])
            s.ev(name, P.END, 11, [0, 7, 0, 0])
            case = P.make_case_from(s.recs)
            outs, err, parser = P.run_traces(case)
            sec['cases'] += 1
            calls = [o for o in outs if o['name'] == name]
            if err != '-' or len(calls) != 1:
                if name in bad:
                    continue
                bad.add(name)
                rep.add_failure('abort:long-window:%s' % (err if err != '-' else 'call-not-reported'),
                                '%s enclosing %d records of its thread: %s' % (name, nested, 'the stream raises ' + err if err != '-' else
                                                                            'the call is reported %d times' % len(calls)),
                                {'section': 'long-windows', 'decoder': name, 'nested': nested, 'start': a})
            else:
                sec['distinct_nontrivial'] += 1


def big_dumps(rep, rng, tier):
    """A long, entirely well-formed dump is read to its end whatever block size the reader works in: for every block size
    tools/kdv/readprobe.py finds (sizes the real code requests from the stream, integers the reader's source mentions),
    a version-2 dump whose record area is longer than two blocks — thread maps of even and odd length, with and without
    padding, so that the record area starts at different alignments in the stream — goes through formatted_traces: no
    exception, one line per record (every record is an in-domain scheduler record)."""
    import io
    from .. import readprobe
    from pykdebugparser.pykdebugparser import PyKdebugParser
    sec = rep.section('big-dumps')
    sizes = readprobe.block_sizes(tier, version=2)
    sec['rule'] = ('v2 dumps of 2B/64 + 70 in-domain records for every probed / mined block size B (%s), thread maps of 0 / 1 / 2 '
                   'entries, padding 0 / 8: formatted_traces must not raise and must print one line per record'
                   % [b for b, _ in sizes][:12])
    budget = 40 << 20
    spent = 0
    bad = False
    for B, origin in sizes:
        n = 2 * B // 64 + 70
        for nth, pad in ((0, 0), (1, 0), (2, 8)):
            if spent + 64 * n > budget or bad:
                continue
            spent += 64 * n
            s = P.Stream(rng)
            s.ts = 256 * rng.randrange(1, 1000)
            rec0 = s.ev('MACH_SCHED', P.NONE, 11, [0, 0x1000, 0x2222, 0x3333])
            body = b''.join((s.ts + 1 + i).to_bytes(8, 'little') + rec0[8:] for i in range(n - 1))
            tmap = [(11, 42, 'launchd'), (12, 42, 'launchd')][:nth]
            data = P.v2_bytes(tmap, [rec0], pad) + body
            codes = P.restricted_codes([rec0])
            p = PyKdebugParser()
            p.color = False
            lines, err = 0, '-'
            try:
                for _ in p.formatted_traces(io.BytesIO(data), codes):
                    lines += 1
            except Exception as e:
                err = core.err_name(e)
            sec['cases'] += 1
            if err != '-' or lines != n:
                bad = True
                rep.add_failure('abort:big-dump:%s' % (err if err != '-' else 'lines-missing'),
                                'a well-formed v2 dump of %d scheduler records (thread map of %d entries, %d padding bytes; block size '
                                'aimed at: %d, %s): formatted_traces %s after %d lines'
                                % (n, nth, pad, B, origin, 'raises ' + err if err != '-' else 'ends', lines),
                                {'section': 'big-dumps', 'records': n, 'threads': nth, 'pad': pad, 'B': B})
            else:
                sec['distinct_nontrivial'] += 1


# ---------------------------------------------------------------------------------------------------------
# partly filled tables: the shared thread / process tables may know a thread and not its process' name, a name and no thread

def run_real_tables(case):
    """`run_real` on a parser CONSTRUCTED with the tables of the case (as a request on a dump with a thread map does)."""
    codes = {int(k): v for k, v in case['codes'].items()}
    tp = {int(k): v for k, v in case['tp'].items()}
    pn = {int(k): v for k, v in case['pn'].items()}
    parser = TracesParser(codes, tp, pn)
    events = [from_kd_buf(bytes.fromhex(h)) for h in case['events']]
    cur = [None, -1]

    def gen():
        for i, e in enumerate(events):
            cur[0], cur[1] = e, i
            yield e
    try:
        for t in parser.feed_generator(gen()):
            try:
                str(t)
            except Exception as ex:  # noqa: BLE001
                return codes.get(t.ktraces[0].eventid, '?'), core.err_name(ex), 'str() of the trace delivered at event %d' % cur[1]
    except Exception as ex:  # noqa: BLE001
        return codes.get(cur[0].eventid, '?'), core.err_name(ex), 'feed_generator at event %d' % cur[1]
    return None


def table_configs(recs):
    """Tables in which the identities the records MENTION — their thread ids and every argument word — are partly known: a
    thread of a process without a name, a named process without threads, a thread whose pid is its own number, everything
    known.  (A new-thread record whose name string was lost, a thread map entry without command, a terminate-pid record of an
    unnamed pid leave exactly such tables behind.)"""
    words = []
    for r in recs:
        words.append(int.from_bytes(r[40:48], 'little'))
        words += [int.from_bytes(r[8 + 8 * i:16 + 8 * i], 'little') for i in range(4)]
    words = list(dict.fromkeys(words))[:40]
    pid = {w: 9000 + i for i, w in enumerate(words)}
    return [('threads-of-unnamed-processes', pid, {}),
            ('names-without-threads', {}, {w: 'proc%d' % i for i, w in enumerate(words)}),
            ('pid-is-tid', {w: w for w in words}, {}),
            ('every-other-process-named', pid, {9000 + i: 'p%d' % i for i in range(0, len(words), 2)}),
            ('all-known', pid, {9000 + i: 'p%d' % i for i in range(len(words))})]


def partial_tables(rep, rng, tier):
    names = D.all_handler_names()
    if tier == 'quick' and not mined_changed():
        hand = set(D.stats()['unsupported'])
        names = sorted(set(rng.sample(names, 90)) | hand | {n for n in names if not (n.startswith('BSC_') or n.startswith('MSC_'))})
    cases = []
    for name in names:
        recs = base_scenario(name)
        if recs is None:
            continue
        for label, tp, pn in table_configs(recs):
            c = P.make_case_from(recs)
            c.update(label='%s/%s' % (name, label), tp={str(k): v for k, v in tp.items()}, pn={str(k): v for k, v in pn.items()})
            cases.append(c)

    def oracle(c):
        r = run_real_tables(c)
        if r is None:
            return None
        return ('abort:%s:%s' % (r[0], r[1].split(':')[0]),
                '%s: handler of %s raised %s (%s) on a parser whose tables are partly filled' % (c['label'], r[0], r[1], r[2]), c)
    core.run_code_section(rep, 'partial-tables', cases, oracle, kind_fn=lambda c: c['label'].split('/', 1)[1],
                          rule='the complete scenario of every registered handler (quick tier on an unchanged source: every '
                               'non-syscall handler and 90 syscall decoders) on a parser constructed with tables in which the '
                               'thread ids and argument words the records mention are partly known (5 configurations: threads of '
                               'unnamed processes, names without threads, pid = tid, every other process named, all known); '
                               'oracle on the code alone: no exception escapes feed_generator or str(t)')


def mined_changed():
    from .. import mined
    return bool(mined.changed_files())


def correspondence(rep, rng, tier):
    P.section_pipeline(rep, rng, tier, oracle_fn=make_oracle(need_ascii=True))
    shrink(rep, 'pipeline', make_oracle(need_ascii=True))
    section_context(rep, rng, tier)
    shrink(rep, 'context-drop', make_oracle())
    section_indomain(rep, rng, tier)
    section_findings(rep)
    long_windows(rep, rng, tier)
    big_dumps(rep, rng, tier)
    partial_tables(rep, rng, tier)
    shrink(rep, 'foreign-record', make_oracle())
    st = D.stats()
    rep.notes.append('translator: %d of %d registered handlers compiled to IR; hand-modelled: %s'
                     % (st['supported'], st['total'], sorted(st['unsupported'])))


def replay(path):
    with open(path) as fd:
        r = json.load(fd)
    rp = r.get('replay') or {}
    if rp.get('section') == 'big-dumps':
        import io
        import random
        from pykdebugparser.pykdebugparser import PyKdebugParser
        s = P.Stream(random.Random(0))
        rec0 = s.ev('MACH_SCHED', P.NONE, 11, [0, 0x1000, 0x2222, 0x3333])
        n = rp['records']
        body = b''.join((s.ts + 1 + i).to_bytes(8, 'little') + rec0[8:] for i in range(n - 1))
        data = P.v2_bytes([(11, 42, 'launchd'), (12, 42, 'launchd')][:rp['threads']], [rec0], rp['pad']) + body
        p = PyKdebugParser()
        p.color = False
        lines, err = 0, '-'
        try:
            for _ in p.formatted_traces(io.BytesIO(data), P.restricted_codes([rec0])):
                lines += 1
        except Exception as e:
            err = core.err_name(e)
        print('well-formed v2 dump of %d records: %d lines, exception %s' % (n, lines, err))
        if err != '-' or lines != n:
            print(f'VIOLATION property=C07 replay={path}')
            return 1
        return 0
    if rp.get('section') == 'partial-tables':
        res = run_real_tables(rp['case'])
        print(rp['case'].get('label'), '->', res)
        if res:
            print(f'VIOLATION property=C07 replay={path}')
            return 1
        return 0
    if rp.get('section') == 'long-windows':
        s = P.Stream(None)
        name, nested, a = rp['decoder'], rp['nested'], rp['start']
        s.ev(name, P.START, 11, a)
        if name == 'BSC_open':
            s.lookup(11, '/long/window', 0x41)
        for i in range(nested - (1 if name == 'BSC_open' else 0)):
            s.ev('MACH_SCHED', P.NONE, 11, [0, 0x1000 + i, 0x2222, 0x3333])
        s.ev(name, P.END, 11, [0, 7, 0, 0])
        outs, err, parser = P.run_traces(P.make_case_from(s.recs))
        calls = [o for o in outs if o['name'] == name]
        print('%s enclosing %d records: exception %s, the call reported %d time(s)' % (name, nested, err, len(calls)))
        if err != '-' or len(calls) != 1:
            print(f'VIOLATION property=C07 replay={path}')
            return 1
        return 0
    if 'case' not in rp:
        print('nothing to replay (no failing input was recorded):', r.get('no_longer_checks'))
        return 1
    case = rp['case']
    if rp.get('section') == 'indomain':
        print('impl :', indomain_impl(case))
        print('model:', core.drive([indomain_line(case)])[0])
        return 0
    print('history (%s):' % case.get('label', ''))
    for l in describe(case):
        print('   ' + l)
    got = P.impl_fn(case)
    print('impl :', got)
    print('model:', core.drive([P.line(case)])[0])
    res = make_oracle()(case, got)
    if res:
        print('oracle:', res[0], '-', res[1])
        if core.Findings().known('C07', res[0]):
            print('KNOWN-FINDING: property=C07', res[0])
            return 0
        print(f'VIOLATION property=C07 replay={path}')
        return 1
    print('oracle: property holds on this input')
    return 0
