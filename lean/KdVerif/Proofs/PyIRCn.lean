import KdVerif.Model.PyIRCn
import KdVerif.Spec.PyIRCnExpected
import KdVerif.Proofs.Reader
/-
  Lemmas of the translation tie of the construct DECLARATIONS (`Model/PyIRCn`): the expected declarations, run by
  `Con.parse`, are the hand models of `Model/Construct` / `Model/ContainerV2` / `Model/ContainerV3`.
-/
namespace KdVerif.PyIRCn
open KdVerif Reader

/-! ### the reader monad is lawful -/

theorem RM.bind_assoc' {α β γ : Type} (m : RM α) (f : α → RM β) (g : β → RM γ) :
    (m >>= f) >>= g = m >>= fun a => f a >>= g := by
  funext r
  show RM.bind' (RM.bind' m f) g r = RM.bind' m (fun a => RM.bind' (f a) g) r
  unfold RM.bind'
  cases m r with
  | mk x r' => cases x <;> rfl

theorem RM.pure_bind' {α β : Type} (a : α) (f : α → RM β) : (pure a : RM α) >>= f = f a := rfl

theorem RM.bind_pure' {α : Type} (m : RM α) : m >>= (fun a => (pure a : RM α)) = m := by
  funext r
  show RM.bind' m RM.pure' r = m r
  unfold RM.bind' RM.pure'
  cases m r with
  | mk x r' => cases x <;> rfl

theorem mapRM_bind {α β γ : Type} (f : α → β) (m : RM α) (g : β → RM γ) :
    mapRM f m >>= g = m >>= fun a => g (f a) := by
  unfold mapRM
  rw [RM.bind_assoc']
  rfl

theorem project_bind {α β : Type} (p : CVal → Option β) (m : RM α) (k : α → RM CVal) :
    project p (m >>= k) = m >>= fun a => project p (k a) := by
  unfold project
  rw [RM.bind_assoc']

theorem project_pure {β : Type} (p : CVal → Option β) (v : CVal) (b : β) (h : p v = some b) :
    project p (pure v) = pure b := by
  unfold project
  rw [RM.pure_bind', h]

theorem project_mapRM {α β : Type} (p : CVal → Option β) (f : α → CVal) (g : α → β) (m : RM α)
    (h : ∀ a, p (f a) = some (g a)) : project p (mapRM f m) = mapRM g m := by
  unfold project
  rw [mapRM_bind]
  unfold mapRM
  congr 1
  funext a
  rw [h]

/-! ### `FixedSized(n, CString('utf8'))` -/

theorem cstringRM_ofBytes (b : Bytes) : (mapRM CVal.str cstringRM (Reader.ofBytes b)).1 = (cstringOf b).map CVal.str := by
  show (RM.bind' cstringRM (fun a => RM.pure' (CVal.str a)) (Reader.ofBytes b)).1 = _
  unfold RM.bind' cstringRM cstringOf
  have hr : (Reader.ofBytes b).rest = b := rfl
  simp only [hr]
  by_cases h1 : (List.takeWhile (fun x => x ≠ 0) b).length = b.length
  · simp only [h1, if_true]; rfl
  · simp only [h1, if_false]
    by_cases h2 : validUtf8 (List.takeWhile (fun x => x ≠ 0) b) = true
    · simp only [h2, if_true]; rfl
    · simp only [h2]; rfl

theorem fixedCString_eq (n : Nat) :
    (readExact n >>= fun b => onSub b (mapRM CVal.str cstringRM)) = mapRM CVal.str (fixedCString n) := by
  funext r
  show RM.bind' (readExact n) (fun b => onSub b (mapRM CVal.str cstringRM)) r
     = RM.bind' (fixedCString n) (fun a => RM.pure' (CVal.str a)) r
  unfold RM.bind' fixedCString
  cases readExact n r with
  | mk x r' =>
    cases x with
    | error e => rfl
    | ok b =>
      show ((mapRM CVal.str cstringRM (Reader.ofBytes b)).1, r') = _
      rw [cstringRM_ofBytes]
      dsimp only
      cases cstringOf b <;> rfl

/-! ### kd_threadmap -/

theorem toThreadEntry_toCVal (e : ThreadEntry) : (ThreadEntry.toCVal e).toThreadEntry = some e := by
  cases e; rfl

theorem parse_kd_threadmap (env : Env) (ctx : List (String × CVal)) :
    Expected.kd_threadmap.parse env ctx = mapRM ThreadEntry.toCVal threadEntry := by
  simp only [Expected.kd_threadmap, Con.parse, Fields.parse, fixedCString_eq, mapRM_bind, List.nil_append,
    List.cons_append]
  unfold threadEntry mapRM
  simp only [RM.bind_assoc', RM.pure_bind']
  rfl

theorem project_kd_threadmap (env : Env) (ctx : List (String × CVal)) :
    project CVal.toThreadEntry (Expected.kd_threadmap.parse env ctx) = threadEntry := by
  rw [parse_kd_threadmap, project_mapRM _ _ id _ toThreadEntry_toCVal]
  exact RM.bind_pure' _

/-! ### `Array` / `GreedyRange` of a mapped parser -/

theorem arrayN_mapRM {α β : Type} (f : α → β) (m : RM α) :
    ∀ n, arrayN (mapRM f m) n = mapRM (List.map f) (arrayN m n)
  | 0 => rfl
  | n + 1 => by
    simp only [arrayN, arrayN_mapRM f m n, mapRM_bind]
    unfold mapRM
    simp only [RM.bind_assoc', RM.pure_bind', List.map_cons]

theorem greedyRange_mapRM {α β : Type} (f : α → β) (m : RM α) :
    ∀ fuel, greedyRange (mapRM f m) fuel = mapRM (List.map f) (greedyRange m fuel)
  | 0 => rfl
  | fuel + 1 => by
    funext r
    have hR : mapRM (List.map f) (greedyRange m (fuel + 1)) r
        = RM.bind' (greedyRange m (fuel + 1)) (fun a => RM.pure' (List.map f a)) r := rfl
    have hg : ∀ r', mapRM (List.map f) (greedyRange m fuel) r'
        = RM.bind' (greedyRange m fuel) (fun a => RM.pure' (List.map f a)) r' := fun _ => rfl
    rw [hR]
    cases h : m r with
    | mk x r1 =>
      have hm : mapRM f m r = RM.bind' m (fun a => RM.pure' (f a)) r := rfl
      unfold RM.bind' at hm
      rw [h] at hm
      unfold RM.bind'
      cases x with
      | error e =>
        cases e <;> simp only [greedyRange, h, hm] <;> rfl
      | ok a =>
        simp only [greedyRange, h, hm, greedyRange_mapRM f m fuel, hg]
        unfold RM.bind' RM.pure'
        dsimp only
        cases greedyRange m fuel r1 with
        | mk y r2 => cases y <;> rfl

theorem toThreadList_map : ∀ l : List ThreadEntry, CVal.toThreadList (l.map ThreadEntry.toCVal) = some l
  | [] => rfl
  | e :: l => by
    simp only [List.map_cons, CVal.toThreadList, toThreadEntry_toCVal, toThreadList_map l]

/-! ### kd_header_v2 -/

/-- `kd_header_v2` once the module has run: the reference is the `kd_threadmap` object. -/
def kd_header_v2R : Con :=
  .struct (.cons (some "number_of_treads") .int32ul
          (.cons none (.padding 8)
          (.cons none (.padding 4)
          (.cons (some "is_64bit") .int32ul
          (.cons (some "tick_frequency") .int64ul
          (.cons none (.padding 0x100)
          (.cons (some "threadmap") (.array "number_of_treads" Expected.kd_threadmap)
          (.cons (some "_pad") (.greedyRange .const0Byte)
           .nil))))))))

theorem toHeaderV2_struct (n i t : Nat) (tm : List ThreadEntry) (pad : List CVal) :
    CVal.toHeaderV2 (.struct [("number_of_treads", .int n), ("is_64bit", .int i), ("tick_frequency", .int t),
      ("threadmap", .list (tm.map ThreadEntry.toCVal)), ("_pad", .list pad)]) = some ⟨n, i, t, tm, pad.length⟩ := by
  have h1 : (CVal.struct [("number_of_treads", .int n), ("is_64bit", .int i), ("tick_frequency", .int t),
      ("threadmap", .list (tm.map ThreadEntry.toCVal)), ("_pad", .list pad)]).get "number_of_treads" = some (.int n) := rfl
  have h2 : (CVal.struct [("number_of_treads", .int n), ("is_64bit", .int i), ("tick_frequency", .int t),
      ("threadmap", .list (tm.map ThreadEntry.toCVal)), ("_pad", .list pad)]).get "is_64bit" = some (.int i) := rfl
  have h3 : (CVal.struct [("number_of_treads", .int n), ("is_64bit", .int i), ("tick_frequency", .int t),
      ("threadmap", .list (tm.map ThreadEntry.toCVal)), ("_pad", .list pad)]).get "tick_frequency" = some (.int t) := rfl
  have h4 : (CVal.struct [("number_of_treads", .int n), ("is_64bit", .int i), ("tick_frequency", .int t),
      ("threadmap", .list (tm.map ThreadEntry.toCVal)), ("_pad", .list pad)]).get "threadmap"
        = some (.list (tm.map ThreadEntry.toCVal)) := rfl
  have h5 : (CVal.struct [("number_of_treads", .int n), ("is_64bit", .int i), ("tick_frequency", .int t),
      ("threadmap", .list (tm.map ThreadEntry.toCVal)), ("_pad", .list pad)]).get "_pad" = some (.list pad) := rfl
  unfold CVal.toHeaderV2
  rw [h1, h2, h3, h4, h5]
  simp only [toThreadList_map]

theorem project_toHeaderV2 (n i t : Nat) (tm : List ThreadEntry) (pad : List CVal) :
    project CVal.toHeaderV2 (pure (CVal.struct [("number_of_treads", .int n), ("is_64bit", .int i),
      ("tick_frequency", .int t), ("threadmap", .list (tm.map ThreadEntry.toCVal)), ("_pad", .list pad)]))
      = pure ⟨n, i, t, tm, pad.length⟩ :=
  project_pure _ _ _ (toHeaderV2_struct n i t tm pad)

theorem ctxCount_v2 (n i t : Nat) :
    ctxCount [("number_of_treads", .int n), ("is_64bit", .int i), ("tick_frequency", .int t)] "number_of_treads"
      = some n := rfl

theorem project_kd_header_v2 (plist : Bytes → Option PView) (ctx : List (String × CVal)) :
    project CVal.toHeaderV2 (kd_header_v2R.parse ⟨plist, fun r => r.rest.length + 1⟩ ctx) = headerV2 := by
  simp only [kd_header_v2R, Con.parse, Fields.parse, mapRM_bind, List.nil_append, List.cons_append, ctxCount_v2,
    parse_kd_threadmap, arrayN_mapRM, greedyRange_mapRM, RM.bind_assoc', project_bind]
  unfold headerV2
  simp only [RM.pure_bind', project_toHeaderV2, List.length_map]
  rfl

/-! ### kd_header_v3 -/

theorem RM.bind_congr' {α β : Type} (m : RM α) (f g : α → RM β) (h : ∀ a, f a = g a) : m >>= f = m >>= g := by
  have : f = g := funext h
  rw [this]

/-- `Prefixed`'s sub-stream handed to `BplistAdapter(GreedyBytes)`: the whole payload goes to `plistlib.loads`. -/
theorem onSub_bplist (plist : Bytes → Option PView) (b : Bytes) :
    onSub b (greedyBytesRM >>= fun a => decodePlist plist (CVal.bytes a)) =
      (match plist b with
       | none => RM.throw' .valueError
       | some _ => pure (CVal.plist b)) := by
  funext r
  show ((RM.bind' greedyBytesRM (fun a => decodePlist plist (CVal.bytes a)) (Reader.ofBytes b)).1, r) = _
  unfold RM.bind' greedyBytesRM
  have hr : (Reader.ofBytes b).rest = b := rfl
  simp only [hr, decodePlist]
  cases plist b <;> rfl

theorem toHeaderV3_struct (a1 a2 a3 a4 a5 a6 a7 a8 a9 a10 a11 a12 : Nat) (p : Bytes) :
    CVal.toHeaderV3 (.struct [("tag", .int a1), ("sub_tag", .int a2), ("length", .int a3), ("timebase_numer", .int a4),
      ("timebase_denom", .int a5), ("timestamp", .int a6), ("walltime_secs", .int a7), ("walltime_usecs", .int a8),
      ("timezone_minuteswest", .int a9), ("timezone_dst", .int a10), ("flags", .int a11), ("tag2", .int a12),
      ("cpu_info", .plist p)]) = some ([a1, a2, a3, a4, a5, a6, a7, a8, a9, a10, a11, a12], p) := rfl

theorem project_kd_header_v3 (env : Env) (ctx : List (String × CVal)) :
    project CVal.toHeaderV3 (Expected.kd_header_v3.parse env ctx) = headerV3Inner env.plist := by
  simp only [Expected.kd_header_v3, Con.parse, Fields.parse, mapRM_bind, List.nil_append, List.cons_append,
    RM.bind_assoc', project_bind]
  unfold headerV3Inner
  simp only [v3FieldSizes, readFields, int32ul, int64ul, prefixedBytes, RM.bind_assoc', RM.pure_bind']
  iterate 14 (apply RM.bind_congr'; intro _)
  rw [onSub_bplist]
  rename_i payload
  cases plist_payload : env.plist payload with
  | none => rfl
  | some v =>
    simp only [RM.pure_bind']
    exact project_pure _ _ _ (toHeaderV3_struct ..)

/-! ### `GreedyRange(kd_threadmap)` on a sub-stream -/

theorem readExact_case {n : Nat} (hn : n < ssizeLimit) (r : Reader) :
    (n ≤ r.rest.length ∧ ∃ r', readExact n r = (.ok (r.rest.take n), r') ∧ r'.rest = r.rest.drop n) ∨
    (r.rest.length < n ∧ ∃ r', readExact n r = (.error .streamError, r')) := by
  rw [readExact_small hn]
  by_cases h : n ≤ r.rest.length
  · left
    refine ⟨h, (r.read n).2, ?_, read_rest r n⟩
    have : (r.read n).1.length = n := by simp [List.length_take]; omega
    rw [if_pos this]; rfl
  · right
    refine ⟨by omega, (r.read n).2, ?_⟩
    have : ¬ (r.read n).1.length = n := by simp [List.length_take]; omega
    rw [if_neg this]

theorem cstringOf_err {b : Bytes} {e : PyErr} (h : cstringOf b = .error e) : e = .streamError := by
  unfold cstringOf at h
  dsimp only at h
  split at h
  · injection h with h; exact h.symm
  · split at h
    · cases h
    · injection h with h; exact h.symm

/-- `kd_threadmap` on a reader: fewer than 32 bytes left is a StreamError; otherwise the 32 bytes are consumed and the
    outcome is `threadEntryOf` of them. -/
theorem threadEntry_case (r : Reader) :
    (r.rest.length < 32 ∧ ∃ r', threadEntry r = (.error .streamError, r')) ∨
    (32 ≤ r.rest.length ∧ ∃ r', r'.rest = r.rest.drop 32 ∧
      ((∃ e, threadEntryOf (r.rest.take 32) = some e ∧ threadEntry r = (.ok e, r')) ∨
       (threadEntryOf (r.rest.take 32) = none ∧ threadEntry r = (.error .streamError, r')))) := by
  unfold threadEntry
  rcases readExact_case (n := 8) (by decide) r with ⟨h8, r1, e1, c1⟩ | ⟨h8, r1, e1⟩
  · have i1 : int64ul r = (.ok (leNat (r.rest.take 8)), r1) := by unfold int64ul; rw [RM.bind_ok e1]; rfl
    rcases readExact_case (n := 4) (by decide) r1 with ⟨h4, r2, e2, c2⟩ | ⟨h4, r2, e2⟩
    · have i2 : int32ul r1 = (.ok (leNat (r1.rest.take 4)), r2) := by unfold int32ul; rw [RM.bind_ok e2]; rfl
      rcases readExact_case (n := 0x14) (by decide) r2 with ⟨h20, r3, e3, c3⟩ | ⟨h20, r3, e3⟩
      · right
        rw [c1, List.length_drop] at h4
        rw [c2, c1, List.length_drop, List.length_drop] at h20
        refine ⟨by omega, r3, by rw [c3, c2, c1]; simp [List.drop_drop], ?_⟩
        have hname : r2.rest.take 0x14 = ((r.rest.take 32).drop 12).take 20 := by
          rw [c2, c1]; simp [List.drop_drop, List.take_drop, List.take_take]
        have ht : leNat (r.rest.take 8) = leNat ((r.rest.take 32).take 8) := by simp [List.take_take]
        have hp : leNat (r1.rest.take 4) = leNat (((r.rest.take 32).drop 8).take 4) := by
          rw [c1]; simp [List.take_drop, List.take_take]
        have hf : fixedCString 0x14 r2 = (match cstringOf (r2.rest.take 0x14) with
            | .ok s => (.ok s, r3) | .error e => (.error e, r3)) := by
          unfold fixedCString; rw [e3]; rfl
        cases hc : cstringOf (((r.rest.take 32).drop 12).take 20) with
        | ok s =>
          left
          refine ⟨⟨leNat ((r.rest.take 32).take 8), leNat (((r.rest.take 32).drop 8).take 4), s⟩, ?_, ?_⟩
          · unfold threadEntryOf; rw [hc]
          · rw [RM.bind_ok i1, RM.bind_ok i2]
            rw [RM.bind_ok (show fixedCString 0x14 r2 = (.ok s, r3) by rw [hf, hname, hc])]
            rw [ht, hp]; rfl
        | error err =>
          right
          have herr : err = .streamError := cstringOf_err hc
          subst herr
          refine ⟨by unfold threadEntryOf; rw [hc], ?_⟩
          rw [RM.bind_ok i1, RM.bind_ok i2]
          rw [RM.bind_err (show fixedCString 0x14 r2 = (.error .streamError, r3) by rw [hf, hname, hc])]
      · left
        rw [c2, c1, List.length_drop, List.length_drop] at h20
        refine ⟨by omega, r3, ?_⟩
        rw [RM.bind_ok i1, RM.bind_ok i2]
        rw [RM.bind_err (show fixedCString 0x14 r2 = (.error .streamError, r3) by unfold fixedCString; rw [e3])]
    · left
      rw [c1, List.length_drop] at h4
      refine ⟨by omega, r2, ?_⟩
      rw [RM.bind_ok i1]
      rw [RM.bind_err (show int32ul r1 = (.error .streamError, r2) by unfold int32ul; rw [RM.bind_err e2])]
  · left
    refine ⟨by omega, r1, ?_⟩
    rw [RM.bind_err (show int64ul r = (.error .streamError, r1) by unfold int64ul; rw [RM.bind_err e1])]

/-- `GreedyRange(kd_threadmap)` on a reader, with enough fuel, is the hand model's pure `greedyEntriesAux` of the
    unread bytes. -/
theorem greedyRange_threadEntry : ∀ (fuel : Nat) (r : Reader), r.rest.length / 32 + 1 ≤ fuel →
    (greedyRange threadEntry fuel r).1 = .ok (greedyEntriesAux (r.rest.length / 32 + 1) r.rest)
  | 0, _, h => by omega
  | fuel + 1, r, h => by
    rcases threadEntry_case r with ⟨hlt, r', e⟩ | ⟨hge, r', c, ⟨e, he, e1⟩ | ⟨he, e1⟩⟩
    · simp only [greedyRange, e, greedyEntriesAux, if_pos hlt]
    · have hlen : r'.rest.length / 32 + 1 = r.rest.length / 32 := by
        rw [c, List.length_drop]; omega
      have ih := greedyRange_threadEntry fuel r' (by omega)
      have hnlt : ¬ r.rest.length < 32 := by omega
      simp only [greedyRange, e1, greedyEntriesAux, if_neg hnlt, he]
      cases hg : greedyRange threadEntry fuel r' with
      | mk y r'' =>
        rw [hg, hlen, c] at ih
        simp only at ih
        subst ih
        rfl
    · have hnlt : ¬ r.rest.length < 32 := by omega
      simp only [greedyRange, e1, greedyEntriesAux, if_neg hnlt, he]

/-! ### kd_v3_threadmap -/

/-- `kd_v3_threadmap` once the module has run -/
def kd_v3_threadmapR : Con :=
  .struct (.cons (some "threadmap") (.prefixed64 (.greedyRange Expected.kd_threadmap)) .nil)

theorem onSub_greedyEntries (f : Reader → Nat) (b : Bytes) (hf : b.length / 32 + 1 ≤ f (Reader.ofBytes b)) :
    onSub b (fuelM f >>= fun fuel => greedyRange threadEntry fuel >>= fun l =>
      (pure (CVal.list (l.map ThreadEntry.toCVal)) : RM CVal)) =
    pure (CVal.list ((greedyEntries b).map ThreadEntry.toCVal)) := by
  funext r
  have hr : (Reader.ofBytes b).rest = b := rfl
  have hg := greedyRange_threadEntry (f (Reader.ofBytes b)) (Reader.ofBytes b) (by rw [hr]; exact hf)
  rw [hr] at hg
  show ((RM.bind' (fuelM f) (fun fuel => RM.bind' (greedyRange threadEntry fuel) (fun l =>
      RM.pure' (CVal.list (l.map ThreadEntry.toCVal)))) (Reader.ofBytes b)).1, r) = _
  unfold RM.bind' fuelM
  dsimp only
  cases hx : greedyRange threadEntry (f (Reader.ofBytes b)) (Reader.ofBytes b) with
  | mk y r2 =>
    rw [hx] at hg
    simp only at hg
    subst hg
    rfl

theorem toThreadmapV3_struct (l : List ThreadEntry) :
    CVal.toThreadmapV3 (.struct [("threadmap", .list (l.map ThreadEntry.toCVal))]) = some l := by
  show CVal.toThreadList (l.map ThreadEntry.toCVal) = some l
  exact toThreadList_map l

theorem project_kd_v3_threadmap (env : Env) (ctx : List (String × CVal))
    (hf : ∀ b : Bytes, b.length / 32 + 1 ≤ env.fuel (Reader.ofBytes b)) :
    project CVal.toThreadmapV3 (kd_v3_threadmapR.parse env ctx) =
      (prefixedBytes >>= fun payload => pure (greedyEntries payload)) := by
  simp only [kd_v3_threadmapR, Con.parse, Fields.parse, mapRM_bind, List.nil_append, parse_kd_threadmap,
    greedyRange_mapRM, RM.bind_assoc', project_bind]
  unfold prefixedBytes
  simp only [RM.bind_assoc']
  iterate 2 (apply RM.bind_congr'; intro _)
  rename_i b
  rw [onSub_greedyEntries _ _ (hf b), RM.pure_bind']
  exact project_pure _ _ _ (toThreadmapV3_struct _)

/-! ### kd_v3_additional_data -/

def blockToCVal (b : Bytes × Bytes) : CVal := .struct [("tag", .bytes b.1), ("data", .bytes b.2)]

theorem onSub_greedyBytes (b : Bytes) : onSub b (mapRM CVal.bytes greedyBytesRM) = pure (CVal.bytes b) := rfl

theorem parse_prefixedBytes (env : Env) (ctx : List (String × CVal)) :
    (Con.prefixed64 .greedyBytes).parse env ctx = mapRM CVal.bytes prefixedBytes := by
  simp only [Con.parse, onSub_greedyBytes]
  unfold prefixedBytes mapRM
  simp only [RM.bind_assoc']

theorem aligned_mapRM {α β : Type} (f : α → β) (n : Nat) (m : RM α) :
    aligned n (mapRM f m) = mapRM f (aligned n m) := by
  unfold aligned mapRM
  simp only [RM.bind_assoc', RM.pure_bind']

theorem select2_mapRM {α β : Type} (f : α → β) (m1 m2 : RM α) :
    select2 (mapRM f m1) (mapRM f m2) = mapRM f (select2 m1 m2) := by
  funext r
  have h1 : ∀ r, mapRM f m1 r = RM.bind' m1 (fun a => RM.pure' (f a)) r := fun _ => rfl
  have h2 : ∀ r, mapRM f m2 r = RM.bind' m2 (fun a => RM.pure' (f a)) r := fun _ => rfl
  show _ = RM.bind' (select2 m1 m2) (fun a => RM.pure' (f a)) r
  unfold select2
  simp only [h1, h2]
  unfold RM.bind' RM.pure'
  dsimp only
  cases m1 r with
  | mk x r1 =>
    cases x with
    | ok a => rfl
    | error e =>
      cases e <;> dsimp only <;>
        (cases m2 (r1.seekTo r.pos) with
         | mk y r2 =>
           cases y with
           | ok a => rfl
           | error e2 => cases e2 <;> rfl)

theorem parse_blockStruct (env : Env) (ctx : List (String × CVal)) :
    Expected.blockStruct.parse env ctx = mapRM blockToCVal blockElem := by
  simp only [Expected.blockStruct, Con.parse, Fields.parse, onSub_greedyBytes, List.nil_append, List.cons_append]
  have hp : (int64ul >>= fun n => readExact n >>= fun b => (pure (CVal.bytes b) : RM CVal))
      = mapRM CVal.bytes prefixedBytes := by
    unfold prefixedBytes mapRM
    simp only [RM.bind_assoc']
  simp only [hp, aligned_mapRM, select2_mapRM, mapRM_bind]
  unfold blockElem mapRM
  simp only [RM.bind_assoc', RM.pure_bind']
  rfl

theorem toBlockList_map : ∀ l : List (Bytes × Bytes), CVal.toBlockList (l.map blockToCVal) = some l
  | [] => rfl
  | b :: l => by
    have hb : (blockToCVal b).toBlock = some b := by cases b; rfl
    simp only [List.map_cons, CVal.toBlockList, hb, toBlockList_map l]

theorem project_kd_v3_additional_data (env : Env) (ctx : List (String × CVal)) (r : Reader) :
    project CVal.toBlocks (Expected.kd_v3_additional_data.parse env ctx) r = greedyRange blockElem (env.fuel r) r := by
  have hb : Expected.kd_v3_additional_data = .greedyRange Expected.blockStruct := rfl
  rw [hb]
  simp only [Con.parse, parse_blockStruct, greedyRange_mapRM, mapRM_bind, project_bind]
  have hp : ∀ l : List (Bytes × Bytes),
      project CVal.toBlocks (pure (CVal.list (l.map blockToCVal))) = (pure l : RM _) :=
    fun l => project_pure _ _ _ (toBlockList_map l)
  simp only [hp, RM.bind_pure']
  rfl

/-! ### what the module binds the names to -/

theorem decl_kd_threadmap : Expected.module.decl "kd_threadmap" = Expected.kd_threadmap := by decide

theorem decl_kd_header_v2 : Expected.module.decl "kd_header_v2" = kd_header_v2R := by decide

theorem decl_kd_header_v3 : Expected.module.decl "kd_header_v3" = Expected.kd_header_v3 := by decide

theorem decl_kd_v3_threadmap : Expected.module.decl "kd_v3_threadmap" = kd_v3_threadmapR := by decide

theorem decl_kd_v3_additional_data :
    Expected.module.decl "kd_v3_additional_data" = Expected.kd_v3_additional_data := by decide

end KdVerif.PyIRCn
