import Driver.Util
import KdVerif.Model.Pairing
open KdVerif
namespace Driver.Pairing

/-- `pair <trace-domain eids, comma separated or -> <record hex>…` : per event `-` or the emitted
    window as the timestamps of its events. -/
def cmdPair : Cmd
  | doms :: recs =>
    match parseNatList doms, parseRecs recs with
    | some ds, some es =>
      let outs := KdVerif.Pairing.outputs (fun eid => ds.contains eid) KdVerif.Pairing.PState.empty es
      "ok " ++ ";".intercalate (outs.map fun
        | none => "-"
        | some w => natListC (w.map (·.timestamp)))
    | _, _ => "bad-op"
  | _ => "bad-op"

/-- A delivered window after the gate of `parse_event_list`: its timestamps, with `*` appended when no
    handler is called (`None` returned), `!IndexError` if `events[0]` would raise. -/
def showGated (dec : Nat → Bool) (w : List Kevent) : String :=
  match KdVerif.Pairing.gate dec w with
  | .ok (some v) => natListC (v.map (·.timestamp))
  | .ok none => natListC (w.map (·.timestamp)) ++ "*"
  | .error e => "!" ++ e.name

/-- `pairg <trace-domain eids> <decodable eids> <record hex>…` : per event `-` (nothing delivered) or the
    delivered window through `gate` (see `showGated`). -/
def cmdPairG : Cmd
  | doms :: decs :: recs =>
    match parseNatList doms, parseNatList decs, parseRecs recs with
    | some ds, some dc, some es =>
      let outs := KdVerif.Pairing.outputs (fun eid => ds.contains eid) KdVerif.Pairing.PState.empty es
      "ok " ++ ";".intercalate (outs.map fun
        | none => "-"
        | some w => showGated (fun eid => dc.contains eid) w)
    | _, _, _ => "bad-op"
  | _ => "bad-op"

def insertSorted (t : Nat) : List Nat → List Nat
  | [] => [t]
  | x :: xs => if t < x then t :: x :: xs else if t = x then x :: xs else x :: insertSorted t xs

/-- `pairt <trace-domain eids> <decodable eids> <record hex>…` : per thread id occurring in the history
    (ascending) `tid:` followed by the windows delivered for that thread (first event's tid), in order,
    `|`-separated, each as `showGated`; threads separated by `;`. -/
def cmdPairT : Cmd
  | doms :: decs :: recs =>
    match parseNatList doms, parseNatList decs, parseRecs recs with
    | some ds, some dc, some es =>
      let ws := KdVerif.Pairing.run (fun eid => ds.contains eid) es
      let tids := es.foldl (fun acc e => insertSorted e.tid acc) []
      "ok " ++ ";".intercalate (tids.map fun t =>
        toString t ++ ":" ++ "|".intercalate
          ((ws.filter fun w => match w with | x :: _ => x.tid == t | [] => false).map
            (showGated fun eid => dc.contains eid)))
    | _, _, _ => "bad-op"
  | _ => "bad-op"

def commands : List (String × Cmd) := [("pair", cmdPair), ("pairg", cmdPairG), ("pairt", cmdPairT)]

end Driver.Pairing
