"""C20 — composite traces reflect exactly the records nested in their window."""
import itertools
import json

from .. import core
from .. import decoders as D
from .. import pipeline as P
from ..pipeline import NONE, START, END, ALL, IDS

MODULE = 'KdVerif.Props.C20'
NAMESPACE = 'KdVerif.C20'
TRUSTED = ['Model/Trace.{hMachVmfault, vmfaultCore, pidProtOf, hDyldLaunch, hPerfEvent, hPerfThdData} are hand models of '
           'mach.handle_mach_vmfault / dyld.handle_timing_launch_executable / perf.handle_event / perf.handle_thd_data, tied '
           'to the code (a) by TRANSLATION of their source text: tools/gen_pyir_co.py (pure ast) turns perf.py, '
           'handle_mach_vmfault and handle_timing_launch_executable (+ the image handlers it calls, the dataclasses and '
           'their __str__) into the Python-subset IR of Model/PyIRCo on every run; source_is_expected_ir pins the generated '
           'terms, handle_*_ir_eq_model prove that the interpreter on them IS the hand model for every code table, enum '
           'table, nested parse_event_list, tables and window of four-word records; trusted there: the translator and the '
           'interpreter (both run against CPython in the mirror sections `*-ir`, command tracesco), the reflected enum '
           'tables, pidProtOf / the generated RealFaultAddress* decoders behind the nested parse_event_list; and (b) by the '
           'correspondence sections `vmfault`, `launch`, `sampler`, `custom-codes`, `pipeline` (real '
           'TracesParser.feed_generator vs. the compiled Lean `Trace.run`)',
           'the nested RealFaultAddress* records are evaluated by the generated decoder IR (translator + IR.eval); '
           'Composite.realFault_decoders_ok re-checks in the kernel that the regenerated decoders have the constructor '
           'arguments the theorem is about',
           'dataclass attribute positions (RealFaultAddress*.pid = 6th field, caller_prot = 3rd) and "only '
           'RealFaultAddress* and MachVmfault have both pid and caller_prot" are re-checked by reflection in section '
           '`attributes`']
ASSUMPTIONS = ['every record carries four argument words and 32 data bytes (C01: from_kd_buf)',
               'the window handed to the handler is the per-thread event window (C04)',
               'custom code tables that make ANOTHER handler decode the in-range records are outside the property '
               '(the handler then raises AttributeError unless that handler returns None or is MACH_vmfault itself); '
               'they are compared model-vs-code only (section custom-codes)']
LEVEL_TEXT = ('Lean theorems over the whole-TracesParser model: vmfault_spec is an equation for every window and code '
              'table (result/type from END, pid/protection from the first in-range record of events[1:-1] through the '
              'regenerated RealFaultAddress* decoders, omitted when absent or of a kind without handler), '
              'vmfault_ignores_outside (congruence: only START, END and the in-range interior records matter), launch_spec '
              '(Perm + Pairwise + per-address stability of the insertion sort), sampler_spec (equation: thread info and '
              'user stack iff flag bit and record, first record wins, first N chained words, threads_pids update).  '
              'Translation tie: source_is_expected_ir + handle_thd_data_ir_eq_model / handle_event_ir_eq_model / '
              'handle_mach_vmfault_ir_eq_model / handle_timing_launch_executable_ir_eq_model / run_ir_eq_model: the subjects '
              'of these theorems are the handlers translated from the source text, run by a big-step interpreter.')
LEVEL_NOTE = ('Trusted: Lean kernel, the hand models named above (validated differentially on every enumerated window shape), '
              'the AST translator for the three RealFaultAddress* decoders, the AST translator + interpreter of the composite '
              'handlers (tools/gen_pyir_co.py, Model/PyIRCo; every section is re-run through them).  The independent oracle recomputes every expected '
              'payload and text from the scenario description with its own XNU tables.')
TECHNIQUE = ('Lean 4 proof: equations for all windows by case analysis + induction (stable insertion sort), reflective '
             'kernel check of the generated nested decoders; translation tie (source text -> deep-embedded Python-subset IR -> '
             'big-step interpreter = hand model, for all inputs); exhaustive enumeration of nested-record sequences up to length 4 '
             'through the real feed_generator with a description-based oracle')

# ---------------------------------------------------------------------------------------------------------
# the oracle's own tables (XNU osfmk/vm/vm_fault.h, mach/vm_prot.h, kperf/action.h, kperf/callstack.h) — not imported
# from the repository

FAULT = {1: 'DBG_ZERO_FILL_FAULT', 2: 'DBG_PAGEIN_FAULT', 3: 'DBG_COW_FAULT', 4: 'DBG_CACHE_HIT_FAULT',
         5: 'DBG_NZF_PAGE_FAULT', 6: 'DBG_GUARD_FAULT', 7: 'DBG_PAGEINV_FAULT', 8: 'DBG_PAGEIND_FAULT',
         9: 'DBG_COMPRESSOR_FAULT', 10: 'DBG_COMPRESSOR_SWAPIN_FAULT', 11: 'DBG_COR_FAULT'}
VM_PROT = [(0x01, 'VM_PROT_READ'), (0x02, 'VM_PROT_WRITE'), (0x04, 'VM_PROT_EXECUTE'), (0x08, 'VM_PROT_NO_CHANGE'),
           (0x10, 'VM_PROT_COPY'), (0x20, 'VM_PROT_TRUSTED'), (0x40, 'VM_PROT_IS_MASK'), (0x80, 'VM_PROT_STRIP_READ')]
SAMPLER = [(0x01, 'SAMPLER_TH_INFO'), (0x02, 'SAMPLER_TH_SNAPSHOT'), (0x04, 'SAMPLER_KSTACK'), (0x08, 'SAMPLER_USTACK'),
           (0x10, 'SAMPLER_PMC_THREAD'), (0x20, 'SAMPLER_PMC_CPU'), (0x40, 'SAMPLER_PMC_CONFIG'), (0x80, 'SAMPLER_MEMINFO'),
           (0x100, 'SAMPLER_TH_SCHEDULING'), (0x200, 'SAMPLER_TH_DISPATCH'), (0x400, 'SAMPLER_TK_SNAPSHOT'),
           (0x800, 'SAMPLER_SYS_MEM'), (0x1000, 'SAMPLER_TH_INSCYC'), (0x2000, 'SAMPLER_TK_INFO')]
CALLSTACK = [(0x01, 'CALLSTACK_VALID'), (0x02, 'CALLSTACK_DEFERRED'), (0x04, 'CALLSTACK_64BIT'), (0x08, 'CALLSTACK_KERNEL'),
             (0x10, 'CALLSTACK_TRUNCATED'), (0x20, 'CALLSTACK_CONTINUATION'), (0x40, 'CALLSTACK_KERNEL_WORDS'),
             (0x80, 'CALLSTACK_TRANSLATED'), (0x100, 'CALLSTACK_FIXUP_PC')]
REAL3 = ('RealFaultAddressInternal', 'RealFaultAddressExternal', 'RealFaultAddressSharedCache')
RANGE_LO, RANGE_HI = 0x1320008, 0x1320014
R_INT, R_PUR, R_EXT, R_SHC = 0x1320008, 0x132000c, 0x1320010, 0x1320014
NEAR_LO, NEAR_HI = 0x1320004, 0x1320018          # just outside the range, both in trace.codes, no handler
UNDECODED = (None, 'RealFaultAddressPurgeable', 'NoSuchName')     # names no handler is registered for

E_VMFAULT = IDS['MACH_vmfault']
E_LAUNCH = IDS['DBG_DYLD_TIMING_LAUNCH_EXECUTABLE']
E_MAPA, E_MAPB, E_UNMAPA = IDS['DYLD_uuid_map_a'], IDS['DYLD_uuid_map_b'], IDS['DYLD_uuid_unmap_a']
E_SHA, E_SHB = IDS['DYLD_uuid_shared_cache_a'], IDS['DYLD_uuid_shared_cache_b']
E_PERF, E_THD, E_UHDR, E_UDATA = IDS['PERF_Event'], IDS['PERF_THD_Data'], IDS['PERF_STK_UHdr'], IDS['PERF_STK_UData']
E_KHDR, E_KDATA = IDS['PERF_STK_KHdr'], IDS['PERF_STK_KData']
E_SCHED, E_OPEN, E_LOOKUP = IDS['MACH_SCHED'], IDS['BSC_open'], IDS['VFS_LOOKUP']


def names_of(table, x):
    return [n for v, n in table if v & x]


def vm_prot(x):
    return ['VM_PROT_NONE'] if x == 0 else names_of(VM_PROT, x)


# ---------------------------------------------------------------------------------------------------------
# scenario description -> records.  A record spec is a dict(eid, q, args | data, tid); the builder merges the
# per-thread programs, assigns timestamps, and the expectations are computed from the SAME description.

def rec(eid, q, args=None, data=None):
    return {'eid': eid, 'q': q, 'args': list(args) if args is not None else None,
            'data': data.hex() if data is not None else None}


def words_of(spec):
    if spec['args'] is not None:
        return spec['args']
    b = bytes.fromhex(spec['data'])
    return [int.from_bytes(b[i:i + 8], 'little') for i in range(0, 32, 8)]


def data_of(spec):
    if spec['data'] is not None:
        return bytes.fromhex(spec['data'])
    return b''.join(a.to_bytes(8, 'little') for a in spec['args'])


def lookup_specs(path, vnode):
    raw = path.encode()
    chunks = [vnode.to_bytes(8, 'little') + raw[:24].ljust(24, b'\0')]
    raw = raw[24:]
    while raw:
        chunks.append(raw[:32].ljust(32, b'\0'))
        raw = raw[32:]
    return [rec(E_LOOKUP, (START if i == 0 else 0) | (END if i == len(chunks) - 1 else 0), data=c)
            for i, c in enumerate(chunks)]


def unrelated(kind, rng=None):
    """Same-thread records that must not matter: a scheduler record, a complete syscall with kernel-encoded lookups,
    records just outside the page-fault id range, kernel-stack sampler records, second halves of dyld pairs."""
    if kind == 'sched':
        return [rec(E_SCHED, NONE, [1, 2, 3, 4])]
    if kind == 'syscall':
        path = '/usr/lib/libSystem.B.dylib-some-longer-path' if rng is None or rng.random() < 0.5 else '/a'
        return ([rec(E_OPEN, START, [0, 0x601, 0o644, 0])] + lookup_specs(path, 77)
                + [rec(E_OPEN, END, [0, 3, 0, 0])])
    if kind == 'near-lo':
        return [rec(NEAR_LO, NONE, [0x1000, 0x302, 11, 22])]
    if kind == 'near-hi':
        return [rec(NEAR_HI, NONE, [0x1000, 0x302, 11, 22])]
    if kind == 'kstack':
        return [rec(E_KHDR, NONE, [1, 2, 0, 0]), rec(E_KDATA, NONE, [9, 9, 9, 9])]
    if kind == 'mapb':
        return [rec(E_MAPB, NONE, [7 | (9 << 32), 0, 0, 0])]
    if kind == 'unmap':
        return [rec(E_UNMAPA, NONE, data=bytes(range(16)) + (0x1500).to_bytes(8, 'little') + (7).to_bytes(8, 'little'))]
    raise ValueError(kind)


class Scenario:
    def __init__(self, rng):
        self.rng = rng
        self.threads = {}          # tid -> list of (spec, mark)
        self.order = []            # tids in creation order
        self.composites = []       # dict(kind, tid, start, end (spec objects), nested description, ...)
        self.codes_patch = {}      # eid -> name | None (None: remove from the table)
        self.tags = []

    def add(self, tid, specs):
        if tid not in self.threads:
            self.threads[tid] = []
            self.order.append(tid)
        for s in specs:
            s['tid'] = tid
            self.threads[tid].append(s)

    def build(self, interleave=True):
        """Merge the thread programs (random interleaving keeps each thread's order), assign timestamps."""
        pos = {t: 0 for t in self.order}
        out = []
        live = [t for t in self.order if self.threads[t]]
        ts = 100
        while live:
            t = self.rng.choice(live) if interleave else live[0]
            s = self.threads[t][pos[t]]
            pos[t] += 1
            if pos[t] == len(self.threads[t]):
                live.remove(t)
            ts += 1
            s['ts'] = ts
            out.append(s)
        return out

    def case(self, interleave=True):
        specs = self.build(interleave)
        recs = [impl_record(s) for s in specs]
        codes = P.restricted_codes(recs, extra=('VFS_LOOKUP',))
        for eid, name in self.codes_patch.items():
            if name is None:
                codes.pop(eid, None)
            else:
                codes[eid] = name
        codes = {str(k): v for k, v in codes.items()}
        desc = describe(self, specs, codes)
        return {'codes': codes, 'events': [r.hex() for r in recs], 'desc': desc, 'tags': self.tags}


def impl_record(s):
    from .. import impl
    return impl.record(s['ts'], data_of(s), s['tid'], s['eid'] | s['q'])


# ---------------------------------------------------------------------------------------------------------
# expectations from the description (the property, stated independently of the Lean model)

def name_in(codes, eid):
    return codes.get(str(eid))


def expect_vmfault(c, codes):
    s, e = words_of(c['start']), words_of(c['end'])
    result = e[2]
    head = 'MachVmfault, addr: %s, is_kernel: %s, result: %d' % (hex(s[1]), bool(s[2]), result)
    base = {'name': 'MACH_vmfault', 'start_ts': c['start']['ts'], 'end_ts': c['end']['ts'], 'strength': 'full'}
    if result != 0:
        return dict(base, error=None, extra='vmfault:%d:None:None:None' % result, text=head)
    if e[3] not in FAULT:
        return dict(base, error='ValueError', why='END fault type %d is not a DbgVmFaultType' % e[3])
    ft = FAULT[e[3]]
    base = dict(base, result=result, ft=ft)
    plain = dict(base, error=None, extra='vmfault:0:%s:None:None' % ft, text=head + ', type: ' + ft)
    cands = [n for n in c['nested'] if RANGE_LO <= n['eid'] <= RANGE_HI]
    if not cands:
        return dict(plain, why='no in-range record')
    r = cands[0]
    nm = name_in(codes, r['eid'])
    if nm in REAL3:
        w = words_of(r)
        if (w[1] & 0xff) not in FAULT:
            return dict(base, error='ValueError', why='first in-range record has fault-type byte %#x' % (w[1] & 0xff))
        prot = vm_prot((w[1] >> 8) & 0xff)
        pid = w[3]
        return dict(base, error=None, extra='vmfault:0:%s:%d:%s' % (ft, pid, '+'.join(prot)),
                    text=head + ', type: %s, vm_prot: %s, pid: %d' % (ft, ' | '.join(prot), pid),
                    why='first in-range record ts=%d is %s' % (r['ts'], nm))
    if nm in UNDECODED:
        return dict(plain, why='first in-range record ts=%d is of an undecoded kind (%s)' % (r['ts'], nm))
    return dict(base, strength='weak', why='first in-range record decoded by handler ' + nm)


def expect_launch(c, codes):
    s = words_of(c['start'])
    maps = [n for n in c['window'] if name_in(codes, n['eid']) == 'DYLD_uuid_map_a']
    shared = [n for n in c['window'] if name_in(codes, n['eid']) == 'DYLD_uuid_shared_cache_a']
    entries = [(words_of(n)[2], data_of(n)[:16].hex()) for n in maps + shared]
    out = []
    for a in sorted({a for a, _ in entries}):           # per address: entry order kept (stability)
        out += [(x, u) for x, u in entries if x == a]
    return {'name': 'DBG_DYLD_TIMING_LAUNCH_EXECUTABLE', 'start_ts': c['start']['ts'], 'end_ts': c['end']['ts'],
            'strength': 'full', 'error': None,
            'extra': 'launch:' + '+'.join('%d=%s' % (a, u) for a, u in out),
            'text': 'DBG_DYLD_TIMING_LAUNCH_EXECUTABLE, main_executable_mh: %s' % hex(s[1])}


def expect_sampler(c, codes):
    s = words_of(c['start'])
    flags = s[0]
    thds = [n for n in c['window'] if name_in(codes, n['eid']) == 'PERF_THD_Data']
    hdrs = [n for n in c['window'] if name_in(codes, n['eid']) == 'PERF_STK_UHdr']
    udata = [n for n in c['window'] if name_in(codes, n['eid']) == 'PERF_STK_UData']
    th = 'None'
    tp_set = None
    if flags & 1 and thds:
        w = words_of(thds[0])
        th = '%d/%d' % (w[0], w[1])
        tp_set = (w[1], w[0])
    fr = fl = 'None'
    text = 'PERF_Event, sample_what: %s, actionid: %d' % (' | '.join(names_of(SAMPLER, flags)), s[1])
    if flags & 8 and hdrs:
        h = words_of(hdrs[0])
        chain = [x for n in udata for x in words_of(n)]
        frames = chain[:h[1]]
        fr = '[' + ','.join(map(str, frames)) + ']'
        fl = '[' + '+'.join(names_of(CALLSTACK, h[0])) + ']'
        text += ', frames count: %d' % len(frames)
    return {'name': 'PERF_Event', 'start_ts': c['start']['ts'], 'end_ts': c['end']['ts'], 'strength': 'full',
            'error': None, 'extra': 'perf:%s:%s:%s' % (th, fr, fl), 'text': text, 'tp_set': tp_set}


def describe(sc, specs, codes):
    """Expected composite outcomes in delivery order, the point where the stream must abort (if any), and the
    expected threads_pids table (None when the scenario leaves the fully specified domain)."""
    exps = []
    for c in sc.composites:
        f = {'vmfault': expect_vmfault, 'launch': expect_launch, 'sampler': expect_sampler}[c['kind']]
        exps.append(f(c, codes))
    exps.sort(key=lambda x: x['end_ts'])
    if 'other-handler' in sc.tags:          # the whole stream is outside the property
        for x in exps:
            x['strength'] = 'weak'
    # records decoded on their own that raise: a RealFaultAddress* single with an invalid fault-type byte
    aborts = []
    for s in specs:
        if s['q'] in (NONE, ALL) and name_in(codes, s['eid']) in REAL3 and (words_of(s)[1] & 0xff) not in FAULT:
            aborts.append(s['ts'])
    for x in exps:
        if x.get('error'):
            aborts.append(x['end_ts'])
    abort = min(aborts) if aborts else None
    weak = any(x['strength'] == 'weak' for x in exps)
    # threads_pids: every PERF_THD_Data record decoded on its own, then the sampler's own update at its END
    tp = {}
    if not weak and not sc.tags.count('no-tp'):
        ends = {x['end_ts']: x for x in exps}
        for s in specs:
            if abort is not None and s['ts'] >= abort:
                break
            if s['q'] in (NONE, ALL) and name_in(codes, s['eid']) == 'PERF_THD_Data':
                w = words_of(s)
                tp[w[1]] = w[0]
            x = ends.get(s['ts'])
            if x is not None and x.get('tp_set'):
                tp[x['tp_set'][0]] = x['tp_set'][1]
        tp = {str(k): v for k, v in tp.items()}
    else:
        tp = None
    return {'expect': exps, 'abort': abort, 'tp': tp}


# ---------------------------------------------------------------------------------------------------------
# the oracle

COMPOSITE_NAMES = ('MACH_vmfault', 'DBG_DYLD_TIMING_LAUNCH_EXECUTABLE', 'PERF_Event')


def oracle(case, got):
    try:
        traces, err, tabs = P.parse_answer(got)
    except Exception:
        return ('composite:harness-exception', 'the real pipeline raised outside feed_generator: %s' % got[:200])
    d = case['desc']
    abort = d['abort']
    weak = any(x['strength'] == 'weak' for x in d['expect'])
    found = {}
    for t in traces:
        if t['name'] in COMPOSITE_NAMES and len(t['ts']) >= 1:
            found[(t['name'], t['ts'][0], t['ts'][-1])] = t
    for x in d['expect']:
        key = (x['name'], x['start_ts'], x['end_ts'])
        kind = {'MACH_vmfault': 'vmfault', 'DBG_DYLD_TIMING_LAUNCH_EXECUTABLE': 'launch', 'PERF_Event': 'sampler'}[x['name']]
        if abort is not None and x['end_ts'] > abort:
            if key in found and not weak:
                return (kind + ':delivered-after-abort', 'a trace was delivered after the stream should have raised')
            continue
        if x['strength'] == 'weak':
            t = found.get(key)
            if t is not None and 'ft' in x:
                parts = t['extra'].split(':')
                if parts[:3] != ['vmfault', str(x['result']), x['ft']]:
                    return ('vmfault:wrong-result-or-type', 'payload %s, END record says result %d type %s'
                            % (t['extra'], x['result'], x['ft']))
            return None        # what another handler makes of the in-range records is outside the property
        if x.get('error'):
            if err != x['error']:
                return (kind + ':missing-' + x['error'],
                        '%s: expected the stream to raise %s (%s), got err=%s' % (x['name'], x['error'], x.get('why'), err))
            if key in found:
                return (kind + ':delivered-despite-error', 'trace delivered although %s' % x.get('why'))
            return None
        t = found.get(key)
        if t is None:
            if err != '-':
                sig = kind + ':crash-' + err
                if kind == 'vmfault' and err == 'AttributeError' and 'undecoded kind' in (x.get('why') or ''):
                    sig = 'vmfault:undecoded-kind-crash'
                return (sig, '%s window %d..%d: the stream raised %s, expected payload %s (%s)'
                        % (x['name'], x['start_ts'], x['end_ts'], err, x['extra'], x.get('why')))
            return (kind + ':trace-missing', '%s window %d..%d produced no trace' % (x['name'], x['start_ts'], x['end_ts']))
        if t['extra'] != x['extra']:
            return (kind + ':' + payload_signature(kind, t['extra'], x['extra']),
                    '%s window %d..%d: payload %s, expected %s (%s)'
                    % (x['name'], x['start_ts'], x['end_ts'], t['extra'], x['extra'], x.get('why')))
        if t['text'] != x['text']:
            return (kind + ':wrong-text', '%s: text %r, expected %r' % (x['name'], t['text'], x['text']))
    if abort is None and err != '-' and not weak:
        return ('composite:unexpected-' + err, 'the stream raised %s, nothing in the scenario should' % err)
    if not weak:
        n_exp = sum(1 for x in d['expect'] if abort is None or x['end_ts'] < abort)
        n_got = len(found)
        if n_got != n_exp:
            return ('composite:trace-count', '%d composite traces delivered, %d windows in the scenario' % (n_got, n_exp))
    if d['tp'] is not None and not weak:
        want = ','.join('%d:%d' % (int(k), v) for k, v in sorted(d['tp'].items(), key=lambda kv: int(kv[0]))) or '-'
        if tabs.get('tp') != want:
            return ('sampler:threads-pids', 'threads_pids %s, expected %s' % (tabs.get('tp'), want))
    return None


def payload_signature(kind, got, want):
    g, w = got.split(':'), want.split(':')
    if kind == 'vmfault' and len(g) == 5 and len(w) == 5:
        for i, nm in ((1, 'result'), (2, 'type'), (3, 'pid'), (4, 'prot')):
            if g[i] != w[i]:
                return 'wrong-' + nm
    if kind == 'sampler' and len(g) == 4 and len(w) == 4:
        for i, nm in ((1, 'thread-info'), (2, 'frames'), (3, 'flags')):
            if g[i] != w[i]:
                return 'wrong-' + nm
    if kind == 'launch':
        ge = got[len('launch:'):].split('+') if got != 'launch:' else []
        we = want[len('launch:'):].split('+') if want != 'launch:' else []
        if sorted(ge) != sorted(we):
            return 'wrong-entries'
        return 'wrong-order'
    return 'wrong-payload'


# ---------------------------------------------------------------------------------------------------------
# generators

def real_args(rng, pid=None, ftype=None, prot=None):
    ftype = rng.randrange(1, 12) if ftype is None else ftype
    prot = rng.choice([0, 1, 2, 3, 5, 7, 0x13, 0x80, 0xff]) if prot is None else prot
    pid = rng.randrange(1, 60000) if pid is None else pid
    return [0x1000 * rng.randrange(1, 99), ftype | (prot << 8) | (rng.randrange(0, 4) << 16), rng.randrange(0, 1 << 20), pid]


VM_ALPHA = ['I', 'P', 'E', 'S', 'sched', 'near-lo', 'near-hi', 'syscall']
VM_EID = {'I': R_INT, 'P': R_PUR, 'E': R_EXT, 'S': R_SHC}


def vm_window(sc, rng, tid, seq, end=None, start_eid=E_VMFAULT, real_q=None, bad_at=None, outside=True):
    """START, the nested records named by `seq`, END on thread `tid` (+ in-range records before / after the window)."""
    nested, specs = [], []
    for i, k in enumerate(seq):
        if k in VM_EID:
            a = real_args(rng)
            q = rng.choice([NONE, NONE, ALL, START]) if real_q is None else real_q
            if bad_at == i:
                a[1] = (a[1] & ~0xff) | rng.choice([0, 12, 0x4d, 0xff])
                q = START                   # decoded only inside the window (a single would raise on its own)
            r = rec(VM_EID[k], q, a)
            nested.append(r)
            specs.append(r)
        else:
            u = unrelated(k, rng)
            nested += u
            specs += u
    if end is None:
        end = [rng.randrange(0, 9), rng.randrange(0, 9), 0, rng.randrange(1, 12)]
    st = rec(start_eid, START, [rng.randrange(0, 4), rng.randrange(0, 1 << 48), rng.choice([0, 1, 2]), 0])
    en = rec(start_eid, END, end)
    pre = [rec(rng.choice([R_INT, R_EXT, R_SHC]), NONE, real_args(rng))] if outside and rng.random() < 0.5 else []
    post = [rec(rng.choice([R_INT, R_EXT, R_SHC]), NONE, real_args(rng))] if outside and rng.random() < 0.5 else []
    sc.add(tid, pre + [st] + specs + [en] + post)
    sc.composites.append({'kind': 'vmfault', 'start': st, 'end': en, 'nested': nested})


def other_thread_noise(sc, rng, tid, kinds):
    specs = []
    for k in kinds:
        if k == 'real':
            specs.append(rec(rng.choice([R_INT, R_PUR, R_EXT, R_SHC]), NONE, real_args(rng)))
        elif k == 'thd':
            specs.append(rec(E_THD, NONE, [rng.randrange(1, 50), rng.randrange(100, 110), 0x1000, 1]))
        elif k == 'hdr':
            specs.append(rec(E_UHDR, NONE, [rng.randrange(0, 0x200), rng.randrange(0, 9), 0, 0]))
        elif k == 'udata':
            specs.append(rec(E_UDATA, NONE, [rng.randrange(1 << 40) for _ in range(4)]))
        elif k == 'map':
            specs.append(rec(E_MAPA, NONE, data=rng.randbytes(16) + (0x1000).to_bytes(8, 'little') + (7).to_bytes(8, 'little')))
        elif k == 'shared':
            specs.append(rec(E_SHA, NONE, data=rng.randbytes(16) + (0x2000).to_bytes(8, 'little') + (7).to_bytes(8, 'little')))
        else:
            specs += unrelated(k, rng)
    sc.add(tid, specs)


def seqs(alpha, maxlen):
    for n in range(maxlen + 1):
        for s in itertools.product(alpha, repeat=n):
            yield list(s)


def gen_vmfault(rng, tier):
    cases = []
    core_alpha = ['I', 'P', 'E', 'S', 'sched', 'near-hi']
    # every sequence of 0..4 nested records over the four in-range kinds + two unrelated kinds
    for seq in seqs(core_alpha, 4):
        sc = Scenario(rng)
        vm_window(sc, rng, 5, seq)
        if rng.random() < 0.5:
            other_thread_noise(sc, rng, 6, rng.choices(['real', 'sched', 'thd'], k=rng.randrange(1, 4)))
        sc.tags = ['enum']
        cases.append(sc.case())
    n = 1500 if tier == 'quick' else 15000
    for _ in range(n):
        sc = Scenario(rng)
        seq = rng.choices(VM_ALPHA, k=rng.choice([0, 1, 2, 3, 4, 4, 6]))
        r = rng.random()
        end, bad = None, None
        if r < 0.15:
            end = [0, 0, rng.choice([1, 2, 14, 1 << 40]), rng.randrange(0, 14)]        # result != 0
            sc.tags = ['result-nonzero']
        elif r < 0.25:
            end = [0, 0, 0, rng.choice([0, 12, 77, 1 << 33])]                           # type not a member
            sc.tags = ['bad-end-type']
        elif r < 0.40:
            idx = [i for i, k in enumerate(seq) if k in VM_EID]
            if idx:
                bad = rng.choice(idx)
            sc.tags = ['bad-nested-type']
        else:
            sc.tags = ['plain']
        vm_window(sc, rng, 5, seq, end=end, bad_at=bad)
        for tid in rng.sample([6, 7], rng.randrange(0, 3)):
            if rng.random() < 0.5:
                other_thread_noise(sc, rng, tid, rng.choices(['real', 'sched', 'syscall', 'thd'], k=rng.randrange(1, 4)))
            else:
                vm_window(sc, rng, tid, rng.choices(VM_ALPHA, k=rng.randrange(0, 4)))
        cases.append(sc.case())
    # custom code tables that rename ids INSIDE the range among decoded / undecoded kinds, remove a name, or put the
    # START/END id itself into the range
    patches = [{R_PUR: 'RealFaultAddressInternal'}, {R_INT: 'RealFaultAddressPurgeable'}, {R_EXT: None},
               {R_SHC: 'NoSuchName'}, {R_INT: 'RealFaultAddressExternal', R_EXT: 'RealFaultAddressInternal'},
               {R_PUR: 'RealFaultAddressSharedCache', R_SHC: None}, {R_INT: None, R_PUR: None, R_EXT: None, R_SHC: None}]
    m = 60 if tier == 'quick' else 600
    for patch in patches:
        for _ in range(m):
            sc = Scenario(rng)
            sc.codes_patch = dict(patch)
            sc.tags = ['renamed-in-range']
            vm_window(sc, rng, 5, rng.choices(['I', 'P', 'E', 'S', 'sched'], k=rng.choice([1, 2, 3, 4])))
            cases.append(sc.case())
    for start_eid, alpha in ((R_PUR, ['I', 'E', 'S', 'sched', 'near-lo']), (R_INT, ['P', 'E', 'S', 'sched']),
                             (R_SHC, ['I', 'P', 'E', 'syscall'])):
        for _ in range(m):
            sc = Scenario(rng)
            sc.codes_patch = {start_eid: 'MACH_vmfault'}
            sc.tags = ['start-end-in-range']
            vm_window(sc, rng, 5, rng.choices(alpha, k=rng.choice([0, 0, 1, 2, 3])), start_eid=start_eid, outside=False)
            cases.append(sc.case())
    return cases


def image_data(rng, addr):
    return rng.randbytes(16) + addr.to_bytes(8, 'little') + rng.randrange(1, 99).to_bytes(8, 'little')


ADDRS = [0x1000, 0x1000, 0x1001, 0xfff, 0x2000, 0x2000, 0, (1 << 63), (1 << 64) - 1, 0x7fff20000000]


def launch_window(sc, rng, tid, seq, addrs=None):
    nested = []
    for k in seq:
        a = rng.choice(ADDRS) if addrs is None else addrs.pop(0)
        if k == 'map':
            nested.append(rec(E_MAPA, rng.choice([NONE, NONE, ALL]), data=image_data(rng, a)))
        elif k == 'shared':
            nested.append(rec(E_SHA, rng.choice([NONE, NONE, ALL]), data=image_data(rng, a)))
        else:
            nested += unrelated(k, rng)
    st = rec(E_LAUNCH, START, [0, rng.randrange(0, 1 << 48), 0, 0])
    en = rec(E_LAUNCH, END, [0, 0, 0, 0])
    pre = [rec(E_MAPA, NONE, data=image_data(rng, 0x500))] if rng.random() < 0.4 else []
    post = [rec(E_SHA, NONE, data=image_data(rng, 0x600))] if rng.random() < 0.4 else []
    sc.add(tid, pre + [st] + nested + [en] + post)
    sc.composites.append({'kind': 'launch', 'start': st, 'end': en, 'window': [st] + nested + [en]})


def gen_launch(rng, tier):
    cases = []
    alpha = ['map', 'shared', 'mapb', 'sched']
    for seq in seqs(alpha, 4):
        for variant in range(2 if tier == 'quick' else 6):
            sc = Scenario(rng)
            k = sum(1 for x in seq if x in ('map', 'shared'))
            addrs = None
            if variant == 0:
                addrs = [0x2000] * len(seq)                                     # all equal: pure stability
            elif variant == 1:
                addrs = [0x3000 - i for i in range(len(seq))]                   # strictly descending, adjacent
            launch_window(sc, rng, 5, seq, addrs)
            if rng.random() < 0.4:
                other_thread_noise(sc, rng, 6, rng.choices(['map', 'shared', 'sched'], k=rng.randrange(1, 4)))
            sc.tags = ['enum', 'n=%d' % k]
            cases.append(sc.case())
    n = 1000 if tier == 'quick' else 12000
    for _ in range(n):
        sc = Scenario(rng)
        launch_window(sc, rng, 5, rng.choices(['map', 'shared', 'mapb', 'unmap', 'sched', 'syscall'], k=rng.randrange(0, 9)))
        if rng.random() < 0.4:
            launch_window(sc, rng, 6, rng.choices(['map', 'shared', 'sched'], k=rng.randrange(0, 5)))
        r = rng.random()
        if r < 0.1:
            sc.codes_patch = {E_MAPB: 'DYLD_uuid_map_a'}
        elif r < 0.2:
            sc.codes_patch = {E_MAPA: None}
        elif r < 0.3:
            sc.codes_patch = {E_MAPA: 'DYLD_uuid_shared_cache_a', E_SHA: 'DYLD_uuid_map_a'}
        elif r < 0.35:
            sc.codes_patch = {E_SHA: 'DYLD_uuid_shared_cache_b'}
        sc.tags = ['random'] + (['renamed'] if sc.codes_patch else [])
        cases.append(sc.case())
    return cases


def sampler_window(sc, rng, tid, flags, seq, nframes=None, single=False):
    nested = []
    nwords = 4 * sum(1 for k in seq if k == 'udata')
    for k in seq:
        if k == 'thd':
            nested.append(rec(E_THD, rng.choice([NONE, NONE, ALL, START]),
                              [rng.randrange(1, 50), rng.choice([100, 100, 101, 102]), 0x1000, rng.randrange(0, 0x80)]))
        elif k == 'hdr':
            nf = rng.choice([0, 1, 3, 4, 5, 7, 8, nwords, nwords + 1, max(nwords - 1, 0), 1 << 40]) if nframes is None else nframes
            nested.append(rec(E_UHDR, NONE, [rng.randrange(0, 0x200), nf, 0, 0]))
        elif k == 'udata':
            nested.append(rec(E_UDATA, NONE, [rng.randrange(1 << 48) for _ in range(4)]))
        else:
            nested += unrelated(k, rng)
    aid = rng.randrange(0, 9)
    if single:
        st = rec(E_PERF, rng.choice([NONE, ALL]), [flags, aid, 0, 0])
        sc.add(tid, [st] + nested)
        sc.composites.append({'kind': 'sampler', 'start': st, 'end': st, 'window': [st]})
        return
    st = rec(E_PERF, START, [flags, aid, 0, 0])
    en = rec(E_PERF, END, [rng.randrange(0, 1 << 14), aid, 0, 0])
    sc.add(tid, [st] + nested + [en])
    sc.composites.append({'kind': 'sampler', 'start': st, 'end': en, 'window': [st] + nested + [en]})


def gen_sampler(rng, tier):
    cases = []
    alpha = ['thd', 'hdr', 'udata', 'sched']
    all_seqs = list(seqs(alpha, 4))
    # the two flag bits x every sequence (hence x record presence: all 2^4 combinations many times over)
    for b0 in (0, 1):
        for b3 in (0, 8):
            for seq in all_seqs:
                sc = Scenario(rng)
                other = rng.choice([0, 0, 2, 4, 0x3ff6, 0x10, 0x2000])
                sampler_window(sc, rng, 5, b0 | b3 | other, seq)
                sc.tags = ['enum', 'bits=%d%d' % (b0, b3 >> 3), 'thd=%d' % ('thd' in seq), 'hdr=%d' % ('hdr' in seq)]
                cases.append(sc.case())
    # header count below / equal / above the data supplied
    for nd in range(0, 4):
        for nf in sorted({0, 1, 4 * nd - 1, 4 * nd, 4 * nd + 1, 4 * nd + 7, 1 << 63} - {-1}):
            for order in (['hdr'] + ['udata'] * nd, ['udata'] * nd + ['hdr'], ['udata'] * (nd // 2) + ['hdr'] + ['udata'] * (nd - nd // 2)):
                sc = Scenario(rng)
                sampler_window(sc, rng, 5, 8 | rng.choice([0, 1]), order, nframes=nf)
                sc.tags = ['frames', 'nd=%d' % nd]
                cases.append(sc.case())
    n = 1000 if tier == 'quick' else 12000
    for _ in range(n):
        sc = Scenario(rng)
        flags = rng.choice([0, 1, 8, 9, 0xb, 0x3fff, 0x3ff6, rng.randrange(0, 1 << 14)])
        sampler_window(sc, rng, 5, flags, rng.choices(['thd', 'hdr', 'udata', 'sched', 'syscall', 'kstack'], k=rng.randrange(0, 9)),
                       single=rng.random() < 0.08)
        for tid in rng.sample([6, 7], rng.randrange(0, 3)):
            if rng.random() < 0.5:
                other_thread_noise(sc, rng, tid, rng.choices(['thd', 'hdr', 'udata', 'sched'], k=rng.randrange(1, 5)))
            else:
                sampler_window(sc, rng, tid, rng.choice([0, 1, 8, 9]), rng.choices(['thd', 'hdr', 'udata'], k=rng.randrange(0, 5)))
        r = rng.random()
        if r < 0.06:
            sc.codes_patch = {E_KHDR: 'PERF_STK_UHdr'}
        elif r < 0.12:
            sc.codes_patch = {E_THD: None}
        elif r < 0.18:
            sc.codes_patch = {E_UDATA: 'PERF_STK_KData', E_KDATA: 'PERF_STK_UData'}
        sc.tags = ['random'] + (['renamed'] if sc.codes_patch else [])
        cases.append(sc.case())
    return cases


OTHER_HANDLERS = ['MACH_SCHED', 'BSC_open', 'PERF_Event', 'PERF_THD_Data', 'MACH_vmfault', 'VFS_LOOKUP', 'DYLD_uuid_map_a',
                  'DBG_DYLD_TIMING_LAUNCH_EXECUTABLE', 'BSC_rename', 'TRACE_DATA_NEWTHREAD', 'TRACE_STRING_GLOBAL',
                  'MSC_mach_vm_allocate_trap', 'PERF_STK_UHdr', 'DecrSet', 'BSC_getpid', 'TRACE_STRING_THREADNAME']


def gen_custom(rng, tier):
    """Custom code tables under which ANOTHER handler decodes an in-range id (outside the property: model vs. code)."""
    cases = []
    n = 50 if tier == 'quick' else 500
    for other in OTHER_HANDLERS:
        for _ in range(n):
            sc = Scenario(rng)
            victim = rng.choice([R_INT, R_PUR, R_EXT, R_SHC])
            sc.codes_patch = {victim: other}
            if rng.random() < 0.3:
                sc.codes_patch[rng.choice([R_INT, R_PUR, R_EXT, R_SHC])] = rng.choice(OTHER_HANDLERS)
            sc.tags = ['other-handler', 'no-tp']
            vm_window(sc, rng, 5, rng.choices(['I', 'P', 'E', 'S', 'sched'], k=rng.choice([1, 2, 3, 4])),
                      real_q=rng.choice([None, START]))
            if rng.random() < 0.3:
                other_thread_noise(sc, rng, 6, ['real', 'thd'])
            cases.append(sc.case())
    return cases


# ---------------------------------------------------------------------------------------------------------
# value coincidences between a nested record and its enclosing window (and among the nested records)
#
# The generators above give every record its own random words, so a nested record practically never carries a word of
# the window's START / END record.  Here the words of a window and of everything nested in it are drawn from a SMALL pool
# per window, and a `mode` fixes which nested candidates repeat words of the START / END records: the first one / only
# a later one / none / all / a random subset.  Which record a composite reads is a matter of position and kind alone,
# so the description-based oracle (expect_*) is unchanged.

CO_MODES = ('first', 'later', 'none', 'all', 'random')


def co_marks(rng, n, mode):
    """Which of n nested candidates repeat words of the enclosing START / END records."""
    if mode == 'first':
        return [i == 0 for i in range(n)]
    if mode == 'later':
        j = rng.randrange(1, n) if n > 1 else 0
        return [i == j for i in range(n)]
    if mode == 'none':
        return [False] * n
    if mode == 'all':
        return [True] * n
    return [rng.random() < 0.5 for _ in range(n)]


def co_masks(n):
    return [list(m) for m in itertools.product((False, True), repeat=n)]


def pick(rng, pool, p, fresh):
    return rng.choice(pool) if pool and rng.random() < p else fresh()


def vm_window_co(sc, rng, tid, seq, marks, result=0):
    """A page-fault window whose END repeats the START's address words (as the kernel writes them) and whose nested
    in-range records repeat — where marked — the fault address / other START and END words as their own address and pid;
    unmarked candidates share words among themselves."""
    addr = rng.choice([0x16b99c000, 0x1000 * rng.randrange(1, 1 << 30), rng.randrange(1, 60000)])
    hi = rng.choice([addr >> 32, rng.randrange(0, 4), tid])
    ftype = rng.randrange(1, 12)
    st_w = [hi, addr, rng.choice([0, 1]), rng.choice([0, 0, tid])]
    en_w = [rng.choice([hi, 0]), rng.choice([addr, addr, 0]), result, ftype]
    win_addr = [addr, addr, addr, st_w[0], en_w[0], en_w[1], tid]
    win_pid = [tid, st_w[0], st_w[2], st_w[3], en_w[3], addr, en_w[1]]
    # the pool of the unmarked candidates: a few values none of which is a word of START / END
    taken = set(st_w + en_w + [tid])
    own_addr = [a for a in (0x104a30000, 0x104a34000, 0x7000) if a not in taken]
    own_pid = [p for p in (41, 95, 4242) if p not in taken]
    own_flags = [rng.randrange(1, 12) | (rng.choice([0, 1, 3, 5, 7, 0x13]) << 8) | (rng.randrange(0, 4) << 16) for _ in range(2)]
    nested, specs, ci = [], [], 0
    for k in seq:
        if k in VM_EID:
            if marks[ci]:
                a0 = pick(rng, win_addr, 0.9, lambda: rng.choice(own_addr))
                a3 = pick(rng, win_pid, 0.5, lambda: rng.choice(own_pid))
                # the flags word may repeat the END's fault-type word (protection 0, tag 0) or the END's type byte
                a1 = rng.choice([ftype, ftype | (rng.choice([1, 3, 5]) << 8), rng.choice(own_flags)])
                a2 = rng.choice([addr, 0, rng.randrange(0, 1 << 20)])
            else:
                a0 = rng.choice(own_addr)
                a3 = rng.choice(own_pid)
                a1 = rng.choice(own_flags)
                a2 = rng.randrange(0, 1 << 20)
            ci += 1
            r = rec(VM_EID[k], rng.choice([NONE, NONE, ALL, START]), [a0, a1, a2, a3])
            nested.append(r)
            specs.append(r)
        else:
            u = unrelated(k, rng)
            nested += u
            specs += u
    st = rec(E_VMFAULT, START, st_w)
    en = rec(E_VMFAULT, END, en_w)
    # an in-range record of the fault address just outside the window must not matter either
    pre = [rec(rng.choice([R_INT, R_EXT, R_SHC]), NONE, [addr, rng.choice(own_flags), 0, rng.choice(own_pid)])] if rng.random() < 0.3 else []
    post = [rec(rng.choice([R_INT, R_EXT, R_SHC]), NONE, [addr, rng.choice(own_flags), 0, rng.choice(own_pid)])] if rng.random() < 0.3 else []
    sc.add(tid, pre + [st] + specs + [en] + post)
    sc.composites.append({'kind': 'vmfault', 'start': st, 'end': en, 'nested': nested})


def launch_window_co(sc, rng, tid, seq, marks):
    """A launch window whose nested map records repeat — where marked — the main executable's address as load address
    and words of the START record inside the uuid; unmarked ones share uuids and load addresses among themselves
    (incl. byte-identical payloads)."""
    mh = rng.choice([0x100000000, 0x1000 * rng.randrange(1, 1 << 30), 0x2000])
    st_w = [rng.choice([0, tid]), mh, rng.choice([0, mh]), 0]
    uu_win = [mh.to_bytes(8, 'little') + mh.to_bytes(8, 'little'), bytes(16), st_w[0].to_bytes(8, 'little') + mh.to_bytes(8, 'little')]
    uu_own = [rng.randbytes(16) for _ in range(2)]
    ad_own = [a for a in (0x1000, 0x3000, mh + 0x4000, mh - 0x1000) if a != mh]
    nested, ci = [], 0
    for k in seq:
        if k in ('map', 'shared'):
            if marks[ci]:
                a = pick(rng, [mh, mh, st_w[0], st_w[2]], 0.9, lambda: rng.choice(ad_own))
                u = pick(rng, uu_win, 0.5, lambda: rng.choice(uu_own))
                fs = rng.choice([mh, tid, 7])
            else:
                a, u, fs = rng.choice(ad_own), rng.choice(uu_own), 7
            ci += 1
            nested.append(rec(E_MAPA if k == 'map' else E_SHA, rng.choice([NONE, NONE, ALL]),
                              data=u + a.to_bytes(8, 'little') + fs.to_bytes(8, 'little')))
        else:
            nested += unrelated(k, rng)
    st = rec(E_LAUNCH, START, st_w)
    en = rec(E_LAUNCH, END, [0, rng.choice([0, mh]), 0, 0])
    pre = [rec(E_MAPA, NONE, data=rng.choice(uu_own) + mh.to_bytes(8, 'little') + (7).to_bytes(8, 'little'))] if rng.random() < 0.3 else []
    post = [rec(E_SHA, NONE, data=rng.choice(uu_own) + mh.to_bytes(8, 'little') + (7).to_bytes(8, 'little'))] if rng.random() < 0.3 else []
    sc.add(tid, pre + [st] + nested + [en] + post)
    sc.composites.append({'kind': 'launch', 'start': st, 'end': en, 'window': [st] + nested + [en]})


def sampler_window_co(sc, rng, tid, flags, seq, marks):
    """A sampler window whose nested thread-info / stack-header / stack-data records repeat — where marked — the
    window's own thread id, flags word and action id; unmarked ones share their words among themselves."""
    aid = rng.choice([1, 2, tid])
    st_w = [flags, aid, rng.choice([0, tid]), 0]
    win = [tid, flags, aid]
    pids, tids = [33, 34], [100, 101]
    nud = sum(1 for k in seq if k == 'udata')
    counts = [0, 1, 4, max(4 * nud - 1, 0), 4 * nud, 4 * nud + 1]
    own_words = [rng.randrange(1 << 40) for _ in range(3)]
    nested, ci = [], 0
    for k in seq:
        if k in ('thd', 'hdr', 'udata'):
            m = marks[ci]
            ci += 1
            if k == 'thd':
                w = [pick(rng, win, 0.5 if m else 0, lambda: rng.choice(pids)),
                     pick(rng, [tid, tid, aid], 0.9 if m else 0, lambda: rng.choice(tids)), 0x1000, rng.randrange(0, 0x80)]
                nested.append(rec(E_THD, rng.choice([NONE, NONE, ALL, START]), w))
            elif k == 'hdr':
                w = [pick(rng, [flags & 0x1ff, aid, tid & 0x1ff], 0.8 if m else 0, lambda: rng.choice([0, 1, 5, 0x21])),
                     pick(rng, [aid, flags, tid], 0.5 if m else 0, lambda: rng.choice(counts)), 0, 0]
                nested.append(rec(E_UHDR, NONE, w))
            else:
                w = [pick(rng, win, 0.6 if m else 0, lambda: rng.choice(own_words)) for _ in range(4)]
                nested.append(rec(E_UDATA, NONE, w))
        else:
            nested += unrelated(k, rng)
    st = rec(E_PERF, START, st_w)
    en = rec(E_PERF, END, [rng.choice([flags, flags, 0, rng.randrange(0, 1 << 14)]), aid, 0, 0])
    sc.add(tid, [st] + nested + [en])
    sc.composites.append({'kind': 'sampler', 'start': st, 'end': en, 'window': [st] + nested + [en]})


def gen_coincide(rng, tier):
    cases = []
    big = [5, 0x5151, 101]              # window thread ids (101: also a thread id the nested thread-info records name)

    def done(sc, kind, mode):
        route = rng.choice(P.ROUTES)            # the same window through TracesParser and through a dump file
        sc.tags = ['co-' + kind, mode, route]
        c = sc.case()
        c['route'] = route
        cases.append(c)

    # page faults: every sequence of 1..3 in-range candidates x every subset of them marked
    for n in (1, 2, 3):
        for kinds in itertools.product('IPES', repeat=n):
            for marks in co_masks(n):
                sc = Scenario(rng)
                seq, m = [], []
                for k, mk in zip(kinds, marks):
                    if rng.random() < 0.3:
                        seq.append(rng.choice(['sched', 'near-lo', 'near-hi']))
                    seq.append(k)
                    m.append(mk)
                vm_window_co(sc, rng, rng.choice(big), seq, m, result=0)
                done(sc, 'vmfault', 'enum')
    reps = 1 if tier == 'quick' else 10
    for _ in range(reps):
        for mode in CO_MODES:
            for _ in range(120):
                sc = Scenario(rng)
                seq = rng.choices(VM_ALPHA, weights=[3, 2, 3, 3, 1, 1, 1, 1], k=rng.choice([1, 2, 3, 4, 6]))
                n = sum(1 for k in seq if k in VM_EID)
                vm_window_co(sc, rng, rng.choice(big), seq, co_marks(rng, n, mode),
                             result=rng.choice([0, 0, 0, 0, 1, 14]))
                if rng.random() < 0.3:              # a second window on another thread drawing from its own pool
                    seq2 = rng.choices(VM_ALPHA[:5], k=rng.randrange(0, 4))
                    vm_window_co(sc, rng, 6, seq2, co_marks(rng, sum(1 for k in seq2 if k in VM_EID), 'random'))
                done(sc, 'vmfault', mode)
            for _ in range(60):
                sc = Scenario(rng)
                seq = rng.choices(['map', 'shared', 'mapb', 'unmap', 'sched'], weights=[4, 4, 1, 1, 1], k=rng.randrange(1, 7))
                n = sum(1 for k in seq if k in ('map', 'shared'))
                launch_window_co(sc, rng, rng.choice(big), seq, co_marks(rng, n, mode))
                done(sc, 'launch', mode)
            for _ in range(100):
                sc = Scenario(rng)
                seq = rng.choices(['thd', 'hdr', 'udata', 'sched', 'kstack'], weights=[4, 3, 4, 1, 1], k=rng.randrange(1, 8))
                n = sum(1 for k in seq if k in ('thd', 'hdr', 'udata'))
                flags = rng.choice([1, 8, 9, 9, 0xb, 0x3fff, 0, rng.randrange(0, 1 << 14)])
                sampler_window_co(sc, rng, rng.choice(big), flags, seq, co_marks(rng, n, mode))
                done(sc, 'sampler', mode)
    # launch / sampler: every sequence of 1..3 candidates x every subset marked
    for n in (1, 2, 3):
        for kinds in itertools.product(('map', 'shared'), repeat=n):
            for marks in co_masks(n):
                sc = Scenario(rng)
                launch_window_co(sc, rng, rng.choice(big), list(kinds), marks)
                done(sc, 'launch', 'enum')
        for kinds in itertools.product(('thd', 'hdr', 'udata'), repeat=n):
            for marks in co_masks(n):
                sc = Scenario(rng)
                sampler_window_co(sc, rng, rng.choice(big), rng.choice([9, 9, 1, 8, 0xb]), list(kinds), marks)
                done(sc, 'sampler', 'enum')
    return cases


# ---------------------------------------------------------------------------------------------------------

def check_attributes(rep):
    """The two reflective facts the model hard-codes: attribute positions of RealFaultAddress*, and which dataclasses
    have both attributes `handle_mach_vmfault` reads."""
    import dataclasses
    import importlib
    sec = rep.section('attributes')
    sec['rule'] = ('reflection on the handler modules: RealFaultAddress* field order (pid 6th, caller_prot 3rd after '
                   'ktraces); the only dataclasses with both `pid` and `caller_prot` are those three and MachVmfault')
    both = set()
    for m in ('bsd', 'dyld', 'fsystem', 'mach', 'perf', 'trace', 'turnstile'):
        mod = importlib.import_module('pykdebugparser.trace_handlers.' + m)
        for nm, obj in vars(mod).items():
            if isinstance(obj, type) and dataclasses.is_dataclass(obj):
                fs = [f.name for f in dataclasses.fields(obj)]
                if 'pid' in fs and 'caller_prot' in fs:
                    both.add(nm)
                if nm in REAL3:
                    sec['cases'] += 1
                    if fs[1:] != ['vaddr', 'user_tag', 'caller_prot', 'fault_type', 'offset', 'pid']:
                        rep.broken.append('attributes: %s fields are %s' % (nm, fs))
    sec['cases'] += 1
    sec['distinct_nontrivial'] = sec['cases']
    if both != set(REAL3) | {'MachVmfault'}:
        rep.broken.append('attributes: dataclasses with pid and caller_prot: %s' % sorted(both))


def nontrivial(c, got):
    return any(x.get('extra', '') not in ('', 'launch:', 'perf:None:None:None') or x.get('error')
               for x in c['desc']['expect'])


def kind_of(c, got):
    tags = [t for t in c.get('tags', []) if not t.startswith('n=')]
    return ','.join(tags) or '-'


def section(rep, name, cases, rule):
    core.run_section(rep, name, cases, line_fn=P.line, impl_fn=P.impl_route_fn, oracle_fn=oracle, skip_fn=P.unmodelled,
                     nontrivial_fn=nontrivial, kind_fn=kind_of, rule=rule,
                     sample_fn=lambda c: {'section': name, 'events': len(c['events']), 'expect': c['desc']['expect'][:2]})


MIRROR = {'traces': 'tracesco'}


def translation_tie(rep):
    """Checks `source_is_expected_ir` through the driver (the build reports it too, with less detail) and switches the `*-ir`
    mirror sections on: every section driven by `traces` is driven a second time through the composite handlers GENERATED
    from perf.py / mach.py / dyld.py (`tracesco`) and compared with the same answers of the real code."""
    ans = core.drive(['coircheck'])[0]
    if ans == 'same':
        rep.notes.append('translation tie: Gen/PyIRCo (from trace_handlers/perf.py, mach.py handle_mach_vmfault, dyld.py '
                         'handle_timing_launch_executable) = Spec/PyIRCoExpected')
    else:
        rep.broken.append('theorem source_is_expected_ir: the IR that tools/gen_pyir_co.py translates from the source text of '
                          'the composite handlers (trace_handlers/perf.py, mach.py, dyld.py) is not the program of '
                          'Spec/PyIRCoExpected that handle_*_ir_eq_model are proved for (%s)' % ans)
    rep.mirror = dict(MIRROR)
    return 'unsupported' not in ans


def correspondence(rep, rng, tier):
    translation_tie(rep)
    check_attributes(rep)
    section(rep, 'vmfault', gen_vmfault(rng, tier),
            'page-fault windows through the real feed_generator: every sequence of 0..4 nested records over '
            '{Internal, Purgeable, External, SharedCache, scheduler record, record just above the id range} + random windows '
            'with syscalls+lookups, records just below the range, in-range records before START / after END and on other '
            'threads, second page-fault windows on other threads, result != 0, END type outside the enum, nested fault-type '
            'byte outside the enum (START-qualified so that it is decoded only inside the window), qualifiers NONE/ALL/START; '
            'custom code tables renaming / removing in-range ids and putting the START/END id itself into the range; oracle = '
            'payload, text, exception and trace count recomputed from the scenario description')
    section(rep, 'launch', gen_launch(rng, tier),
            'launch windows: every sequence of 0..4 nested records over {map_a, shared_cache_a, map_b, scheduler record} with '
            'all-equal, strictly descending adjacent and random load addresses (0, 2^63, 2^64-1, equal pairs) + random windows '
            'with unmap/syscall records, map records before START / after END / on other threads, renamed ids; oracle = '
            'entries per address in description order (maps, then shared-cache), ascending addresses')
    section(rep, 'sampler', gen_sampler(rng, tier),
            'sampler windows: 4 combinations of flag bits 0/3 (other bits random) x every sequence of 0..4 nested records '
            'over {THD_Data, STK_UHdr, STK_UData, scheduler record}; header count below/equal/above the words supplied with the '
            'header first/last/in the middle; random windows with syscalls, kernel-stack records, other-thread sampler records '
            'and windows, single-record PERF_Event, renamed ids; oracle = thread info / frames / flags / text / threads_pids '
            'recomputed from the description')
    section(rep, 'coincidences', gen_coincide(rng, tier),
            'value coincidences between nested records and their window: the words of a window (START, END; the END repeats '
            'the START\'s address words as the kernel writes them) and of its nested records come from a small per-window pool, '
            'so that nested candidates carry the fault address / main-executable address / sampler flags, action id and the '
            'window\'s own thread id as their address, pid, load address, uuid words, thread id, header flags, frame count or '
            'stack words, and unmarked candidates share addresses, pids, flag words, uuids (byte-identical payloads) among '
            'themselves; page faults: every sequence of 1..3 candidates over {Internal, Purgeable, External, SharedCache} x '
            'every subset of them coinciding with START/END; launch / sampler: every sequence of 1..3 candidates x every '
            'subset; random windows (1..6 nested records, unrelated records in between, in-range records of the fault address '
            'just before START / after END, result != 0, second windows on other threads) in the modes first candidate '
            'coincides / only a later one / none / all / random subset; each window fed to TracesParser.feed_generator or, '
            'packed into a version-2 / version-3 dump, read through PyKdebugParser.traces; oracle = the same description-based '
            'one (which record is read depends on position and kind only)')
    section(rep, 'custom-codes', gen_custom(rng, tier),
            'code tables that name an in-range id after ANOTHER handler (16 handler names incl. MACH_vmfault itself, '
            'trace-domain names, lookups): outside the property, model vs. code only (oracle checks result/type when a trace '
            'is delivered)')
    P.section_pipeline(rep, rng, tier, n=1500 if tier == 'quick' else 12000)
    from .. import tsorder, scenhist
    tsorder.section(rep, rng, tier, 'C20')
    scenhist.section(rep, rng, tier, 'C20')


def replay(path):
    with open(path) as fd:
        r = json.load(fd)
    rp = r['replay']
    if rp.get('section') in ('timestamp-order', 'scenario-history'):
        from .. import tsorder, scenhist
        bad, lines = (tsorder if rp['section'] == 'timestamp-order' else scenhist).replay(rp)
        print('\n'.join(lines))
        if bad:
            print(f'VIOLATION property=C20 replay={path}')
        return 1 if bad else 0
    c = rp['case']
    got = P.impl_route_fn(c)
    model = core.drive([P.line(c)])[0]
    print('impl :', got)
    print('model:', model)
    if 'desc' in c:
        res = oracle(c, got)
        print('expect:', json.dumps(c['desc'], default=str)[:2000])
        print('oracle:', res)
        if res:
            print(f'VIOLATION property=C20 replay={path}')
            return 1
    return 0 if got == model else 1
