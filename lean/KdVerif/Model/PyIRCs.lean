import KdVerif.Model.Callstacks
/-
  The Python subset of `CallstacksParser.insert_image` and of the frame loop of
  `CallstacksParser.feed_generator` (`pykdebugparser/callstacks_parser.py`) as a deep embedding with a
  big-step interpreter — the companion of `Model/PyIR` for C15.  `tools/gen_pyir.py` translates the source
  text into terms of this IR (`Gen/PyIRCs.lean`); `Props/C15` proves that the translated code, run by this
  interpreter, is `Callstacks.insertImage` / `Callstacks.lookupAll`.

  The heap is the pair of parallel lists (`Callstacks.Images`); `self.dyld_addresses` / `self.dyld_uuids`
  evaluate to PATHS (`addrsRef`/`uuidsRef`).  Integers are Python ints (`Int`); `l[i]` and `l.insert(i, x)` have
  Python's meaning for negative `i` as well.  `bisect` is a primitive whose meaning is the existing model function
  `Callstacks.bisect` (the lo/hi loop on an arbitrary list, tied to the C implementation by the section `bisect`).
  Outside the modelled behaviour: `.error .unmodelled`.  Core Lean only.
-/
namespace KdVerif.PyIRCs
open KdVerif.Callstacks

inductive Expr
  | none
  | int (n : Int)
  | var (i : Nat)
  | addrs                               -- `self.dyld_addresses`
  | uuids                               -- `self.dyld_uuids`
  | csFrames (e : Expr)                 -- `e.cs_frames`
  | bisect (l x : Expr)                 -- `bisect(l, x)`
  | sub (a b : Expr)                    -- `a - b`
  | gt (a b : Expr)                     -- `a > b`
  | isIn (x l : Expr)                   -- `x in l`
  | index (l i : Expr)                  -- `l[i]`
  | mkFrame (a u o : Expr)              -- `Frame(a, u, o)`
  | unsupported (src : String)
  deriving DecidableEq, Repr

/-- Continuation form, as in `Model/PyIR`. -/
inductive Stmt
  | done
  | ret (e : Expr)
  | ite (c : Expr) (t e : Stmt)
  | assign (v : Nat) (e : Expr) (next : Stmt)          -- `v = e`
  | assignNewList (v : Nat) (next : Stmt)              -- `v = []`
  | insert (l i x : Expr) (next : Stmt)                -- `l.insert(i, x)`
  | forIn (v : Nat) (it : Expr) (body next : Stmt)     -- `for v in it: body`
  | append (v : Nat) (x : Expr) (next : Stmt)          -- `v.append(x)`, `v` a local list
  | unsupported (src : String)
  deriving DecidableEq, Repr

structure Block where
  params : Nat
  body : Stmt
  deriving DecidableEq, Repr

/-- A `Frame(address, uuid, offset)` namedtuple. -/
structure FrameV where
  address : Int
  uuid : Option Uuid
  offset : Option Int
  deriving DecidableEq, Repr

inductive Val
  | none
  | bool (b : Bool)
  | int (n : Int)
  | uuid (u : Uuid)
  | addrsRef | uuidsRef                 -- paths: the two lists of the parser
  | sample (cs : List Nat)              -- a `PerfEvent` whose `cs_frames` is `cs`
  | nats (l : List Nat)                 -- a list of ints that is only iterated (`trace.cs_frames`)
  | frame (f : FrameV)
  | frames (l : List FrameV)            -- a local list of frames
  deriving DecidableEq, Repr

abbrev Env := Nat → Option Val
def Env.set (env : Env) (i : Nat) (v : Val) : Env := fun j => if j = i then some v else env j
def Env.ofArgs (args : List Val) : Env := fun j => args[j]?

/-- `l[i]` for a Python int `i`. -/
def pyIndex {α : Type} (l : List α) (i : Int) : Option α :=
  if 0 ≤ i then l[i.toNat]? else if 0 ≤ (l.length : Int) + i then l[((l.length : Int) + i).toNat]? else Option.none

/-- the position `l.insert(i, x)` inserts at, for a Python int `i` -/
def pyInsertPos (len : Nat) (i : Int) : Nat :=
  if 0 ≤ i then i.toNat else ((len : Int) + i).toNat

def eval (st : Images) (env : Env) : Expr → Except PyErr Val
  | .none => .ok .none
  | .int n => .ok (.int n)
  | .var i => match env i with | some v => .ok v | Option.none => .error .unmodelled
  | .addrs => .ok .addrsRef
  | .uuids => .ok .uuidsRef
  | .csFrames e =>
    match eval st env e with
    | .ok (.sample cs) => .ok (.nats cs)
    | .ok _ => .error .unmodelled
    | .error x => .error x
  | .bisect l x =>
    match eval st env l with
    | .error e => .error e
    | .ok lv =>
      match eval st env x with
      | .error e => .error e
      | .ok xv =>
        match lv, xv with
        | .addrsRef, .int n =>
          if 0 ≤ n then (match Callstacks.bisect st.addrs n.toNat with | .ok r => .ok (.int r) | .error e => .error e)
          else .error .unmodelled
        | _, _ => .error .unmodelled
  | .sub a b =>
    match eval st env a with
    | .error e => .error e
    | .ok av =>
      match eval st env b with
      | .error e => .error e
      | .ok bv => match av, bv with | .int x, .int y => .ok (.int (x - y)) | _, _ => .error .unmodelled
  | .gt a b =>
    match eval st env a with
    | .error e => .error e
    | .ok av =>
      match eval st env b with
      | .error e => .error e
      | .ok bv => match av, bv with | .int x, .int y => .ok (.bool (decide (x > y))) | _, _ => .error .unmodelled
  | .isIn x l =>
    match eval st env x with
    | .error e => .error e
    | .ok xv =>
      match eval st env l with
      | .error e => .error e
      | .ok lv =>
        match xv, lv with
        | .int n, .addrsRef => .ok (.bool (decide (0 ≤ n ∧ n.toNat ∈ st.addrs)))
        | _, _ => .error .unmodelled
  | .index l i =>
    match eval st env l with
    | .error e => .error e
    | .ok lv =>
      match eval st env i with
      | .error e => .error e
      | .ok iv =>
        match lv, iv with
        | .addrsRef, .int k => (match pyIndex st.addrs k with | some a => .ok (.int a) | Option.none => .error .indexError)
        | .uuidsRef, .int k => (match pyIndex st.uuids k with | some u => .ok (.uuid u) | Option.none => .error .indexError)
        | _, _ => .error .unmodelled
  | .mkFrame a u o =>
    match eval st env a with
    | .error e => .error e
    | .ok av =>
      match eval st env u with
      | .error e => .error e
      | .ok uv =>
        match eval st env o with
        | .error e => .error e
        | .ok ov =>
          match av, uv, ov with
          | .int x, .uuid w, .int y => .ok (.frame ⟨x, some w, some y⟩)
          | .int x, .none, .none => .ok (.frame ⟨x, Option.none, Option.none⟩)
          | _, _, _ => .error .unmodelled
  | .unsupported _ => .error .unmodelled

inductive Outcome
  | normal
  | ret (v : Val)
  deriving DecidableEq, Repr

/-- `for v in <list of ints>: body` -/
def forLoop (body : Env → Images → Except PyErr (Outcome × Env × Images)) (v : Nat) :
    List Nat → Env → Images → Except PyErr (Outcome × Env × Images)
  | [], env, st => .ok (.normal, env, st)
  | k :: ks, env, st =>
    match body (env.set v (.int k)) st with
    | .error x => .error x
    | .ok (.ret x, env', st') => .ok (.ret x, env', st')
    | .ok (.normal, env', st') => forLoop body v ks env' st'

def exec : Stmt → Env → Images → Except PyErr (Outcome × Env × Images)
  | .done, env, st => .ok (.normal, env, st)
  | .ret e, env, st => match eval st env e with | .ok v => .ok (.ret v, env, st) | .error x => .error x
  | .ite c t e, env, st =>
    match eval st env c with
    | .ok (.bool true) => exec t env st
    | .ok (.bool false) => exec e env st
    | .ok _ => .error .unmodelled
    | .error x => .error x
  | .assign v e next, env, st =>
    match eval st env e with
    | .ok (.int n) => exec next (env.set v (.int n)) st
    | .ok _ => .error .unmodelled
    | .error x => .error x
  | .assignNewList v next, env, st => exec next (env.set v (.frames [])) st
  | .insert l i x next, env, st =>
    match eval st env l with
    | .error e => .error e
    | .ok lv =>
      match eval st env i with
      | .error e => .error e
      | .ok iv =>
        match eval st env x with
        | .error e => .error e
        | .ok xv =>
          match lv, iv, xv with
          | .addrsRef, .int k, .int a =>
            if 0 ≤ a then exec next env { st with addrs := pyInsert st.addrs (pyInsertPos st.addrs.length k) a.toNat }
            else .error .unmodelled
          | .uuidsRef, .int k, .uuid u =>
            exec next env { st with uuids := pyInsert st.uuids (pyInsertPos st.uuids.length k) u }
          | _, _, _ => .error .unmodelled
  | .forIn v it body next, env, st =>
    match eval st env it with
    | .ok (.nats l) =>
      (match forLoop (fun env st => exec body env st) v l env st with
       | .ok (.normal, env', st') => exec next env' st'
       | r => r)
    | .ok _ => .error .unmodelled
    | .error x => .error x
  | .append v x next, env, st =>
    match eval st env x with
    | .ok (.frame f) =>
      (match env v with
       | some (.frames l) => exec next (env.set v (.frames (l ++ [f]))) st
       | _ => .error .unmodelled)
    | .ok _ => .error .unmodelled
    | .error e => .error e
  | .unsupported _, _, _ => .error .unmodelled

/-- Running a block on arguments: the returned value (falling off the end: `None`) and the lists afterwards. -/
def run (b : Block) (args : List Val) (st : Images) : Except PyErr (Val × Images) :=
  if args.length ≠ b.params then .error .unmodelled
  else
    match exec b.body (Env.ofArgs args) st with
    | .ok (.ret v, _, st') => .ok (v, st')
    | .ok (.normal, _, st') => .ok (.none, st')
    | .error x => .error x

/-- `Frame(frame, None, None)` / `Frame(frame, uuid, offset)` as the model's `Frame`. -/
def ofFrame (f : Frame) : FrameV :=
  match f.image with
  | Option.none => ⟨f.address, Option.none, Option.none⟩
  | some (u, o) => ⟨f.address, some u, some o⟩

def Expr.hasUnsupported : Expr → Bool
  | .unsupported _ => true
  | .csFrames e => e.hasUnsupported
  | .bisect a b | .sub a b | .gt a b | .isIn a b | .index a b => a.hasUnsupported || b.hasUnsupported
  | .mkFrame a b c => a.hasUnsupported || b.hasUnsupported || c.hasUnsupported
  | _ => false

def Stmt.hasUnsupported : Stmt → Bool
  | .unsupported _ => true
  | .done => false
  | .ret e => e.hasUnsupported
  | .ite c t e => c.hasUnsupported || t.hasUnsupported || e.hasUnsupported
  | .assign _ e n | .append _ e n => e.hasUnsupported || n.hasUnsupported
  | .assignNewList _ n => n.hasUnsupported
  | .insert a b c n => a.hasUnsupported || b.hasUnsupported || c.hasUnsupported || n.hasUnsupported
  | .forIn _ it b n => it.hasUnsupported || b.hasUnsupported || n.hasUnsupported

end KdVerif.PyIRCs
