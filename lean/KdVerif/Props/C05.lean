import KdVerif.Proofs.Projection
import KdVerif.Proofs.TraceProjection
import KdVerif.Proofs.TraceNoExc
import KdVerif.Gen.Decoders
import KdVerif.Gen.Host
import KdVerif.Gen.Codes
import KdVerif.Proofs.PyIRTr
import KdVerif.Gen.PyIRTr
/-
  C05 — per-thread results are invariant under interleaving of threads.

  FIRST PART (window level): the sequence of event windows delivered for a thread (their order and their
  event lists) depends only on that thread's own event sequence.
  SECOND PART (below, over the whole-`TracesParser` model `Model/Trace.lean`): rendered text of the decoders
  that read no cross-thread table (`projection_traces`), and the process names learned from a thread's own
  new-thread/exec record pairs (`learned_names_per_thread`, defect F2; `interleaving_invariant_names`).

  Subject: `Model/Pairing.step/run` (= `TracesParser.feed` / `feed_generator` up to `parse_event_list`);
  `domOf` (which codes use the trace-string/data table) is an arbitrary parameter.  A window "belongs to
  thread t" when its first event has thread id `t` (`ofThread`); by `window_single_thread` every event of a
  delivered window has the same thread id, so any other choice of representative gives the same notion.
-/
namespace KdVerif.C05
open KdVerif.Pairing

variable (domOf : Nat → Bool)

/-- FRAME.  Feeding an event of thread `e.tid` changes no table entry of any other thread, and (the tables
    holding, per key, events of the key's thread only — an invariant of every reachable state,
    `reachable_tidInv`) everything it delivers consists of events of thread `e.tid`. -/
theorem step_other_thread_frame (s : PState) (e : Kevent) :
    (∀ k, k.tid ≠ e.tid → (step domOf s e).1 k = s k) ∧
    (TidInv s → ∀ w, (step domOf s e).2 = some w → ∀ x ∈ w, x.tid = e.tid) :=
  Pairing.step_other_thread_frame domOf s e

/-- The invariant used by the frame lemma holds after every history. -/
theorem reachable_tidInv (h : List Kevent) : TidInv (stateAfter domOf h) := by
  induction h using snoc_induction with
  | nil => exact tidInv_empty
  | snoc h e ih => rw [stateAfter_snoc]; exact step_tidInv domOf _ _ ih

/-- A step of an event of thread `t` reads and writes entries of thread `t` only: from two table pairs
    that coincide on thread `t` it delivers the same window and leads to tables that still coincide on `t`. -/
theorem step_reads_own_thread_only (t : Nat) (s₁ s₂ : PState) (e : Kevent) (he : e.tid = t)
    (ha : Agree t s₁ s₂) :
    Agree t (step domOf s₁ e).1 (step domOf s₂ e).1 ∧ (step domOf s₁ e).2 = (step domOf s₂ e).2 :=
  step_agree domOf t s₁ s₂ e he ha

/-- Every event of a delivered window has the same thread id (and the window is not empty). -/
theorem window_single_thread (m : List Kevent) (w : List Kevent) (hw : w ∈ run domOf m) :
    w ≠ [] ∧ ∃ t, ∀ x ∈ w, x.tid = t :=
  run_window_tid domOf m w hw

/-- PROJECTION.  For every history `m` and thread `t`: the windows of thread `t` delivered while parsing `m`
    (in order, with their exact event lists) are the windows delivered when parsing `t`'s own events alone. -/
theorem projection_windows (m : List Kevent) (t : Nat) :
    (run domOf m).filter (ofThread t) = run domOf (m.filter fun e => e.tid == t) :=
  Pairing.projection_windows domOf m t

/-- INTERLEAVING INVARIANCE.  Two histories with the same per-thread subsequences (any two merges of the
    same per-thread programs, e.g. per-CPU buffers merged in different orders) deliver, for every thread,
    the same sequence of windows. -/
theorem interleaving_invariant_windows (m₁ m₂ : List Kevent)
    (hm : ∀ t, m₁.filter (fun e => e.tid == t) = m₂.filter (fun e => e.tid == t)) (t : Nat) :
    (run domOf m₁).filter (ofThread t) = (run domOf m₂).filter (ofThread t) := by
  rw [projection_windows, projection_windows, hm t]

/-- The same for the handler invocations (after the decodability gate of `parse_event_list`). -/
theorem interleaving_invariant_traces (dec : Nat → Bool) (m₁ m₂ : List Kevent)
    (hm : ∀ t, m₁.filter (fun e => e.tid == t) = m₂.filter (fun e => e.tid == t)) (t : Nat) :
    ((run domOf m₁).filter fun w => match w with | x :: _ => dec x.eventid | [] => false).filter (ofThread t)
      = ((run domOf m₂).filter fun w => match w with | x :: _ => dec x.eventid | [] => false).filter
          (ofThread t) := by
  have hc : ∀ (q : List Kevent → Bool) (l : List (List Kevent)),
      (l.filter q).filter (ofThread t) = (l.filter (ofThread t)).filter q := by
    intro q l; simp only [List.filter_filter, Bool.and_comm]
  rw [hc, hc, interleaving_invariant_windows domOf m₁ m₂ hm t]

/-! ### non-vacuity: two different merges of the same two per-thread programs -/

def ev (ts tid eid q : Nat) : Kevent :=
  { timestamp := ts, data := [], values := [], tid := tid, debugid := eid + q, eventid := eid, qual := q }

def progA : List Kevent := [ev 100 1 4 1, ev 101 1 12 0, ev 102 1 4 2, ev 103 1 4 2]
def progB : List Kevent := [ev 200 2 4 1, ev 201 2 4 1, ev 202 2 8 3, ev 203 2 4 2]
def sequential : List Kevent := progA ++ progB
def roundRobin : List Kevent :=
  [ev 200 2 4 1, ev 100 1 4 1, ev 201 2 4 1, ev 101 1 12 0, ev 202 2 8 3, ev 102 1 4 2, ev 203 2 4 2,
   ev 103 1 4 2]

example : ∀ t, sequential.filter (fun e => e.tid == t) = roundRobin.filter (fun e => e.tid == t) := by
  intro t
  by_cases h1 : t = 1
  · subst h1; decide
  · by_cases h2 : t = 2
    · subst h2; decide
    · have h1' : (1 == t) = false := by simp; omega
      have h2' : (2 == t) = false := by simp; omega
      simp [sequential, roundRobin, progA, progB, ev, h1', h2']

example : sequential ≠ roundRobin ∧
    ((run (fun _ => false) roundRobin).filter (ofThread 1)).map (List.map (·.timestamp))
      = [[101], [100, 101, 102]] ∧
    ((run (fun _ => false) sequential).filter (ofThread 1)).map (List.map (·.timestamp))
      = [[101], [100, 101, 102]] ∧
    ((run (fun _ => false) roundRobin).filter (ofThread 2)).map (List.map (·.timestamp))
      = [[202], [201, 202, 203]] := by decide

end KdVerif.C05

/-! ## Second part: traces with text, and the names a thread teaches (whole `TracesParser`, Model/Trace.lean)

  Subject: `Trace.run` (= `TracesParser.feed_generator`: pairing, the fifteen hand-written handlers, the 454
  generated decoders, the six context tables).  A run starts from empty pairing tables and ARBITRARY context
  tables `T` (`PyKdebugParser.traces` hands the parser the tables the thread map filled).  `feed_generator` stops at
  the first exception, so every statement is about runs that raise none (`NoExc`); the statements compare the
  merged run with the run of thread `t`'s own subsequence and assume that neither raises.  The second assumption
  follows from the first (`noexc_own`, `per_thread_of_merged_run`) for every decoder table whose constructor arguments
  raise independently of the cross-thread tables (`ErrFreeDecoders`) — which the regenerated table is
  (`all_fields_errFree`, kernel-checked on every run).

  THE PROPERTY'S OWN EXCLUSION, exactly (`Trace.excluded`): the text — nothing else — of
  * `TRACE_DATA_THREAD_TERMINATE` (`handle_trace_data_thread_terminate` reads `threads_pids` and `tids_names`, which
    other threads write), and
  * the generated decoders that read `global_strings` / `threads_pids` / `tids_names`: for the current tree exactly
    `DBG_DYLD_TIMING_DLSYM`, `_DLOPEN`, `_MAP_IMAGE`, `_DLOPEN_PREFLIGHT` (`excluded_generated_exact`, re-checked by
    the kernel against the regenerated table on every run).
  All other handlers — every BSD / Mach / turnstile / perf decoder, the lookups, the trace strings, the sampler,
  the page-fault and launch composites — are compared WITH their text.
-/
namespace KdVerif.C05
open KdVerif.Trace

/-- A fresh `TracesParser` over context tables `T`. -/
def start (T : Tabs) : Trace.PState := { pairing := Pairing.PState.empty, tabs := T }

/-- Thread `t`'s own subsequence of a merged history. -/
def own (t : Nat) (m : List Kevent) : List Kevent := m.filter fun e => e.tid == t

/-- `feed_generator` over `m` raises no exception. -/
def NoExc (env : Env) (T : Tabs) (m : List Kevent) : Prop := (Trace.run env (start T) m).2.1 = none

instance (env : Env) (T : Tabs) (m : List Kevent) : Decidable (NoExc env T m) := by
  unfold NoExc; infer_instance

theorem sim_start (t : Nat) (T : Tabs) : Sim t (start T) (start T) :=
  ⟨Pairing.tidInv_empty, fun _ _ => rfl, AgreeT.refl _ _⟩

/-- **handler_writes_sound.**  The tables a handler call returns are the tables it was given with exactly the
    assignments `handleWrites` lists applied, in order. -/
theorem handler_writes_sound (env : Env) (hbn : BenignNested env) (T T' : Tabs) (name : String) (events : List Kevent)
    (r : Option TraceOut) (h : handle env T name events = .ok (r, T')) :
    T' = applyWrites T (handleWrites env T name events) :=
  handle_tabs env hbn T name events r T' h

/-- **table_writes_sound.**  `tableWrites` IS what a run does to the six context tables: the tables after the
    run are the tables before it with the listed assignments applied in order. -/
theorem table_writes_sound (env : Env) (hbn : BenignNested env) (s : Trace.PState) (m : List Kevent) :
    (Trace.run env s m).2.2.tabs = applyWrites s.tabs ((tableWrites env s m).map (·.2)) :=
  run_tabs env hbn s m

/-- **thread_writes_per_thread.**  For every history `m` and thread `t`: the sequence of ALL context-table
    assignments (to `threads_pids`, `pids_names`, `tids_names`, `global_strings`, the pending records) caused by
    thread `t`'s events is the sequence performed when `t`'s own events are parsed alone. -/
theorem thread_writes_per_thread (env : Env) (hbn : BenignNested env) (T : Tabs) (m : List Kevent) (t : Nat)
    (h₁ : NoExc env T m) (h₂ : NoExc env T (own t m)) :
    (tableWrites env (start T) m).filter (fun p => p.1 == t) = tableWrites env (start T) (own t m) :=
  (projection_run env hbn t m _ _ (sim_start t T) h₁ h₂).2

/-- **learned_names_per_thread.**  For every history `m` and thread `t`: the sequence of `(pid, name)`
    assignments to `pids_names` caused by thread `t`'s events is a function of `m.filter (·.tid = t)` alone (the
    right-hand side mentions nothing else): the pending new-thread / exec record a name string consults is the
    one written by the same thread.  (False of the pre-F02 code, where the slot was parser-wide.) -/
theorem learned_names_per_thread (env : Env) (hbn : BenignNested env) (T : Tabs) (m : List Kevent) (t : Nat)
    (h₁ : NoExc env T m) (h₂ : NoExc env T (own t m)) :
    namesTaughtBy t (tableWrites env (start T) m) = namesTaughtBy t (tableWrites env (start T) (own t m)) := by
  unfold namesTaughtBy
  rw [taught_filter, taught_filter, thread_writes_per_thread env hbn T m t h₁ h₂]
  congr 2
  have : ∀ p ∈ tableWrites env (start T) (own t m), (p.1 == t) = true := by
    have := thread_writes_per_thread env hbn T m t h₁ h₂
    intro p hp
    rw [← this] at hp
    exact (List.mem_filter.1 hp).2
  exact (List.filter_eq_self.2 this).symm

/-- **projection_traces.**  For every history `m` and thread `t`: the traces attributed to thread `t`
    (`ktraces[0].tid = t`) in the merged run — handler names, event lists, composite payloads, and the rendered
    text (or the exception `str()` raises) of every handler outside the exclusion — are, in order, the traces of
    `t`'s own subsequence parsed alone. -/
theorem projection_traces (env : Env) (hbn : BenignNested env) (T : Tabs) (m : List Kevent) (t : Nat)
    (h₁ : NoExc env T m) (h₂ : NoExc env T (own t m)) :
    (((Trace.run env (start T) m).1.filter fun o => o.tid == t).map (TraceOut.masked env)
      = (Trace.run env (start T) (own t m)).1.map (TraceOut.masked env)) :=
  (projection_run env hbn t m _ _ (sim_start t T) h₁ h₂).1

theorem masked_inj (env : Env) (o o' : TraceOut) (h : o.masked env = o'.masked env)
    (hx : excluded env o.name = false) : o = o' := by
  rcases o with ⟨n, ev, tx, ex, ob⟩
  rcases o' with ⟨n', ev', tx', ex', ob'⟩
  simp only [TraceOut.masked, Prod.mk.injEq] at h
  obtain ⟨rfl, rfl, h3, rfl⟩ := h
  simp only at hx
  simp only [hx, Bool.false_eq_true, if_false, Option.some.injEq, Prod.mk.injEq] at h3
  rw [h3.1, h3.2]

/-- **projection_traces_exact.**  When none of thread `t`'s traces comes from an excluded handler, the two trace
    lists are equal outright, texts included. -/
theorem projection_traces_exact (env : Env) (hbn : BenignNested env) (T : Tabs) (m : List Kevent) (t : Nat)
    (h₁ : NoExc env T m) (h₂ : NoExc env T (own t m))
    (hx : ∀ o ∈ (Trace.run env (start T) m).1, o.tid = t → excluded env o.name = false) :
    ((Trace.run env (start T) m).1.filter fun o => o.tid == t) = (Trace.run env (start T) (own t m)).1 := by
  have h := projection_traces env hbn T m t h₁ h₂
  have hx' : ∀ o ∈ (Trace.run env (start T) m).1.filter (fun o => o.tid == t), excluded env o.name = false := by
    intro o ho
    obtain ⟨h1, h2⟩ := List.mem_filter.1 ho
    exact hx o h1 (by simpa using h2)
  generalize (Trace.run env (start T) m).1.filter (fun o => o.tid == t) = l₁ at h hx'
  generalize (Trace.run env (start T) (own t m)).1 = l₂ at h
  induction l₁ generalizing l₂ with
  | nil => cases l₂ with
    | nil => rfl
    | cons y ys => simp at h
  | cons x xs ih => cases l₂ with
    | nil => simp at h
    | cons y ys =>
      simp only [List.map_cons, List.cons.injEq] at h
      rw [masked_inj env x y h.1 (hx' x (by simp)), ih (fun o ho => hx' o (List.mem_cons_of_mem _ ho)) ys h.2]

/-- The pids thread-disjointness hypothesis of the corollary: no pid is taught by two different threads. -/
def DisjointTeachers (L : List (Nat × Nat × String)) : Prop :=
  ∀ p ∈ L, ∀ q ∈ L, p.2.1 = q.2.1 → p.1 = q.1

/-- **interleaving_invariant_names.**  Any two merges `m₁`, `m₂` of the same per-thread programs (equal
    per-thread subsequences) (1) teach, per thread, the same sequence of `(pid, name)` pairs, hence (2) the same
    multiset of `(thread, pid, name)` assignments overall, and (3) when different threads teach different pids,
    the final `pids_names` lookups agree for every pid. -/
theorem interleaving_invariant_names (env : Env) (hbn : BenignNested env) (T : Tabs) (m₁ m₂ : List Kevent)
    (hm : ∀ t, own t m₁ = own t m₂)
    (h₁ : NoExc env T m₁) (h₂ : NoExc env T m₂) (hown : ∀ t, NoExc env T (own t m₁)) :
    (∀ t, namesTaughtBy t (tableWrites env (start T) m₁) = namesTaughtBy t (tableWrites env (start T) m₂)) ∧
    (taught (tableWrites env (start T) m₁)).Perm (taught (tableWrites env (start T) m₂)) ∧
    (DisjointTeachers (taught (tableWrites env (start T) m₁)) →
      ∀ pid, (Trace.run env (start T) m₁).2.2.tabs.pidsNames.get pid
           = (Trace.run env (start T) m₂).2.2.tabs.pidsNames.get pid) := by
  have hfil : ∀ t, (taught (tableWrites env (start T) m₁)).filter (fun p => p.1 == t)
      = (taught (tableWrites env (start T) m₂)).filter (fun p => p.1 == t) := by
    intro t
    rw [taught_filter, taught_filter, thread_writes_per_thread env hbn T m₁ t h₁ (hown t),
      thread_writes_per_thread env hbn T m₂ t h₂ (hm t ▸ hown t), hm t]
  refine ⟨fun t => by simp only [namesTaughtBy, hfil t], perm_of_filter_eq _ _ hfil, ?_⟩
  intro hdis pid
  have hperm := perm_of_filter_eq _ _ hfil
  rw [table_writes_sound env hbn, table_writes_sound env hbn, applyWrites_pidsNames, applyWrites_pidsNames,
    ← taught_map_snd, ← taught_map_snd]
  simp only [Dict.get, lookup_reverse_append]
  congr 2
  generalize taught (tableWrites env (start T) m₁) = L₁ at hfil hdis hperm
  generalize taught (tableWrites env (start T) m₂) = L₂ at hfil hperm
  by_cases hex : ∃ p ∈ L₁, p.2.1 = pid
  · obtain ⟨p, hp, hpk⟩ := hex
    have s1 : ∀ q ∈ L₁, q.2.1 = pid → q.1 = p.1 := fun q hq hqk => hdis q hq p hp (hqk.trans hpk.symm)
    have s2 : ∀ q ∈ L₂, q.2.1 = pid → q.1 = p.1 := fun q hq hqk => s1 q (hperm.mem_iff.2 hq) hqk
    rw [filter_key_of_single_teacher L₁ pid p.1 s1, filter_key_of_single_teacher L₂ pid p.1 s2, hfil p.1]
  · have n1 : (L₁.map (·.2)).filter (fun q => q.1 == pid) = [] := by
      rw [List.filter_eq_nil_iff]
      intro q hq
      obtain ⟨r, hr, rfl⟩ := List.mem_map.1 hq
      simp only [beq_iff_eq]
      exact fun h => hex ⟨r, hr, h⟩
    have n2 : (L₂.map (·.2)).filter (fun q => q.1 == pid) = [] := by
      rw [List.filter_eq_nil_iff]
      intro q hq
      obtain ⟨r, hr, rfl⟩ := List.mem_map.1 hq
      simp only [beq_iff_eq]
      exact fun h => hex ⟨r, hperm.mem_iff.2 hr, h⟩
    rw [n1, n2]

/-- **interleaving_invariant_traces_text.**  Any two merges of the same per-thread programs deliver, for every
    thread, the same traces with the same text (up to the exclusion). -/
theorem interleaving_invariant_traces_text (env : Env) (hbn : BenignNested env) (T : Tabs) (m₁ m₂ : List Kevent)
    (hm : ∀ t, own t m₁ = own t m₂)
    (h₁ : NoExc env T m₁) (h₂ : NoExc env T m₂) (hown : ∀ t, NoExc env T (own t m₁)) (t : Nat) :
    ((Trace.run env (start T) m₁).1.filter fun o => o.tid == t).map (TraceOut.masked env)
      = ((Trace.run env (start T) m₂).1.filter fun o => o.tid == t).map (TraceOut.masked env) := by
  rw [projection_traces env hbn T m₁ t h₁ (hown t), projection_traces env hbn T m₂ t h₂ (hm t ▸ hown t), hm t]

/-- The generated decoders inside the exclusion are exactly the four dyld string readers (kernel-checked
    against the table regenerated from the repository on every run). -/
theorem excluded_generated_exact :
    (Gen.Decoders.decoders.filter fun d => !ownOnly d).map (·.name)
      = ["DBG_DYLD_TIMING_DLSYM", "DBG_DYLD_TIMING_DLOPEN", "DBG_DYLD_TIMING_MAP_IMAGE",
         "DBG_DYLD_TIMING_DLOPEN_PREFLIGHT"] := by decide +kernel

/-- Every constructor argument of every generated decoder raises, or not, independently of the cross-thread tables
    (the four dyld string readers use `dict.get` with a default); kernel-checked against the regenerated table. -/
theorem all_fields_errFree : Gen.Decoders.decoders.all (fun d => d.fields.all errFree) = true := by decide +kernel

theorem errFreeDecoders_of_generated (env : Env) (h : env.decoders = Gen.Decoders.decoders) : ErrFreeDecoders env := by
  intro d hd
  rw [h] at hd
  exact List.all_eq_true.1 all_fields_errFree d hd

/-- **noexc_own.**  With a decoder table whose constructor arguments are `errFree` (the regenerated table is:
    `errFreeDecoders_of_generated`): if the merged history is parsed without exception, so is every thread's own
    subsequence — the second hypothesis of the theorems above follows from the first. -/
theorem noexc_own (env : Env) (hbn : BenignNested env) (hdec : ErrFreeDecoders env) (T : Tabs) (m : List Kevent) (t : Nat)
    (h₁ : NoExc env T m) : NoExc env T (own t m) :=
  Trace.noexc_own env hbn hdec t m _ _ (sim_start t T) h₁

/-- `learned_names_per_thread` and `projection_traces` from the merged run alone. -/
theorem per_thread_of_merged_run (env : Env) (hbn : BenignNested env) (hdec : ErrFreeDecoders env) (T : Tabs)
    (m : List Kevent) (t : Nat) (h₁ : NoExc env T m) :
    namesTaughtBy t (tableWrites env (start T) m) = namesTaughtBy t (tableWrites env (start T) (own t m)) ∧
    (((Trace.run env (start T) m).1.filter fun o => o.tid == t).map (TraceOut.masked env)
      = (Trace.run env (start T) (own t m)).1.map (TraceOut.masked env)) :=
  ⟨learned_names_per_thread env hbn T m t h₁ (noexc_own env hbn hdec T m t h₁),
   projection_traces env hbn T m t h₁ (noexc_own env hbn hdec T m t h₁)⟩

/-- A code table that names nothing in the range of the page-fault sub-records is benign. -/
theorem benign_of_unnamed_range (env : Env) (h : ∀ eid, vmfaultRange eid = true → env.codes eid = none) :
    BenignNested env := by
  intro eid n hr hc
  rw [h eid hr] at hc; cases hc

/-- The rows of the BUNDLED code table in the range of the page-fault sub-records: `RealFaultAddressInternal`
    (0x1320008), `…Purgeable` (0x132000c, no handler), `…External` (0x1320010), `…SharedCache` (0x1320014) — by their
    name keys; none is a table-writing or an excluded handler.  Kernel-checked against the regenerated table. -/
theorem bundled_nested_rows :
    (Gen.Codes.codes.filter fun p => vmfaultRange p.1).map (·.1) = [0x1320010, 0x1320008, 0x132000c, 0x1320014] := by
  decide +kernel

/-! ### non-vacuity: the adversarial schedule `A-data, B-data, A-string, B-string` -/

/-- Two new-thread codes, the real hand-written handlers, ASCII as `bytes.decode`. -/
def exEnv : Env :=
  { codes := fun k => [(0x7000004, "TRACE_DATA_NEWTHREAD"), (0x7010004, "TRACE_STRING_NEWTHREAD")].lookup k,
    host := Gen.Host.host, tables := Gen.Decoders.tables, decoders := [],
    dec := fun bs => .ok (String.ofList (bs.map Char.ofNat)) }

def dataRec (ts tid newTid pid : Nat) : Kevent :=
  { timestamp := ts, data := [], values := [newTid, pid, 0, 0], tid := tid, debugid := 0x7000004,
    eventid := 0x7000004, qual := 0 }

def strRec (ts tid : Nat) (name : List Nat) : Kevent :=
  { timestamp := ts, data := name ++ [0, 0], values := [], tid := tid, debugid := 0x7010004, eventid := 0x7010004,
    qual := 0 }

/-- Thread 1 announces pid 11 named "pA", thread 2 announces pid 22 named "pB". -/
def adversarial : List Kevent := [dataRec 1 1 101 11, dataRec 2 2 102 22, strRec 3 1 [112, 65], strRec 4 2 [112, 66]]
def sequentialN : List Kevent := [dataRec 1 1 101 11, strRec 3 1 [112, 65], dataRec 2 2 102 22, strRec 4 2 [112, 66]]

theorem exEnv_benign : BenignNested exEnv := by
  apply benign_of_unnamed_range
  intro eid hr
  simp only [vmfaultRange, decide_eq_true_eq] at hr
  have h1 : (eid == 0x7000004) = false := by rw [beq_eq_false_iff_ne]; omega
  have h2 : (eid == 0x7010004) = false := by rw [beq_eq_false_iff_ne]; omega
  simp [exEnv, List.lookup, h1, h2]

example : NoExc exEnv {} adversarial ∧ NoExc exEnv {} sequentialN ∧ NoExc exEnv {} (own 1 adversarial) ∧
    NoExc exEnv {} (own 2 adversarial) ∧ own 1 adversarial = own 1 sequentialN ∧ adversarial ≠ sequentialN := by
  decide +kernel

example :
    namesTaughtBy 1 (tableWrites exEnv (start {}) adversarial) = [(11, "pA")] ∧
    namesTaughtBy 2 (tableWrites exEnv (start {}) adversarial) = [(22, "pB")] ∧
    namesTaughtBy 1 (tableWrites exEnv (start {}) (own 1 adversarial)) = [(11, "pA")] ∧
    (Trace.run exEnv (start {}) adversarial).2.2.tabs.pidsNames.get 11 = some "pA" ∧
    (Trace.run exEnv (start {}) adversarial).2.2.tabs.pidsNames.get 22 = some "pB" ∧
    (Trace.run exEnv (start {}) sequentialN).2.2.tabs.pidsNames.get 11 = some "pA" ∧
    ((Trace.run exEnv (start {}) adversarial).1.filter fun o => o.tid == 1).map (·.text.toOption)
      = [some "New thread 101 of parent: 11", some "New thread of parent: pA"] := by
  decide +kernel

/-- Shape of defect F02 (one parser-wide pending slot): under the adversarial schedule thread 1's string would
    consult thread 2's record and teach `(22, "pA")`; the per-thread tables above teach `(11, "pA")`. -/
example : (taught (tableWrites exEnv (start {}) adversarial)) = [(1, 11, "pA"), (2, 22, "pB")] := by decide +kernel

/-! ### Translation tie: the source text of the ten context-table handlers of trace_handlers/trace.py

  `tools/gen_pyir_tr.py` translates `trace_handlers/trace.py` (pure `ast`; the two `DgbFuncQual` values reflected from
  kevent.py) into the Python-subset IR of `Model/PyIRTr` on every run (`Gen/PyIRTr.lean`): the ten `handle_trace_*`
  functions as statements, the `__str__` methods of their dataclasses as f-string pieces, the `handlers` dict as a list.
  `PyIRTr.runHandler` is a big-step interpreter over the model's `Tabs`; `bytes.decode()` stays the parameter `env.dec`.
  The hand-written `Trace.hDataNewthread` … `Trace.hStringThreadname` — what `handler_writes_sound`,
  `learned_names_per_thread`, `projection_traces` above (and C07 / C08 / C14) rest on — are proved to BE that interpreted
  source on every non-empty window of four-word records (`Words4`: what `from_kd_buf` produces; `parse_event_list` never
  passes an empty window on), and `Trace.run` to be the run with the ten handlers taken from the source. -/

/-- **The translated source is the program the refinement lemmas were proved for** (`Spec/PyIRTrExpected`, quoting the
    Python): every handler body, every `__str__`, the `handlers` dict — and the translator met nothing outside the
    subset. -/
theorem source_is_expected_ir : Gen.PyIRTr.prog = PyIRTr.Expected.prog ∧ Gen.PyIRTr.notes = [] := by decide

section ir
open PyIRTr
variable (env : Env) (t : Tabs) (e : Kevent) (rest : List Kevent)

/-- **`handle_trace_data_newthread`, interpreted, is `hDataNewthread`**: the text `New thread <tid> of parent: <pid>`,
    `last_data_newthread` keyed by the FEEDING thread (`events[0].tid`), `threads_pids[new tid] = pid`. -/
theorem handle_trace_data_newthread_ir_eq_model (h4 : e.values.length = 4) :
    runHandler Gen.PyIRTr.prog env "TRACE_DATA_NEWTHREAD" t (e :: rest) = hDataNewthread env t (e :: rest) := by
  rw [source_is_expected_ir.1]; exact run_dataNewthread env t e rest h4

/-- **`handle_trace_data_exec`, interpreted, is `hDataExec`**: `last_data_exec` keyed by the feeding thread. -/
theorem handle_trace_data_exec_ir_eq_model (h4 : e.values.length = 4) :
    runHandler Gen.PyIRTr.prog env "TRACE_DATA_EXEC" t (e :: rest) = hDataExec env t (e :: rest) := by
  rw [source_is_expected_ir.1]; exact run_dataExec env t e rest h4

/-- **`handle_trace_data_thread_terminate`, interpreted, is `hDataThreadTerminate`**: no table is written; the text has
    `, pid: …` exactly when `threads_pids` knows the thread and `, name: …` exactly when `tids_names` holds a non-empty
    name (the conditional `rep +=` of `TraceDataThreadTerminate.__str__`). -/
theorem handle_trace_data_thread_terminate_ir_eq_model (h4 : e.values.length = 4) :
    runHandler Gen.PyIRTr.prog env "TRACE_DATA_THREAD_TERMINATE" t (e :: rest) =
      hDataThreadTerminate env t (e :: rest) := by
  rw [source_is_expected_ir.1]; exact run_dataThreadTerminate env t e rest h4

/-- **`handle_trace_data_thread_terminate_pid`, interpreted, is `hDataThreadTerminatePid`**. -/
theorem handle_trace_data_thread_terminate_pid_ir_eq_model (h4 : e.values.length = 4) :
    runHandler Gen.PyIRTr.prog env "TRACE_DATA_THREAD_TERMINATE_PID" t (e :: rest) =
      hDataThreadTerminatePid env t (e :: rest) := by
  rw [source_is_expected_ir.1]; exact run_dataThreadTerminatePid env t e rest h4

/-- **`handle_trace_string_global`, interpreted, is `hStringGlobal`**: a fragment (no START bit) returns None; the loop
    is `globalLoop` (records of another code skipped, 16 bytes dropped from a START record, stop at the first END
    record); the reassembled text is stored under its id unless empty; `ktraces` are the string's own records. -/
theorem handle_trace_string_global_ir_eq_model (hw : Words4 (e :: rest)) :
    runHandler Gen.PyIRTr.prog env "TRACE_STRING_GLOBAL" t (e :: rest) = hStringGlobal env t (e :: rest) := by
  rw [source_is_expected_ir.1]; exact run_stringGlobal env t e rest hw

/-- **`handle_trace_string_newthread`, interpreted, is `hStringNewthread`**: the name goes to `pids_names` under the pid
    of the FEEDING thread's pending new-thread record, if there is one (defect F2); a `decode` failure is raised. -/
theorem handle_trace_string_newthread_ir_eq_model :
    runHandler Gen.PyIRTr.prog env "TRACE_STRING_NEWTHREAD" t (e :: rest) = hStringNewthread env t (e :: rest) := by
  rw [source_is_expected_ir.1]; exact run_stringNewthread env t e rest

/-- **`handle_trace_string_exec`, interpreted, is `hStringExec`**. -/
theorem handle_trace_string_exec_ir_eq_model :
    runHandler Gen.PyIRTr.prog env "TRACE_STRING_EXEC" t (e :: rest) = hStringExec env t (e :: rest) := by
  rw [source_is_expected_ir.1]; exact run_stringExec env t e rest

/-- **`handle_trace_string_proc_exit`, interpreted, is `hStringProcExit`**. -/
theorem handle_trace_string_proc_exit_ir_eq_model :
    runHandler Gen.PyIRTr.prog env "TRACE_STRING_PROC_EXIT" t (e :: rest) = hStringProcExit env t (e :: rest) := by
  rw [source_is_expected_ir.1]; exact run_stringProcExit env t e rest

/-- **`handle_trace_string_threadname`, interpreted, is `hStringThreadname`**: a fragment returns None; the payloads of
    the window's records of the first record's code are joined (`joinData`), decoded once, stored in `tids_names`
    under the feeding thread. -/
theorem handle_trace_string_threadname_ir_eq_model :
    runHandler Gen.PyIRTr.prog env "TRACE_STRING_THREADNAME" t (e :: rest) =
      hStringThreadname "TRACE_STRING_THREADNAME" "New thread name: " env t (e :: rest) := by
  rw [source_is_expected_ir.1]; exact run_stringThreadname env t e rest

/-- **`handle_trace_string_threadname_prev`, interpreted, is `hStringThreadname`** with the other key and label. -/
theorem handle_trace_string_threadname_prev_ir_eq_model :
    runHandler Gen.PyIRTr.prog env "TRACE_STRING_THREADNAME_PREV" t (e :: rest) =
      hStringThreadname "TRACE_STRING_THREADNAME_PREV" "Thread terminated name: " env t (e :: rest) := by
  rw [source_is_expected_ir.1]; exact run_stringThreadnamePrev env t e rest

/-- **The `handlers` dict of the source, interpreted, is the hand model's handler table on the ten names**: whatever
    the nested `parse_event_list` means. -/
theorem handlers_ir_eq_model (nested : Tabs → List Kevent → Except PyErr (Option TraceOut × Tabs)) (name : String)
    (h : traceDomainNames.contains name = true) (hw : Words4 (e :: rest)) :
    runHandler Gen.PyIRTr.prog env name t (e :: rest) = handleWith nested env t name (e :: rest) := by
  rw [source_is_expected_ir.1]; exact runHandler_eq_handleWith nested env t name e rest h hw

/-- On the EMPTY window each of the ten handlers raises IndexError (`events[0]`) — as `parse_event_list` does before it
    calls one (`Trace.parseEventListWith`); the hand-model functions are not meant for it. -/
theorem handlers_ir_empty_window (name : String) (h : traceDomainNames.contains name = true) :
    runHandler Gen.PyIRTr.prog env name t [] = .error .indexError := by
  rw [source_is_expected_ir.1]; exact run_empty env t name h

/-- **The subject of the text / names theorems above is the interpreted source**: `Trace.run` (what
    `projection_traces`, `learned_names_per_thread`, `interleaving_invariant_names`, `table_writes_sound` speak about)
    equals the run in which the ten `trace.py` handlers are the translated ones run by the interpreter (nested
    `parse_event_list` calls included) — same traces, same exception, same final state — from every state whose open
    windows hold four-word records, on every stream of four-word records. -/
theorem run_ir_eq_model (s : PState) (es : List Kevent)
    (hs : PInv (fun x => x.values.length = 4) s.pairing) (hw : Words4 es) :
    runVia Gen.PyIRTr.prog env s es = Trace.run env s es := by
  rw [source_is_expected_ir.1]; exact runVia_eq env es s hs hw

end ir

/-! #### non-vacuity: generated handlers on concrete records -/

/-- a new-thread string record of thread `tid` WITH its four words -/
def strRec4 (ts tid : Nat) (name : List Nat) : Kevent := { strRec ts tid name with values := [0, 0, 0, 0] }

/-- the generated `handle_trace_data_newthread` on the record "thread 7 announces thread 101 of process 11" -/
example :
    (PyIRTr.runHandler Gen.PyIRTr.prog exEnv "TRACE_DATA_NEWTHREAD" {} [dataRec 1 7 101 11]).toOption.map
        (fun r => (r.1.map (·.text.toOption), r.2.pendingNewthread, r.2.threadsPids)) =
      some (some (some "New thread 101 of parent: 11"), [(7, 11)], [(101, 11)]) := by decide +kernel

/-- … then the generated `handle_trace_string_newthread` on thread 7's name record teaches `(11, "pA")`; on thread 8's
    it teaches nothing. -/
example :
    ((PyIRTr.runHandler Gen.PyIRTr.prog exEnv "TRACE_STRING_NEWTHREAD" { pendingNewthread := [(7, 11)] }
        [strRec4 3 7 [112, 65]]).toOption.map fun r => (r.1.map (·.text.toOption), r.2.pidsNames)) =
      some (some (some "New thread of parent: pA"), [(11, "pA")]) ∧
    ((PyIRTr.runHandler Gen.PyIRTr.prog exEnv "TRACE_STRING_NEWTHREAD" { pendingNewthread := [(7, 11)] }
        [strRec4 3 8 [112, 65]]).toOption.map fun r => r.2.pidsNames) = some [] := by decide +kernel

/-- a global string in two records (START: two words + "ab", END: "cd") with a foreign record between them: the generated
    `handle_trace_string_global` reassembles "abcd" under id 5 and reports the string's own two records. -/
example :
    let r1 : Kevent := { timestamp := 1, data := [9, 0, 0, 0, 0, 0, 0, 0, 5, 0, 0, 0, 0, 0, 0, 0, 97, 98], values := [9, 5, 0, 0],
                         tid := 7, debugid := 0x7020001, eventid := 0x7020000, qual := 1 }
    let r2 : Kevent := { timestamp := 2, data := [120], values := [0, 0, 0, 0], tid := 7, debugid := 0x7000004,
                         eventid := 0x7000004, qual := 0 }
    let r3 : Kevent := { timestamp := 3, data := [99, 100, 0, 0], values := [0, 0, 0, 0], tid := 7, debugid := 0x7020002,
                         eventid := 0x7020000, qual := 2 }
    PyIRTr.Words4 [r1, r2, r3] ∧
    ((PyIRTr.runHandler Gen.PyIRTr.prog exEnv "TRACE_STRING_GLOBAL" {} [r1, r2, r3]).toOption.map fun r =>
        (r.1.map (·.text.toOption), r.1.map (·.events.map (·.timestamp)), r.2.globalStrings)) =
      some (some (some "New global string: \"abcd\", id: 5"), some [1, 3], [(5, "abcd")]) ∧
    ((PyIRTr.runHandler Gen.PyIRTr.prog exEnv "TRACE_STRING_GLOBAL" {} [r3]).toOption.map fun r => r.1.isNone) =
      some true := by decide +kernel

/-- the whole parser with the generated handlers on the adversarial schedule (four-word records): the hypotheses of
    `run_ir_eq_model` hold, and the run teaches `pA` to pid 11 and `pB` to pid 22. -/
example :
    let es := [dataRec 1 1 101 11, dataRec 2 2 102 22, strRec4 3 1 [112, 65], strRec4 4 2 [112, 66]]
    PyIRTr.Words4 es ∧
    ((PyIRTr.runVia Gen.PyIRTr.prog exEnv (start {}) es).1.map (·.text.toOption)) =
      [some "New thread 101 of parent: 11", some "New thread 102 of parent: 22", some "New thread of parent: pA",
       some "New thread of parent: pB"] ∧
    (PyIRTr.runVia Gen.PyIRTr.prog exEnv (start {}) es).2.2.tabs.pidsNames = [(22, "pB"), (11, "pA")] := by
  decide +kernel

example : PInv (fun x => x.values.length = 4) (start {}).pairing := PInv_empty _

end KdVerif.C05
