import KdVerif.Proofs.TraceCodes
import KdVerif.Model.PyIRTc
import KdVerif.Gen.PyIRTc
/-
  C19 — a code-table text maps every "hex-id name" line; a supplied table is honoured.

  Subject: `parseCodes` = `from_trace_codes_text` (Model/TraceCodes: `str.splitlines`, `str.split()`,
  `int(s, 16)` over code points with the Unicode classes reflected from the interpreter, Gen/Unicode),
  `nameColumn`/`formatNameOnly` = the name column of `_format_kevent`, `decoded` = which handler
  `TracesParser.feed`/`parse_event_list` calls on which window (on top of Model/Pairing).
  The grammar of a table text (`Entry`, `Entry.WF`, `renderLines`) and the denoted mapping (`lastWins`,
  `lastName`) are in Spec/TraceCodes.
-/
namespace KdVerif.C19
open KdVerif.TraceCodes KdVerif.Pairing

deriving instance DecidableEq for Except

/-! ### The text -/

/-- For every list of well-formed lines — optional blanks, id in hex (any value, optional `0x`/`0X`,
    leading zeros, each digit in either case), at least one blank, a non-empty white-space-free name,
    optionally blanks and any comment without line boundaries, then any of the line terminators
    (`\n \r \r\n \v \f \x1c \x1d \x1e \x85 U+2028 U+2029`) — the parse succeeds and yields the mapping
    "insert the pairs in order, a repeated id overwritten". -/
theorem parse_render (es : List Entry) (hes : ∀ e ∈ es, e.WF) :
    parseCodes (String.ofList (renderLines es)) = .ok (lastWins es) := by
  have h := splitLines_render es hes [] (by simp)
  have hp := parseLines_entries es hes [] []
  have h0 : splitLines [] = [] := rfl
  simp only [List.append_nil, h0] at h hp
  simp only [parseCodes, parseCodesL, String.toList_ofList, h, hp, lastWins, parseLines]

/-- The same when the last line has no terminator. -/
theorem parse_render_unterminated (es : List Entry) (e : Entry) (hes : ∀ e ∈ es, e.WF) (he : e.WF) :
    parseCodes (String.ofList (renderLines es ++ e.line)) = .ok (lastWins (es ++ [e])) := by
  have hl := e.line_facts he
  have hh : e.line.head? ≠ some '\n' := by
    have := head_ne_newline_of_nobreak e.line [] hl.1 hl.2
    simpa using this
  have h := splitLines_render es hes e.line hh
  have hp := parseLines_entries (es ++ [e]) (by
    intro x hx
    rcases List.mem_append.mp hx with hx | hx
    · exact hes x hx
    · simp at hx; subst hx; exact he) [] []
  simp only [List.append_nil, List.map_append, List.map_cons, List.map_nil] at hp
  simp only [splitLines] at h
  simp only [parseCodes, parseCodesL, String.toList_ofList, splitLines, h, linesFrom_last e.line hl.2 hl.1, hp,
    lastWins, parseLines]

/-- What the mapping answers for a key: the name of the last line with that id. -/
theorem lastWins_get (es : List Entry) (k : Int) : (lastWins es).get? k = lastName es k := by
  have := foldl_insert_get? es [] k
  simp only [Table.get?] at this
  rw [lastWins, this]
  cases lastName es k <;> rfl

/-- … and nothing else: every pair of the mapping is (id, name) of some line. -/
theorem nothing_else (es : List Entry) (k : Int) (v : String) (h : (lastWins es).get? k = some v) :
    ∃ e ∈ es, (e.id : Int) = k ∧ e.name = v := by
  rw [lastWins_get] at h
  exact lastName_some h

/-- Every key of the mapping is the id of some line (in particular never negative). -/
theorem keys_are_ids (es : List Entry) (k : Int) (h : k ∈ (lastWins es).keys) : ∃ e ∈ es, (e.id : Int) = k := by
  have := (Table.get?_isSome_iff (lastWins es) k).mpr h
  cases hg : (lastWins es).get? k with
  | none => rw [hg] at this; simp at this
  | some v =>
    obtain ⟨e, he, h1, -⟩ := nothing_else es k v hg
    exact ⟨e, he, h1⟩

/-- Every line's id is a key. -/
theorem every_id_present (es : List Entry) (e : Entry) (he : e ∈ es) : ∃ v, (lastWins es).get? e.id = some v := by
  rw [lastWins_get]
  have := lastName_of_mem he
  cases h : lastName es e.id with
  | none => rw [h] at this; simp at this
  | some v => exact ⟨v, rfl⟩

/-- A repeated id does not produce a second key. -/
theorem keys_distinct (es : List Entry) : (lastWins es).keys.Nodup :=
  foldl_insert_nodup es [] (by simp [Table.keys])

/-! ### Errors -/

theorem parseLines_error_of_mem (ls : List (List Char)) (t : Table) (l : List Char) (hl : l ∈ ls)
    (hbad : ∃ err, parseLine l = .error err) : ∃ err, parseLines t ls = .error err := by
  induction ls generalizing t with
  | nil => simp at hl
  | cons a ls ih =>
    simp only [parseLines]
    cases ha : parseLine a with
    | error e => exact ⟨e, rfl⟩
    | ok kv =>
      rcases List.mem_cons.mp hl with rfl | hl
      · obtain ⟨err, he⟩ := hbad; rw [he] at ha; cases ha
      · exact ih _ hl

/-- A line with fewer than two tokens (blank lines included) makes the whole parse raise, wherever
    it stands and whatever the other lines are. -/
theorem short_line_raises (text : String) (l : List Char) (hl : l ∈ splitLines text.toList)
    (hshort : (splitWs l).length < 2) : ∃ err, parseCodes text = .error err := by
  apply parseLines_error_of_mem _ _ l hl
  cases h : splitWs l with
  | nil => exact ⟨.indexError, by simp only [parseLine, h]⟩
  | cons t0 rest =>
    cases rest with
    | cons t1 r => rw [h] at hshort; simp at hshort; omega
    | nil =>
      cases hi : pyInt16 t0 with
      | error e => exact ⟨e, by simp only [parseLine, h, hi]⟩
      | ok k => exact ⟨.indexError, by simp only [parseLine, h, hi]⟩

/-- The exception is that of the first bad line: after any well-formed lines, a terminated line on which
    one comprehension step raises `err` makes `from_trace_codes_text` raise `err`.  (`hstart`: the bad line
    is not an empty line ended by "\n" — after a "\r" that would be the second half of "\r\n".) -/
theorem first_bad_line_raises (es : List Entry) (hes : ∀ e ∈ es, e.WF) (l : List Char) (t : Term)
    (rest : List Char) (hl : ∀ c ∈ l, isBreak c = false) (ht : t.ok = true) (hr : rest.head? ≠ some '\n')
    (hstart : (l ++ t.chars).head? ≠ some '\n')
    (err : PyErr) (hbad : parseLine l = .error err) :
    parseCodes (String.ofList (renderLines es ++ (l ++ (t.chars ++ rest)))) = .error err := by
  have hsplit : splitLines (l ++ (t.chars ++ rest)) = l :: splitLines rest := by
    by_cases hne : l = []
    · subst hne; simpa [splitLines] using linesFrom_term t ht rest hr
    · exact linesFrom_line l t rest hl hne ht hr
  have hhead : (l ++ (t.chars ++ rest)).head? ≠ some '\n' := by
    have hne : l ++ t.chars ≠ [] := by cases t <;> simp [Term.chars]
    rw [← List.append_assoc]
    cases hlt : l ++ t.chars with
    | nil => exact absurd hlt hne
    | cons c cs => rw [hlt] at hstart; simpa using hstart
  have h := splitLines_render es hes _ hhead
  have hp := parseLines_entries es hes [] (l :: splitLines rest)
  simp only [parseCodes, parseCodesL, String.toList_ofList, h, hsplit, hp, parseLines, hbad]

/-- A blank line (empty or blanks only) raises `IndexError` (`s[0]` of an empty list). -/
theorem parseLine_blank (l : List Char) (hl : ∀ c ∈ l, isSpace c = true) : parseLine l = .error .indexError := by
  have := splitWs_spaces l [] hl
  simp only [List.append_nil, splitWs_nil] at this
  simp [parseLine, this]

/-- A line holding only an id raises `IndexError` (`s[1]`). -/
theorem parseLine_id_only (e : Entry) (he : e.WF) (trailing : List Char) (ht : ∀ c ∈ trailing, isSpace c = true) :
    parseLine (e.lead ++ (e.token ++ trailing)) = .error .indexError := by
  have htok := e.token_facts
  have hv := e.digitValues_spec
  have hint : pyInt16 e.token = .ok (e.id : Int) := by
    have := pyInt16_token e.pfx e.digitValues hv.2.1 hv.1 e.upper
    rw [hv.2.2] at this
    exact this
  have h1 := splitWs_spaces e.lead (e.token ++ trailing) (fun c hc => (isBlank_iff.mp (he.lead_blank c hc)).1)
  have h2 := splitWs_token e.token trailing htok.1 htok.2.1 (by
    intro c hc
    cases trailing with
    | nil => simp at hc
    | cons x r => simp at hc; subst hc; exact ht _ (by simp))
  have h3 := splitWs_spaces trailing [] ht
  simp only [List.append_nil, splitWs_nil] at h3
  simp only [parseLine, h1, h2, h3, hint]

/-! ### The name column -/

/-- An id absent from the supplied table is shown as exactly Python's `hex(id)`. -/
theorem unknown_id_bare_hex (codes : Table) (e : Kevent) (h : codes.get? e.eventid = none) :
    nameColumn codes e.eventid = pyHex e.eventid ∧ formatNameOnly codes e = padRight 58 (pyHex e.eventid) := by
  simp [formatNameOnly, nameColumn, h]

/-- An id of the supplied table is shown as `<name> (<hex id>)` with the supplied name. -/
theorem known_id_named (codes : Table) (e : Kevent) (n : String) (h : codes.get? e.eventid = some n) :
    nameColumn codes e.eventid = n ++ " (" ++ pyHex e.eventid ++ ")" := by
  simp [nameColumn, h]

/-- The column depends on the table only through the lookup of that id. -/
theorem name_column_depends_on_lookup (c1 c2 : Table) (eid : Nat) (h : c1.get? eid = c2.get? eid) :
    nameColumn c1 eid = nameColumn c2 eid := by
  simp [nameColumn, h]

/-- `hex(n)` is "0x" and the base-16 digits of `n`, lower case, no leading zero. -/
theorem pyHex_digits (n : Nat) :
    (pyHex n).toList = '0' :: 'x' :: (hexDigitsNat n).map (digitChar false) := by
  have h : ∀ fuel n, pyHexDigits fuel n = (hexDigitsAux fuel n).map (digitChar false) := by
    intro fuel
    induction fuel with
    | zero => intro n; rfl
    | succ f ih =>
      intro n
      simp only [pyHexDigits, hexDigitsAux]
      split
      · simp [hexDigit, digitChar]
      · simp [ih, hexDigit, digitChar]
  simp only [pyHex, String.toList_append, String.toList_ofList, h, hexDigitsNat]
  rfl

/-- The id a listing shows can be read back: `int(hex(n), 16) = n`. -/
theorem hex_roundtrip (n : Nat) : pyInt16 (pyHex n).toList = .ok (n : Int) := by
  have hs := hexDigitsNat_spec n
  have := pyInt16_token .lower (hexDigitsNat n) hs.2.1 hs.1 (fun _ => false)
  rw [hs.2.2] at this
  have hm : ∀ l : List Nat, (l.mapIdx fun _ d => digitChar false d) = l.map (digitChar false) := by
    intro l
    induction l with
    | nil => rfl
    | cons a l ih => rw [List.mapIdx_cons, List.map_cons, ih]
  rw [pyHex_digits, ← hm]
  exact this

/-! ### Decoding under a supplied table -/

/-- Everything `feed` can answer: never an exception out of the gate itself; a handler call is for the name
    the table gives to the id of the event that completed the window, that name is a key of the handler
    table, and the window starts with an event of that id. -/
theorem decoded_only_named (codes : Table) (handlers traceNames : String → Bool) (h : List Kevent) :
    (decoded codes handlers traceNames h).length = h.length ∧
      ∀ p ∈ List.zip h (decoded codes handlers traceNames h), GateOk codes handlers p.1 p.2 :=
  ⟨decodedFrom_length _ _ _ _ _, decodedFrom_ok codes handlers traceNames _ headInv_empty h⟩

/-- An event whose id is absent from the supplied table never produces a trace (whatever the bundled
    table says about that id, whatever was fed before). -/
theorem unknown_id_not_decoded (codes : Table) (handlers traceNames : String → Bool) (h : List Kevent)
    (e : Kevent) (r : Except PyErr (Option (String × List Kevent)))
    (hp : (e, r) ∈ List.zip h (decoded codes handlers traceNames h)) (habs : codes.get? e.eventid = none) :
    r = .ok none := by
  have := (decoded_only_named codes handlers traceNames h).2 (e, r) hp
  match r, this with
  | .ok none, _ => rfl
  | .ok (some (n, w)), hg =>
    simp only [GateOk] at hg
    rw [habs] at hg
    cases hg.1

/-- … nor does an id whose name is no handler key. -/
theorem unhandled_name_not_decoded (codes : Table) (handlers traceNames : String → Bool) (h : List Kevent)
    (e : Kevent) (r : Except PyErr (Option (String × List Kevent))) (n : String)
    (hp : (e, r) ∈ List.zip h (decoded codes handlers traceNames h)) (hn : codes.get? e.eventid = some n)
    (hh : handlers n = false) : r = .ok none := by
  have := (decoded_only_named codes handlers traceNames h).2 (e, r) hp
  match r, this with
  | .ok none, _ => rfl
  | .ok (some (m, w)), hg =>
    simp only [GateOk] at hg
    rw [hn] at hg
    have : n = m := by simpa using hg.1
    subst this
    rw [hh] at hg
    cases hg.2.1

/-- The gate and the choice of pairing table depend only on `codes[eid]`: rename the ids of a stream by any
    injective `ρ` (`f` re-keys an event, keeping thread and qualifier) and supply a table that gives `ρ x`
    the name the first table gave `x`; then exactly the same handlers are called, on the re-keyed windows.
    So a decodable name is decoded under whatever id the table gives it.  (What the handlers then do with
    the window is outside this model; the vm-fault composite alone looks at hard-coded ids, C20.) -/
theorem decoded_under_any_id (ρ : Nat → Nat) (f : Kevent → Kevent) (hρ : ∀ a b, ρ a = ρ b → a = b)
    (hf : Rekeys ρ f) (c1 c2 : Table) (hc : ∀ x : Nat, c2.get? (ρ x : Nat) = c1.get? x)
    (handlers traceNames : String → Bool) (h : List Kevent) :
    decoded c2 handlers traceNames (h.map f) = (decoded c1 handlers traceNames h).map (mapOut f) :=
  decodedFrom_sim hρ hf hc handlers traceNames (sim_empty ρ f) h

/-- Special case `ρ = id`: two tables that agree on every natural-number key decode every stream alike
    (insertion order, negative keys and overwritten values are irrelevant). -/
theorem decoded_depends_on_lookups (c1 c2 : Table) (hc : ∀ x : Nat, c2.get? x = c1.get? x)
    (handlers traceNames : String → Bool) (h : List Kevent) :
    decoded c2 handlers traceNames h = decoded c1 handlers traceNames h := by
  have := decoded_under_any_id id id (fun _ _ h => h) (fun _ => ⟨rfl, rfl, rfl⟩) c1 c2 hc handlers traceNames h
  simp only [List.map_id] at this
  rw [this]
  have hm : mapOut id = id := by
    funext r
    match r with
    | .error _ => rfl
    | .ok none => rfl
    | .ok (some (n, w)) => simp [mapOut]
  simp [hm]

/-! ### Non-vacuity: concrete inputs meeting the hypotheses -/

def ex1 : Entry :=
  { id := 0x40c000c, name := "BSC_read", pfx := .lower, upper := fun _ => false, zeros := 0, lead := [],
    sep := ['\t'], trail := [], term := .single '\n' }
def ex2 : Entry :=
  { id := 0x40c000c, name := "renamed", pfx := .none, upper := fun i => i % 4 == 0, zeros := 2, lead := [' '],
    sep := [' ', '\u00a0'], trail := " # any comment\u2003+ \x00".toList, term := .crlf }
def ex3 : Entry :=
  { id := 255, name := "日本(x)", pfx := .upper, upper := fun _ => true, zeros := 0, lead := [],
    sep := ['\x1f'], trail := ['\u3000'], term := .single '\u2028' }

theorem ex_wf : ∀ e ∈ [ex1, ex2, ex3], e.WF := by
  intro e he
  simp only [List.mem_cons, List.not_mem_nil, or_false] at he
  rcases he with rfl | rfl | rfl
  · exact ⟨by decide, by decide, by decide, by decide, by decide, by decide, by intro c h; simp [ex1] at h, by decide⟩
  · exact ⟨by decide, by decide, by decide, by decide, by decide, by decide,
      by intro c h; simp [ex2] at h; subst h; decide, by decide⟩
  · exact ⟨by decide, by decide, by decide, by decide, by decide, by decide,
      by intro c h; simp [ex3] at h; subst h; decide, by decide⟩

example : String.ofList (renderLines [ex1, ex2, ex3]) =
    "0x40c000c\tBSC_read\n 0040C000C \u00a0renamed # any comment\u2003+ \x00\r\n0XFF\x1f日本(x)\u3000\u2028" := by
  decide

example : parseCodes (String.ofList (renderLines [ex1, ex2, ex3])) = .ok [(0x40c000c, "renamed"), (255, "日本(x)")] := by
  rw [parse_render _ ex_wf]; decide

example : parseCodes "ff a\n\n10 b" = .error .indexError ∧ parseCodes "ff a\nzz b" = .error .valueError
    ∧ parseCodes "ff a\n10" = .error .indexError ∧ parseCodes "ff a\nzz" = .error .valueError
    ∧ parseCodes "" = .ok [] ∧ parseCodes "-0x_f_f a b c" = .ok [(-255, "a")] := by decide

def evA (ts qual eid : Nat) : Kevent :=
  { timestamp := ts, data := [], values := [1, 2, 3, 4], tid := 7, debugid := eid + qual, eventid := eid, qual := qual }

/-- A name re-keyed to 0x1234560 is decoded there; the bundled id of BSC_read (0x40c000c), absent from the
    supplied table, is not. -/
example :
    decoded [(0x1234560, "BSC_read")] (fun n => n == "BSC_read") (fun _ => false)
      [evA 1 1 0x1234560, evA 2 0 0x40c000c, evA 3 2 0x1234560, evA 4 1 0x40c000c, evA 5 2 0x40c000c] =
    [.ok none, .ok none,
     .ok (some ("BSC_read", [evA 1 1 0x1234560, evA 2 0 0x40c000c, evA 3 2 0x1234560])), .ok none, .ok none] := by
  decide

example : nameColumn [(0x1234560, "BSC_read")] 0x40c000c = "0x40c000c"
    ∧ nameColumn [(0x1234560, "BSC_read")] 0x1234560 = "BSC_read (0x1234560)"
    ∧ (formatNameOnly [] (evA 1 1 0x40c000c)).length = 58 := by decide

/-- The hypotheses of `decoded_under_any_id` are satisfiable with a non-trivial renaming. -/
example : Rekeys (· + 0x100) (fun e => { e with eventid := e.eventid + 0x100, debugid := e.debugid + 0x100 })
    ∧ (∀ a b : Nat, a + 0x100 = b + 0x100 → a = b) :=
  ⟨fun _ => ⟨rfl, rfl, rfl⟩, fun _ _ h => by omega⟩

/-! ### Translation tie: the source text of `from_trace_codes_text`

  `tools/gen_pyir_tc.py` (pure `ast`) reads the one-expression function as a SHAPE (`PyIRTc.CodesFn`: lines by
  `str.splitlines()`, tokens by `str.split()`, key `int(s[0], 16)` evaluated first, value `s[1]`) into
  `Gen/PyIRTc.lean` on every run; `PyIRTc.run` interprets a shape. -/

/-- **The translated source has the shape the model was written for**, and the translator met nothing else. -/
theorem source_is_expected_shape : Gen.PyIRTc.codesFn = PyIRTc.expected ∧ Gen.PyIRTc.notes = [] := by decide

/-- **`from_trace_codes_text`, interpreted, is `parseCodes`** — for every text: the subject of `parse_render`,
    `short_line_raises`, `first_bad_line_raises` … is the translated source. -/
theorem from_trace_codes_text_ir_eq_model (text : String) :
    PyIRTc.run Gen.PyIRTc.codesFn text.toList = parseCodes text := by
  rw [source_is_expected_shape.1]; exact PyIRTc.run_expected text.toList

/-- non-vacuity: the generated shape, interpreted, reads a two-line table, later line winning -/
example : PyIRTc.run Gen.PyIRTc.codesFn "0x40c0548\tBSC_stat64\n40C0548 other #c\n0x1 x".toList =
    .ok [(0x40c0548, "other"), (1, "x")] := by decide +kernel

end KdVerif.C19
