import Driver.Cmd.OsLog
import KdVerif.Model.PyIROl
import KdVerif.Gen.PyIROl
import KdVerif.Spec.PyIROlExpected
/-
  Commands for the translation tie of `OsLogEvent.parse_trace_identifier`, `parse_decomposed` and
  `parse_decomposed_segment` (C16): the program GENERATED from the source (`Gen/PyIROl`) run by the interpreter of
  `Model/PyIROl` on the reflected tables of `Gen/OsLog`.

  olircheck                      `same` | `differs <parts>` (`C16.source_is_expected_ir`)
  oslog-dm-ir <hex json>         the command `oslog-dm` of Driver/Cmd/OsLog through the generated `parse_decomposed`
                                 (which calls the generated `parse_decomposed_segment`)
  traceid-ir <int>               `traceid` through the generated `parse_trace_identifier`
  oslog-ir <hex json>            `oslog` with the `decomposed` and `traceId` transforms of the key chain answered by the
                                 generated methods (everything else is the chain interpreter of Model/OsLog)
  Same argument and answer formats as the mirrored commands; `unsupported` when the translation of a method the command
  runs contains a node outside the IR (or the translator left a note).
-/
open KdVerif KdVerif.OsLog
namespace Driver.PyIROl
open Driver.OsLog KdVerif.PyIROl

def unsupportedIn (names : List String) : Bool :=
  !Gen.PyIROl.notes.isEmpty ||
  names.any fun n =>
    match findFun Gen.PyIROl.prog n with
    | some fd => fd.body.hasUnsupported
    | none => true

def dmFuns : List String := ["parse_decomposed", "parse_decomposed_segment"]
def idFuns : List String := ["parse_trace_identifier"]

def cmdCheck : Cmd := fun _ =>
  let g := Gen.PyIROl.prog
  let x := KdVerif.PyIROl.Expected.prog
  let funDiff := (g.funs.zip x.funs).filterMap fun (a, b) => if a = b then none else some a.name
  let d : List String :=
    funDiff ++ (if g.funs.length = x.funs.length then [] else ["functions"]) ++
    (if g.classes = x.classes then [] else ["classes"]) ++
    (if Gen.PyIROl.notes.isEmpty then [] else ["notes"])
  if g = x && Gen.PyIROl.notes.isEmpty then "same" else
    "differs " ++ ",".intercalate (if d.isEmpty then ["program"] else d) ++
      (if g.hasUnsupported || !Gen.PyIROl.notes.isEmpty then " unsupported" else "")

def runDm (S : Strings) (dm : PVal) : Except PyErr PVal :=
  run Gen.OsLog.idTables S Gen.PyIROl.prog "parse_decomposed" [.pv dm, .table]

def runId (S : Strings) (v : PVal) : Except PyErr PVal :=
  run Gen.OsLog.idTables S Gen.PyIROl.prog "parse_trace_identifier" [.pv v]

/-- `oslog-dm-ir <hex json {"d": decomposed, "s": strings}>` -/
def cmdDecomposed : Cmd
  | [h] =>
    if unsupportedIn dmFuns then "unsupported" else
    match jsonArg h with
    | some (.dict top) =>
      match top.lookup "d", (top.lookup "s").bind stringsOf with
      | some dm, some S => answer (runDm S dm)
      | _, _ => "bad-op"
    | _ => "bad-op"
  | _ => "bad-op"

/-- `traceid-ir <int>` -/
def cmdTraceId : Cmd
  | [w] =>
    if unsupportedIn idFuns then "unsupported" else
    match w.toInt? with
    | some n => answer (runId [] (.int n))
    | none => "bad-op"
  | _ => "bad-op"

/-- `OsLog.step` with the two method transforms taken from the generated program -/
def stepIR (T : IdTables) (S : Strings) (e : Entry) (st : Dict × Dict) : Except PyErr (Dict × Dict) :=
  match st.1.lookup e.key with
  | none => if e.required then .error .keyError else .ok st
  | some v =>
    let r := match e.tr with
      | .decomposed => runDm S v
      | .traceId => runId S v
      | tr => applyTransform T S tr v
    match r with
    | .error err => .error err
    | .ok r => .ok (derase st.1 e.key, (e.field, r) :: st.2)

def runChainIR (T : IdTables) (S : Strings) : List Entry → Dict × Dict → Except PyErr (Dict × Dict)
  | [], st => .ok st
  | e :: es, st =>
    match stepIR T S e st with
    | .error err => .error err
    | .ok st' => runChainIR T S es st'

/-- `oslog-ir <hex json {"e": event, "s": strings}>` -/
def cmdOsLog : Cmd
  | [h] =>
    if unsupportedIn (dmFuns ++ idFuns) then "unsupported" else
    match jsonArg h with
    | some (.dict top) =>
      match top.lookup "e", (top.lookup "s").bind stringsOf with
      | some (.dict ev), some S =>
        let T := Gen.OsLog.tables
        let r : Except PyErr Dict :=
          match runChainIR T.id S T.chain (ev, []) with
          | .error err => .error err
          | .ok st => if T.ctorOk then construct T.fields st.2 else .error .typeError
        answer (r.map PVal.dict)
      | _, _ => "bad-op"
    | _ => "bad-op"
  | _ => "bad-op"

def commands : List (String × Cmd) :=
  [("olircheck", cmdCheck), ("oslog-dm-ir", cmdDecomposed), ("traceid-ir", cmdTraceId), ("oslog-ir", cmdOsLog)]

end Driver.PyIROl
