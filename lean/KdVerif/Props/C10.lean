import KdVerif.Proofs.IRDecoders
/-
  C10 — syscall results: errors take precedence and come only from the END record.

  Subject: the BSD decoders of `Gen.Decoders.decoders` (regenerated from bsd.py on every run; the body
  of `serialize_result` / `handle_pipe` is inlined by the translator, so a change to the shared result
  serializer changes every decoder's IR and these theorems are re-checked against it).
-/
namespace KdVerif.C10
open KdVerif.IR KdVerif.DecoderFacts

/-- The BSD syscalls that cannot fail or do not return (the property's own list, by name key). -/
def exempt : List Nat :=
  [ 1522137941954752423160164        -- BSC_getpid
  , 1522137941954752423487844        -- BSC_getuid
  , 389667313140416620145240420      -- BSC_geteuid
  , 389667313140416620329462116      -- BSC_getppid
  , 389667313140416620144322916      -- BSC_getegid
  , 1522137941954752422570340        -- BSC_getgid
  , 389667313140416620328874608      -- BSC_getpgrp
  , 5945851335821014168427           -- BSC_umask
  , 23225981780518071907             -- BSC_sync
  , 471078875919418491243629222804630242497254857996901   -- BSC_sys_getdtablesize
  , 99754832163946654787145525614    -- BSC_getlogin
  , 1522137941952634751776357        -- BSC_execve
  , 5945851335825192612459           -- BSC_vfork
  , 1840151859037600149138904360953431088660723364965     -- BSC_bsdthread_create
  , 120596192233795280899163069076556861202883280777470308 ]  -- BSC_abort_with_payload

def commaSp : List Nat := [44, 32]

/-- `'errno: NAME(code)'` if the host knows the code, else `'errno: code'` — as an IR expression. -/
def errExpr : Expr :=
  .cat (.strLit [101, 114, 114, 110, 111, 58, 32])
    (.ite (.hostHas .errno (.endArg 0))
      (.cat (.hostGet .errno (.endArg 0)) (.cat (.strLit [40]) (.cat (.strOf (.endArg 0)) (.strLit [41]))))
      (.strOf (.endArg 0)))

/-- The success part may read the END record's return word (word 1; `pipe` also word 2) and nothing else. -/
def succSel : Sel := { endL := [1, 2] }

/-- `r` is "error text if the error word is non-zero, else `succ`" (both spellings in the source). -/
def resultOf : Expr → Option Expr
  | .ite (.notE (.endArg 0)) succ err => if err = errExpr then some succ else none
  | .ite (.endArg 0) err succ => if err = errExpr then some succ else none
  | _ => none

def resOK (r : Expr) : Bool :=
  match resultOf r with
  | some succ => within succSel succ
  | none => false

/-- The three ways a result is appended to the call text. -/
def tailOK : Expr → Bool
  | .ite r (.cat (.strLit l) (.strOf r')) (.strLit []) => l = commaSp && r = r' && resOK r   -- only if non-empty
  | .cat (.strLit l) (.strOf r) => l = commaSp && resOK r                                     -- always
  | .cat (.strLit l) (.cat (.strOf r) extra) =>                                                -- fsgetpath: + path
    l = commaSp && resOK r && within { lookups := true } extra
  | _ => false

def resultShaped (d : Decoder) : Bool :=
  !(d.family == 0) || exempt.contains d.key ||
    (match d.shape with
     | some s => tailOK (subst d.fields s.tail)
     | none => false)

/-- What a result part may read: the END record, host errno table, (fsgetpath) the looked-up path. -/
def tailSel : Sel := { endL := [0, 1, 2], hostErrno := true, lookups := true }

def tailReadsEndOnly (d : Decoder) : Bool :=
  !(d.family == 0) || exempt.contains d.key ||
    (match d.shape with
     | some s => within tailSel (subst d.fields s.tail)
     | none => false)

/-! ### Reflective facts (kernel-checked against the regenerated table) -/

/-- Every decoded BSD syscall outside the exempt list ends in a result part of one of the three shapes,
    built from the shared error text and a success text that reads only the END return word(s). -/
theorem all_resultful : decoders.all resultShaped = true := by decide +kernel

/-- The result part of every non-exempt BSD decoder reads no START word, thread id or context table. -/
theorem all_tails_read_end_only : decoders.all tailReadsEndOnly = true := by decide +kernel

/-- The call part of every BSD syscall decoder reads no END word and no errno name (stated here independently
    of C09, which proves more about call parts). -/
theorem bsd_calls_ignore_end :
    decoders.all (fun d => !(d.family == 0) || (match d.shape with
      | some s => (callPiecesOf d s).all (within callSel)
      | none => false)) = true := by decide +kernel

/-! ### Semantics of the result -/

/-- The error text for error word `e` under host table `h`. -/
def errText (h : Host) (e : Nat) : String :=
  "errno: " ++ (match h.errno e with
    | some n => n ++ ("(" ++ (toString e ++ ")"))
    | none => toString e)

theorem litString_errno : litString [101, 114, 114, 110, 111, 58, 32] = "errno: " := by decide
theorem litString_lp : litString [40] = "(" := by decide
theorem litString_rp : litString [41] = ")" := by decide

theorem errExpr_eval (c : Ctx) (e : Nat) (he : c.win.endArgs[0]? = some e) :
    eval c errExpr = .ok (.str (errText c.host e)) := by
  have h0 : ¬ ((e : Int) < 0) := by omega
  unfold errExpr errText
  cases hh : c.host.errno e with
  | none =>
    simp [eval, he, hh, Host.table, pyStr, bind, Except.bind, pure, Except.pure, litString_errno]
    rfl
  | some n =>
    simp [eval, he, hh, Host.table, pyStr, asNat, truthy, bind, Except.bind, pure, Except.pure, litString_errno,
      litString_lp, litString_rp, h0]
    rfl

/-- **Errors take precedence**: if the END record's error word is non-zero, the result reads
    `errno: NAME(code)` / `errno: code` with exactly that code — whatever the success text, the return
    word and the START record are. -/
theorem result_error (c : Ctx) (r succ : Expr) (hr : resultOf r = some succ) (e : Nat)
    (he : c.win.endArgs[0]? = some e) (hne : e ≠ 0) :
    eval c r = .ok (.str (errText c.host e)) := by
  unfold resultOf at hr
  split at hr
  · split at hr
    · rename_i herr
      simp only [Option.some.injEq] at hr
      subst herr
      simp [eval, he, truthy, hne, bind, Except.bind, pure, Except.pure, errExpr_eval c e he]
    · simp at hr
  · split at hr
    · rename_i herr
      simp only [Option.some.injEq] at hr
      subst herr
      simp [eval, he, truthy, hne, bind, Except.bind, errExpr_eval c e he]
    · simp at hr
  · simp at hr

/-- **No errno on success**: if the error word is zero the result is the success text alone. -/
theorem result_success (c : Ctx) (r succ : Expr) (hr : resultOf r = some succ)
    (he : c.win.endArgs[0]? = some 0) : eval c r = eval c succ := by
  unfold resultOf at hr
  split at hr
  · split at hr
    · simp only [Option.some.injEq] at hr
      subst hr
      simp [eval, he, truthy, bind, Except.bind, pure, Except.pure]
    · simp at hr
  · split at hr
    · simp only [Option.some.injEq] at hr
      subst hr
      simp [eval, he, truthy, bind, Except.bind]
    · simp at hr
  · simp at hr

/-- **Any success value shown is a rendering of the END record's return word**: the success text is the
    same in any two contexts whose END return words (1, and 2 for `pipe`) agree — START record, error
    word, lookups, host and context tables may all differ. -/
theorem success_text_from_return_word (succ : Expr) (hs : within succSel succ = true) (c c' : Ctx)
    (ht : c.tables = c'.tables) (h1 : c.win.endArgs[1]? = c'.win.endArgs[1]?)
    (h2 : c.win.endArgs[2]? = c'.win.endArgs[2]?) : eval c succ = eval c' succ := by
  apply eval_congr succSel c c' _ succ hs
  constructor <;> simp_all [succSel]

/-- Packaging for a decoder: the witness `r`/`succ` of its result part. -/
theorem decoder_result (d : Decoder) (hd : d ∈ decoders) (hfam : d.family = 0) (hex : d.key ∉ exempt) :
    ∃ s, d.shape = some s ∧ tailOK (subst d.fields s.tail) = true := by
  have h := List.all_eq_true.mp all_resultful d hd
  simp only [resultShaped, hfam, beq_self_eq_true, Bool.not_true, Bool.false_or, Bool.or_eq_true,
    List.contains_eq_mem, decide_eq_true_eq] at h
  rcases h with h | h
  · exact absurd h hex
  · cases hs : d.shape with
    | none => simp [hs] at h
    | some s => exact ⟨s, rfl, by simpa [hs] using h⟩

/-- Every `tailOK` tail contains a result expression `r` with its success text `succ`. -/
theorem tailOK_result (t : Expr) (h : tailOK t = true) :
    ∃ r succ, resultOf r = some succ ∧ within succSel succ = true ∧
      (t = .ite r (.cat (.strLit commaSp) (.strOf r)) (.strLit []) ∨
       t = .cat (.strLit commaSp) (.strOf r) ∨
       ∃ extra, t = .cat (.strLit commaSp) (.cat (.strOf r) extra) ∧ within { lookups := true } extra = true) := by
  unfold tailOK at h
  split at h
  · rename_i r l r'
    simp only [Bool.and_eq_true, decide_eq_true_eq] at h
    obtain ⟨⟨hl, hr⟩, hres⟩ := h
    subst hl hr
    unfold resOK at hres
    cases hro : resultOf r with
    | none => simp [hro] at hres
    | some succ => exact ⟨r, succ, hro, by simpa [hro] using hres, Or.inl rfl⟩
  · rename_i l r
    simp only [Bool.and_eq_true, decide_eq_true_eq] at h
    obtain ⟨hl, hres⟩ := h
    subst hl
    unfold resOK at hres
    cases hro : resultOf r with
    | none => simp [hro] at hres
    | some succ => exact ⟨r, succ, hro, by simpa [hro] using hres, Or.inr (Or.inl rfl)⟩
  · rename_i l r extra
    simp only [Bool.and_eq_true, decide_eq_true_eq] at h
    obtain ⟨⟨hl, hres⟩, hex⟩ := h
    subst hl
    unfold resOK at hres
    cases hro : resultOf r with
    | none => simp [hro] at hres
    | some succ => exact ⟨r, succ, hro, by simpa [hro] using hres, Or.inr (Or.inr ⟨extra, rfl, hex⟩)⟩
  · simp at h

/-- **The result part depends only on the END record** (and the host's errno names, and for fsgetpath the
    looked-up path): for every BSD decoder and any two windows whose END words 0..2 and lookups agree, the
    result texts are equal, whatever the START records, thread ids and context tables are. -/
theorem tail_depends_only_on_end (d : Decoder) (hd : d ∈ decoders) (hfam : d.family = 0)
    (hex : d.key ∉ exempt) (s : Shape) (hs : d.shape = some s) (h : Host) (t : Tables) (w w' : Window)
    (he : ∀ k, k < 3 → w.endArgs[k]? = w'.endArgs[k]?)
    (hl : w.lookups = w'.lookups) (hr : w.restFirst = w'.restFirst) :
    evalS (ctx h t w) (subst d.fields s.tail) = evalS (ctx h t w') (subst d.fields s.tail) := by
  have hw := List.all_eq_true.mp all_tails_read_end_only d hd
  simp only [tailReadsEndOnly, hfam, beq_self_eq_true, Bool.not_true, Bool.false_or, hs, Bool.or_eq_true,
    List.contains_eq_mem, decide_eq_true_eq] at hw
  rcases hw with hw | hw
  · exact absurd hw hex
  apply evalS_congr tailSel _ _ _ _ hw
  constructor <;> simp_all [tailSel, ctx]

/-- The call part does not depend on the END record: for every BSD decoder and any two windows with the same
    START words and lookups — whatever their END records — the call texts are equal. -/
theorem call_indep_of_end (d : Decoder) (hd : d ∈ decoders) (hfam : d.family = 0)
    (s : Shape) (hs : d.shape = some s) (h : Host) (t : Tables) (w w' : Window) (hw : SameStart w w') :
    evalPieces (ctx h t w) (callPiecesOf d s) = evalPieces (ctx h t w') (callPiecesOf d s) := by
  have := List.all_eq_true.mp bsd_calls_ignore_end d hd
  simp only [hfam, beq_self_eq_true, Bool.not_true, Bool.false_or, hs] at this
  apply evalPieces_congr callSel _ _ _ _ this
  constructor <;> simp [callSel, ctx, hw.start, hw.lookups, hw.rest]

/-! ### Non-vacuity -/

/-- BSC_open is a non-exempt BSD decoder; its tail has the "always" shape with success text `fd: <word 1>`. -/
example : ∃ d ∈ decoders, d.key = 23225981780450370926 ∧ d.family = 0 ∧ d.key ∉ exempt ∧
    (d.shape.map fun s => subst d.fields s.tail) =
      some (.cat (.strLit commaSp) (.strOf (.ite (.endArg 0) errExpr
        (.cat (.strLit [102, 100, 58, 32]) (.strOf (.endArg 1)))))) := by
  decide +kernel

example : errText { errno := fun n => if n = 2 then some "ENOENT" else none, signals := fun _ => none,
                    addressFamily := fun _ => none, socketKind := fun _ => none, solSocket := 0 } 2
    = "errno: ENOENT(2)" := by decide +kernel

end KdVerif.C10
