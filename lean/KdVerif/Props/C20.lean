import KdVerif.Proofs.Composite
import KdVerif.Proofs.PyIRCo
import KdVerif.Gen.PyIRCo
/-
  C20 — composite traces reflect exactly the records nested in their window.

  Subject: `Trace.handle env t name events` for the three composite handlers of Model/Trace
  (`handle_mach_vmfault` / `handle_timing_launch_executable` / `handle_event`), i.e. what
  `TracesParser.parse_event_list` returns for a delivered window `events` (C04: `events[0]` is the START record,
  `events[-1]` the END record, in between every record of the same thread and table, in order).  The code table
  (`env.codes`), the host tables and the text decoder are arbitrary; enums and generated decoders are the tables
  regenerated from the repository (`StdEnv`).  All statements hold for every window: any number and order of nested
  records of every kind, any flag word.
-/
namespace KdVerif.C20
open KdVerif KdVerif.IR KdVerif.Trace KdVerif.Composite

/-! ## Page faults (`MACH_vmfault`) -/

/-- The hard-coded id range `0x1320008 <= e.eventid <= 0x1320014`. -/
def inRange (e : Kevent) : Bool := decide (0x1320008 ≤ e.eventid ∧ e.eventid ≤ 0x1320014)

/-- `events[1:-1]`. -/
def interior (events : List Kevent) : List Kevent := (events.drop 1).dropLast

/-- The first record of `events[1:-1]` whose id lies in the range. -/
def firstReal (events : List Kevent) : Option Kevent := (interior events).find? inRange

/-- `DbgVmFaultType(x).name`; `none` = ValueError (x outside 1..11). -/
def faultName (x : Nat) : Option String := (Gen.Enums.DbgVmFaultType.ofValue (x : Int)).map (·.name)

/-- `to_vm_prot(x)`, by name. -/
def toVmProt (x : Nat) : List String :=
  if x = 0 then ["VM_PROT_NONE"] else (Gen.Enums.VmProtection.flagsOf x).map (·.name)

/-- What the first in-range record contributes. -/
inductive Real
  | absent                                          -- no record of `events[1:-1]` lies in the range
  | undecoded                                       -- its id has no name, or the name no handler: `parse_event_list` -> None
  | decoded (pid : Nat) (prot : List String)        -- one of the three RealFaultAddress* kinds, fault-type byte valid
  | badType                                         -- one of the three kinds, `DbgVmFaultType(args[1] & 0xff)` raises
  | other (name : String)                           -- the code table names it something another handler decodes
  deriving DecidableEq, Repr

def classify (env : Env) (events : List Kevent) : Real :=
  match firstReal events with
  | none => .absent
  | some r =>
    match env.codes r.eventid with
    | none => .undecoded
    | some n =>
      if n ∈ realFaultClasses then
        match faultName (arg r 1 &&& 0xff) with
        | none => .badType
        | some _ => .decoded (arg r 3) (toVmProt ((arg r 1 >>> 8) &&& 0xff))
      else if isHandled env n then .other n else .undecoded

/-- `MachVmfault.__str__` up to the result. -/
def vmHead (s e : Kevent) : String :=
  s!"MachVmfault, addr: {pyHex (arg s 1)}, is_kernel: {if arg s 2 = 0 then "False" else "True"}, result: {arg e 2}"

/-- The page-fault trace the property prescribes (`self` stands for the cases the property is silent about). -/
def vmfaultExpected (env : Env) (t : Tabs) (events : List Kevent) (self : HRes) : HRes :=
  let s := firstOf events
  let e := lastOf events
  if arg e 2 ≠ 0 then
    .ok (some (mk "MACH_vmfault" events (vmHead s e) (.vmfault (arg e 2) none none none)), t)
  else
    match faultName (arg e 3) with
    | none => .error .valueError
    | some ft =>
      match classify env events with
      | .absent | .undecoded =>
        .ok (some (mk "MACH_vmfault" events (vmHead s e ++ s!", type: {ft}") (.vmfault 0 (some ft) none none)), t)
      | .decoded pid prot =>
        .ok (some (mk "MACH_vmfault" events
              (vmHead s e ++ s!", type: {ft}, vm_prot: {" | ".intercalate prot}, pid: {pid}")
              (.vmfault 0 (some ft) (some pid) (some prot))), t)
      | .badType => .error .valueError
      | .other _ => self

theorem enumNameOfValue_faultType {env : Env} (h : StdEnv env) (x : Nat) :
    enumNameOfValue env "DbgVmFaultType" x = faultName x := by
  unfold enumNameOfValue faultName
  rw [h.tables, find_faultType]

theorem realEvents_eq (events : List Kevent) : realEvents events = (interior events).filter inRange := rfl

/-- **C20, page faults.**  The trace's result is word 2 of the END record.  When it is non-zero nothing else is
    shown.  When it is 0 the fault type is the enum name of END word 3 (ValueError when it is not a member).  Pid and
    protection come from the FIRST record of `events[1:-1]` whose id lies in 0x1320008..0x1320014, provided the code
    table names it one of the three decoded kinds and its own fault-type byte (`word1 & 0xff`) is a member
    (ValueError otherwise): pid = its word 3, protection = `to_vm_prot((word1 >> 8) & 0xff)`.  They are omitted
    (None, and absent from the text) when there is no such record or the first one is of a kind without a handler
    (fix F13).  `str(trace)` shows exactly these; the context tables are untouched.  (`Real.other`: a custom code
    table makes another handler decode the in-range records — see `vmfault_other_handler`.) -/
theorem vmfault_spec (env : Env) (h : StdEnv env) (t : Tabs) (events : List Kevent)
    (hwf : ∀ e ∈ events, e.values.length = 4) :
    handle env t "MACH_vmfault" events = vmfaultExpected env t events (handle env t "MACH_vmfault" events) := by
  unfold vmfaultExpected vmHead
  by_cases hres : arg (lastOf events) 2 ≠ 0
  · rw [handle_unfold, handleWith_vmfault]
    simp only [hMachVmfault, vmfaultCore, hres, ne_eq, not_false_eq_true, if_true, Except.map]
  · simp only [hres, if_false]
    cases hft : faultName (arg (lastOf events) 3) with
    | none =>
      rw [handle_unfold, handleWith_vmfault]
      simp only [hMachVmfault, vmfaultCore, hres, if_false, enumNameOfValue_faultType h, hft, Except.map]
    | some ft =>
      simp only []
      have hplain : ∀ (res : Except PyErr (Option TraceOut × Tabs)),
          (realEvents events = [] ∨ res = .ok (none, t)) →
          (realEvents events ≠ [] → parseEventList env t (realEvents events) = res) →
          handle env t "MACH_vmfault" events =
            .ok (some (mk "MACH_vmfault" events (vmHead (firstOf events) (lastOf events) ++ s!", type: {ft}")
                  (.vmfault 0 (some ft) none none)), t) := by
        intro res h1 h2
        unfold vmHead
        rw [handle_unfold, handleWith_vmfault]
        by_cases hemp : realEvents events = []
        · simp only [hMachVmfault, vmfaultCore, hres, if_false, enumNameOfValue_faultType h, hft, Except.map, hemp,
            List.isEmpty_nil, if_true]
        · have hres' : res = .ok (none, t) := h1.resolve_left hemp
          have hie : (realEvents events).isEmpty = false := by
            cases hl : realEvents events with
            | nil => exact absurd hl hemp
            | cons _ _ => rfl
          simp only [hMachVmfault, vmfaultCore, hres, if_false, enumNameOfValue_faultType h, hft, Except.map, hie,
            h2 hemp, hres', Bool.false_eq_true]
      unfold classify
      cases hfr : firstReal events with
      | none =>
        simp only []
        exact hplain (.ok (none, t)) (Or.inl (by rw [realEvents_eq]; exact filter_of_find?_none _ _ hfr))
          (fun hne => absurd (by rw [realEvents_eq]; exact filter_of_find?_none _ _ hfr) hne)
      | some r =>
        simp only []
        obtain ⟨rest, hrest⟩ := filter_of_find?_some _ _ _ hfr
        have hreal : realEvents events = r :: rest := by rw [realEvents_eq]; exact hrest
        have hrmem : r ∈ events := by
          have h1 : r ∈ interior events := List.mem_of_find?_eq_some hfr
          exact List.mem_of_mem_drop (List.dropLast_subset _ h1)
        cases hc : env.codes r.eventid with
        | none =>
          simp only []
          refine hplain (.ok (none, t)) (Or.inr rfl) (fun _ => ?_)
          rw [hreal, parseEventList_unfold]
          simp [parseEventListWith, hc]
        | some n =>
          simp only []
          by_cases hn : n ∈ realFaultClasses
          · simp only [hn, if_true]
            -- the generated RealFaultAddress* decoder runs on `r :: rest`
            have hlen := hwf r hrmem
            obtain ⟨a0, a1, a2, a3, hv⟩ : ∃ a0 a1 a2 a3, r.values = [a0, a1, a2, a3] := by
              match hvs : r.values, hlen with
              | [a0, a1, a2, a3], _ => exact ⟨a0, a1, a2, a3, rfl⟩
            have harg1 : arg r 1 = a1 := by simp [arg, hv]
            have harg3 : arg r 3 = a3 := by simp [arg, hv]
            have hp := parse_realFault h (parseEventList env) t r rest n hn hc a0 a1 a2 a3 hv
            rw [← parseEventList_unfold, ← hreal] at hp
            have hfn : faultName (arg r 1 &&& 0xff) =
                (Gen.Enums.DbgVmFaultType.ofValue ((a1 &&& 255 : Nat) : Int)).map (·.name) := by
              rw [harg1]; rfl
            rw [hfn]
            have hie : (realEvents events).isEmpty = false := by rw [hreal]; rfl
            cases hm : Gen.Enums.DbgVmFaultType.ofValue ((a1 &&& 255 : Nat) : Int) with
            | none =>
              rw [hm] at hp
              simp only [Option.map_none]
              rw [handle_unfold, handleWith_vmfault]
              simp only [hMachVmfault, vmfaultCore, hres, if_false, enumNameOfValue_faultType h, hft, Except.map, hie,
                hp, Bool.false_eq_true]
            | some m =>
              rw [hm] at hp
              obtain ⟨text, hp⟩ := hp
              simp only [Option.map_some]
              rw [handle_unfold, handleWith_vmfault]
              have hcont : realFaultClasses.contains n = true := by simpa using hn
              simp only [hMachVmfault, vmfaultCore, hres, if_false, enumNameOfValue_faultType h, hft, Except.map, hie,
                hp, Bool.false_eq_true, pidProtOf, hcont, if_true, List.getElem?_cons_succ, List.getElem?_cons_zero,
                Int.toNat_natCast, harg3, harg1, toVmProt, vmProtMembers]
              by_cases hz : a1 >>> 8 &&& 255 = 0 <;> simp [hz]
          · simp only [hn, if_false]
            by_cases hh : isHandled env n = true
            · simp only [hh, if_true]
            · simp only [hh, if_false, Bool.false_eq_true]
              refine hplain (.ok (none, t)) (Or.inr rfl) (fun _ => ?_)
              rw [hreal, parseEventList_unfold]
              simp [parseEventListWith, hc, hh]

/-- The nested records are decoded by `parse_event_list` itself (the recursion fuel of the model is invisible):
    whatever handler the code table names for the first in-range record receives ALL in-range records of
    `events[1:-1]`; `None` from it leaves pid/protection out, an object without both attributes raises. -/
theorem vmfault_nested (env : Env) (t : Tabs) (events : List Kevent) :
    handle env t "MACH_vmfault" events = hMachVmfault (parseEventList env) env t events := by
  rw [handle_unfold, handleWith_vmfault]

/-- `Real.other`: a handler that returns an object lacking `pid`/`caller_prot` makes the page-fault handler raise
    AttributeError (`unmodelled` stands for "AttributeError after the nested handler changed the context tables",
    which the model's error channel cannot express). -/
theorem vmfault_other_handler (env : Env) (h : StdEnv env) (t t' : Tabs) (events : List Kevent) (ft : String)
    (out : TraceOut) (hres : arg (lastOf events) 2 = 0) (hft : faultName (arg (lastOf events) 3) = some ft)
    (hne : realEvents events ≠ []) (hnested : parseEventList env t (realEvents events) = .ok (some out, t'))
    (hattr : pidProtOf out = .error .attributeError) :
    handle env t "MACH_vmfault" events = .error .attributeError ∨
    handle env t "MACH_vmfault" events = .error .unmodelled := by
  rw [vmfault_nested]
  have hie : (realEvents events).isEmpty = false := by
    cases hl : realEvents events with
    | nil => exact absurd hl hne
    | cons _ _ => rfl
  simp only [hMachVmfault, vmfaultCore, hres, ne_eq, not_true_eq_false, if_false, enumNameOfValue_faultType h, hft,
    hie, hnested, hattr, Bool.false_eq_true]
  by_cases hs : t'.same t = true
  · left; simp only [hs, if_true, Except.map]
  · right; simp only [hs, if_false, Except.map, Bool.false_eq_true]

/-- What of a handler answer is not the record list itself: handler key, `str(trace)`, payload; the tables. -/
def payload (r : Option TraceOut × Tabs) : Option (String × Except PyErr String × Extra) × Tabs :=
  (r.1.map fun o => (o.name, o.text, o.extra), r.2)

theorem window_first (s e : Kevent) (mid : List Kevent) : firstOf (s :: mid ++ [e]) = s := rfl

theorem window_last (s e : Kevent) (mid : List Kevent) : lastOf (s :: mid ++ [e]) = e := by
  rw [lastOf, List.getLast?_concat]
  rfl

theorem window_interior (s e : Kevent) (mid : List Kevent) : interior (s :: mid ++ [e]) = mid := by
  simp [interior]

/-- **C20, page faults: nothing else contributes.**  For a window `START :: mid ++ [END]` the trace (text, payload,
    exception, tables) depends on START, END and the in-range records of `mid` only: the START/END records themselves
    are never candidates (even when a custom code table puts their id into the range), and records outside the id
    range — unrelated same-thread records — may be added, removed or reordered freely. -/
theorem vmfault_ignores_outside (env : Env) (t : Tabs) (s e : Kevent) (mid₁ mid₂ : List Kevent)
    (h : mid₁.filter inRange = mid₂.filter inRange) :
    (handle env t "MACH_vmfault" (s :: mid₁ ++ [e])).map payload =
    (handle env t "MACH_vmfault" (s :: mid₂ ++ [e])).map payload := by
  rw [vmfault_nested, vmfault_nested]
  unfold hMachVmfault
  rw [window_first, window_first, window_last, window_last, realEvents_eq, realEvents_eq, window_interior,
    window_interior, h]
  cases vmfaultCore (parseEventList env) env t s e (mid₂.filter inRange) <;> rfl

/-- In particular a two-record window (START, END) has no candidate, whatever the ids. -/
theorem vmfault_start_end_not_candidates (env : Env) (s e : Kevent) : classify env [s, e] = .absent := rfl

/-! ## Launch (`DBG_DYLD_TIMING_LAUNCH_EXECUTABLE`) -/

/-- `(load_addr, uuid bytes)` of a map / shared-cache record: word 2 and the first 16 data bytes. -/
def imageOf (e : Kevent) : Nat × Bytes := (arg e 2, e.data.take 16)

/-- All nested `DYLD_uuid_map_a` records followed by all `DYLD_uuid_shared_cache_a` records, in window order. -/
def launchEntries (env : Env) (events : List Kevent) : List (Nat × Bytes) :=
  (events.filter (fun e => env.codes e.eventid == some "DYLD_uuid_map_a") ++
   events.filter (fun e => env.codes e.eventid == some "DYLD_uuid_shared_cache_a")).map imageOf

/-- **C20, launch.**  `uuid_map_a` lists every nested `DYLD_uuid_map_a` record and every nested
    `DYLD_uuid_shared_cache_a` record and nothing else (`Perm`), each with load address = word 2 and uuid = the first
    16 data bytes, in ascending order of load address (`Pairwise`), stably: for every address the entries with that
    address appear in the order "map records in window order, then shared-cache records in window order".
    (Every kernel record carries 32 data bytes; with fewer than 16 `UUID(bytes=…)` raises ValueError.) -/
theorem launch_spec (env : Env) (t : Tabs) (events : List Kevent) (hdata : ∀ e ∈ events, 16 ≤ e.data.length) :
    ∃ imgs, handle env t "DBG_DYLD_TIMING_LAUNCH_EXECUTABLE" events =
        .ok (some (mk "DBG_DYLD_TIMING_LAUNCH_EXECUTABLE" events
              s!"DBG_DYLD_TIMING_LAUNCH_EXECUTABLE, main_executable_mh: {pyHex (arg (firstOf events) 1)}"
              (.launch imgs)), t)
      ∧ imgs.Perm (launchEntries env events)
      ∧ imgs.Pairwise (fun a b => a.1 ≤ b.1)
      ∧ ∀ a, imgs.filter (fun i => i.1 == a) = (launchEntries env events).filter (fun i => i.1 == a) := by
  refine ⟨sortStable (launchEntries env events), ?_, sortStable_perm _, sortStable_sorted _,
    fun a => sortStable_filter a _⟩
  show handleWith _ env t "DBG_DYLD_TIMING_LAUNCH_EXECUTABLE" events = _
  rw [handleWith_launch]
  unfold hDyldLaunch
  dsimp only
  rw [mapM_ok _ imageOf _ (by
    intro e he
    have hd : 16 ≤ e.data.length := by
      rcases List.mem_append.mp he with he | he <;> exact hdata e (List.mem_filter.mp he).1
    rw [uuidBytes_ok e hd]; rfl)]
  rfl

/-! ## Sampler (`PERF_Event`) -/

/-- `parser.trace_codes.get(ev.eventid, '') == name` -/
def named (env : Env) (n : String) (e : Kevent) : Bool := (env.codes e.eventid).getD "" == n

def samplerNames (x : Nat) : List String := (Gen.Enums.SamplerAction.flagsOf x).map (·.name)
def callstackNames (x : Nat) : List String := (Gen.Enums.CallstackFlag.flagsOf x).map (·.name)

/-- The words of all `PERF_STK_UData` records of the window, chained in window order. -/
def udataWords (env : Env) (events : List Kevent) : List Nat :=
  ((events.filter (named env "PERF_STK_UData")).map (·.values)).flatten

/-- Thread info requested (bit 0 = SAMPLER_TH_INFO) and supplied: (pid, tid) of the FIRST `PERF_THD_Data` record. -/
def thInfoOf (env : Env) (events : List Kevent) : Option (Nat × Nat) :=
  if arg (firstOf events) 0 &&& 1 ≠ 0 then
    (events.find? (named env "PERF_THD_Data")).map fun r => (arg r 0, arg r 1)
  else none

/-- User stack requested (bit 3 = SAMPLER_USTACK) and announced: the first N chained words, N = word 1 of the FIRST
    `PERF_STK_UHdr` record, and the callstack flag names of its word 0. -/
def stackOf (env : Env) (events : List Kevent) : Option (List Nat × List String) :=
  if arg (firstOf events) 0 &&& 8 ≠ 0 then
    (events.find? (named env "PERF_STK_UHdr")).map fun hd =>
      ((udataWords env events).take (arg hd 1), callstackNames (arg hd 0))
  else none

/-- Bit 0 of the flag word is SAMPLER_TH_INFO (reflected `SamplerAction`). -/
theorem thInfo_bit (x : Nat) : (samplerNames x).contains "SAMPLER_TH_INFO" = decide (x &&& 1 ≠ 0) := by
  have := contains_flag_name Gen.Enums.SamplerAction ⟨"SAMPLER_TH_INFO", 1⟩ (by decide) (by decide) (by decide) x
  rw [Nat.and_comm] at this
  exact this

/-- Bit 3 of the flag word is SAMPLER_USTACK (reflected `SamplerAction`). -/
theorem ustack_bit (x : Nat) : (samplerNames x).contains "SAMPLER_USTACK" = decide (x &&& 8 ≠ 0) := by
  have := contains_flag_name Gen.Enums.SamplerAction ⟨"SAMPLER_USTACK", 8⟩ (by decide) (by decide) (by decide) x
  rw [Nat.and_comm] at this
  exact this

theorem enumNamesOf_sampler {env : Env} (h : StdEnv env) (x : Nat) : enumNamesOf env "SamplerAction" x = samplerNames x := by
  unfold enumNamesOf samplerNames; rw [h.tables, find_sampler]

theorem enumNamesOf_callstack {env : Env} (h : StdEnv env) (x : Nat) : enumNamesOf env "CallstackFlag" x = callstackNames x := by
  unfold enumNamesOf callstackNames; rw [h.tables, find_callstack]

/-- **C20, sampler.**  Thread info is present iff flag bit 0 of START word 0 is set AND a `PERF_THD_Data` record
    is in the window: then pid/tid are words 0/1 of the FIRST such record and `threads_pids[tid] = pid` is recorded;
    otherwise the tables are untouched.  The user stack is present iff bit 3 is set AND a `PERF_STK_UHdr` record is
    in the window: then the frames are the first N words of the chained `PERF_STK_UData` records (N = word 1 of the
    first header) and the flags are the callstack flag names of its word 0.  `str(trace)` ends in `frames count` exactly
    when frames are present. -/
theorem sampler_spec (env : Env) (h : StdEnv env) (t : Tabs) (events : List Kevent) :
    handle env t "PERF_Event" events =
      .ok (some (mk "PERF_Event" events
            (s!"PERF_Event, sample_what: {" | ".intercalate (samplerNames (arg (firstOf events) 0))}, actionid: {arg (firstOf events) 1}"
              ++ (match stackOf env events with
                  | some st => s!", frames count: {st.1.length}"
                  | none => ""))
            (.perf (thInfoOf env events) ((stackOf env events).map (·.1)) ((stackOf env events).map (·.2)))),
           match thInfoOf env events with
           | some (pid, tid) => { t with threadsPids := t.threadsPids.set tid pid }
           | none => t) := by
  show handleWith _ env t "PERF_Event" events = _
  rw [handleWith_perf]
  unfold hPerfEvent thInfoOf stackOf
  simp only [enumNamesOf_sampler h, enumNamesOf_callstack h, thInfo_bit, ustack_bit, decide_eq_true_eq]
  have hth : events.filter (namedIs env "PERF_THD_Data") = events.filter (named env "PERF_THD_Data") := rfl
  have hhd : events.filter (namedIs env "PERF_STK_UHdr") = events.filter (named env "PERF_STK_UHdr") := rfl
  by_cases h0 : arg (firstOf events) 0 &&& 1 = 0 <;> by_cases h3 : arg (firstOf events) 0 &&& 8 = 0
  all_goals
    simp only [h0, h3, ne_eq, not_true_eq_false, not_false_eq_true, if_true, if_false, hth, hhd]
    cases hf : events.find? (named env "PERF_THD_Data") <;> cases hg : events.find? (named env "PERF_STK_UHdr")
    all_goals
      first
      | rw [filter_of_find?_none _ _ hf]
      | (obtain ⟨rest, hr⟩ := filter_of_find?_some _ _ _ hf; rw [hr])
      | skip
      first
      | rw [filter_of_find?_none _ _ hg]
      | (obtain ⟨rest', hr'⟩ := filter_of_find?_some _ _ _ hg; rw [hr'])
      | skip
      try simp only [Option.map_none, Option.map_some, String.append_empty]
      try rfl

/-- Thread info present ⇔ bit 0 (SAMPLER_TH_INFO) set ∧ a `PERF_THD_Data` record in the window. -/
theorem sampler_thinfo_iff (env : Env) (events : List Kevent) :
    (thInfoOf env events).isSome ↔
      (arg (firstOf events) 0 &&& 1 ≠ 0 ∧ ∃ r ∈ events, named env "PERF_THD_Data" r = true) := by
  unfold thInfoOf
  by_cases h0 : arg (firstOf events) 0 &&& 1 = 0
  · simp [h0]
  · simp only [ne_eq, h0, not_false_eq_true, if_true, Option.isSome_map, List.find?_isSome, true_and]

/-- User stack present ⇔ bit 3 (SAMPLER_USTACK) set ∧ a `PERF_STK_UHdr` record in the window; `PERF_STK_UData`
    records alone (header-less) never make a stack. -/
theorem sampler_stack_iff (env : Env) (events : List Kevent) :
    (stackOf env events).isSome ↔
      (arg (firstOf events) 0 &&& 8 ≠ 0 ∧ ∃ r ∈ events, named env "PERF_STK_UHdr" r = true) := by
  unfold stackOf
  by_cases h0 : arg (firstOf events) 0 &&& 8 = 0
  · simp [h0]
  · simp only [ne_eq, h0, not_false_eq_true, if_true, Option.isSome_map, List.find?_isSome, true_and]

/-- Which record wins: the first `PERF_THD_Data` record of the window (`pre` holds none). -/
theorem sampler_thinfo_first (env : Env) (pre post : List Kevent) (r : Kevent)
    (hbit : arg (firstOf (pre ++ r :: post)) 0 &&& 1 ≠ 0)
    (hpre : ∀ x ∈ pre, named env "PERF_THD_Data" x = false) (hr : named env "PERF_THD_Data" r = true) :
    thInfoOf env (pre ++ r :: post) = some (arg r 0, arg r 1) := by
  unfold thInfoOf
  rw [if_pos hbit, List.find?_append, List.find?_eq_none.mpr (by simpa using hpre)]
  simp [hr]

/-- Which header wins, and what it selects: the first `PERF_STK_UHdr` record; N = its word 1. -/
theorem sampler_stack_first (env : Env) (pre post : List Kevent) (r : Kevent)
    (hbit : arg (firstOf (pre ++ r :: post)) 0 &&& 8 ≠ 0)
    (hpre : ∀ x ∈ pre, named env "PERF_STK_UHdr" x = false) (hr : named env "PERF_STK_UHdr" r = true) :
    stackOf env (pre ++ r :: post) =
      some ((udataWords env (pre ++ r :: post)).take (arg r 1), callstackNames (arg r 0)) := by
  unfold stackOf
  rw [if_pos hbit, List.find?_append, List.find?_eq_none.mpr (by simpa using hpre)]
  simp [hr]

/-- Flag-less variant: with bits 0 and 3 clear the trace carries neither, whatever records the window holds, the
    text has no `frames count` and the tables are untouched. -/
theorem sampler_flagless (env : Env) (h : StdEnv env) (t : Tabs) (events : List Kevent)
    (h0 : arg (firstOf events) 0 &&& 1 = 0) (h3 : arg (firstOf events) 0 &&& 8 = 0) :
    handle env t "PERF_Event" events =
      .ok (some (mk "PERF_Event" events
            s!"PERF_Event, sample_what: {" | ".intercalate (samplerNames (arg (firstOf events) 0))}, actionid: {arg (firstOf events) 1}"
            (.perf none none none)), t) := by
  rw [sampler_spec env h]
  simp only [thInfoOf, stackOf, h0, h3, ne_eq, not_true_eq_false, if_false, Option.map_none, String.append_empty]

/-- Header-less / record-less variant: all flags set but no `PERF_THD_Data` and no `PERF_STK_UHdr` record in the
    window — again neither (stray `PERF_STK_UData` records are ignored). -/
theorem sampler_recordless (env : Env) (h : StdEnv env) (t : Tabs) (events : List Kevent)
    (hth : ∀ x ∈ events, named env "PERF_THD_Data" x = false)
    (hhd : ∀ x ∈ events, named env "PERF_STK_UHdr" x = false) :
    handle env t "PERF_Event" events =
      .ok (some (mk "PERF_Event" events
            s!"PERF_Event, sample_what: {" | ".intercalate (samplerNames (arg (firstOf events) 0))}, actionid: {arg (firstOf events) 1}"
            (.perf none none none)), t) := by
  rw [sampler_spec env h]
  have e1 : events.find? (named env "PERF_THD_Data") = none := List.find?_eq_none.mpr (by simpa using hth)
  have e2 : events.find? (named env "PERF_STK_UHdr") = none := List.find?_eq_none.mpr (by simpa using hhd)
  simp only [thInfoOf, stackOf, e1, e2, Option.map_none, ite_self, String.append_empty]

/-! ## Non-vacuity: concrete windows -/

def codes0 : Nat → Option String := fun k => List.lookup k
  [(0x1300008, "MACH_vmfault"), (0x1320008, "RealFaultAddressInternal"), (0x132000c, "RealFaultAddressPurgeable"),
   (0x1320010, "RealFaultAddressExternal"), (0x1400000, "MACH_SCHED"), (0x1f070004, "DBG_DYLD_TIMING_LAUNCH_EXECUTABLE"),
   (0x1f050000, "DYLD_uuid_map_a"), (0x1f050008, "DYLD_uuid_shared_cache_a"), (0x25000000, "PERF_Event"),
   (0x25010000, "PERF_THD_Data"), (0x25020010, "PERF_STK_UHdr"), (0x25020014, "PERF_STK_UData")]

def env0 : Env :=
  { codes := codes0, host := ⟨fun _ => none, fun _ => none, fun _ => none, fun _ => none, 0⟩,
    tables := Gen.Decoders.tables, decoders := Gen.Decoders.decoders, dec := fun _ => .ok "" }

theorem env0_std : StdEnv env0 := ⟨rfl, rfl⟩

def ev (ts eid q : Nat) (vals : List Nat) (data : Bytes := List.replicate 32 0) : Kevent :=
  { timestamp := ts, data := data, values := vals, tid := 5, debugid := eid ||| q, eventid := eid, qual := q }

/-- START, an unrelated scheduler record, a Purgeable-free pair of real-fault records (Internal wins), END. -/
def vmWin : List Kevent :=
  [ev 1 0x1300008 1 [0, 0x7000, 1, 0], ev 2 0x1400000 0 [1, 2, 3, 4],
   ev 3 0x1320008 0 [0x1000, 0x50302, 11, 22], ev 4 0x1320010 0 [0x2000, 0x50103, 33, 44],
   ev 5 0x1300008 2 [0, 0, 0, 2]]

example : classify env0 vmWin = .decoded 22 ["VM_PROT_READ", "VM_PROT_WRITE"] := by decide
example : ∀ e ∈ vmWin, e.values.length = 4 := by decide

example : ∃ text, handle env0 {} "MACH_vmfault" vmWin =
    .ok (some (mk "MACH_vmfault" vmWin text
      (.vmfault 0 (some "DBG_PAGEIN_FAULT") (some 22) (some ["VM_PROT_READ", "VM_PROT_WRITE"]))), {}) := by
  rw [vmfault_spec env0 env0_std {} vmWin (by decide)]
  have hr : arg (lastOf vmWin) 2 = 0 := rfl
  have hf : faultName (arg (lastOf vmWin) 3) = some "DBG_PAGEIN_FAULT" := by decide
  have hc : classify env0 vmWin = .decoded 22 ["VM_PROT_READ", "VM_PROT_WRITE"] := by decide
  simp only [vmfaultExpected, hr, hf, hc, ne_eq, not_true_eq_false, if_false]
  exact ⟨_, rfl⟩

/-- The first in-range record is of the kind without a handler (F13): pid and protection are omitted although a
    decodable record follows. -/
def vmWinPurgeable : List Kevent :=
  [ev 1 0x1300008 1 [0, 0x7000, 0, 0], ev 2 0x132000c 0 [0x1000, 0x50302, 11, 22],
   ev 3 0x1320010 0 [0x2000, 0x50103, 33, 44], ev 4 0x1300008 2 [0, 0, 0, 1]]

example : classify env0 vmWinPurgeable = .undecoded := by decide +kernel

example : ∃ text, handle env0 {} "MACH_vmfault" vmWinPurgeable =
    .ok (some (mk "MACH_vmfault" vmWinPurgeable text (.vmfault 0 (some "DBG_ZERO_FILL_FAULT") none none)), {}) := by
  rw [vmfault_spec env0 env0_std {} vmWinPurgeable (by decide)]
  have hr : arg (lastOf vmWinPurgeable) 2 = 0 := rfl
  have hf : faultName (arg (lastOf vmWinPurgeable) 3) = some "DBG_ZERO_FILL_FAULT" := by decide
  have hc : classify env0 vmWinPurgeable = .undecoded := by decide +kernel
  simp only [vmfaultExpected, hr, hf, hc, ne_eq, not_true_eq_false, if_false]
  exact ⟨_, rfl⟩

/-- ValueError guards are reachable: END word 3 = 77, resp. fault-type byte 0x4d of the nested record. -/
example : faultName 77 = none := by decide
example : classify env0 [ev 1 0x1300008 1 [0, 0, 0, 0], ev 2 0x1320008 0 [1, 0x34d, 3, 4], ev 3 0x1300008 2 [0, 0, 0, 1]]
    = .badType := by decide
/-- A custom code table that names an in-range id after another handler. -/
example : classify { env0 with codes := fun k => if k = 0x1320010 then some "MACH_SCHED" else codes0 k }
    [ev 1 0x1300008 1 [0, 0, 0, 0], ev 2 0x1320010 0 [1, 2, 3, 4], ev 3 0x1300008 2 [0, 0, 0, 1]] = .other "MACH_SCHED" := by
  decide +kernel

/-- `vmfault_ignores_outside` applies: the scheduler record of `vmWin` may be dropped. -/
example : (vmWin.drop 1).dropLast.filter inRange = ((vmWin.drop 1).dropLast.eraseIdx 0).filter inRange := by decide

/-- Launch: two map records and two shared-cache records, equal and out-of-order addresses, an unrelated record. -/
def u (b : Nat) : Bytes := List.replicate 16 b ++ List.replicate 16 0

def launchWin : List Kevent :=
  [ev 1 0x1f070004 1 [0, 0x10000, 0, 0], ev 2 0x1f050008 0 [0, 0, 0x2000, 7] (u 1), ev 3 0x1f050000 0 [0, 0, 0x3000, 7] (u 2),
   ev 4 0x1400000 0 [1, 2, 3, 4] (u 9), ev 5 0x1f050000 0 [0, 0, 0x2000, 7] (u 3), ev 6 0x1f050008 0 [0, 0, 0x1000, 7] (u 4),
   ev 7 0x1f070004 2 [0, 0, 0, 0]]

example : ∀ e ∈ launchWin, 16 ≤ e.data.length := by decide
example : ∃ imgs, handle env0 {} "DBG_DYLD_TIMING_LAUNCH_EXECUTABLE" launchWin =
      .ok (some (mk "DBG_DYLD_TIMING_LAUNCH_EXECUTABLE" launchWin
            s!"DBG_DYLD_TIMING_LAUNCH_EXECUTABLE, main_executable_mh: {pyHex (arg (firstOf launchWin) 1)}" (.launch imgs)), {})
    ∧ imgs.length = 4 := by
  obtain ⟨imgs, h1, h2, _⟩ := launch_spec env0 {} launchWin (by decide)
  exact ⟨imgs, h1, by rw [h2.length_eq]; decide +kernel⟩
example : launchEntries env0 launchWin =
    [(0x3000, List.replicate 16 2), (0x2000, List.replicate 16 3), (0x2000, List.replicate 16 1), (0x1000, List.replicate 16 4)] := by
  decide +kernel
example : sortStable (launchEntries env0 launchWin) =
    [(0x1000, List.replicate 16 4), (0x2000, List.replicate 16 3), (0x2000, List.replicate 16 1), (0x3000, List.replicate 16 2)] := by
  decide +kernel

/-- Sampler: all four flag/record situations occur. -/
def sampleWin (flags : Nat) : List Kevent :=
  [ev 1 0x25000000 1 [flags, 1, 0, 0], ev 2 0x25010000 0 [10, 100, 0, 1], ev 3 0x25010000 0 [11, 101, 0, 1],
   ev 4 0x25020010 0 [5, 6, 0, 0], ev 5 0x25020014 0 [1, 2, 3, 4], ev 6 0x1400000 0 [9, 9, 9, 9],
   ev 7 0x25020014 0 [5, 6, 7, 8], ev 8 0x25000000 2 [flags, 1, 0, 0]]

example : thInfoOf env0 (sampleWin 9) = some (10, 100) := by decide
example : stackOf env0 (sampleWin 9) = some ([1, 2, 3, 4, 5, 6], ["CALLSTACK_VALID", "CALLSTACK_64BIT"]) := by decide
example : thInfoOf env0 (sampleWin 8) = none ∧ (stackOf env0 (sampleWin 8)).isSome = true := by decide
example : (thInfoOf env0 (sampleWin 1)).isSome = true ∧ stackOf env0 (sampleWin 1) = none := by decide
example : thInfoOf env0 (sampleWin 0x3ff6) = none ∧ stackOf env0 (sampleWin 0x3ff6) = none := by decide
/-- header-less: bit 3 set, data records present, no header -/
example : stackOf env0 ((sampleWin 8).eraseIdx 3) = none := by decide

/-! ## Translation tie: the composite handlers are the translated source

  `tools/gen_pyir_co.py` translates the source text of perf.py (`handle_event`, `handle_thd_data` and the other three
  handlers, their dataclasses' `__str__`), of `handle_mach_vmfault` (mach.py) and of `handle_timing_launch_executable` with
  the two image handlers it calls (dyld.py) into the Python-subset IR of `Model/PyIRCo` on every run (`Gen/PyIRCo`).  The
  theorems below say that the generated terms, run by the big-step interpreter, ARE the hand-model functions the theorems
  above speak about — for every environment (code table, enum tables), every meaning of the nested `parse_event_list`,
  all tables and every non-empty window of four-word records (`Words4`: what `from_kd_buf` produces; the hand model
  totalises `values[k]` with `getD`, the interpreter raises IndexError like Python). -/

/-- **The translated source is the program the refinement lemmas were proved for** (`Spec/PyIRCoExpected`, quoting the
    Python): every handler body, every `__str__`, the `handlers` entries of the three modules — and the translator met
    nothing outside the subset. -/
theorem source_is_expected_ir :
    Gen.PyIRCo.perf = PyIRCo.Expected.perf ∧ Gen.PyIRCo.mach = PyIRCo.Expected.mach ∧
    Gen.PyIRCo.dyld = PyIRCo.Expected.dyld ∧ Gen.PyIRCo.notes = [] := by decide

section ir
open PyIRCo
variable (env : Env) (nested : NestedFn) (t : Tabs) (e : Kevent) (rest : List Kevent)

/-- **`handle_thd_data`, interpreted, is `hPerfThdData`**: `threads_pids[word 1] = word 0`, the text
    `PERF_THD_Data, pid: …, tid: …, dq_addr: 0x…, runmode: …` with the `KperfTiState` names of `word 3 & 0xffff`. -/
theorem handle_thd_data_ir_eq_model (h4 : e.values.length = 4) :
    runHandler Gen.PyIRCo.perf env nested "PERF_THD_Data" t (e :: rest) = hPerfThdData env t (e :: rest) := by
  rw [source_is_expected_ir.1]; exact run_thdData env nested t e rest h4

/-- **`handle_event`, interpreted, is `hPerfEvent`**: thread info (through the interpreted `handle_thd_data`, tables
    included) iff `SamplerAction.SAMPLER_TH_INFO in sample_what` and the window holds a `PERF_THD_Data` record; user stack
    iff `SAMPLER_USTACK` and a `PERF_STK_UHdr` record — frames = the first `nframes` words of the chained
    `handle_stk_udata(parser, [ev]).frames`, flags from the interpreted `handle_stk_uhdr`; `str()` through the translated
    `PerfEvent.__str__`; the payload read off the returned object. -/
theorem handle_event_ir_eq_model (hw : Words4 (e :: rest)) :
    runHandler Gen.PyIRCo.perf env nested "PERF_Event" t (e :: rest) = hPerfEvent env t (e :: rest) := by
  rw [source_is_expected_ir.1]; exact run_event env nested t e rest hw

/-- `sampler_spec` (and with it `sampler_thinfo_iff` … `sampler_recordless`) speaks about the translated source: the
    subject `handle env t "PERF_Event"` of those theorems is the interpreted generated handler. -/
theorem sampler_subject_is_source (hw : Words4 (e :: rest)) :
    handle env t "PERF_Event" (e :: rest) = runHandler Gen.PyIRCo.perf env nested "PERF_Event" t (e :: rest) := by
  rw [handle_event_ir_eq_model env nested t e rest hw]
  show handleWith _ env t "PERF_Event" (e :: rest) = _
  rw [handleWith_perf]

/-- **`handle_mach_vmfault`, interpreted, is `hMachVmfault`** — whatever `parser.parse_event_list` means (`nested`):
    result = END word 2; for result 0 the fault type `DbgVmFaultType(END word 3)` (ValueError outside the enum, before
    anything else happens), then `nested` on the records of `events[1:-1]` with `0x1320008 <= eventid <= 0x1320014` if
    there are any; `None` from it leaves pid / protection out, otherwise they are `.pid` / `.caller_prot` of what it
    returned (`pidProtOf`); an exception of `nested` or of the attribute reads is the handler's (an attribute error after
    `nested` changed the tables: `.unmodelled`, as in the hand model); `str()` through the translated
    `MachVmfault.__str__`. -/
theorem handle_mach_vmfault_ir_eq_model (hw : Words4 (e :: rest)) :
    runHandler Gen.PyIRCo.mach env nested "MACH_vmfault" t (e :: rest) = hMachVmfault nested env t (e :: rest) := by
  rw [source_is_expected_ir.2.1]; exact run_vmfault env nested t e rest hw

/-- `vmfault_spec`, `vmfault_ignores_outside`, `vmfault_other_handler` speak about the translated source: their subject
    `handle env t "MACH_vmfault"` is the interpreted generated handler with `parse_event_list` as the nested call. -/
theorem vmfault_subject_is_source (hw : Words4 (e :: rest)) :
    handle env t "MACH_vmfault" (e :: rest) =
      runHandler Gen.PyIRCo.mach env (parseEventList env) "MACH_vmfault" t (e :: rest) := by
  rw [handle_mach_vmfault_ir_eq_model env _ t e rest hw, vmfault_nested]

/-- **`handle_timing_launch_executable`, interpreted, is `hDyldLaunch`**: `uuid_map_a` = the interpreted
    `handle_uuid_map_a(parser, [e])` of every record named `DYLD_uuid_map_a`, then `handle_uuid_shared_cache_a(parser, [e])`
    of every record named `DYLD_uuid_shared_cache_a` (window order; `UUID(bytes=data[:16])` raises ValueError on a short
    record, the first one in that order), `sorted(…, key=lambda x: x.load_addr)` (stable); main_executable_mh = START word 1;
    `str()` through the translated `__str__`; tables untouched. -/
theorem handle_timing_launch_executable_ir_eq_model (hw : Words4 (e :: rest)) :
    runHandler Gen.PyIRCo.dyld env nested "DBG_DYLD_TIMING_LAUNCH_EXECUTABLE" t (e :: rest) = hDyldLaunch env t (e :: rest) := by
  rw [source_is_expected_ir.2.2.1]; exact run_launch env nested t e rest hw

/-- `launch_spec` speaks about the translated source. -/
theorem launch_subject_is_source (hw : Words4 (e :: rest)) :
    handle env t "DBG_DYLD_TIMING_LAUNCH_EXECUTABLE" (e :: rest) =
      runHandler Gen.PyIRCo.dyld env nested "DBG_DYLD_TIMING_LAUNCH_EXECUTABLE" t (e :: rest) := by
  rw [handle_timing_launch_executable_ir_eq_model env nested t e rest hw]
  show handleWith _ env t "DBG_DYLD_TIMING_LAUNCH_EXECUTABLE" (e :: rest) = _
  rw [handleWith_launch]

/-- **The whole parser with the four composite handlers taken from the source** (`PERF_Event`, `PERF_THD_Data`,
    `MACH_vmfault`, `DBG_DYLD_TIMING_LAUNCH_EXECUTABLE` interpreted from the generated programs, nested
    `parse_event_list` calls included) is `Trace.run`: same traces, same exception, same final state — from every state
    whose open windows hold four-word records, on every stream of four-word records. -/
theorem run_ir_eq_model (s : PState) (es : List Kevent)
    (hs : PInv (fun x => x.values.length = 4) s.pairing) (hw : Words4 es) :
    runVia Gen.PyIRCo.progs env s es = Trace.run env s es := by
  have h : Gen.PyIRCo.progs = PyIRCo.Expected.progs := by
    show (⟨Gen.PyIRCo.perf, Gen.PyIRCo.mach, Gen.PyIRCo.dyld⟩ : Programs) = ⟨_, _, _⟩
    rw [source_is_expected_ir.1, source_is_expected_ir.2.1, source_is_expected_ir.2.2.1]
  rw [h]; exact runVia_eq env es s hs hw

end ir

/-- Enum members are compared by (class, name) in the interpreter (`SamplerAction.SAMPLER_TH_INFO in e.sample_what`): exact
    because no two members of the reflected `SamplerAction` share a value (no aliases). -/
theorem sampler_action_has_no_alias : (Gen.Enums.SamplerAction.members.map (·.value)).Nodup := by decide

/-! #### non-vacuity: the generated handlers on concrete windows -/

example : PyIRCo.Words4 launchWin := by decide
example : PInv (fun x => x.values.length = 4) Pairing.PState.empty := PInv_empty _

/-- the generated launch handler on `launchWin`: four images, ascending, equal addresses in "maps first" order -/
example :
    (PyIRCo.runHandler Gen.PyIRCo.dyld env0 (fun t _ => .ok (none, t)) "DBG_DYLD_TIMING_LAUNCH_EXECUTABLE" {}
        launchWin).toOption.map (fun r => r.1.map fun o => (o.text.toOption, match o.extra with | .launch i => i | _ => [])) =
      some (some (some "DBG_DYLD_TIMING_LAUNCH_EXECUTABLE, main_executable_mh: 0x10000",
        [(0x1000, List.replicate 16 4), (0x2000, List.replicate 16 3), (0x2000, List.replicate 16 1),
         (0x3000, List.replicate 16 2)])) := by decide +kernel

example : PyIRCo.Words4 vmWin := by decide

/-- the generated `handle_mach_vmfault` on `vmWin`, the nested records decoded by the model's `parse_event_list` (the
    generated `RealFaultAddressInternal` decoder): pid 22, protection READ | WRITE of the FIRST in-range record -/
example :
    (PyIRCo.runHandler Gen.PyIRCo.mach env0 (parseEventList env0) "MACH_vmfault" {} vmWin).toOption.map
        (fun r => r.1.map (·.text.toOption)) =
      some (some (some ("MachVmfault, addr: 0x7000, is_kernel: True, result: 0, type: DBG_PAGEIN_FAULT, " ++
        "vm_prot: VM_PROT_READ | VM_PROT_WRITE, pid: 22"))) := by decide +kernel

/-- … and on `vmWinPurgeable` (first in-range record of a kind without handler): pid / protection omitted -/
example :
    (PyIRCo.runHandler Gen.PyIRCo.mach env0 (parseEventList env0) "MACH_vmfault" {} vmWinPurgeable).toOption.map
        (fun r => r.1.map (·.text.toOption)) =
      some (some (some "MachVmfault, addr: 0x7000, is_kernel: False, result: 0, type: DBG_ZERO_FILL_FAULT")) := by
  decide +kernel

example : PyIRCo.Words4 (sampleWin 9) := by decide

/-- the generated `handle_event` on the sample window with flags TH_INFO | USTACK: thread info of the FIRST `PERF_THD_Data`
    record, six frames, `threads_pids[100] = 10` -/
example :
    (PyIRCo.runHandler Gen.PyIRCo.perf env0 (fun t _ => .ok (none, t)) "PERF_Event" {} (sampleWin 9)).toOption.map
        (fun r => (r.1.map (·.text.toOption), r.2.threadsPids)) =
      some (some (some "PERF_Event, sample_what: SAMPLER_TH_INFO | SAMPLER_USTACK, actionid: 1, frames count: 6"),
        [(100, 10)]) := by decide +kernel

/-- the generated `handle_thd_data` -/
example :
    (PyIRCo.runHandler Gen.PyIRCo.perf env0 (fun t _ => .ok (none, t)) "PERF_THD_Data" {}
        [ev 2 0x25010000 0 [10, 100, 0x20, 5]]).toOption.map (fun r => (r.1.map (·.text.toOption), r.2.threadsPids)) =
      some (some (some "PERF_THD_Data, pid: 10, tid: 100, dq_addr: 0x20, runmode: KPERF_TI_RUNNING | KPERF_TI_WAIT"),
        [(100, 10)]) := by decide +kernel

end KdVerif.C20
