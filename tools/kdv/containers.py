"""Shared harness pieces for the container readers (C02, C03, C06): independent Python encoders of the
v2 / v3 file grammars, a counting reader with budget and watchdog, and the canonical rendering of what the real
`KdBufParser` did (same text as `Driver/Cmd/Container.lean` prints for the model)."""
import io
import plistlib
import signal

from . import core
from . import impl  # noqa: F401  (puts REPO_DIR first on sys.path)

V2_MAGIC = b'\x00\x02\xaa\x55'
V3_MAGIC = b'\x00\x03\xaa\x55'
STACKSHOT_END = b'stackshot_out_fl'
TAG_THREADMAP = b'\x00\x1d\x00\x00\x00\x00\x00\x00'
TAG_EVENTS = b'\x00\x1e\x00\x00\x00\x00\x00\x00'
TAG_MORE = b'\x00\x20\x00\x00\x00\x00\x00\x00'
TAG_DYLD = b'\x01\x80\x00\x00\x00\x00\x00\x00'
TAG_CODES = b'\x0f\x80\x00\x00\x00\x00\x00\x00'
TAG_PROCS = b'\x10\x80\x00\x00\x00\x00\x00\x00'
TAG_LOGS = b'\x11\x80\x00\x00\x00\x00\x00\x00'
TAG_STRINGS = b'\x12\x80\x00\x00\x00\x00\x00\x00'
TAG_KEXTS = b'\x05\x80\x00\x00\x00\x00\x00\x00'
TAG_IMAGES = b'\x04\x80\x00\x00\x01\x00\x00\x00'
V2_MAGIC_BYTES = b'\x00\x02\xaa\x55'
ALL_TAGS = [STACKSHOT_END, TAG_THREADMAP, TAG_EVENTS, TAG_MORE, TAG_DYLD, TAG_CODES, TAG_PROCS, TAG_LOGS,
            TAG_STRINGS, TAG_KEXTS, TAG_IMAGES]
MODP = 2305843009213693951


class Budget(Exception):
    pass


class Watchdog(Exception):
    pass


class CountingReader:
    """Wraps a BytesIO; counts read calls, bytes requested and bytes returned; enforces a call budget."""

    def __init__(self, data: bytes, budget=None):
        self.s = io.BytesIO(data)
        self.calls = self.got = self.req = 0
        self.budget = budget

    def read(self, n=-1):
        self.calls += 1
        if self.budget is not None and self.calls + self.got > self.budget:
            raise Budget('read budget exceeded')
        out = self.s.read(n)
        self.req += n if n is not None and n >= 0 else 0
        self.got += len(out)
        return out

    def _charge(self, n):
        self.calls += 1
        if self.budget is not None and self.calls + self.got > self.budget:
            raise Budget('read budget exceeded')
        self.req += n if n is not None and n >= 0 else 0

    # the other ways an io.IOBase hands out bytes: accounted like read (a reader written with readinto / read1 / readline
    # is judged by the same budget and the same linear bound)
    def read1(self, n=-1):
        self._charge(n)
        out = self.s.read1(n)
        self.got += len(out)
        return out

    def readinto(self, buf):
        self._charge(memoryview(buf).nbytes)
        n = self.s.readinto(buf)
        self.got += n or 0
        return n

    readinto1 = readinto

    def readline(self, n=-1):
        self._charge(n)
        out = self.s.readline(n)
        self.got += len(out)
        return out

    def readable(self):
        return True

    def seekable(self):
        return True

    def writable(self):
        return False

    @property
    def closed(self):
        return False

    def seek(self, *a):
        return self.s.seek(*a)

    def tell(self):
        return self.s.tell()


def _alarm(signum, frame):
    raise Watchdog('watchdog')


def guarded(fn, seconds=20):
    """Run fn() under a SIGALRM watchdog (a hang of the real code becomes a `Watchdog` outcome)."""
    old = signal.signal(signal.SIGALRM, _alarm)
    signal.alarm(seconds)
    try:
        return fn()
    finally:
        signal.alarm(0)
        signal.signal(signal.SIGALRM, old)


# --------------------------------------------------------------------------------------------------
# encoders (the harness's own; diffed against Lean's Spec.encodeV2 / Spec.encodeV3)

def enc_thread(tid, pid, name: bytes, junk: bytes = b''):
    """junk: bytes left in the 20-byte command field BEHIND the name's terminator (a reused kernel slot: the field is a C
    string, whatever follows the first NUL is not part of the name)."""
    assert len(name) <= 20 and (not junk or len(name) + 1 + len(junk) <= 20)
    field = name + (b'\x00' + junk if junk else b'')
    return tid.to_bytes(8, 'little') + pid.to_bytes(4, 'little') + field + b'\x00' * (20 - len(field))


def add_junk(rng, threads):
    """Thread entries [tid, pid, name hex] -> the same with a 4th element: bytes behind the terminator."""
    out = []
    for t in threads:
        room = 19 - len(bytes.fromhex(t[2]))
        if room > 0 and rng.random() < 0.7:
            k = rng.randrange(1, room + 1)
            style = rng.randrange(4)
            junk = (rng.randbytes(k) if style == 0 else bytes(rng.choice(b'abcxyz/._') for _ in range(k)) if style == 1
                    else (b'srv\x00' * 5)[:k] if style == 2 else b'\xff' * k)
            out.append(list(t[:3]) + [junk.hex()])
        else:
            out.append(list(t[:3]))
    return out


def enc_v2(threads, pad, recs, is64=1, tick=24000000):
    out = V2_MAGIC + len(threads).to_bytes(4, 'little') + b'\x00' * 12 + is64.to_bytes(4, 'little') + \
        tick.to_bytes(8, 'little') + b'\x00' * 0x100
    for t in threads:
        out += enc_thread(*t)
    return out + b'\x00' * pad + b''.join(recs)


def enc_v3(f):
    """f: dict(hdr=[12 ints], cpu=payload, filler, gap1, threads=[(tid,pid,name)], tmtrail, chunks=[(gap, extra, [recs])],
    blocks=[(tag, payload, padded)], unknown8=[8-byte strings per chunk])."""
    sizes = [4, 4, 8, 4, 4, 8, 8, 4, 4, 4, 4, 4]
    out = V3_MAGIC
    body = b''.join(v.to_bytes(s, 'little') for v, s in zip(f['hdr'], sizes))
    body += len(f['cpu']).to_bytes(8, 'little') + f['cpu']
    body += b'\x00' * (-len(body) % 8)
    out += body
    out += f.get('four', b'\x00' * 4)
    out += f['filler'] + STACKSHOT_END + f['gap1'] + TAG_THREADMAP
    tm = b''.join(enc_thread(*t) for t in f['threads']) + f['tmtrail']
    out += len(tm).to_bytes(8, 'little') + tm
    for i, (gap, extra, recs) in enumerate(f['chunks']):
        if i > 0:
            out += TAG_MORE
        out += gap + TAG_EVENTS + (64 * len(recs) + extra).to_bytes(8, 'little') + f['unknown8'][i] + b''.join(recs)
    for tag, payload, padded in f['blocks']:
        out += tag + len(payload).to_bytes(8, 'little') + payload
        if padded:
            out += b'\x00' * (-(8 + len(payload)) % 8)
    return out


# --------------------------------------------------------------------------------------------------
# canonical rendering of a run of the real parser

def show_tables(tp, pn):
    a = ','.join('%d:%d' % kv for kv in sorted(tp.items()))
    b = ','.join('%d:%s' % (k, (v.encode('utf-8', 'surrogatepass') if isinstance(v, str) else bytes(v)).hex())
                 for k, v in sorted(pn.items()))
    return 'tp=%s pn=%s' % (a or '-', b or '-')


def hexd(b):
    return b.hex() or '-'


def show_ev(e):
    return 'E%d:%s:%d:%d:%d:%d' % (e.timestamp, bytes(e.data).hex(), e.tid, e.debugid, e.eventid, e.func_qualifier)


def ev_sum(events):
    acc = 0
    for i, e in enumerate(events):
        acc = (acc + (i + 1) * (e.timestamp + 3 * e.tid + 7 * e.debugid + 11 * int.from_bytes(e.data, 'little'))) % MODP
    return acc


def bplist(obj):
    return plistlib.dumps(obj, fmt=plistlib.FMT_BINARY)


def show_meta(kp):
    h = kp.v3_header
    if h is None:
        hdr = '~'
    else:
        names = ['tag', 'sub_tag', 'length', 'timebase_numer', 'timebase_denom', 'timestamp', 'walltime_secs',
                 'walltime_usecs', 'timezone_minuteswest', 'timezone_dst', 'flags', 'tag2']
        hdr = ','.join(str(h[n]) for n in names) + '/' + hexd(bplist(h.cpu_info))
    codes = hexd(kp.trace_codes.encode('utf-8'))
    kexts = '.'.join(str(b['id']) for b in kp.kernel_extensions['Binaries'])
    d = kp.dyld_modules
    if not d:
        # an empty dict that was seeded by an empty payload is indistinguishable from "never seeded": the
        # generators never use an empty dyld payload
        dy = '~/e/~'
    else:
        oth = bplist({k: v for k, v in d.items() if k != 'Binaries'})
        dy = '%s/n/%s' % (hexd(oth), ('b' + '.'.join(str(b['id']) for b in d['Binaries'])) if 'Binaries' in d else '~')
    images = hexd(bplist(kp.images)) if kp.images else '~'
    procs = hexd(bplist(kp.processes)) if kp.processes else '~'
    return 'hdr=%s codes=%s kexts=%s dyld=%s images=%s procs=%s' % (hdr, codes, kexts, dy, images, procs)


PLIST_ERRORS = ()


def out_err(exc):
    """Outcome name of an exception: plistlib's failures are the model's ValueError."""
    import xml.parsers.expat
    if isinstance(exc, (plistlib.InvalidFileException, xml.parsers.expat.ExpatError)):
        return 'ValueError'
    return core.err_name(exc)


class ImplRun:
    pass


def run_impl(data: bytes, tp=None, pn=None, kp=None, budget=None, watchdog=20):
    """Drive KdBufParser.parse over `data`; returns an ImplRun (outs, err, tables, tm snapshot, parser, reader)."""
    from pykdebugparser.kd_buf_parser import KdBufParser
    from pykdebugparser.os_log_event import OsLogEvent
    res = ImplRun()
    res.tp = {} if tp is None else tp
    res.pn = {} if pn is None else pn
    res.kp = KdBufParser(res.tp, res.pn) if kp is None else kp
    res.rd = CountingReader(data, budget)
    res.outs, res.err, res.tm = [], None, None
    res.log_index = 0

    def go():
        try:
            for o in res.kp.parse(res.rd):
                if not isinstance(o, OsLogEvent) and res.tm is None:
                    res.tm = show_tables(res.kp.threads_pids, res.kp.pids_names)
                res.outs.append(o)
        except (Budget, Watchdog) as e:
            res.err = e
        except Exception as e:
            res.err = e
    guarded(go, watchdog)
    res.events = [o for o in res.outs if not isinstance(o, OsLogEvent)]
    res.logs = [o for o in res.outs if isinstance(o, OsLogEvent)]
    return res


def show_err(err):
    return 'done' if err is None else 'err:' + out_err(err)


def show_reads(rd):
    return 'calls=%d got=%d req=%d pos=%d' % (rd.calls, rd.got, rd.req, rd.tell())


def show_run(res, reads=True):
    from pykdebugparser.os_log_event import OsLogEvent
    outs = []
    li = 0
    for o in res.outs:
        if isinstance(o, OsLogEvent):
            outs.append('L%d:%d:%d:%s:%s' % (li, o.thread_identifier, o.process_identifier,
                                             hexd(o.process.encode('utf-8')), hexd(o.composed_message.encode('utf-8'))))
            li += 1
        else:
            outs.append(show_ev(o))
    core_ = '%s n=%d [%s] %s tm:%s %s' % (show_err(res.err), len(res.outs), ' '.join(outs),
                                        show_tables(res.kp.threads_pids, res.kp.pids_names),
                                        res.tm if res.tm is not None else '-', show_meta(res.kp))
    return core_ + ' ' + show_reads(res.rd) if reads else core_


def prior_args(tp, pn):
    """protocol rendering of prior tables (dict tid->pid, dict pid->str)."""
    a = ','.join('%d:%d' % kv for kv in sorted(tp.items())) or '-'
    b = ','.join('%d:%s' % (k, v.encode('utf-8').hex()) for k, v in sorted(pn.items())) or '-'
    return a, b


# --------------------------------------------------------------------------------------------------
# plist table for the protocol (payload -> what the container parser looks at)

def view_entry(payload: bytes, obj):
    """protocol entry for a payload whose decoded plist is the dict `obj`."""
    fl = 'n' if obj else 'e'
    if 'Binaries' in obj:
        b = 'b' + '.'.join(str(x['id']) for x in obj['Binaries'])
    else:
        b = '~'
    if 'Events' in obj:
        ev = 'v' + '.'.join('%d_%d_%s_%s' % (e['cm'], e['tid'], e.get('p', 'x'), e.get('pid', 'x'))
                            for e in obj['Events'])
    else:
        ev = '~'
    if 'StringIndex' in obj:
        si = 's' + '.'.join('%s_%d' % (k.encode('utf-8').hex(), v) for k, v in obj['StringIndex'].items())
    else:
        si = '~'
    oth = bplist({k: v for k, v in obj.items() if k != 'Binaries'})
    return '/'.join([payload.hex(), fl, b, ev, si, hexd(oth)])


def plist_table(payloads):
    """payloads: iterable of bytes that are valid plists of dicts."""
    seen, ents = set(), []
    for p in payloads:
        if p in seen:
            continue
        seen.add(p)
        ents.append(view_entry(p, plistlib.loads(p)))
    return ';'.join(ents) or '-'


# --------------------------------------------------------------------------------------------------
# v3 generator (JSON-able descriptions; all byte strings as hex)

NAME_ALPHABET = ['a', 'b', 'Z', '0', '_', '.', ' ', 'é', 'ß', 'я', '中', '€', '𝄞', '😀', '\x7f', '\x01']


def gen_name(rng):
    target = rng.choice([0, 1, 2, 5, 10, 17, 18, 19, 19, rng.randrange(20)])
    s = b''
    for _ in range(40):
        c = rng.choice(NAME_ALPHABET).encode('utf-8')
        if len(s) + len(c) <= target:
            s += c
    return s


def gen_threads(rng, nmax=40):
    n = min(rng.choice([0, 0, 1, 2, 3, 5, 8, 13, 21, 40, rng.randrange(41)]), nmax)
    tids = [rng.choice([0, 1, 2, 7, 0x1234, (1 << 64) - 1, rng.randrange(1 << 64)]) for _ in range(6)]
    pids = [rng.choice([0, 1, 5, 99, (1 << 32) - 1, rng.randrange(1 << 32)]) for _ in range(4)]
    out = []
    for _ in range(n):
        out.append([rng.choice(tids) if rng.random() < 0.5 else rng.randrange(1 << 64),
                    rng.choice(pids) if rng.random() < 0.6 else rng.randrange(1 << 32), gen_name(rng).hex()])
    return out


def gen_scan_gap(rng, tag, maxlen=40):
    """bytes in front of `tag` such that the first occurrence of tag in gap+tag is at len(gap); contains
    near-miss prefixes of tags."""
    for _ in range(100):
        parts = []
        for _ in range(rng.randrange(0, 5)):
            k = rng.randrange(4)
            if k == 0:
                t = rng.choice(ALL_TAGS)
                parts.append(t[:rng.randrange(1, len(t))])          # proper prefix of some tag
            elif k == 1:
                parts.append(tag[:rng.randrange(1, len(tag))])      # proper prefix of THIS tag
            elif k == 2:
                parts.append(rng.randbytes(rng.randrange(0, 12)))
            else:
                t = rng.choice([x for x in ALL_TAGS if x != tag])   # a complete other tag
                parts.append(t)
        gap = b''.join(parts)[:maxlen]
        if (gap + tag).find(tag) == len(gap):
            return gap
    return b''


def gen_rec(rng):
    if rng.random() < 0.08:             # a record that begins with one of the format's own tags / magics: still a record
        t = rng.choice(ALL_TAGS + [V2_MAGIC_BYTES, V3_MAGIC])
        return (t + rng.randbytes(64))[:64]
    style = rng.randrange(3)
    if style == 0:
        return rng.randbytes(64)
    if style == 1:
        r = bytearray(64)
        r[rng.randrange(64)] = rng.randrange(1, 256)
        return bytes(r)
    return (rng.randrange(1 << 40).to_bytes(8, 'little') + rng.randbytes(32) + rng.choice([1, 2, 7, 0x1234]).to_bytes(8, 'little')
            + rng.randrange(1 << 32).to_bytes(4, 'little') + bytes(12))


def gen_raw_log(rng, ids, with_p, with_pid, tid):
    ev = {'cm': rng.choice(ids), 't': 'logEvent', 's': 3, 'tid': tid, 'ns': rng.randrange(1 << 40),
          'mct': rng.randrange(1 << 40), 'b': b'\x01' * 16, 'piu': b'\x02' * 16,
          'ud': {'sec': 1600000000 + rng.randrange(1000), 'usec': rng.randrange(1000000)}, 'utz': {'mw': 0, 'dt': 0}}
    if with_p:
        ev['p'] = rng.choice(ids)
    if with_pid:
        ev['pid'] = rng.randrange(1, 100000)
    return ev


def embedded_tail(rng, forbidden):
    """Bytes that ARE a well-formed tail of another small v3 dump — thread-map tag, size, entries, events tag, size, unknown
    word, records — for regions the reader must skip unread (stackshot data, gaps, unknown blocks): a reader that re-scans such
    a region (after a cut, after a failed search) decodes it.  None of the `forbidden` tags occurs in it."""
    for _ in range(50):
        threads = gen_threads(rng, 3)
        tm = b''.join(enc_thread(t[0], t[1], bytes.fromhex(t[2])) for t in threads)
        recs = [gen_rec(rng) for _ in range(rng.choice([1, 2, 3]))]
        out = TAG_THREADMAP + len(tm).to_bytes(8, 'little') + tm + TAG_EVENTS + (64 * len(recs)).to_bytes(8, 'little') \
            + rng.randbytes(8) + b''.join(recs)
        out = rng.randbytes(rng.randrange(0, 9)) + out + rng.randbytes(rng.choice([0, 0, 64, 70]))
        if not any(t in out for t in forbidden):
            return out
    return b''


def gen_v3(rng, small=False, blocks=True, embed=0.12):
    """A well-formed v3 dump description (main stream)."""
    hdr_sizes = [4, 4, 8, 4, 4, 8, 8, 4, 4, 4, 4, 4]
    hdr = [rng.choice([0, 1, rng.randrange(1 << (8 * s)), (1 << (8 * s)) - 1]) for s in hdr_sizes]
    cpu = bplist({'cpus': rng.randrange(1, 9), 'note': 'x' * rng.randrange(0, 9)})
    f = {'hdr': hdr, 'cpu': cpu.hex(), 'four': rng.randbytes(4).hex(),
         'filler': gen_scan_gap(rng, STACKSHOT_END, 60).hex(), 'gap1': gen_scan_gap(rng, TAG_THREADMAP).hex(),
         'threads': gen_threads(rng, 4 if small else 40), 'tmtrail': rng.randbytes(rng.choice([0, 0, 1, 8, 31])).hex()}
    if rng.random() < embed:        # the stackshot data holds what looks like the rest of a dump
        f['filler'] = (embedded_tail(rng, [STACKSHOT_END]) + bytes.fromhex(f['filler'])).hex()
    nrec = rng.choice([0, 1, 2, 3, 5, 9, 20, rng.randrange(30)])
    if small:
        nrec = min(nrec, 4)
    recs = [gen_rec(rng) for _ in range(nrec)]
    nch = rng.randrange(1, min(5, nrec + 1) + 1)
    cuts = sorted(rng.randrange(nrec + 1) for _ in range(nch - 1))
    chunks, prev = [], 0
    for c in cuts + [nrec]:
        chunks.append({'gap': gen_scan_gap(rng, TAG_EVENTS, 24).hex(), 'extra': rng.choice([0, 0, 1, 63, rng.randrange(64)]),
                       'unk': rng.choice([bytes(8), rng.randbytes(8)]).hex(), 'recs': [r.hex() for r in recs[prev:c]]})
        prev = c
    f['chunks'] = chunks
    bl = []
    if blocks:
        nstr = rng.randrange(1, 6)
        strings = ['s%d-%s' % (i, rng.choice(['kernel', 'launchd', 'é', 'msg', ''])) for i in range(nstr)]
        strings = list(dict.fromkeys(strings))
        ids = [rng.randrange(1, 1000) for _ in strings]
        kinds = rng.sample(['dyld', 'codes', 'procs', 'kexts', 'images', 'logs', 'strings', 'unknown'], rng.randrange(0, 9))
        kinds += [rng.choice(kinds) for _ in range(rng.randrange(0, 4))] if kinds else []
        rng.shuffle(kinds)
        if small:
            kinds = kinds[:4]
        nid = [0]

        def binaries():
            out = []
            for _ in range(rng.randrange(0, 4)):
                nid[0] += 1
                out.append({'id': nid[0], 'name': 'bin%d' % nid[0]})
            return out
        for k in kinds:
            if k == 'dyld':
                bl.append([TAG_DYLD, bplist({'Binaries': binaries(), 'Arch': rng.choice(['arm64', 'x86'])})])
            elif k == 'codes':
                bl.append([TAG_CODES, ''.join('0x%x\tCODE_%d\n' % (rng.randrange(1 << 32), i) for i in range(rng.randrange(0, 4)))
                           .encode() + rng.choice([b'', 'é\n'.encode()])])
            elif k == 'procs':
                bl.append([TAG_PROCS, bplist({'p%d' % rng.randrange(100): {'pid': rng.randrange(1000)}})])
            elif k == 'kexts':
                bl.append([TAG_KEXTS, bplist({'Binaries': binaries()})])
            elif k == 'images':
                bl.append([TAG_IMAGES, bplist({'img%d' % rng.randrange(100): rng.randrange(1 << 40)})])
            elif k == 'logs':
                evs = [gen_raw_log(rng, ids, rng.random() < 0.6, rng.random() < 0.7, rng.choice([0, 1, 7, 0x1234, rng.randrange(1 << 40)]))
                       for _ in range(rng.randrange(0, 4))]
                bl.append([TAG_LOGS, bplist({'Events': evs})])
            elif k == 'strings':
                bl.append([TAG_STRINGS, None])      # filled below
            else:
                bl.append([rng.choice([b'\x77\x80\x00\x00\x00\x00\x00\x00', b'\x04\x80\x00\x00\x00\x00\x00\x00', rng.randbytes(8)]),
                           rng.randbytes(rng.randrange(0, 20))])
        if any(b[0] == TAG_LOGS for b in bl) and not any(b[0] == TAG_STRINGS for b in bl):
            bl.insert(rng.randrange(len(bl) + 1), [TAG_STRINGS, None])
        last_str = max([i for i, b in enumerate(bl) if b[0] == TAG_STRINGS], default=-1)
        for i, b in enumerate(bl):
            if b[0] == TAG_STRINGS:
                if i == last_str:
                    b[1] = bplist({'StringIndex': dict(zip(strings, ids))})
                else:   # an earlier index block: different (stale) contents
                    b[1] = bplist({'StringIndex': {'stale%d' % j: x for j, x in enumerate(ids[:2])}})
        # a block whose first 8 bytes equal MORE would continue the chunk loop: never generated
    out = []
    for i, (tag, payload) in enumerate(bl):
        last = i == len(bl) - 1
        out.append({'tag': tag.hex(), 'payload': payload.hex(), 'padded': (rng.random() < 0.5) if last else True})
    f['blocks'] = out
    return f


def v3_bytes(f):
    return enc_v3({'hdr': f['hdr'], 'cpu': bytes.fromhex(f['cpu']), 'four': bytes.fromhex(f['four']),
                   'filler': bytes.fromhex(f['filler']), 'gap1': bytes.fromhex(f['gap1']),
                   'threads': [(t[0], t[1], bytes.fromhex(t[2])) + ((bytes.fromhex(t[3]),) if len(t) > 3 else ()) for t in f['threads']],
                   'tmtrail': bytes.fromhex(f['tmtrail']),
                   'chunks': [(bytes.fromhex(c['gap']), c['extra'], [bytes.fromhex(r) for r in c['recs']]) for c in f['chunks']],
                   'unknown8': [bytes.fromhex(c['unk']) for c in f['chunks']],
                   'blocks': [(bytes.fromhex(b['tag']), bytes.fromhex(b['payload']), b['padded']) for b in f['blocks']]})


PLIST_TAGS = {TAG_DYLD, TAG_PROCS, TAG_KEXTS, TAG_IMAGES, TAG_LOGS, TAG_STRINGS}


def v3_plists(f):
    """protocol plist table of a generated v3 description (cpu_info + every plist-bearing block)."""
    ps = []
    cands = [bytes.fromhex(f['cpu'])] + [bytes.fromhex(b['payload']) for b in f['blocks']
                                         if bytes.fromhex(b['tag']) in PLIST_TAGS]
    for p in cands:
        try:
            if isinstance(plistlib.loads(p), dict):
                ps.append(p)
        except Exception:
            pass
    return plist_table(ps)


def line_enc_v3(f):
    th = ','.join('%d:%d:%s' % (t[0], t[1], t[2]) + (':' + t[3] if len(t) > 3 else '') for t in f['threads']) or '-'
    ch = ';'.join('%s/%d/%s/%s' % (c['gap'] or '-', c['extra'], c['unk'] or '-', ''.join(c['recs']) or '-') for c in f['chunks'])
    bl = ';'.join('%s/%s/%s' % (b['tag'], b['payload'] or '-', 'p' if b['padded'] else 'u') for b in f['blocks']) or '-'
    return 'encv3 %s %s %s %s %s %s %s %s %s' % (','.join(map(str, f['hdr'])), f['cpu'], f['four'], f['filler'] or '-',
                                                f['gap1'] or '-', th, f['tmtrail'] or '-', ch, bl)


# --------------------------------------------------------------------------------------------------
# full-record view of an event, independent decoding, "built from 64 consecutive input bytes"

def ev_key(e):
    """ALL fields of a delivered event (show_ev leaves `values` out)."""
    return (e.timestamp, bytes(e.data), tuple(e.values), e.tid, e.debugid, e.eventid, e.func_qualifier)


def dec_rec(r):
    """The decoding of one 64-byte record, written with int.from_bytes (independent of the repository's format string)."""
    dbg = int.from_bytes(r[48:52], 'little')
    return (int.from_bytes(r[0:8], 'little'), bytes(r[8:40]),
            tuple(int.from_bytes(r[8 + 8 * i:16 + 8 * i], 'little') for i in range(4)),
            int.from_bytes(r[40:48], 'little'), dbg, dbg - dbg % 4, dbg % 4)


def not_from_input(events, data, start=0):
    """None, or (index, why) for the first event that is not the decoding of 64 consecutive bytes of `data`, the windows
    taken in ascending order without overlap (greedy earliest match; bytes 52..63 of a record are not part of an event)."""
    pos = start
    for i, e in enumerate(events):
        try:
            k = ev_key(e)
            head = k[0].to_bytes(8, 'little') + k[1] + k[3].to_bytes(8, 'little') + k[4].to_bytes(4, 'little')
        except (OverflowError, TypeError, AttributeError, ValueError) as x:
            return i, 'fields are not those of a record (%s)' % type(x).__name__
        if len(k[1]) != 32 or k != dec_rec(head + bytes(12)):
            return i, 'fields of the event contradict each other (values / eventid / qualifier are not derived from data / debugid)'
        j = data.find(head, pos)
        while j >= 0 and j + 64 > len(data):
            j = -1
        if j < 0:
            return i, 'no 64 consecutive input bytes behind offset %d decode to this event' % pos
        pos = j + 64
    return None


# --------------------------------------------------------------------------------------------------
# recipes: compact JSON-able descriptions of BIG dumps (a few integers instead of megabytes of hex), used by the
# block-size driven sections (tools/kdv/readprobe.py) whose inputs are too long for a protocol line

_HI = bytes(range(0x81, 0xff))          # none of these bytes occurs in any tag
_HI_TABLE = bytes(_HI[b % len(_HI)] for b in range(256))


def gap_bytes(spec, tag):
    """Bytes in front of `tag` for a gap recipe {'len': L, 'style': 'hi'|'zero'|'near'|'soup', 'seed': s, 'tail': hex}:
    exactly L bytes, ending with `tail`, such that the FIRST occurrence of tag in gap+tag is at L (checked)."""
    import random
    n = spec['len']
    tail = bytes.fromhex(spec.get('tail', ''))
    body_len = n - len(tail)
    assert body_len >= 0
    style = spec.get('style', 'hi')
    if style == 'zero':
        body = bytes(body_len)
    elif style == 'near':               # the tag without its last byte, over and over
        unit = tag[:-1] + b'\xa5'
        body = (unit * (body_len // len(unit) + 1))[:body_len]
    elif style == 'soup':               # complete OTHER tags and proper prefixes of this one
        rng = random.Random(spec.get('seed', 0))
        parts, size = [], 0
        others = [t for t in ALL_TAGS if t != tag and tag not in t]
        while size < body_len:
            p = rng.choice(others) if rng.random() < 0.5 else tag[:rng.randrange(1, len(tag))] + b'\xc3'
            parts.append(p)
            size += len(p)
        body = b''.join(parts)[:body_len]
    else:
        body = random.Random(spec.get('seed', 0)).randbytes(body_len).translate(_HI_TABLE)
    gap = body + tail
    if (gap + tag).find(tag) != n:      # a style that happens to contain the tag: plain filler (keeps the grammar's side condition)
        gap = random.Random(spec.get('seed', 0)).randbytes(body_len).translate(_HI_TABLE) + tail
        assert (gap + tag).find(tag) == n, 'gap recipe contains its tag'
    return gap


def recipe_threads(n, seed=0):
    return [(0x100 + 3 * i + seed % 7, 50 + (i + seed) % 5, b'proc%d' % ((i + seed) % 5)) for i in range(n)]


def recipe_records(seed, n):
    """n distinct-looking random records; the first one does not begin with a zero byte (K1 stays in its own stream)."""
    import random
    raw = bytearray(random.Random(seed).randbytes(64 * n))
    if n and raw[0] == 0:
        raw[0] = 1
    return bytes(raw)


def big_v2(rc):
    """rc: {'v': 2, 'seed', 'threads', 'pad', 'n'} -> (bytes, info) with info = dict(p0, recs (one bytes object), threads)."""
    th = recipe_threads(rc['threads'], rc['seed'])
    recs = recipe_records(rc['seed'], rc['n'])
    head = enc_v2(th, rc['pad'], [])
    return head + recs, {'p0': len(head), 'areas': [(len(head), rc['n'])], 'recs': recs, 'threads': th}


def big_v3(rc):
    """rc: {'v': 3, 'seed', 'threads', 'filler': gap, 'gap1': gap, 'chunks': [{'gap': gap, 'n': records, 'extra': <64}], 'trail'}
    -> (bytes, info); info: scans = stream positions where the scans for the stackshot end / the thread-map tag / each chunk's
    events tag begin, tags = where those tags are, record areas [(offset, n)], all records as one bytes object."""
    th = recipe_threads(rc['threads'], rc['seed'])
    cpu = bplist({'cpus': 2})
    hdr = [0x55aa0300, 0, 0x30, 125, 3, 1000, 1600000000, 5, 0, 0, 1, 0]
    sizes = [4, 4, 8, 4, 4, 8, 8, 4, 4, 4, 4, 4]
    body = b''.join(v.to_bytes(s, 'little') for v, s in zip(hdr, sizes)) + len(cpu).to_bytes(8, 'little') + cpu
    body += bytes(-len(body) % 8)
    out = [V3_MAGIC, body, bytes(4)]
    pos = 4 + len(body) + 4
    info = {'scan0': pos, 'threads': th, 'areas': [], 'tags': [], 'scans': [pos]}
    g = gap_bytes(rc['filler'], STACKSHOT_END)
    out += [g, STACKSHOT_END]
    info['tags'].append(pos + len(g))
    pos += len(g) + 16
    info['scans'].append(pos)
    g = gap_bytes(rc['gap1'], TAG_THREADMAP)
    tm = b''.join(enc_thread(*t) for t in th) + bytes(rc.get('trail', 0))
    out += [g, TAG_THREADMAP, len(tm).to_bytes(8, 'little'), tm]
    info['tags'].append(pos + len(g))
    pos += len(g) + 16 + len(tm)
    allrecs = []
    for i, ch in enumerate(rc['chunks']):
        if i > 0:
            out.append(TAG_MORE)
            pos += 8
        info['scans'].append(pos)
        g = gap_bytes(ch['gap'], TAG_EVENTS)
        recs = recipe_records(rc['seed'] * 131 + i + 1, ch['n'])
        out += [g, TAG_EVENTS, (64 * ch['n'] + ch.get('extra', 0)).to_bytes(8, 'little'), bytes(8), recs]
        info['tags'].append(pos + len(g))
        pos += len(g) + 24
        info['areas'].append((pos, ch['n']))
        pos += len(recs)
        allrecs.append(recs)
    info['recs'] = b''.join(allrecs)
    data = b''.join(out)
    assert len(data) == pos
    return data, info


def big_bytes(rc):
    return big_v2(rc) if rc['v'] == 2 else big_v3(rc)


def recipe_expected(info):
    """(decoded records, tables text) a well-formed recipe dump must deliver."""
    recs = info['recs']
    exp = [dec_rec(recs[i:i + 64]) for i in range(0, len(recs), 64)]
    tp, pn = {}, {}
    for tid, pid, name in info['threads']:
        tp[tid] = pid
        pn[pid] = name.decode('utf-8')
    return exp, show_tables(tp, pn)


def complete_records(info, k):
    """number of records of the recipe dump that lie completely inside its first k bytes."""
    n = 0
    for off, cnt in info['areas']:
        if k <= off:
            break
        n += min(cnt, (k - off) // 64)
    return n


def judge_whole(rc_or_info, events, err, tables, what='dump'):
    """The C02/C03 property on one parse of a well-formed recipe dump: None | (signature tail, text)."""
    info = rc_or_info
    exp, tbl = recipe_expected(info)
    if err is not None:
        return 'raises', 'a well-formed %s raised %s after %d of %d events' % (what, out_err(err), len(events), len(exp))
    if len(events) != len(exp):
        return 'event-count', 'expected %d events, got %d' % (len(exp), len(events))
    got = [ev_key(e) for e in events]
    if got != exp:
        i = next(i for i, (a, b) in enumerate(zip(got, exp)) if a != b)
        return 'event-differs', 'event %d of %d is not the decoding of record %d' % (i, len(exp), i)
    if tables != tbl:
        return 'tables', 'tables after the parse are not the dump\'s thread map: ' + tables[:200]
    return None
