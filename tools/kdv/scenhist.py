"""History independence of the WHOLE trace pipeline (shared by C10 / C11 / C20 …).

Statement used (on the real code alone): what `TracesParser.feed_generator` reports for a stream — trace names, windows,
texts, composite payloads, final tables, aborting exception — is the same whether the interpreter has decoded another
stream before or not.  tools/kdv/neighbours.py checks that for single windows of single decoders; a value that one handler
caches and ANOTHER handler (a composite one: sampler window with lost stack records, page fault with nested records, launch
window) later modifies in place only shows when whole scenarios precede each other.  Pairs are built from ONE base scenario so
that the same words recur: S = the complete scenario, S0 = the same with a record dropped / duplicated / truncated (what a
wrapped trace buffer does), in both orders.

Everything runs in one helper interpreter (`python -m kdv.scenhist`) that imports the package and never decodes anything
itself: for each pair a forked child decodes S alone (= first thing in a fresh interpreter), another decodes S0 and then S."""
import json
import os
import subprocess
import sys

from . import core


def _answer(case):
    from . import pipeline as PL
    outs, err, parser = PL.run_traces(case)
    return PL.answer(outs, err, parser)


def _helper_main():
    """stdin: one JSON job per line {'first': case, 'then': case}; stdout: {'fresh': answer, 'after': answer}"""
    from . import pipeline as PL  # noqa: F401  (imports the package, decodes nothing)
    from .neighbours import in_child
    out = sys.stdout
    for ln in sys.stdin:
        job = json.loads(ln)
        fresh = in_child(lambda: _answer(job['then']))
        after = in_child(lambda: (_answer(job['first']), _answer(job['then']))[1])
        out.write(json.dumps({'fresh': fresh, 'after': after}) + '\n')
        out.flush()


def run_jobs(jobs):
    if not jobs:
        return []
    tools = os.path.dirname(os.path.dirname(os.path.abspath(__file__)))
    env = dict(os.environ)
    env['REPO_DIR'] = core.REPO
    env['PYTHONPATH'] = tools
    p = subprocess.run([sys.executable, '-m', 'kdv.scenhist'], input='\n'.join(json.dumps(j) for j in jobs) + '\n',
                       capture_output=True, text=True, cwd=tools, env=env)
    out = [json.loads(l) for l in p.stdout.splitlines()]
    if p.returncode != 0 or len(out) != len(jobs):
        raise core.Infra('scenario-history helper failed: rc=%s, %d of %d answers\n%s'
                         % (p.returncode, len(out), len(jobs), p.stderr[-1500:]))
    return out


def cut_text_mid_character(rng, recs, codes):
    """A copy in which one kernel string record (TRACE_STRING_*) ends in the middle of a multi-byte UTF-8 character — what a
    32-byte field does to a long non-ASCII name.  Decoding such a stream may legitimately fail; nothing of it may reach the
    next stream."""
    idx = []
    for i, h in enumerate(recs):
        r = bytes.fromhex(h)
        eid = int.from_bytes(r[48:52], 'little') & 0xfffffffc
        if str(codes.get(str(eid), codes.get(eid, ''))).startswith('TRACE_STRING'):
            idx.append(i)
    if not idx:
        return None
    i = rng.choice(idx)
    r = bytearray(bytes.fromhex(recs[i]))
    eid = int.from_bytes(r[48:52], 'little') & 0xfffffffc
    name = str(codes.get(str(eid), codes.get(eid, '')))
    lo = 24 if name == 'TRACE_STRING_GLOBAL' and (r[48] & 1) else 8
    text = rng.choice([b'caf\xc3', b'na\xc3\xafve \xe2\x82', b'\xf0\x9f\x98', b'x\xe4\xb8'])
    r[lo:40] = text.ljust(40 - lo, b'\0')[:40 - lo]
    if r[39] == 0:                                   # make the cut fall at the very end of the field as well, sometimes
        tail = rng.choice([b'\xc3', b'\xe2\x82', b''])
        if tail:
            r[40 - len(tail):40] = tail
            for j in range(lo + len(text), 40 - len(tail)):
                r[j] = 0x61
    return recs[:i] + [bytes(r).hex()] + recs[i + 1:]


def variants(rng, recs, k, codes=None):
    """k damaged copies of a record list: one record dropped / duplicated, the tail cut, two neighbours swapped; with `codes`
    also a copy whose kernel string ends mid-character."""
    out = []
    n = len(recs)
    if codes is not None and n:
        v = cut_text_mid_character(rng, recs, codes)
        if v is not None:
            out.append(v)
    for _ in range(k):
        if n == 0:
            break
        r = rng.random()
        i = rng.randrange(n)
        if r < 0.55:
            out.append(recs[:i] + recs[i + 1:])
        elif r < 0.7:
            out.append(recs[:i] + [recs[i]] + recs[i:])
        elif r < 0.85:
            out.append(recs[:max(1, i)])
        elif n > 1:
            j = min(i, n - 2)
            out.append(recs[:j] + [recs[j + 1], recs[j]] + recs[j + 2:])
    return out


def section(rep, rng, tier, prop, name='scenario-history'):
    from . import pipeline as PL
    sec = rep.section(name)
    n = 40 if tier == 'quick' else 1500
    sec['rule'] = ('%d base scenarios (complete operations of every kind: syscalls with lookups, new-thread / exec pairs, strings, '
                   'terminate records, sampler windows, page faults and launch windows with nested records), each with damaged '
                   'copies (a record dropped / duplicated / the tail cut / two records swapped / a kernel string cut in the middle of a '
                   'multi-byte character); in a fresh interpreter: the '
                   'complete scenario decoded first thing vs. decoded after a damaged copy, and vice versa; everything '
                   'feed_generator reports and the final tables must be the same (oracle on the code alone)' % n)
    jobs, meta = [], []
    for _ in range(n):
        base = PL.random_scenario(rng, perturb=False)
        recs = base['events']
        for v in variants(rng, recs, 3, base['codes']):
            dam = dict(base, events=v)
            jobs.append({'first': dam, 'then': base})
            meta.append(('damaged-then-complete', dam, base))
            jobs.append({'first': base, 'then': dam})
            meta.append(('complete-then-damaged', base, dam))
    seen = set()
    for (kind, first, then), res in zip(meta, run_jobs(jobs)):
        sec['cases'] += 1
        if res['fresh'] == res['after']:
            sec['distinct_nontrivial'] += 1
            continue
        fa, aa = PL.parse_answer(res['fresh']), PL.parse_answer(res['after'])
        what = 'tables / exception'
        for x, y in zip(fa[0], aa[0]):
            if x != y:
                tx = lambda t: (t['text'] if t.get('text') is not None else t.get('raw', ''))[:160] + ' ' + str(t.get('extra', ''))[:120]  # noqa: E731
                what = 'trace %s: %r when decoded first thing, %r after the other stream' % (x.get('name', '?'), tx(x), tx(y))
                break
        names = sorted({v for v in then['codes'].values()})
        sig = 'render:depends-on-history:pipeline'
        if sig in seen:
            continue
        seen.add(sig)
        rep.add_failure(sig, '%s (%s; codes of the stream: %s): %s' % (prop, kind, ', '.join(names)[:200], what),
                        {'section': name, 'first': first, 'then': then, 'fresh': res['fresh'][:3000],
                         'after': res['after'][:3000]})


def replay(rp):
    res = run_jobs([{'first': rp['first'], 'then': rp['then']}])[0]
    lines = ['decoded first thing in a fresh interpreter: ' + res['fresh'][:1500],
             'decoded after the other stream            : ' + res['after'][:1500]]
    return res['fresh'] != res['after'], lines


if __name__ == '__main__':
    _helper_main()


# ----------------------------------------------------------------------------------------------------------------------
# history on ONE parser object: every decoder's window after the windows of all the others, on one thread

def _feed_window(parser, name, words, end, tid, lookups, ts):
    """START, lookups, END through the real parser.feed; the text of the trace the END delivers (or '!exception')."""
    from . import pipeline as PL, impl, decoders as D
    from pykdebugparser.kevent import from_kd_buf
    eid = PL.IDS[name]
    evs = [from_kd_buf(impl.record_args(ts, words, tid, eid | PL.START))]
    for i, (path, vn) in enumerate(lookups):
        evs += [from_kd_buf(r) for r in D.lookup_events(path, vn, tid, ts + 1 + 8 * i)]
    evs.append(from_kd_buf(impl.record_args(ts + 90, end, tid, eid | PL.END)))
    out = None
    try:
        for e in evs:
            r = parser.feed(e)
            if r is not None and e is evs[-1]:
                out = str(r)
    except Exception as e:
        return '!' + core.err_name(e)
    return out


def parser_history_section(rep, rng, tier, prop, name='parser-history'):
    """What a window reads is a function of the window (and of the context tables the property names), not of the calls
    the same thread made before on the same parser object.  Every registered START/END decoder gets in-domain windows (its
    probed words; all words 0o777; all words 0o22 — values whose bits overlap, so that a remembered mask / mode / flag word
    shows); ONE parser is fed all windows of all decoders (but the trace-domain records and sampler records that write the
    context tables) on one thread, twice over (so every window also follows every
    other one), and each text must equal the text of the same window on a fresh parser.  A difference is bisected to the
    earlier window that causes it."""
    from . import pipeline as PL, decoders as D
    from pykdebugparser.traces_parser import TracesParser
    sec = rep.section(name)
    tid, end = 11, [0, 7, 0, 0]
    lookups = [tuple(x) for x in PL.STD_LOOKUPS[:2]]
    # the records that WRITE the context tables the properties name (thread map, names, global strings: C05 / C08 / C14) are
    # left out of the history: what they teach is meant to be read by later traces
    from pykdebugparser.trace_handlers.trace import handlers as table_writers
    names = [n for n in D.all_handler_names() if n in PL.IDS and n not in table_writers and n not in ('PERF_THD_Data', 'PERF_Event')]
    windows = []
    for n in names:
        base = PL.good_args(n)
        cands = ([base] if base else []) + [[0o777] * 4, [0o22] * 4]
        for w in cands:
            p = TracesParser(dict(PL.CODES), {tid: 42}, {42: 'proc'})
            t = _feed_window(p, n, list(w), end, tid, lookups, 100)
            if t is not None and not t.startswith('!'):
                windows.append((n, list(w), t))
    sec['rule'] = ('%d in-domain START/END windows of %d decoders (probed words, all words 0o777, all words 0o22) fed to ONE '
                   'TracesParser on one thread, twice over; every text must equal the text of that window on a fresh parser '
                   '(oracle on the code alone); a difference is bisected to the earlier window that causes it'
                   % (len(windows), len({w[0] for w in windows})))

    def run(seq):
        p = TracesParser(dict(PL.CODES), {tid: 42}, {42: 'proc'})
        return [_feed_window(p, n, w, end, tid, lookups, 1000 + 200 * i) for i, (n, w, _t) in enumerate(seq)]

    seq = windows + windows
    got = run(seq)
    reported = set()
    for i, ((n, w, fresh), g) in enumerate(zip(seq, got)):
        sec['cases'] += 1
        if g == fresh:
            sec['distinct_nontrivial'] += 1
            continue
        if n in reported or len(reported) >= 4:
            continue
        reported.add(n)
        lo, hi = 0, i                            # an earlier window in [lo, hi) changes the text of window i
        while hi - lo > 1:
            mid = (lo + hi) // 2
            if run(seq[lo:mid] + [seq[i]])[-1] != fresh:
                hi = mid
            else:
                lo = mid
        first = seq[lo]
        pair = run([first, seq[i]])[-1]
        hist = [first] if pair != fresh else seq[max(0, i - 3):i]
        rep.add_failure('render:depends-on-earlier-calls:' + n,
                        '%s: %s%s on a fresh parser reads %r, after %s on the same parser and thread it reads %r'
                        % (prop, n, tuple(w), fresh, ', '.join('%s%s' % (a, tuple(b)) for a, b, _ in hist)[:300], g),
                        {'section': name, 'window': [n, w], 'history': [[a, b] for a, b, _ in hist], 'fresh': fresh})


def replay_parser_history(rp):
    from . import pipeline as PL
    from pykdebugparser.traces_parser import TracesParser
    tid, end = 11, [0, 7, 0, 0]
    lookups = [tuple(x) for x in PL.STD_LOOKUPS[:2]]
    n, w = rp['window']
    fresh = _feed_window(TracesParser(dict(PL.CODES), {tid: 42}, {42: 'proc'}), n, w, end, tid, lookups, 100)
    p = TracesParser(dict(PL.CODES), {tid: 42}, {42: 'proc'})
    for i, (a, b) in enumerate(rp['history']):
        _feed_window(p, a, b, end, tid, lookups, 1000 + 200 * i)
    after = _feed_window(p, n, w, end, tid, lookups, 90000)
    lines = ['%s%s on a fresh parser        : %r' % (n, tuple(w), fresh),
             'after %s on the same parser: %r' % (', '.join('%s%s' % (a, tuple(b)) for a, b in rp['history']), after)]
    return fresh != after, lines
