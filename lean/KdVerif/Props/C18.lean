import KdVerif.Proofs.IRDecoders
import KdVerif.Spec.DarwinHost
/-
  C18 — output is a function of the dump, not of the host operating system.

  The host interpreter's tables are a PARAMETER (`IR.Host`) of `IR.render`, so host (in)dependence is a
  statement about the generated decoder IR.  What is proved: exactly which decoders consult a host table
  and which one; every other decoder renders identically under ANY two hosts; a host-reading decoder
  renders identically under two hosts that agree on the tables it reads — in particular under the running
  host and under Darwin wherever the two tables agree.  That the running host's tables differ from
  Darwin's (Linux: errno 35, address family 30, SOL_SOCKET, …) is the known finding K2, demonstrated on the
  real code by the check.
-/
namespace KdVerif.C18
open KdVerif.IR KdVerif.DecoderFacts

/-- Everything except the host. -/
def noHostSel : Sel :=
  { startAll := true, endA := true, tid := true, data := true, lookups := true, gstr := true, tpids := true,
    tnames := true, fields := true }

def noErrnoSel : Sel := { noHostSel with host := true }
def onlyErrnoSel : Sel := { noHostSel with hostErrno := true }

def hostFree (d : Decoder) : Bool := d.fields.all (within noHostSel) && within noHostSel d.str
def errnoFree (d : Decoder) : Bool := d.fields.all (within noErrnoSel) && within noErrnoSel d.str
def enumFree (d : Decoder) : Bool := d.fields.all (within onlyErrnoSel) && within onlyErrnoSel d.str

/-- The six decoders that name a signal, an address family, a socket type or the SOL_SOCKET level through
    the host interpreter's `signal` / `socket` modules (K2 call sites). -/
def hostEnumReaders : List Nat :=
  [ 1522137941967989226825076                         -- BSC_socket
  , 25537237034191989113449274240878                  -- BSC_sigaction
  , 6537532680696407970100676857393268                -- BSC_getsockopt
  , 6537532680753076367895112599957620                -- BSC_setsockopt
  , 6537532680753259608094029218146674                -- BSC_socketpair
  , 7188093199453813417513377577131345595261351013 ]  -- BSC_socket_delegate

/-! ### Reflective facts -/

/-- Exactly the six listed decoders read a host enum table / SOL_SOCKET; a new read breaks this theorem. -/
theorem host_enum_readers_are_listed :
    decoders.all (fun d => enumFree d == !(hostEnumReaders.contains d.key)) = true := by decide +kernel

/-- `errno.errorcode` is consulted only by BSD decoders, and there only in the result part
    (C10: the call part is `within callSel`, which excludes errno). -/
theorem errno_only_in_bsd_results :
    decoders.all (fun d => errnoFree d || d.family == 0) = true := by decide +kernel

/-- Decoders of the other six families (dyld, fsystem, mach, perf, trace, turnstile) consult no host table. -/
theorem non_bsd_host_free : decoders.all (fun d => d.family == 0 || hostFree d) = true := by decide +kernel

/-- Every registered decoder is either translated (and so covered by the footprint facts above) or one of
    the fifteen hand-modelled handlers, none of which imports anything from the host. -/
theorem all_translated_or_hand_modelled :
    decoders.all (fun d => d.supported || handModelled.contains d.key) = true := by decide +kernel

/-! ### Semantics -/

theorem evalFields_congr (s : Sel) (c c' : Ctx) (h : Agree s c c') (fs : List Expr)
    (hw : fs.all (within s) = true) : evalFields c fs = evalFields c' fs := by
  induction fs with
  | nil => rfl
  | cons f fs ih =>
    simp only [List.all_cons, Bool.and_eq_true] at hw
    simp only [evalFields, eval_congr s c c' h f hw.1, ih hw.2]

theorem render_congr (s : Sel) (_hsf : s.fields = true) (d : Decoder) (hf : d.fields.all (within s) = true)
    (hs : within s d.str = true) (h h' : Host) (t : Tables) (w : Window)
    (hag : Agree s { host := h, tables := t, win := w } { host := h', tables := t, win := w }) :
    render h t d w = render h' t d w := by
  rw [render_eq, render_eq, evalFields_congr s _ _ hag d.fields hf]
  cases evalFields { host := h', tables := t, win := w } d.fields with
  | error e => rfl
  | ok fs =>
    simp only [Except.bind]
    apply evalS_congr s _ _ _ _ hs
    exact { tables := rfl, start := fun _ _ => rfl, startAll := fun _ => rfl, endA := fun _ => rfl,
            endL := fun _ _ => rfl, tid := fun _ => rfl, data := fun _ => rfl, lookups := fun _ => ⟨rfl, rfl⟩,
            gstr := fun _ => rfl, tpids := fun _ => rfl, tnames := fun _ => rfl, host := hag.host,
            hostErrno := hag.hostErrno, fields := fun _ => rfl }

/-- **Host-free decoders**: a decoder that consults no host table renders identically — text or
    exception — on every host. -/
theorem host_free_independent (d : Decoder) (hfree : hostFree d = true) (h h' : Host) (t : Tables) (w : Window) :
    render h t d w = render h' t d w := by
  simp only [hostFree, Bool.and_eq_true] at hfree
  apply render_congr noHostSel rfl d hfree.1 hfree.2
  constructor <;> simp [noHostSel]

/-- Every registered decoder outside the BSD family is host-free, hence host-independent. -/
theorem non_bsd_decoders_host_independent (d : Decoder) (hd : d ∈ decoders) (hfam : d.family ≠ 0)
    (h h' : Host) (t : Tables) (w : Window) : render h t d w = render h' t d w := by
  have h1 := List.all_eq_true.mp non_bsd_host_free d hd
  have hne : (d.family == 0) = false := by simpa using hfam
  simp only [hne, Bool.false_or] at h1
  exact host_free_independent d h1 h h' t w

/-- **Hosts that agree on the tables render alike**: any decoder renders identically under two hosts whose
    five tables are equal as functions — the output depends on the host only through these tables. -/
theorem host_dependence_only_through_tables (d : Decoder) (h h' : Host) (t : Tables) (w : Window)
    (he : h.errno = h'.errno) (hs : h.signals = h'.signals) (ha : h.addressFamily = h'.addressFamily)
    (hk : h.socketKind = h'.socketKind) (hl : h.solSocket = h'.solSocket) :
    render h t d w = render h' t d w := by
  have : h = h' := by cases h; cases h'; simp_all
  rw [this]

/-- A decoder that reads only errno names (all result-bearing BSD decoders but the six) renders alike on
    two hosts with the same errno table — whatever their signal / socket tables are. -/
theorem errno_only_decoders (d : Decoder) (hd : d ∈ decoders) (hnot : d.key ∉ hostEnumReaders)
    (h h' : Host) (t : Tables) (w : Window) (he : h.errno = h'.errno) : render h t d w = render h' t d w := by
  have h1 := List.all_eq_true.mp host_enum_readers_are_listed d hd
  have hc : hostEnumReaders.contains d.key = false := by simpa using hnot
  simp only [hc, Bool.not_false, beq_iff_eq] at h1
  simp only [enumFree, Bool.and_eq_true] at h1
  apply render_congr onlyErrnoSel rfl d h1.1 h1.2
  constructor <;> simp [onlyErrnoSel, noHostSel, he]

/-! ### Non-vacuity and the Darwin reference -/

/-- The Darwin reference host names errno 35 EAGAIN and uses 0xffff for SOL_SOCKET (the running Linux host
    says EDEADLOCK / 1: that difference is finding K2, shown on the real code by the check). -/
example : Spec.DarwinHost.host.errno 35 = some "EAGAIN" ∧ Spec.DarwinHost.host.solSocket = 0xffff
    ∧ Spec.DarwinHost.host.addressFamily 30 = some "AF_INET6" := by decide +kernel

/-- BSC_read is a decoder that reads only errno names. -/
example : ∃ d ∈ decoders, d.key = 23225981780499980644 ∧ d.key ∉ hostEnumReaders ∧ hostFree d = false := by
  decide +kernel

end KdVerif.C18
