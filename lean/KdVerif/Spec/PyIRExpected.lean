import KdVerif.Model.PyIR
/-
  The IR the refinement proofs of `Proofs/PyIR` were done for: a hand-written copy of what
  `tools/gen_pyir.py` produces from `pykdebugparser/traces_parser.py` (normal form: local aliases inlined,
  `x not in d` = `not (x in d)`, `not` / `or` / `and` in conditions resolved into nested `if`s with the rest
  of the block pushed into the branches, falling off the end = `return None`; variables numbered
  parameters first, then locals in order of first binding).  `C04.source_is_expected_ir` states that the
  generated program IS this term.  Core Lean only.
-/
namespace KdVerif.PyIR.Expected
open KdVerif.PyIR Expr Stmt

/-- `event.tid` etc. of the parameter `event` (variable 0 of `feed` and of the three `_feed_*` methods). -/
def evTid : Expr := field (var 0) .tid
def evEid : Expr := field (var 0) .eventid
def evQual : Expr := field (var 0) .funcQualifier

/-- `self.qualifiers_actions[event.func_qualifier](event, self.<table>)` -/
def dispatch (table : Attr) : Stmt := retCall (.action evQual (var 0) (selfAttr table))

/--
```python
def feed(self, event):                                                   # event = v0
    if event.eventid in self.trace_codes:
        trace_name = self.trace_codes[event.eventid]                     # alias, inlined
        if trace_name in trace_handlers:
            return self.qualifiers_actions[event.func_qualifier](event, self.on_going_traces)

    return self.qualifiers_actions[event.func_qualifier](event, self.on_going_events)
```
-/
def feed : MethodDef :=
  { params := 1
    body :=
      ite (isIn evEid (selfAttr .traceCodes))
        (ite (isIn (index (selfAttr .traceCodes) evEid) traceHandlers)
          (dispatch .onGoingTraces)
          (dispatch .onGoingEvents))
        (dispatch .onGoingEvents) }

/-- `events[0].eventid` of the parameter `events` (variable 0 of `parse_event_list`). -/
def firstEid : Expr := field (index (var 0) (int 0)) .eventid

/--
```python
def parse_event_list(self, events):                                      # events = v0
    if events[0].eventid not in self.trace_codes:
        return None
    trace_name = self.trace_codes[events[0].eventid]                     # alias, inlined
    if trace_name not in self.handlers:
        return None
    return self.handlers[trace_name](self, events)
```
-/
def parseEventList : MethodDef :=
  { params := 1
    body :=
      ite (isIn firstEid (selfAttr .traceCodes))
        (ite (isIn (index (selfAttr .traceCodes) firstEid) (selfAttr .handlers))
          (retCall (.handler (index (selfAttr .traceCodes) firstEid) (var 0)))
          (ret none))
        (ret none) }

/-- `for eventid in <it>: state[event.tid][eventid].append(event)`   (event = v0, state = v1, eventid = v2) -/
def appendLoop (it : Expr) (next : Stmt) : Stmt :=
  forKeys 2 it (append (index (index (var 1) evTid) (var 2)) (var 0) done) next

/-- the part of `_feed_start_event` after the `if` -/
def startRest : Stmt :=
  setNewList (index (var 1) evTid) evEid (appendLoop (index (var 1) evTid) (ret none))

/--
```python
def _feed_start_event(self, event, state):                               # event = v0, state = v1
    if event.tid not in state:
        # New tid
        state[event.tid] = {}

    state[event.tid][event.eventid] = []
    for eventid in state[event.tid]:                                     # eventid = v2
        state[event.tid][eventid].append(event)
```
-/
def feedStart : MethodDef :=
  { params := 2
    body := ite (isIn evTid (var 1)) startRest (setNewDict (var 1) evTid startRest) }

/--
```python
def _feed_end_event(self, event, state):                                 # event = v0, state = v1
    if event.tid not in state or event.eventid not in state[event.tid]:
        # Event end without start.
        return

    for eventid in state[event.tid]:                                     # eventid = v2
        state[event.tid][eventid].append(event)

    events = state[event.tid].pop(event.eventid)                         # events = v3
    return self.parse_event_list(events)
```
-/
def feedEnd : MethodDef :=
  { params := 2
    body :=
      ite (isIn evTid (var 1))
        (ite (isIn evEid (index (var 1) evTid))
          (appendLoop (index (var 1) evTid)
            (pop 3 (index (var 1) evTid) evEid
              (retCall (.self .parseEventList (var 3)))))
          (ret none))
        (ret none) }

/--
```python
def _feed_single_event(self, event, state):                              # event = v0, state = v1
    for eventid in state.get(event.tid, {}):                             # eventid = v2
        state[event.tid][eventid].append(event)
    return self.parse_event_list([event])
```
-/
def feedSingle : MethodDef :=
  { params := 2
    body := appendLoop (getOrEmpty (var 1) evTid) (retCall (.self .parseEventList (list1 (var 0)))) }

/--
```python
self.qualifiers_actions = {
    DgbFuncQual.DBG_FUNC_START.value: self._feed_start_event,           # 1
    DgbFuncQual.DBG_FUNC_END.value: self._feed_end_event,               # 2
    DgbFuncQual.DBG_FUNC_ALL.value: self._feed_single_event,            # 3
    DgbFuncQual.DBG_FUNC_NONE.value: self._feed_single_event,           # 0
}
```
-/
def actions : List (Nat × Meth) := [(1, .feedStart), (2, .feedEnd), (3, .feedSingle), (0, .feedSingle)]

def prog : Prog :=
  { feed := feed, parseEventList := parseEventList, feedStart := feedStart, feedEnd := feedEnd,
    feedSingle := feedSingle, actions := actions }

end KdVerif.PyIR.Expected
