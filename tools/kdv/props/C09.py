"""C09 — syscall arguments are rendered from the matching START argument, in order."""
import re

from .. import core
from .. import decoders as D

MODULE = 'KdVerif.Props.C09'
NAMESPACE = 'KdVerif.C09'
TRUSTED = ['tools/gen_decoders.py: symbolic evaluator of the handler/__str__ Python subset -> IR (validated by the '
           'correspondence section `decoders` on every translated decoder)',
           'IR.eval / IR.render (lean/KdVerif/Model/IR.lean) as the meaning of the IR',
           'classification kind = name prefix BSC_/MSC_ emitted by the translator (re-checked by the harness)']
ASSUMPTIONS = ['host enum tables (Signals, AddressFamily, SocketKind) are those of the running interpreter (C18)']
LEVEL_TEXT = ('Lean theorems over the decoder IR regenerated from bsd.py/mach.py on every run: kernel-checked syntactic '
              'facts about each of the ~400 syscall/trap decoders (call part reads START words and lookups only; parameter k '
              'reads START word k) lifted to all windows by the footprint and substitution lemmas; IR semantics tied to '
              'the real code by rendering every decoder on the same windows.')
LEVEL_NOTE = ('Trusted: Lean kernel, the AST translator (semantics validated differentially, not proved), IR.eval. '
              'Four parameters (set/getsockopt option, shm_open/sem_open mode) legitimately read a second START word; '
              'they are listed explicitly in Props/C09.crossArg.')
TECHNIQUE = 'Lean 4 proof: reflective decide over regenerated decoder IR + footprint/substitution lemmas; differential correspondence'

CROSS = {('BSC_setsockopt', 2): {1}, ('BSC_getsockopt', 2): {1}, ('BSC_shm_open', 2): {1}, ('BSC_sem_open', 2): {1}}
NARROW = {('MSC_semaphore_timedwait_trap', 1)}       # Props/C09.narrowed: the trap's nanoseconds are an unsigned int
BIG = [0x180000000, 0xffffffff00000000, 1 << 63, 0x7fffffff00000000, 0x100002000,
       0xffffffff80000000, 0xffffffffffff0000, 0xfffffffe00000000 + 0x80000000]   # sign-extended ints, and nearly so
_NUM = re.compile(r'(-?0x[0-9a-f]+|-?\d+)(?: /\*.*\*/)?')


def lead_number(p):
    """The number a parameter text shows: the whole text, or the number in front of an explanatory comment
    (`0x8004667e /* _IOC(...) */`)."""
    m = _NUM.fullmatch(p)
    return m.group(1) if m else None
CAND = [7, 1, 2, 3, 4, 0, 5, 6, 8, 9, 10, 11, 12, 16, 17, 0x40, 0x100]
BASE = [0x1a2b, 0x3c4d, 0x5e6f, 0x7081]


def syscall_names():
    # the search runs on every registered syscall / trap decoder, translated or not
    return [n for n in D.all_handler_names() if n.startswith('BSC_') or n.startswith('MSC_')]


def render(name, start, end, lookups):
    c = {'name': name, 'start': start, 'end': end, 'tid': 77, 'lookups': lookups, 'gs': {}, 'tp': {}, 'tn': {}}
    try:
        return D.text_of(D.impl_fn(c))
    except Exception:
        return None


def find_base(name, lookups, end):
    start = list(BASE)
    if render(name, start, end, lookups) is not None:
        return start
    for k in range(4):                       # some positions are enum-valued: search members
        for v in CAND:
            s2 = list(start)
            s2[k] = v
            if render(name, s2, end, lookups) is not None:
                return s2
    for v0 in CAND:
        for v1 in CAND:
            for k0 in range(4):
                for k1 in range(k0 + 1, 4):
                    s2 = list(start)
                    s2[k0], s2[k1] = v0, v1
                    if render(name, s2, end, lookups) is not None:
                        return s2
    return None


def allowed_values(a):
    return {a, a - (1 << 64) if a >= (1 << 63) else a, a & 0xffffffff, (a & 0xffffffff) - (1 << 32)
            if a & 0x80000000 else a & 0xffffffff}


def position_oracle(name):
    """The property stated on the implementation: vary one START word at a time, the END record, and look at
    which parameter texts change."""
    lookups = [['/p/one', 11], ['/q/two', 22], ['/r/three', 33], ['/s/4', 44], ['/t/5', 55], ['/u/6', 66]]
    end = [0, 9, 0, 0]
    base = find_base(name, lookups, end)
    if base is None:
        return None
    t0 = render(name, base, end, lookups)
    sp0 = D.split_call(t0)
    if sp0 is None:
        return ('decoder:%s:not-call-shaped' % name, 'text %r is not name(p0, ...)' % t0, {'start': base})
    # END record must not influence the call part
    for end2 in ([13, 0x99, 5, 6], [0, 0x1234, 7, 8]):
        t1 = render(name, base, end2, lookups)
        sp1 = D.split_call(t1) if t1 is not None else None
        if sp1 is None or sp1[0] != sp0[0] or sp1[1] != sp0[1]:
            return ('decoder:%s:call-depends-on-end' % name, 'call part changes with the END record: %r vs %r' % (t0, t1),
                    {'start': base, 'end': end, 'end2': end2})
    for k in range(4):
        alts = [base[k] + 0x1111] + [v for v in CAND if v != base[k]]
        for alt in alts:
            s2 = list(base)
            s2[k] = alt
            t2 = render(name, s2, end, lookups)
            if t2 is None:
                continue
            sp2 = D.split_call(t2)
            if sp2 is None or len(sp2[1]) != len(sp0[1]):
                if (name, 2) in CROSS and k in CROSS[(name, 2)]:
                    break
                return ('decoder:%s:shape-changes' % name, 'number of parameters changes with START word %d' % k,
                        {'start': base, 'start2': s2})
            for j, (p0, p2) in enumerate(zip(sp0[1], sp2[1])):
                if j != k and p0 != p2 and k not in CROSS.get((name, j), ()):
                    return ('decoder:%s:position-%d-reads-word-%d' % (name, j, k),
                            'parameter at position %d changed (%r -> %r) when only START word %d changed' % (j, p0, p2, k),
                            {'start': base, 'start2': s2, 'text': t0, 'text2': t2})
            break
    # a plain number shown at position k must be a rendering of word k
    for k, p in enumerate(sp0[1]):
        if k < 4 and lead_number(p) is not None:
            v = int(lead_number(p), 0)
            if v not in allowed_values(base[k]):
                return ('decoder:%s:position-%d-not-word-%d' % (name, k, k),
                        'parameter %d shows %s, START words are %s' % (k, p, base), {'start': base, 'text': t0})
            # ... of the WHOLE word: words beyond 32 bits are shown in full (decimal, hexadecimal or signed 64-bit)
            if (name, k) in NARROW:
                continue
            for big in BIG:
                s2 = list(base)
                s2[k] = big + base[k]
                t2 = render(name, s2, end, lookups)
                sp2 = D.split_call(t2) if t2 is not None else None
                if sp2 is None or len(sp2[1]) <= k:
                    continue
                p2 = sp2[1][k]
                if lead_number(p2) is None:
                    continue
                if int(lead_number(p2), 0) not in (s2[k], s2[k] - (1 << 64)):
                    return ('decoder:%s:position-%d-narrowed' % (name, k),
                            'parameter %d shows %s for START word %d (%#x): not the argument in decimal, signed or '
                            'hexadecimal form' % (k, p2, s2[k], s2[k]), {'start': s2, 'text': t2})
    return None


def correspondence(rep, rng, tier):
    D.section_decoders(rep, rng, tier)
    names = syscall_names()
    sec = rep.section('positions')
    sec['rule'] = ('failing-input search on the real code: for every BSC_/MSC_ decoder vary one START word at a time and the '
                   'END record and compare the parameter texts position by position')
    shaped = D.stats().get('shaped', 0)
    for n in names:
        sec['cases'] += 1
        r = position_oracle(n)
        sec['distinct_nontrivial'] += 1
        if r:
            rep.add_failure(r[0], r[1], {'section': 'positions', 'decoder': n, 'case': r[2]})
    sec['dist'] = {'syscall_decoders': len(names), 'shaped_total': shaped}
    _matching(rep, rng, tier)
    from .. import tsorder
    tsorder.section(rep, rng, tier, 'C09')


def _matching(rep, rng, tier):
    from .. import pipeline as P
    P.matching_search(rep, rng, tier, 'C09')
    # the call part is a function of the START words and the nested lookups only: no other nested record may change it
    P.window_content_search(rep, rng, tier, 'C09', syscall_names())


def replay(path):
    import json
    with open(path) as fd:
        r = json.load(fd)
    rp = r.get('replay') or {}
    if 'section' not in rp and 'case' not in rp:
        print('nothing to replay (no failing input was recorded):', r.get('no_longer_checks'))
        return 1
    if rp.get('section') in ('window-content', 'matching-records'):
        from .. import pipeline as P
        rc = P.replay_search(rp, 'C09', path)
        if rc is not None:
            return rc
    if rp.get('section') == 'timestamp-order':
        from .. import tsorder
        bad, lines = tsorder.replay(rp)
        print('\n'.join(lines))
        if bad:
            print(f'VIOLATION property=C09 replay={path}')
        return 1 if bad else 0
    if rp.get('section') == 'positions':
        res = position_oracle(rp['decoder'])
        print('oracle:', res)
        if res:
            print(f'VIOLATION property=C09 replay={path}')
            return 1
        return 0
    c = rp['case']
    got = D.impl_fn(c) if True else None
    model = core.drive([D.line(c)])[0]
    print('impl :', D.text_of(got))
    print('model:', D.text_of(model))
    return 0 if got == model else 1
