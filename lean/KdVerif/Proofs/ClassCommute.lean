import KdVerif.Proofs.TracePipeline
import KdVerif.Proofs.PairingFilter
import KdVerif.Proofs.Composite
/-
  C13: the whole-parser run over a stream filtered by a predicate on the event id (class / subclass filter with the
  helper classes) against the run over the unfiltered stream, for code tables CLOSED under the filter
  (`TracePipeline.ClassClosed`).  Core Lean only.
-/
set_option linter.unusedSimpArgs false
namespace KdVerif.TracePipeline
open KdVerif.Trace KdVerif.Pairing KdVerif.IR

/-- The two runs' tables agree on everything but `threads_pids`. -/
def AgreeC (a b : Tabs) : Prop :=
  a.pidsNames = b.pidsNames ∧ a.tidsNames = b.tidsNames ∧ a.globalStrings = b.globalStrings ∧
  a.pendingNewthread = b.pendingNewthread ∧ a.pendingExec = b.pendingExec

theorem AgreeC.refl (a : Tabs) : AgreeC a a := ⟨rfl, rfl, rfl, rfl, rfl⟩

/-! ### what the filter leaves of a window -/

theorem filter_filter_of_pass {α : Type} (q r : α → Bool) (w : List α) (h : ∀ y ∈ w, r y = true → q y = true) :
    (w.filter q).filter r = w.filter r := by
  rw [List.filter_filter]
  apply List.filter_congr
  intro y hy
  by_cases hr : r y = true
  · simp [hr, h y hy hr]
  · simp [hr]

theorem firstOf_filter (q : Kevent → Bool) (x : Kevent) (xs : List Kevent) (hx : q x = true) :
    firstOf ((x :: xs).filter q) = firstOf (x :: xs) := by
  simp [firstOf, List.filter_cons, hx]

theorem lastOf_filter (q : Kevent → Bool) (w : List Kevent) (hl : ∀ y, w.getLast? = some y → q y = true) :
    lastOf (w.filter q) = lastOf w := by
  simp only [lastOf, getLast?_filter_of_last q w hl]

theorem dropLast_filter_of_last (q : Kevent → Bool) (w : List Kevent) (hl : ∀ y, w.getLast? = some y → q y = true) :
    (w.filter q).dropLast = w.dropLast.filter q := by
  induction w using Pairing.snoc_induction with
  | nil => rfl
  | snoc ys y _ =>
    have hy : q y = true := hl y (by simp)
    simp [List.filter_append, hy]

/-- The page-fault sub-records of a window survive the filter when the filter keeps the window's first and last record
    and every record of the sub-record ids. -/
theorem realEvents_filter (q : Kevent → Bool) (x : Kevent) (xs : List Kevent) (hx : q x = true)
    (hl : ∀ y, (x :: xs).getLast? = some y → q y = true)
    (hr : ∀ y, vmfaultRange y.eventid = true → q y = true) :
    realEvents ((x :: xs).filter q) = realEvents (x :: xs) := by
  simp only [realEvents, List.filter_cons, hx, if_true, List.drop_one, List.tail_cons]
  have hl' : ∀ y, xs.getLast? = some y → q y = true := by
    intro y hy
    cases xs with
    | nil => cases hy
    | cons z zs => exact hl y (by rw [List.getLast?_cons_cons]; exact hy)
  rw [dropLast_filter_of_last q xs hl']
  apply filter_filter_of_pass
  intro y _ hy
  exact hr y hy

theorem namedIs_code (env : Env) (n : String) (hn : n ≠ "") (y : Kevent) (h : namedIs env n y = true) :
    env.codes y.eventid = some n := by
  simp only [namedIs, Env.nameOf, beq_iff_eq] at h
  cases hc : env.codes y.eventid with
  | none => rw [hc] at h; exact absurd h.symm hn
  | some m => rw [hc] at h; simp at h; rw [h]

theorem namedExactly_code (env : Env) (n : String) (y : Kevent) (h : namedExactly env n y = true) :
    env.codes y.eventid = some n := by
  simpa [namedExactly, Env.nameOf] using h

theorem isLookup_code (env : Env) (y : Kevent) (h : isLookup env y = true) :
    env.codes y.eventid = some "VFS_LOOKUP" := by
  simpa [isLookup, Env.nameOf] using h


/-! ### one handler call on a window and on the filtered window -/

/-- A handler's answer as the class-filter commutation sees it. -/
def viewR (r : Except PyErr (Option TraceOut × Tabs)) : Except PyErr (Option (String × Kevent ×
    Option (Except PyErr String × Option (String × List IR.Val)) × Extra)) :=
  r.map fun p => p.1.map TraceOut.viewC

theorem viewR_bind {α : Type} (M : Except PyErr α) (f g : α → Option TraceOut × Tabs)
    (h : ∀ a, (f a).1.map TraceOut.viewC = (g a).1.map TraceOut.viewC) :
    viewR (M.bind fun a => .ok (f a)) = viewR (M.bind fun a => .ok (g a)) := by
  cases M with
  | error e => rfl
  | ok a => simp [viewR, Except.bind, Except.map, h a]

theorem vmfaultCore_nested_congr (n₁ n₂ : Nested) (env : Env) (t : Tabs) (s e : Kevent) (inner : List Kevent)
    (h : n₁ t inner = n₂ t inner) : vmfaultCore n₁ env t s e inner = vmfaultCore n₂ env t s e inner := by
  unfold vmfaultCore
  simp only [h]

theorem not_domain_hand_cases {name : String} (hh : handNames.contains name = true)
    (hd : traceDomainNames.contains name = false) :
    name = "VFS_LOOKUP" ∨ name = "PERF_Event" ∨ name = "PERF_THD_Data" ∨ name = "MACH_vmfault" ∨
    name = "DBG_DYLD_TIMING_LAUNCH_EXECUTABLE" := by
  simp only [handNames, List.contains_append, Bool.or_eq_true, hd, Bool.false_or] at hh
  simpa using hh

theorem domain_is_hand {name : String} (hd : traceDomainNames.contains name = true) :
    handNames.contains name = true := by
  simp only [handNames, List.contains_append, Bool.or_eq_true, hd, true_or]

theorem handleWith_nested_irrel (n₁ n₂ : Nested) (env : Env) (t : Tabs) (name : String) (w : List Kevent)
    (h : name ≠ "MACH_vmfault") : handleWith n₁ env t name w = handleWith n₂ env t name w := by
  unfold handleWith
  split <;> first | rfl | exact absurd rfl h

/-- **One handler call commutes with the filter.**  A window `x :: xs` whose first and last record pass the filter, in a
    code table closed under it: the handler named for `x` answers alike (same name, first record, payload, text and
    fields — thread-terminate's text excepted) on the window under tables `T` and on the filtered window under tables
    `T'` that agree with `T` on everything but `threads_pids`. -/
theorem handleWith_filter (n₁ n₂ : Nested) (env : Env) (P : Nat → Bool) (hcc : ClassClosed env P)
    (hco : ∀ d ∈ env.decoders, classOnly d = true) (T T' : Tabs) (hT : AgreeC T T')
    (name : String) (x : Kevent) (xs : List Kevent)
    (hcode : env.codes x.eventid = some name) (hPx : P x.eventid = true)
    (hlast : ∀ y, (x :: xs).getLast? = some y → P y.eventid = true)
    (hdom : env.domOf x.eventid = true → ∀ y ∈ xs, P y.eventid = true)
    (hnn : name = "MACH_vmfault" → ∀ t, n₁ t (realEvents (x :: xs)) = n₂ t (realEvents (x :: xs)))
    (hnw : NW n₁ (realEvents (x :: xs))) (hni : NI n₁ (realEvents (x :: xs))) :
    viewR (handleWith n₁ env T name (x :: xs)) = viewR (handleWith n₂ env T' name ((x :: xs).filter (Pe P))) := by
  have hqx : Pe P x = true := hPx
  have hf := firstOf_filter (Pe P) x xs hqx
  have hdomeq : env.domOf x.eventid = traceDomainNames.contains name := by
    simp only [Env.domOf, hcode]
  by_cases hd : traceDomainNames.contains name = true
  · -- a kernel trace record: the window holds records of that table only, all of them fed
    have hall : (x :: xs).filter (Pe P) = x :: xs := by
      apply List.filter_eq_self.2
      intro y hy
      rcases List.mem_cons.1 hy with rfl | hy
      · exact hqx
      · exact hdom (hdomeq.trans hd) y hy
    have hnv : name ≠ "MACH_vmfault" := by
      intro h; subst h; simp [traceDomainNames] at hd
    rw [hall, ← handleWith_nested_irrel n₁ n₂ env T' name (x :: xs) hnv]
    have hh := domain_is_hand hd
    by_cases ht : name = "TRACE_DATA_THREAD_TERMINATE"
    · subst ht
      simp only [viewR, handleWith, hDataThreadTerminate, Except.map, Option.map_some, TraceOut.viewC, mk,
        beq_self_eq_true, if_true]
    · have hex : excluded env name = false := by
        simp only [excluded, Bool.or_eq_false_iff, beq_eq_false_iff_ne, ne_eq, Bool.and_eq_false_iff,
          Bool.not_eq_false']
        exact ⟨ht, Or.inl hh⟩
      have := handleOutWith_indep n₁ env T T' name (x :: xs) hnw hni hex
      simp only [handleOutWith] at this
      simp only [viewR]
      cases ha : handleWith n₁ env T name (x :: xs) <;> cases hb : handleWith n₁ env T' name (x :: xs) <;>
        simp only [ha, hb, Except.map, Except.ok.injEq, Except.error.injEq] at this ⊢ <;>
        first | exact this | (rw [this]) | (cases this)
  · have hd' : traceDomainNames.contains name = false := by simpa using hd
    by_cases hh : handNames.contains name = true
    · rcases not_domain_hand_cases hh hd' with rfl | rfl | rfl | rfl | rfl
      · -- VFS_LOOKUP
        have hlk : ((x :: xs).filter (Pe P)).filter (isLookup env) = (x :: xs).filter (isLookup env) :=
          filter_filter_of_pass _ _ _ (fun y _ hy => hcc.vfs x.eventid hPx hcode y.eventid (isLookup_code env y hy))
        simp only [viewR, handleWith, hVfsLookup, hf, parseVnodes_congr env _ _ hlk]
        split
        · rfl
        · simp only [bind, Except.bind, pure, Except.pure]
          cases parseVnodes env (x :: xs) with
          | error e => rfl
          | ok vs => cases vs <;> simp [Except.map, TraceOut.viewC, mk, hf]
      · -- PERF_Event
        have h1 : ((x :: xs).filter (Pe P)).filter (namedIs env "PERF_THD_Data") = (x :: xs).filter (namedIs env "PERF_THD_Data") :=
          filter_filter_of_pass _ _ _ (fun y _ hy =>
            hcc.perf x.eventid hPx hcode y.eventid _ (namedIs_code env _ (by decide) y hy) (Or.inl rfl))
        have h2 : ((x :: xs).filter (Pe P)).filter (namedIs env "PERF_STK_UHdr") = (x :: xs).filter (namedIs env "PERF_STK_UHdr") :=
          filter_filter_of_pass _ _ _ (fun y _ hy =>
            hcc.perf x.eventid hPx hcode y.eventid _ (namedIs_code env _ (by decide) y hy) (Or.inr (Or.inl rfl)))
        have h3 : ((x :: xs).filter (Pe P)).filter (namedIs env "PERF_STK_UData") = (x :: xs).filter (namedIs env "PERF_STK_UData") :=
          filter_filter_of_pass _ _ _ (fun y _ hy =>
            hcc.perf x.eventid hPx hcode y.eventid _ (namedIs_code env _ (by decide) y hy) (Or.inr (Or.inr rfl)))
        simp only [viewR, handleWith, hPerfEvent, hf, h1, h2, h3, Except.map, Option.map_some, TraceOut.viewC, mk]
        by_cases hc : (enumNamesOf env "SamplerAction" (arg (firstOf (x :: xs)) 0)).contains "SAMPLER_TH_INFO" = true
        · simp only [hc, if_true]
          cases List.filter (namedIs env "PERF_THD_Data") (x :: xs) <;> simp [hf]
        · simp only [hc, if_false, Bool.false_eq_true]
      · -- PERF_THD_Data
        simp [viewR, handleWith, hPerfThdData, hf, Except.map, TraceOut.viewC, mk]
      · -- MACH_vmfault
        have hl := lastOf_filter (Pe P) (x :: xs) (fun y hy => hlast y hy)
        have hr := realEvents_filter (Pe P) x xs hqx (fun y hy => hlast y hy)
          (fun y hy => hcc.vmfault x.eventid hPx hcode y.eventid hy)
        simp only [viewR, handleWith, hMachVmfault, hf, hl, hr]
        rw [← vmfaultCore_nested_congr n₁ n₂ env T' _ _ _ (hnn rfl T')]
        have hout := vmfaultCore_out n₁ env T T' (firstOf (x :: xs)) (lastOf (x :: xs)) (realEvents (x :: xs)) hnw hni
        cases ha : vmfaultCore n₁ env T (firstOf (x :: xs)) (lastOf (x :: xs)) (realEvents (x :: xs)) <;>
          cases hb : vmfaultCore n₁ env T' (firstOf (x :: xs)) (lastOf (x :: xs)) (realEvents (x :: xs)) <;>
          simp only [ha, hb, Except.map, Except.ok.injEq, Except.error.injEq] at hout ⊢
        · exact hout
        · cases hout
        · cases hout
        · simp [TraceOut.viewC, mk, hf, hout]
      · -- the launch window
        have h1 : ((x :: xs).filter (Pe P)).filter (namedExactly env "DYLD_uuid_map_a") = (x :: xs).filter (namedExactly env "DYLD_uuid_map_a") :=
          filter_filter_of_pass _ _ _ (fun y _ hy =>
            hcc.launch x.eventid hPx hcode y.eventid _ (namedExactly_code env _ y hy) (Or.inl rfl))
        have h2 : ((x :: xs).filter (Pe P)).filter (namedExactly env "DYLD_uuid_shared_cache_a") = (x :: xs).filter (namedExactly env "DYLD_uuid_shared_cache_a") :=
          filter_filter_of_pass _ _ _ (fun y _ hy =>
            hcc.launch x.eventid hPx hcode y.eventid _ (namedExactly_code env _ y hy) (Or.inr rfl))
        show viewR (hDyldLaunch env T (x :: xs)) = viewR (hDyldLaunch env T' _)
        unfold hDyldLaunch
        rw [h1, h2, hf]
        exact viewR_bind _ _ _ (fun imgs => by simp [TraceOut.viewC, mk, hf])
    · -- a generated decoder
      have hh' : handNames.contains name = false := by simpa using hh
      rw [handle_generated n₁ env T name _ hh', handle_generated n₂ env T' name _ hh']
      cases hfd : findDecoder env name with
      | none => rfl
      | some d =>
        have hmem : d ∈ env.decoders := List.mem_of_find?_eq_some hfd
        have hgo := runGeneratedObj_window_congr env T T' d (x :: xs) ((x :: xs).filter (Pe P))
          (head?_filter_of_head (Pe P) (x :: xs) (fun y hy => by simp at hy; rw [← hy]; exact hqx)).symm
          (getLast?_filter_of_last (Pe P) (x :: xs) (fun y hy => hlast y hy)).symm
          (fun hu => (filter_filter_of_pass _ _ _ (fun y _ hy =>
            hcc.lookups x.eventid name d hPx hcode hh' hfd hu y.eventid (isLookup_code env y hy))).symm)
          (by rw [hT.2.2.1]) (by rw [hT.2.1]) (hco d hmem)
        simp only [viewR, hgo]
        split
        · rfl
        · cases runGeneratedObj env T' d ((x :: xs).filter (Pe P)) with
          | error e => rfl
          | ok ft => simp [bind, Except.bind, pure, Except.pure, Except.map, TraceOut.viewC, hf]


/-! ### the tables of the two runs -/

theorem AgreeC.symm {a b : Tabs} (h : AgreeC a b) : AgreeC b a :=
  ⟨h.1.symm, h.2.1.symm, h.2.2.1.symm, h.2.2.2.1.symm, h.2.2.2.2.symm⟩

theorem AgreeC.trans {a b c : Tabs} (h : AgreeC a b) (h' : AgreeC b c) : AgreeC a c :=
  ⟨h.1.trans h'.1, h.2.1.trans h'.2.1, h.2.2.1.trans h'.2.2.1, h.2.2.2.1.trans h'.2.2.2.1, h.2.2.2.2.trans h'.2.2.2.2⟩

theorem handleWrites_agreeC (env : Env) (a b : Tabs) (n : String) (w : List Kevent) (h : AgreeC a b) :
    handleWrites env a n w = handleWrites env b n w := by
  unfold handleWrites
  simp only [h.2.2.2.1, h.2.2.2.2]

theorem apply_agreeC (a b : Tabs) (x : Write) (h : AgreeC a b) : AgreeC (x.apply a) (x.apply b) := by
  obtain ⟨h1, h2, h3, h4, h5⟩ := h
  cases x <;> simp only [Write.apply, AgreeC, h1, h2, h3, h4, h5, and_self]

theorem applyWrites_agreeC (a b : Tabs) (ws : List Write) (h : AgreeC a b) :
    AgreeC (applyWrites a ws) (applyWrites b ws) := by
  induction ws generalizing a b with
  | nil => exact h
  | cons x xs ih => exact ih _ _ (apply_agreeC a b x h)

/-- Writes to `threads_pids` only. -/
def OnlyTp (ws : List Write) : Prop := ∀ x ∈ ws, ∃ k v, x = Write.threadsPids k v

theorem applyWrites_onlyTp (a : Tabs) (ws : List Write) (h : OnlyTp ws) : AgreeC (applyWrites a ws) a := by
  induction ws generalizing a with
  | nil => exact AgreeC.refl a
  | cons x xs ih =>
    obtain ⟨k, v, rfl⟩ := h x (by simp)
    have h1 := ih ((Write.threadsPids k v).apply a) (fun y hy => h y (List.mem_cons_of_mem _ hy))
    exact h1.trans ⟨rfl, rfl, rfl, rfl, rfl⟩

/-- A handler outside the kernel trace-string/data table writes `threads_pids` only. -/
theorem handleWrites_nonDomain (env : Env) (t : Tabs) (n : String) (w : List Kevent)
    (hn : traceDomainNames.contains n = false) : OnlyTp (handleWrites env t n w) := by
  simp only [traceDomainNames, List.contains_cons, List.contains_nil, Bool.or_false, Bool.or_eq_false_iff,
    beq_eq_false_iff_ne, ne_eq] at hn
  obtain ⟨h1, h2, h3, h4, h5, h6, h7, h8, h9, h10⟩ := hn
  unfold handleWrites
  intro x hx
  split at hx
  all_goals first
    | (exfalso; simp_all; done)
    | (simp only [List.mem_singleton] at hx; exact ⟨_, _, hx⟩)
    | (simp at hx; done)
    | skip
  · -- PERF_Event
    dsimp only at hx
    repeat' split at hx
    all_goals first
      | (simp only [List.mem_singleton] at hx; exact ⟨_, _, hx⟩)
      | (simp at hx; done)

/-! ### the pairing tables hold records of one table each -/

section
variable (domOf : Nat → Bool)

/-- Every stored list holds records of the key's own table (ordinary / kernel trace) only. -/
def DomInv (s : Pairing.PState) : Prop := ∀ k w, s k = some w → ∀ y ∈ w, domOf y.eventid = k.dom

theorem domInv_empty : DomInv domOf Pairing.PState.empty := by
  intro k w h; simp [Pairing.PState.empty] at h

theorem domInv_appendAll (s : Pairing.PState) (e : Kevent) (hs : DomInv domOf s) :
    DomInv domOf (appendAll s (domOf e.eventid) e.tid e) := by
  intro k w hw y hy
  rw [appendAll_apply] at hw
  by_cases hc : k.dom = domOf e.eventid ∧ k.tid = e.tid
  · simp only [hc, and_self, if_true, Option.map_eq_some_iff] at hw
    obtain ⟨w', hw', rfl⟩ := hw
    rcases List.mem_append.1 hy with hy | hy
    · exact hs k w' hw' y hy
    · simp only [List.mem_singleton] at hy; subst hy; exact hc.1.symm
  · simp only [hc, if_false] at hw
    exact hs k w hw y hy

theorem domInv_set (s : Pairing.PState) (k : Key) (v : Option (List Kevent)) (hs : DomInv domOf s)
    (hv : ∀ w, v = some w → ∀ y ∈ w, domOf y.eventid = k.dom) : DomInv domOf (Pairing.set s k v) := by
  intro k' w hw y hy
  rw [set_apply] at hw
  by_cases hc : k' = k
  · subst hc; simp only [if_true] at hw; exact hv w hw y hy
  · simp only [hc, if_false] at hw; exact hs k' w hw y hy

theorem step_domInv (s : Pairing.PState) (e : Kevent) (hs : DomInv domOf s) : DomInv domOf (step domOf s e).1 := by
  by_cases h1 : e.qual = 1
  · rw [step_start domOf s e h1]
    exact domInv_appendAll domOf _ _ (domInv_set domOf _ _ _ hs (by simp))
  · by_cases h2 : e.qual = 2
    · cases hst : s (keyOf domOf e) with
      | none => rw [step_end_closed domOf s e h2 hst]; exact hs
      | some w =>
        rw [step_end_open domOf s e w h2 hst]
        exact domInv_set domOf _ _ _ (domInv_appendAll domOf _ _ hs) (by simp)
    · rw [step_single domOf s e h1 h2]; exact domInv_appendAll domOf _ _ hs

/-- Every delivered window holds records of the table of the event that completed it. -/
theorem step_output_dom (s : Pairing.PState) (e : Kevent) (hs : DomInv domOf s) (w : List Kevent)
    (hw : (step domOf s e).2 = some w) : ∀ y ∈ w, domOf y.eventid = domOf e.eventid := by
  by_cases h1 : e.qual = 1
  · rw [step_start domOf s e h1] at hw; cases hw
  · by_cases h2 : e.qual = 2
    · cases hst : s (keyOf domOf e) with
      | none => rw [step_end_closed domOf s e h2 hst] at hw; cases hw
      | some w' =>
        rw [step_end_open domOf s e w' h2 hst] at hw
        simp only [Option.some.injEq] at hw
        subst hw
        intro y hy
        rcases List.mem_append.1 hy with hy | hy
        · exact hs _ _ hst y hy
        · simp only [List.mem_singleton] at hy; rw [hy]
    · rw [step_single domOf s e h1 h2] at hw
      simp only [Option.some.injEq] at hw
      subst hw
      intro y hy
      simp only [List.mem_singleton] at hy; rw [hy]

end

/-! ### one `feed` of the unfiltered run against the filtered run -/

/-- The unfiltered run (`s₀`) against the run over the filtered stream (`s₁`). -/
structure RelC (env : Env) (P : Nat → Bool) (s₀ s₁ : Trace.PState) : Prop where
  frel : FRel P s₀.pairing s₁.pairing
  head : HeadInv s₀.pairing
  dom : DomInv env.domOf s₀.pairing
  tid : TidInv s₀.pairing
  tabs : AgreeC s₀.tabs s₁.tabs

theorem handlerOf_some (env : Env) (x : Kevent) (xs : List Kevent) (n : String)
    (h : handlerOf env (x :: xs) = some n) : env.codes x.eventid = some n := by
  simp only [handlerOf] at h
  cases hc : env.codes x.eventid with
  | none => simp [hc] at h
  | some m =>
    simp only [hc] at h
    split at h
    · simp only [Option.some.injEq] at h; rw [h]
    · cases h

theorem handlerOf_head (env : Env) (x : Kevent) (xs ys : List Kevent) :
    handlerOf env (x :: xs) = handlerOf env (x :: ys) := rfl

theorem domOf_of_code (env : Env) (eid : Nat) (n : String) (h : env.codes eid = some n) :
    env.domOf eid = traceDomainNames.contains n := by
  simp only [Env.domOf, h]

theorem viewR_ok {r r' : Option TraceOut} {t t' : Tabs}
    (h : viewR (.ok (r, t)) = viewR (.ok (r', t'))) : r.map TraceOut.viewC = r'.map TraceOut.viewC := by
  simpa [viewR, Except.map] using h

/-- A record that passes the filter: both runs feed it; they yield the same trace (as `viewC` sees it) and stay
    related. -/
theorem feed_filter_true (env : Env) (hbn : BenignNested env) (P : Nat → Bool) (hcc : ClassClosed env P)
    (hco : ∀ d ∈ env.decoders, classOnly d = true) (s₀ s₁ s₀' s₁' : Trace.PState) (e : Kevent)
    (r₀ r₁ : Option TraceOut) (hPe : Pe P e = true) (hR : RelC env P s₀ s₁)
    (h₀ : feed env s₀ e = .ok (r₀, s₀')) (h₁ : feed env s₁ e = .ok (r₁, s₁')) :
    RelC env P s₀' s₁' ∧ r₁.map TraceOut.viewC = r₀.map TraceOut.viewC ∧
    (∀ o, r₀ = some o → P (firstOf o.events).eventid = true) := by
  obtain ⟨hp₀, hn₀, hw₀⟩ := feed_ok env s₀ s₀' e r₀ h₀
  obtain ⟨hp₁, hn₁, hw₁⟩ := feed_ok env s₁ s₁' e r₁ h₁
  obtain ⟨hfr', hout, hhead⟩ := step_fRel_true env.domOf P s₀.pairing s₁.pairing e hPe hR.head hR.frel
  have hhi' : HeadInv s₀'.pairing := by rw [hp₀]; exact step_headInv env.domOf _ _ hR.head
  have hdi' : DomInv env.domOf s₀'.pairing := by rw [hp₀]; exact step_domInv env.domOf _ _ hR.dom
  have hti' : TidInv s₀'.pairing := by rw [hp₀]; exact step_tidInv env.domOf _ _ hR.tid
  have hfr'' : FRel P s₀'.pairing s₁'.pairing := by rw [hp₀, hp₁]; exact hfr'
  cases hst : (step env.domOf s₀.pairing e).2 with
  | none =>
    rw [hst] at hout
    obtain ⟨hr₀, ht₀⟩ := hn₀ hst
    obtain ⟨hr₁, ht₁⟩ := hn₁ hout
    refine ⟨⟨hfr'', hhi', hdi', hti', by rw [ht₀, ht₁]; exact hR.tabs⟩, by rw [hr₀, hr₁], ?_⟩
    intro o ho; rw [hr₀] at ho; cases ho
  | some w₀ =>
    have hdomw := step_output_dom env.domOf s₀.pairing e hR.dom w₀ hst
    obtain ⟨⟨b, hb⟩, _⟩ := Pairing.step_output env.domOf s₀.pairing e hR.tid w₀ hst
    have hhd := hhead w₀ hst
    cases w₀ with
    | nil => simp [headP] at hhd
    | cons x xs =>
      have hPx : P x.eventid = true := hhd
      have hqx : Pe P x = true := hPx
      rw [hst] at hout
      simp only [Option.map_some] at hout
      have hw₁e : (x :: xs).filter (Pe P) = x :: xs.filter (Pe P) := by simp [List.filter_cons, hqx]
      have h0w := hw₀ (x :: xs) hst (by simp)
      have h1w := hw₁ _ hout (by rw [hw₁e]; simp)
      have hho : handlerOf env ((x :: xs).filter (Pe P)) = handlerOf env (x :: xs) := by rw [hw₁e]; rfl
      rw [hho] at h1w
      have hlast : ∀ y, (x :: xs).getLast? = some y → P y.eventid = true := by
        intro y hy
        rw [hb] at hy
        simp only [List.getLast?_append, List.getLast?_singleton, Option.some_or, Option.some.injEq] at hy
        rw [← hy]; exact hPe
      cases hh : handlerOf env (x :: xs) with
      | none =>
        simp only [hh] at h0w h1w
        refine ⟨⟨hfr'', hhi', hdi', hti', by rw [h0w.2, h1w.2]; exact hR.tabs⟩, by rw [h0w.1, h1w.1], ?_⟩
        intro o ho; rw [h0w.1] at ho; cases ho
      | some n =>
        simp only [hh] at h0w h1w
        have hcode := handlerOf_some env x xs n hh
        have hdomall : env.domOf x.eventid = true → ∀ y ∈ xs, P y.eventid = true := by
          intro hdx y hy
          apply hcc.dom
          rw [hdomw y (List.mem_cons_of_mem _ hy), ← hdomw x (by simp)]
          exact hdx
        have hben₀ := parseFuel_benign env hbn (x :: xs).length _ (realEvents_range (x :: xs))
        have hnn : n = "MACH_vmfault" → ∀ t, parseFuel (x :: xs).length env t (realEvents (x :: xs))
            = parseFuel ((x :: xs).filter (Pe P)).length env t (realEvents (x :: xs)) := by
          intro hn t
          subst hn
          have hr := realEvents_filter (Pe P) x xs hqx (fun y hy => hlast y hy)
            (fun y hy => hcc.vmfault x.eventid hPx hcode y.eventid hy)
          rcases Composite.realEvents_length (x :: xs) with hl | hl
          · rcases Composite.realEvents_length ((x :: xs).filter (Pe P)) with hl' | hl'
            · rw [hr] at hl'
              exact Composite.parseFuel_stable env _ _ t _ (by omega) (by omega)
            · rw [hr] at hl'
              rw [hl']
              exact Composite.parseFuel_stable env _ _ t _ (by simp) (by rw [hw₁e]; simp)
          · rw [hl]
            exact Composite.parseFuel_stable env _ _ t _ (by simp) (by rw [hw₁e]; simp)
        have hview := handleWith_filter (parseFuel (x :: xs).length env) (parseFuel ((x :: xs).filter (Pe P)).length env)
          env P hcc hco s₀.tabs s₁.tabs hR.tabs n x xs hcode hPx hlast hdomall hnn hben₀.1 hben₀.2
        have hview' : viewR (handle env s₀.tabs n (x :: xs)) = viewR (handle env s₁.tabs n ((x :: xs).filter (Pe P))) :=
          hview
        rw [h0w, h1w] at hview'
        have hrv := viewR_ok hview'
        have ht₀ := handle_tabs env hbn _ n _ _ _ h0w
        have ht₁ := handle_tabs env hbn _ n _ _ _ h1w
        have htabs : AgreeC s₀'.tabs s₁'.tabs := by
          rw [ht₀, ht₁]
          by_cases hd : traceDomainNames.contains n = true
          · have hall : (x :: xs).filter (Pe P) = x :: xs := by
              apply List.filter_eq_self.2
              intro y hy
              rcases List.mem_cons.1 hy with rfl | hy
              · exact hqx
              · exact hdomall ((domOf_of_code env _ n hcode).trans hd) y hy
            rw [hall, ← handleWrites_agreeC env s₀.tabs s₁.tabs n (x :: xs) hR.tabs]
            exact applyWrites_agreeC _ _ _ hR.tabs
          · have hd' : traceDomainNames.contains n = false := by simpa using hd
            exact ((applyWrites_onlyTp s₀.tabs _ (handleWrites_nonDomain env _ n _ hd')).trans hR.tabs).trans
              (applyWrites_onlyTp s₁.tabs _ (handleWrites_nonDomain env _ n _ hd')).symm
        refine ⟨⟨hfr'', hhi', hdi', hti', htabs⟩, hrv.symm, ?_⟩
        intro o ho
        subst ho
        have := (handleOut_shape env _ n (x :: xs) o (handle_to_out h0w)).2
        rw [this]
        exact hPx

/-- A record the filter removes: only the unfiltered run feeds it; what it yields starts with a removed record and is
    not reported; the kernel string tables are untouched. -/
theorem feed_filter_false (env : Env) (hbn : BenignNested env) (P : Nat → Bool) (hcc : ClassClosed env P)
    (s₀ s₁ s₀' : Trace.PState) (e : Kevent) (r₀ : Option TraceOut) (hPe : Pe P e = false) (hR : RelC env P s₀ s₁)
    (h₀ : feed env s₀ e = .ok (r₀, s₀')) :
    RelC env P s₀' s₁ ∧ (∀ o, r₀ = some o → P (firstOf o.events).eventid = false) := by
  obtain ⟨hp₀, hn₀, hw₀⟩ := feed_ok env s₀ s₀' e r₀ h₀
  obtain ⟨hfr', hhead⟩ := step_fRel_false env.domOf P s₀.pairing s₁.pairing e hPe hR.head hR.frel
  have hhi' : HeadInv s₀'.pairing := by rw [hp₀]; exact step_headInv env.domOf _ _ hR.head
  have hdi' : DomInv env.domOf s₀'.pairing := by rw [hp₀]; exact step_domInv env.domOf _ _ hR.dom
  have hti' : TidInv s₀'.pairing := by rw [hp₀]; exact step_tidInv env.domOf _ _ hR.tid
  have hfr'' : FRel P s₀'.pairing s₁.pairing := by rw [hp₀]; exact hfr'
  cases hst : (step env.domOf s₀.pairing e).2 with
  | none =>
    obtain ⟨hr₀, ht₀⟩ := hn₀ hst
    refine ⟨⟨hfr'', hhi', hdi', hti', by rw [ht₀]; exact hR.tabs⟩, ?_⟩
    intro o ho; rw [hr₀] at ho; cases ho
  | some w₀ =>
    obtain ⟨⟨b, hb⟩, _⟩ := Pairing.step_output env.domOf s₀.pairing e hR.tid w₀ hst
    have hhd := hhead w₀ hst
    cases w₀ with
    | nil => exact absurd hb (by simp)
    | cons x xs =>
      have hPx : P x.eventid = false := hhd
      have h0w := hw₀ (x :: xs) hst (by simp)
      cases hh : handlerOf env (x :: xs) with
      | none =>
        simp only [hh] at h0w
        refine ⟨⟨hfr'', hhi', hdi', hti', by rw [h0w.2]; exact hR.tabs⟩, ?_⟩
        intro o ho; rw [h0w.1] at ho; cases ho
      | some n =>
        simp only [hh] at h0w
        have hcode := handlerOf_some env x xs n hh
        have hd' : traceDomainNames.contains n = false := by
          cases hd : traceDomainNames.contains n with
          | false => rfl
          | true =>
            have := hcc.dom x.eventid ((domOf_of_code env _ n hcode).trans hd)
            rw [hPx] at this; cases this
        have ht₀ := handle_tabs env hbn _ n _ _ _ h0w
        refine ⟨⟨hfr'', hhi', hdi', hti', ?_⟩, ?_⟩
        · rw [ht₀]
          exact (applyWrites_onlyTp s₀.tabs _ (handleWrites_nonDomain env _ n _ hd')).trans hR.tabs
        · intro o ho
          subst ho
          have := (handleOut_shape env _ n (x :: xs) o (handle_to_out h0w)).2
          rw [this]
          exact hPx

/-- **The filtered run against the unfiltered run.**  From related states, when neither run raises: the traces of the
    run over the filtered stream are, in order and as `viewC` sees them, the traces of the unfiltered run whose first
    record passes the filter. -/
theorem run_filter_traces (env : Env) (hbn : BenignNested env) (P : Nat → Bool) (hcc : ClassClosed env P)
    (hco : ∀ d ∈ env.decoders, classOnly d = true) (m : List Kevent) (s₀ s₁ : Trace.PState) (hR : RelC env P s₀ s₁)
    (h₀ : (Trace.run env s₀ m).2.1 = none) (h₁ : (Trace.run env s₁ (m.filter (Pe P))).2.1 = none) :
    (Trace.run env s₁ (m.filter (Pe P))).1.map TraceOut.viewC
      = ((Trace.run env s₀ m).1.filter fun o => P (firstOf o.events).eventid).map TraceOut.viewC := by
  induction m generalizing s₀ s₁ with
  | nil => rfl
  | cons e es ih =>
    obtain ⟨r₀, s₀', hf₀, hrest₀⟩ := feed_ok_of_run env s₀ e es h₀
    rw [run_cons_ok env s₀ s₀' e es r₀ hf₀]
    by_cases hPe : Pe P e = true
    · have hfil : (e :: es).filter (Pe P) = e :: es.filter (Pe P) := by simp [hPe]
      rw [hfil] at h₁ ⊢
      obtain ⟨r₁, s₁', hf₁, hrest₁⟩ := feed_ok_of_run env s₁ e _ h₁
      rw [run_cons_ok env s₁ s₁' e _ r₁ hf₁]
      obtain ⟨hR', hr, hfirst⟩ := feed_filter_true env hbn P hcc hco s₀ s₁ s₀' s₁' e r₀ r₁ hPe hR hf₀ hf₁
      simp only [List.filter_append, List.map_append, ih s₀' s₁' hR' hrest₀ hrest₁]
      congr 1
      cases r₀ with
      | none => cases r₁ with
        | none => rfl
        | some o₁ => simp at hr
      | some o₀ => cases r₁ with
        | none => simp at hr
        | some o₁ =>
          simp only [Option.map_some, Option.some.injEq] at hr
          simp [hfirst o₀ rfl, hr]
    · have hPe' : Pe P e = false := by simpa using hPe
      have hfil : (e :: es).filter (Pe P) = es.filter (Pe P) := by simp [hPe']
      rw [hfil] at h₁ ⊢
      obtain ⟨hR', hfirst⟩ := feed_filter_false env hbn P hcc s₀ s₁ s₀' e r₀ hPe' hR hf₀
      simp only [List.filter_append, List.map_append, ih s₀' s₁ hR' hrest₀ h₁]
      cases r₀ with
      | none => rfl
      | some o₀ => simp [hfirst o₀ rfl]

end KdVerif.TracePipeline
