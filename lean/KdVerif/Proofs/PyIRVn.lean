import KdVerif.Spec.PyIRVnExpected
/-
  The expected IR of `vnode_generator` / `parse_vnodes` / `parse_vnode` (`Spec/PyIRVnExpected`), run by the interpreter
  of `Model/PyIRVn`, is `Trace.vnodeGen` / `Trace.parseVnodes` / `Trace.parseVnode` — for every list of records that
  carry their argument words, every `dec`, every code table; same vnodes, same exception.  Core Lean only.
-/
namespace KdVerif.PyIRVn
open KdVerif.Trace

/-- Every record carries its argument words (`event.values[0]` exists).  `from_kd_buf` always gives four
    (`struct.unpack('<QQQQ', …)`), so do the encoders of `Spec/Reassembly`; a `Kevent` of the model with an EMPTY
    `values` is not a record the code can meet: there `event.values[0]` raises IndexError while `Trace.vnodeGen`
    reads 0. -/
def HasWords (events : List Kevent) : Prop := ∀ e ∈ events, e.values ≠ []

instance (events : List Kevent) : Decidable (HasWords events) := by unfold HasWords; infer_instance

/-- `Trace.vnodeGen` as a GENERATOR: the vnodes yielded before it ends, and the exception that ends it (if any).
    `Trace.vnodeGen` is `list(…)` of it (`collect_vnodeYields`). -/
def vnodeYields (dec : Bytes → Except PyErr String) :
    List Kevent → (path : Bytes) → (vnodeId : Nat) → (evs : List Kevent) → List Vnode × Option PyErr
  | [], _, _, _ => ([], none)
  | e :: rest, path, vid, evs =>
    let evs' := evs ++ [e]
    let vid' := if hasStart e then (e.values[0]?).getD 0 else vid
    let path' := if hasStart e then path ++ e.data.drop 8 else path ++ e.data
    if hasEnd e then
      match dec (stripNul path') with
      | .error x => ([], some x)
      | .ok s => (⟨evs', vid', s⟩ :: (vnodeYields dec rest [] 0 []).1, (vnodeYields dec rest [] 0 []).2)
    else vnodeYields dec rest path' vid' evs'

theorem collect_vnodeYields (dec : Bytes → Except PyErr String) (events : List Kevent) :
    ∀ (path : Bytes) (vid : Nat) (evs : List Kevent),
      collect (vnodeYields dec events path vid evs) = vnodeGen dec events path vid evs := by
  induction events with
  | nil => intro _ _ _; rfl
  | cons e rest ih =>
    intro path vid evs
    by_cases hs : hasStart e = true <;> by_cases he : hasEnd e = true
    all_goals simp only [vnodeYields, vnodeGen, hs, he, if_true, if_false, Bool.false_eq_true]
    all_goals first
      | exact ih _ _ _
      | (cases hd : dec (stripNul _) with
         | error x => simp [collect, bind, Except.bind]
         | ok s =>
           have := ih [] 0 []
           simp only [collect] at this ⊢
           cases h2 : (vnodeYields dec rest [] 0 []).2 with
           | none => rw [h2] at this; simp [← this, bind, Except.bind, pure, Except.pure]
           | some x => rw [h2] at this; simp [← this, bind, Except.bind])

@[simp] theorem unown_vals (env : Env) (vs : List Nat) : (env.unown vs).vals = env.vals := rfl
@[simp] theorem bind_vals (env : Env) (v : Nat) (x : Val) (f : Bool) : (env.bind v x f).vals = env.vals.set v x := rfl
@[simp] theorem setVal_vals (env : Env) (v : Nat) (x : Val) : (env.setVal v x).vals = env.vals.set v x := rfl
@[simp] theorem setVal_owned (env : Env) (v : Nat) (x : Val) : (env.setVal v x).owned = env.owned := rfl
@[simp] theorem unown_owned (env : Env) (vs : List Nat) (j : Nat) :
    (env.unown vs).owned j = (env.owned j && !vs.contains j) := rfl
@[simp] theorem bind_owned (env : Env) (v : Nat) (x : Val) (f : Bool) (j : Nat) :
    (env.bind v x f).owned j = if j = v then f else env.owned j := rfl
@[simp] theorem set_apply (vals : Vals) (i : Nat) (v : Val) (j : Nat) :
    (vals.set i v) j = if j = i then some v else vals j := rfl

theorem replace1_zero (b : Bytes) : replace1 b 0 [] = stripNul b := by
  induction b with
  | nil => rfl
  | cons x xs ih =>
    simp only [replace1, stripNul, List.flatMap_cons, List.filter_cons] at ih ⊢
    by_cases hx : x = 0 <;> simp [hx, ih]

structure Inv (env : Env) (path : Bytes) (vid : Nat) (evs : List Kevent) : Prop where
  h1 : env.vals 1 = some (.bytes path)
  h2 : env.vals 2 = some (.int vid)
  h3 : env.vals 3 = some (.events evs)
  ho : env.owned 3 = true

theorem eval_vnode (cx : Ctx) (vals : Vals) (path : Bytes) (vid : Nat) (evs : List Kevent)
    (h1 : vals 1 = some (.bytes path)) (h2 : vals 2 = some (.int vid)) (h3 : vals 3 = some (.events evs)) :
    eval cx vals (.mkVnode (.var 3) (.var 2) (.decode (.replace (.var 1) [0] []))) =
      match cx.dec (stripNul path) with
      | .ok s => .ok (.vnode ⟨evs, vid, s⟩)
      | .error x => .error x := by
  simp only [eval, h1, h2, h3, replace1_zero]
  cases cx.dec (stripNul path) <;> rfl

theorem eval_qual (cx : Ctx) (vals : Vals) (e : Kevent) (k : Nat) (h4 : vals 4 = some (.event e)) :
    eval cx vals (.band (.field .funcQualifier (.var 4)) (.int k)) = .ok (.int (e.qual &&& k)) := by
  simp only [eval, h4]

theorem exec_endTest (cx : Ctx) (env : Env) (e : Kevent) (path : Bytes) (vid : Nat) (evs : List Kevent)
    (hi : Inv env path vid evs) (h4 : env.vals 4 = some (.event e)) :
    if hasEnd e then
      match cx.dec (stripNul path) with
      | .error x => (exec cx Expected.endTest env).ys = [] ∧ (exec cx Expected.endTest env).out = .error x
      | .ok s => (exec cx Expected.endTest env).ys = [⟨evs, vid, s⟩] ∧
          (exec cx Expected.endTest env).out = .ok .normal ∧ Inv (exec cx Expected.endTest env).env [] 0 []
    else (exec cx Expected.endTest env).ys = [] ∧ (exec cx Expected.endTest env).out = .ok .normal ∧
      Inv (exec cx Expected.endTest env).env path vid evs := by
  obtain ⟨h1, h2, h3, ho⟩ := hi
  have hex : exec cx Expected.endTest env =
      if e.qual &&& 2 ≠ 0 then
        match cx.dec (stripNul path) with
        | .ok s => ⟨[⟨evs, vid, s⟩],
            ((((env.unown [4]).unown [3, 2, 1]).bind 1 (.bytes []) false).bind 2 (.int 0) false).bind 3 (.events []) true,
            .ok .normal⟩
        | .error x => ⟨[], env.unown [4], .error x⟩
      else ⟨[], env.unown [4], .ok .normal⟩ := by
    unfold Expected.endTest
    rw [exec, eval_qual cx env.vals e 2 h4]
    simp only [truthy]
    by_cases he : e.qual &&& 2 = 0
    · simp [he, exec, Expr.vars]
    · simp only [he, ne_eq, not_false_eq_true, decide_true, if_true]
      rw [exec, unown_vals, eval_vnode cx env.vals path vid evs h1 h2 h3]
      cases cx.dec (stripNul path) with
      | error x => simp [Expr.vars]
      | ok s =>
        simp [exec, eval, Expected.emptyBytes, Expr.vars, Expr.isFresh, Res.after, Env.unown, Env.bind]
  rw [hex]
  by_cases he : e.qual &&& 2 = 0
  · have hf : hasEnd e = false := by simp only [hasEnd, ne_eq, he, not_true_eq_false, decide_false]
    simp only [hf, Bool.false_eq_true, if_false, he, ne_eq, not_true_eq_false]
    exact ⟨trivial, trivial, ⟨h1, h2, h3, by simp [ho]⟩⟩
  · have ht : hasEnd e = true := by simp only [hasEnd, ne_eq, he, not_false_eq_true, decide_true]
    simp only [ht, if_true, he, ne_eq, not_false_eq_true]
    cases cx.dec (stripNul path) with
    | error x => exact ⟨rfl, rfl⟩
    | ok s => exact ⟨rfl, rfl, ⟨by simp, by simp, by simp, by simp⟩⟩

theorem exec_loopBody (cx : Ctx) (env : Env) (e : Kevent) (path : Bytes) (vid : Nat) (evs : List Kevent)
    (hi : Inv env path vid evs) (h4 : env.vals 4 = some (.event e)) (hv : e.values ≠ []) :
    let vid' := if hasStart e then (e.values[0]?).getD 0 else vid
    let path' := if hasStart e then path ++ e.data.drop 8 else path ++ e.data
    if hasEnd e then
      match cx.dec (stripNul path') with
      | .error x => (exec cx Expected.loopBody env).ys = [] ∧ (exec cx Expected.loopBody env).out = .error x
      | .ok s => (exec cx Expected.loopBody env).ys = [⟨evs ++ [e], vid', s⟩] ∧
          (exec cx Expected.loopBody env).out = .ok .normal ∧ Inv (exec cx Expected.loopBody env).env [] 0 []
    else (exec cx Expected.loopBody env).ys = [] ∧ (exec cx Expected.loopBody env).out = .ok .normal ∧
      Inv (exec cx Expected.loopBody env).env path' vid' (evs ++ [e]) := by
  obtain ⟨h1, h2, h3, ho⟩ := hi
  obtain ⟨w, ws, hw⟩ : ∃ w ws, e.values = w :: ws := by
    cases h : e.values with
    | nil => exact absurd h hv
    | cons w ws => exact ⟨w, ws, rfl⟩
  have hw0 : (e.values[0]?).getD 0 = w := by simp [hw]
  -- after `lookup_events.append(event)`
  let env1 : Env := (env.unown [4]).setVal 3 (.events (evs ++ [e]))
  have hex : exec cx Expected.loopBody env =
      if e.qual &&& 1 ≠ 0 then
        exec cx Expected.endTest
          ((((env1.unown [4]).unown [4]).bind 2 (.int w) false).unown [1, 4] |>.bind 1 (.bytes (path ++ e.data.drop 8)) false)
      else
        exec cx Expected.endTest (((env1.unown [4]).unown [1, 4]).bind 1 (.bytes (path ++ e.data)) false) := by
    unfold Expected.loopBody
    rw [exec]
    simp only [eval, h4, h3, ho, Expr.vars]
    rw [exec, setVal_vals, unown_vals, eval_qual cx _ e 1 (by simp [h4])]
    simp only [truthy]
    by_cases hs : e.qual &&& 1 = 0
    · simp [hs, exec, eval, h4, h1, Expr.vars, Expr.isFresh, env1]
    · simp [exec, eval, h4, h1, Expr.vars, Expr.isFresh, env1, hw]
  rw [hex]
  by_cases hs : e.qual &&& 1 = 0
  · have hst : hasStart e = false := by simp only [hasStart, ne_eq, hs, not_true_eq_false, decide_false]
    simp only [hst, Bool.false_eq_true, if_false, hs, ne_eq, not_true_eq_false]
    exact exec_endTest cx _ e (path ++ e.data) vid (evs ++ [e])
      ⟨by simp [env1], by simp [env1, h2], by simp [env1], by simp [env1, ho]⟩ (by simp [env1, h4])
  · have hst : hasStart e = true := by simp only [hasStart, ne_eq, hs, not_false_eq_true, decide_true]
    simp only [hst, if_true, hs, ne_eq, not_false_eq_true, hw0]
    exact exec_endTest cx _ e (path ++ e.data.drop 8) w (evs ++ [e])
      ⟨by simp [env1], by simp [env1], by simp [env1], by simp [env1, ho]⟩ (by simp [env1, h4])
/-- the generator's outcome as the interpreter reports it -/
def outOf (err : Option PyErr) : Except PyErr Outcome :=
  match err with
  | none => .ok .normal
  | some x => .error x

theorem forLoop_spec (cx : Ctx) (events : List Kevent) :
    ∀ (env : Env) (path : Bytes) (vid : Nat) (evs : List Kevent), Inv env path vid evs → HasWords events →
      (forLoop (fun env' => exec cx Expected.loopBody env') 4 events env).ys =
          (vnodeYields cx.dec events path vid evs).1 ∧
      (forLoop (fun env' => exec cx Expected.loopBody env') 4 events env).out =
          outOf (vnodeYields cx.dec events path vid evs).2 := by
  induction events with
  | nil => intro env path vid evs _ _; exact ⟨rfl, rfl⟩
  | cons e rest ih =>
    intro env path vid evs hi hw
    have hwr : HasWords rest := fun x hx => hw x (List.mem_cons_of_mem _ hx)
    have hb := exec_loopBody cx (env.bind 4 (.event e) false) e path vid evs
      ⟨by simpa [Env.bind, Vals.set] using hi.h1, by simpa [Env.bind, Vals.set] using hi.h2,
       by simpa [Env.bind, Vals.set] using hi.h3, by simpa [Env.bind] using hi.ho⟩
      (by simp [Env.bind, Vals.set]) (hw e (List.mem_cons_self ..))
    simp only at hb
    by_cases he : hasEnd e = true
    · simp only [he, if_true] at hb
      simp only [vnodeYields, he, if_true]
      cases hd : cx.dec (stripNul (if hasStart e = true then path ++ e.data.drop 8 else path ++ e.data)) with
      | error x =>
        rw [hd] at hb
        simp only [forLoop, hb.2]
        exact ⟨hb.1, rfl⟩
      | ok s =>
        rw [hd] at hb
        obtain ⟨hy, ho, hinv⟩ := hb
        have := ih _ [] 0 [] hinv hwr
        refine ⟨?_, ?_⟩ <;> simp [forLoop, ho, Res.after, hy, this.1, this.2]
    · simp only [he, Bool.false_eq_true, if_false] at hb
      simp only [vnodeYields, he, Bool.false_eq_true, if_false]
      obtain ⟨hy, ho, hinv⟩ := hb
      have := ih _ _ _ _ hinv hwr
      refine ⟨?_, ?_⟩ <;> simp [forLoop, ho, Res.after, hy, this.1, this.2]

theorem exec_forIn (cx : Ctx) (v : Nat) (it : Expr) (body next : Stmt) (env : Env) :
    exec cx (.forIn v it body next) env =
      match eval cx env.vals it with
      | .ok (.events l) =>
        let r := forLoop (fun env' => exec cx body env') v l (env.unown it.vars)
        (match r.out with
         | .ok .normal => (exec cx next r.env).after r.ys
         | _ => r)
      | .ok _ => ⟨[], env, .error .unmodelled⟩
      | .error x => ⟨[], env, .error x⟩ := by
  rw [exec]; rfl

/-- Calling the expected `vnode_generator` on a list of records gives the generator object whose output is
    `vnodeYields`. -/
theorem runFn_vnodeGenerator (cx : Ctx) (events : List Kevent) (hw : HasWords events) :
    runFn cx Expected.vnodeGenerator (.events events) =
      .ok (.gen (vnodeYields cx.dec events [] 0 []).1 (vnodeYields cx.dec events [] 0 []).2) := by
  let env0 : Env :=
    ((((((Env.ofArgs [.events events]).unown []).bind 1 (.bytes []) false).unown []).bind 2 (.int 0) false).unown []).bind 3
      (.events []) true
  have hinv : Inv (env0.unown [0]) [] 0 [] :=
    ⟨by simp [env0, Env.bind, Env.unown, Vals.set], by simp [env0, Env.bind, Env.unown, Vals.set],
     by simp [env0, Env.bind, Env.unown, Vals.set], by simp [env0, Env.bind, Env.unown]⟩
  have h := forLoop_spec cx events (env0.unown [0]) [] 0 [] hinv hw
  have hex : exec cx Expected.vnodeGenerator.body (Env.ofArgs [.events events]) =
      exec cx (.forIn 4 (.var 0) Expected.loopBody (.ret .none)) env0 := by
    simp [Expected.vnodeGenerator, Expected.emptyBytes, exec, eval, Expr.vars, Expr.isFresh, env0]
  have hit : eval cx env0.vals (.var 0) = .ok (.events events) := by
    simp [eval, env0, Env.bind, Env.unown, Vals.set, Env.ofArgs]
  unfold runFn
  simp only [Expected.vnodeGenerator, ne_eq, not_true_eq_false, if_false, if_true]
  have hex' : exec cx (Expected.vnodeGenerator).body (Env.ofArgs [.events events]) =
      exec cx (.forIn 4 (.var 0) Expected.loopBody (.ret .none)) env0 := hex
  simp only [Expected.vnodeGenerator] at hex'
  rw [hex', exec_forIn, hit]
  simp only [Expr.vars]
  cases hy : (vnodeYields cx.dec events [] 0 []).2 with
  | none =>
    rw [hy] at h
    simp only [outOf] at h
    simp [h.1, h.2, exec, eval, Res.after]
  | some x =>
    rw [hy] at h
    simp only [outOf] at h
    simp [h.1, h.2]

/-- A comprehension whose condition is a boolean function of the record is `filter`. -/
theorem compLoop_filter (cond : Vals → Except PyErr Val) (v : Nat) (vals : Vals) (p : Kevent → Bool)
    (h : ∀ x, cond (vals.set v (.event x)) = .ok (.bool (p x))) (l : List Kevent) :
    compLoop cond v vals l = .ok (l.filter p) := by
  induction l with
  | nil => rfl
  | cons x xs ih =>
    simp only [compLoop, h, ih, truthy, List.filter_cons]
    cases p x <;> rfl

/-- `[e for e in events if self.trace_codes.get(e.eventid) == 'VFS_LOOKUP']` keeps exactly the lookup records. -/
theorem compLoop_lookups (cx : Ctx) (vals : Vals) (l : List Kevent) :
    compLoop (fun vals' => eval cx vals' (.eq (.codeGet (.field .eventid (.var 1))) (.str "VFS_LOOKUP"))) 1 vals l =
      .ok (l.filter fun e => cx.codes e.eventid == some "VFS_LOOKUP") := by
  apply compLoop_filter
  intro x
  simp only [eval, set_apply, if_true]
  cases hc : cx.codes x.eventid with
  | none => simp
  | some s => by_cases hs : s = "VFS_LOOKUP" <;> simp [hs]

theorem eval_listComp (cx : Ctx) (vals : Vals) (v : Nat) (it cond : Expr) (l : List Kevent)
    (h : eval cx vals it = .ok (.events l)) :
    eval cx vals (.listComp v it cond) =
      match compLoop (fun vals' => eval cx vals' cond) v vals l with
      | .ok r => .ok (.events r)
      | .error err => .error err := by
  rw [eval, h]; rfl

theorem eval_lookupsOnly (cx : Ctx) (vals : Vals) (events : List Kevent) (h0 : vals 0 = some (.events events)) :
    eval cx vals Expected.lookupsOnly =
      .ok (.events (events.filter fun e => cx.codes e.eventid == some "VFS_LOOKUP")) := by
  unfold Expected.lookupsOnly
  rw [eval_listComp cx vals 1 (.var 0) _ events (by simp only [eval, h0]), compLoop_lookups]

/-- `list(self.vnode_generator(arg))` -/
theorem eval_list_call (cx : Ctx) (vals : Vals) (m : Meth) (arg : Expr) (a : Val) (ys : List Vnode) (err : Option PyErr)
    (ha : eval cx vals arg = .ok a) (hc : cx.call m a = .ok (.gen ys err)) :
    eval cx vals (.list (.call m arg)) = Except.map Val.vnodes (collect (ys, err)) := by
  rw [eval, eval, ha]
  simp only [hc, collect]
  cases err <;> rfl

theorem runFn_plain (cx : Ctx) (f : FnDef) (arg : Val) (hp : f.params = 1) (hg : f.isGen = false) :
    runFn cx f arg =
      if !(exec cx f.body (Env.ofArgs [arg])).ys.isEmpty then .error .unmodelled
      else match (exec cx f.body (Env.ofArgs [arg])).out with
        | .ok (.ret v) => .ok v
        | .ok .normal => .ok .none
        | .error x => .error x := by
  simp only [runFn, hp, hg, ne_eq, not_true_eq_false, if_false, Bool.false_eq_true]
  rfl

/-- `self.parse_vnodes(events)` of the expected program, at any call depth ≥ 2. -/
theorem callAt_parseVnodes (dec : Bytes → Except PyErr String) (codes : Nat → Option String) (d : Nat)
    (events : List Kevent) (hw : HasWords events) :
    callAt dec codes Expected.prog (d + 2) .parseVnodes (.events events) =
      match vnodeGen dec (events.filter fun e => codes e.eventid == some "VFS_LOOKUP") [] 0 [] with
      | .ok l => .ok (.vnodes l)
      | .error x => .error x := by
  have hwf : HasWords (events.filter fun e => codes e.eventid == some "VFS_LOOKUP") :=
    fun e he => hw e (List.mem_filter.1 he).1
  let cx1 : Ctx := { dec := dec, codes := codes, call := callAt dec codes Expected.prog (d + 1) }
  have hg : cx1.call .vnodeGenerator (.events (events.filter fun e => codes e.eventid == some "VFS_LOOKUP")) = _ :=
    runFn_vnodeGenerator { dec := dec, codes := codes, call := callAt dec codes Expected.prog d } _ hwf
  have hc := collect_vnodeYields dec (events.filter fun e => codes e.eventid == some "VFS_LOOKUP") [] 0 []
  have hev : eval cx1 (Env.ofArgs [.events events]).vals (.list (.call .vnodeGenerator Expected.lookupsOnly)) = _ :=
    eval_list_call cx1 _ .vnodeGenerator _ _ _ _ (eval_lookupsOnly cx1 (Env.ofArgs [.events events]).vals events rfl) hg
  show runFn cx1 Expected.parseVnodes (.events events) = _
  rw [runFn_plain cx1 _ _ rfl rfl]
  simp only [Expected.parseVnodes, exec, hev]
  show _ = match vnodeGen cx1.dec _ [] 0 [] with | .ok l => Except.ok (Val.vnodes l) | .error x => .error x
  rw [← hc]
  cases collect (vnodeYields cx1.dec (events.filter fun e => cx1.codes e.eventid == some "VFS_LOOKUP") [] 0 []) <;>
    simp [Except.map]

theorem run_parseVnodes (env : Trace.Env) (events : List Kevent) (hw : HasWords events) :
    runParseVnodes Expected.prog env.dec env.codes events = parseVnodes env events := by
  have hf : (fun e => env.codes e.eventid == some "VFS_LOOKUP") = isLookup env := rfl
  unfold runParseVnodes
  rw [callAt_parseVnodes env.dec env.codes 0 events hw, hf]
  unfold parseVnodes
  cases vnodeGen env.dec (events.filter (isLookup env)) [] 0 [] <;> rfl

theorem run_parseVnode (env : Trace.Env) (events : List Kevent) (hw : HasWords events) :
    runParseVnode Expected.prog env.dec env.codes events = parseVnode env events := by
  let cx2 : Ctx := { dec := env.dec, codes := env.codes, call := callAt env.dec env.codes Expected.prog 2 }
  have hp : cx2.call .parseVnodes (.events events) = _ := callAt_parseVnodes env.dec env.codes 0 events hw
  have hev : eval cx2 (Env.ofArgs [.events events]).vals (.index (.call .parseVnodes (.var 0)) (.int 0)) =
      match vnodeGen env.dec (events.filter fun e => env.codes e.eventid == some "VFS_LOOKUP") [] 0 [] with
      | .ok (v :: _) => .ok (.vnode v)
      | .ok [] => .error .indexError
      | .error x => .error x := by
    rw [eval, eval]
    simp only [eval, Env.ofArgs, List.getElem?_cons_zero, hp]
    cases vnodeGen env.dec (events.filter fun e => env.codes e.eventid == some "VFS_LOOKUP") [] 0 [] with
    | error x => rfl
    | ok l => cases l <;> rfl
  unfold runParseVnode
  show (match runFn cx2 Expected.parseVnode (.events events) with
        | .ok (.vnode v) => Except.ok v | .ok _ => .error PyErr.unmodelled | .error x => .error x) = _
  rw [runFn_plain cx2 _ _ rfl rfl]
  have hf : (fun e => env.codes e.eventid == some "VFS_LOOKUP") = isLookup env := rfl
  simp only [parseVnode, parseVnodes, ← hf]
  simp only [Expected.parseVnode, exec, hev]
  cases hv : vnodeGen env.dec (events.filter fun e => env.codes e.eventid == some "VFS_LOOKUP") [] 0 [] with
  | error x => by_cases hx : x = .indexError <;> simp [hx, Res.after, eval]
  | ok l => cases l <;> simp [Res.after, eval]

/-- An exception of `vnodeGen` is an exception of `dec`. -/
theorem vnodeGen_error_from_dec (dec : Bytes → Except PyErr String) (events : List Kevent) :
    ∀ (path : Bytes) (vid : Nat) (evs : List Kevent) (x : PyErr),
      vnodeGen dec events path vid evs = .error x → ∃ b, dec b = .error x := by
  induction events with
  | nil => intro _ _ _ x h; cases h
  | cons e rest ih =>
    intro path vid evs x h
    by_cases he : hasEnd e = true
    · simp only [vnodeGen, he, if_true, bind, Except.bind] at h
      split at h
      · next y hd => exact ⟨_, by rw [hd]; cases h; rfl⟩
      · split at h
        · next y hr => cases h; exact ih _ _ _ _ hr
        · cases h
    · simp only [vnodeGen, he, Bool.false_eq_true, if_false] at h
      exact ih _ _ _ _ h

theorem run_generator (dec : Bytes → Except PyErr String) (codes : Nat → Option String) (events : List Kevent)
    (hw : HasWords events) :
    runGenerator Expected.prog dec codes events = vnodeYields dec events [] 0 [] := by
  have hg := runFn_vnodeGenerator { dec := dec, codes := codes, call := callAt dec codes Expected.prog 0 } _ hw
  simp only [runGenerator, callAt, Prog.get, Expected.prog] at hg ⊢
  rw [hg]

end KdVerif.PyIRVn
