import KdVerif.Model.PyIRCn
/-
  The construct declarations of `pykdebugparser/kd_buf_parser.py` as the terms of `Model/PyIRCn.Con` that
  `Props/C02.decl_source_is_expected_ir` / `Props/C03.decl_source_is_expected_ir` pin the translation
  (`Gen/PyIRCn.lean`, regenerated from the source text on every run) to, and for which `Proofs/PyIRCn` proves that
  `Con.parse` of them IS the hand model.  Written by hand, quoting the Python.
-/
namespace KdVerif.PyIRCn.Expected

/-  kd_threadmap = Struct(
        'tid' / Int64ul,
        'pid' / Int32ul,
        'process' / FixedSized(0x14, CString('utf8')),
    )  -/
def kd_threadmap : Con :=
  .struct (.cons (some "tid") .int64ul
          (.cons (some "pid") .int32ul
          (.cons (some "process") (.fixedSized 0x14 .cstringUtf8)
           .nil)))

/-  kd_header_v2 = Struct(
        'number_of_treads' / Int32ul,
        Padding(8),
        Padding(4),
        'is_64bit' / Int32ul,
        'tick_frequency' / Int64ul,
        Padding(0x100),
        'threadmap' / Array(lambda ctx: ctx.number_of_treads, kd_threadmap),
        '_pad' / GreedyRange(Const(0, Byte)),
    )  -/
def kd_header_v2 : Con :=
  .struct (.cons (some "number_of_treads") .int32ul
          (.cons none (.padding 8)
          (.cons none (.padding 4)
          (.cons (some "is_64bit") .int32ul
          (.cons (some "tick_frequency") .int64ul
          (.cons none (.padding 0x100)
          (.cons (some "threadmap") (.array "number_of_treads" (.ref "kd_threadmap"))
          (.cons (some "_pad") (.greedyRange .const0Byte)
           .nil))))))))

/-  kd_header_v3 = Struct(
        'tag' / Int32ul, 'sub_tag' / Int32ul, 'length' / Int64ul, 'timebase_numer' / Int32ul,
        'timebase_denom' / Int32ul, 'timestamp' / Int64ul, 'walltime_secs' / Int64ul, 'walltime_usecs' / Int32ul,
        'timezone_minuteswest' / Int32ul, 'timezone_dst' / Int32ul, 'flags' / Int32ul, 'tag2' / Int32ul,
        'cpu_info' / Prefixed(Int64ul, BplistAdapter(GreedyBytes)),
    )  -/
def kd_header_v3 : Con :=
  .struct (.cons (some "tag") .int32ul
          (.cons (some "sub_tag") .int32ul
          (.cons (some "length") .int64ul
          (.cons (some "timebase_numer") .int32ul
          (.cons (some "timebase_denom") .int32ul
          (.cons (some "timestamp") .int64ul
          (.cons (some "walltime_secs") .int64ul
          (.cons (some "walltime_usecs") .int32ul
          (.cons (some "timezone_minuteswest") .int32ul
          (.cons (some "timezone_dst") .int32ul
          (.cons (some "flags") .int32ul
          (.cons (some "tag2") .int32ul
          (.cons (some "cpu_info") (.prefixed64 (.bplist .greedyBytes))
           .nil)))))))))))))

/-  kd_v3_threadmap = Struct(
        'threadmap' / Prefixed(Int64ul, GreedyRange(kd_threadmap)),
    )  -/
def kd_v3_threadmap : Con :=
  .struct (.cons (some "threadmap") (.prefixed64 (.greedyRange (.ref "kd_threadmap"))) .nil)

/-  kd_v3_additional_data = GreedyRange(Struct(
        'tag' / Bytes(8),
        'data' / Select(Aligned(8, Prefixed(Int64ul, GreedyBytes)), Prefixed(Int64ul, GreedyBytes)),
    ))  -/
def kd_v3_additional_data : Con :=
  .greedyRange (.struct (.cons (some "tag") (.bytes 8)
                        (.cons (some "data") (.select (.aligned 8 (.prefixed64 .greedyBytes)) (.prefixed64 .greedyBytes))
                         .nil)))

/-  class BplistAdapter(Adapter):
        def _decode(self, obj, context, path):
            return plistlib.loads(obj)  -/
def module : Module :=
  { decls := [("kd_threadmap", kd_threadmap), ("kd_header_v2", kd_header_v2), ("kd_header_v3", kd_header_v3),
              ("kd_v3_threadmap", kd_v3_threadmap), ("kd_v3_additional_data", kd_v3_additional_data)],
    bplistDecode := .plistLoadsObj }

/-- the element construct of `kd_v3_additional_data` -/
def blockStruct : Con :=
  .struct (.cons (some "tag") (.bytes 8)
          (.cons (some "data") (.select (.aligned 8 (.prefixed64 .greedyBytes)) (.prefixed64 .greedyBytes))
           .nil))

end KdVerif.PyIRCn.Expected
