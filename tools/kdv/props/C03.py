"""C03 — a version-3 dump yields all chunked events, then logs, plus metadata sections."""
import io
import json
import plistlib

from .. import core
from ..core import run_section
from .. import containers as ct
from . import C02 as c02

MODULE = 'KdVerif.Props.C03'
NAMESPACE = 'KdVerif.C03'
TRUSTED = ['Model/ContainerV3 + Model/Construct + Model/Reader as models of parse_v3 / construct / BytesIO, tied by sections v3, '
           'v3-malformed, v3-seq, v3-api (events, logs, both tables, every metadata attribute, outcome kind; read counters are compared in C06); '
           'dumps whose tags lie across the block edges of the scanner (v3-blocks, sizes from tools/kdv/readprobe.py) are judged on the code alone',
           'Model/EndToEnd (version-3 branch of dumpOf: header + thread-map chunk at the first next, events of all chunks, log records '
           'dropped, exception of the blocks behind the last chunk after every line) + the trace-layer and line-builder models it '
           'composes, tied by section end-to-end (lines and final exception of formatted_traces on version-3 dumps, whole and cut)',
           'file grammar Spec/ContainerV3.encodeV3 (diffed byte for byte against the harness encoder, section encv3)',
           'plistlib.loads is opaque: the model gets, per payload, whether it loads and the keys the container parser reads '
           '(Binaries ids, Events with cm/tid/p/pid, StringIndex items); OsLogEvent decoding is compared only on '
           '(index, thread id, process, pid, composed message) — the record model belongs to C16']
from .. import rdir as _rdir  # noqa: E402
from .. import kdinit as _kdinit  # noqa: E402
from .. import cnir as _cnir  # noqa: E402
TRUSTED = TRUSTED + [_rdir.TRUSTED, _kdinit.TRUSTED, _cnir.TRUSTED]
ASSUMPTIONS = ['bytes objects hold values 0..255',
               '"the dump\'s string index" is read as: the LAST log-strings block (the code overwrites log_strings per block); '
               'an assumption of the specification, not a finding',
               'plist payloads decode to dicts (other plist root types raise TypeError/AttributeError in the code and are outside '
               'the model)']


def file_hex(f):
    return ct.v3_bytes(f).hex()


def prior_of(c):
    return c02.prior_dicts(c['prior'])


def line_v3(c):
    tp, pn = prior_of(c)
    a, b = ct.prior_args(tp, pn)
    return 'parsen %s %s %s %s' % (a, b, c['plists'], c['hex'] or '-')


def impl_v3(c):
    tp, pn = prior_of(c)
    data = bytes.fromhex(c['hex'])
    return ct.show_run(ct.run_impl(data, tp, pn, budget=20 * len(data) + 2000), reads=False)


# ---------------------------------------------------------------------------------------------- expected (oracle side)

def expected(f):
    """What the property demands for a well-formed description, computed from the description alone."""
    ev = []
    for ch in f['chunks']:
        for rh in ch['recs']:
            r = bytes.fromhex(rh)
            dbg = int.from_bytes(r[48:52], 'little')
            ev.append('E%d:%s:%d:%d:%d:%d' % (int.from_bytes(r[0:8], 'little'), r[8:40].hex(), int.from_bytes(r[40:48], 'little'),
                                              dbg, dbg - dbg % 4, dbg % 4))
    tp, pn = {}, {}
    for tid, pid, nh in (t[:3] for t in f["threads"]):
        tp[tid] = pid
        pn[pid] = bytes.fromhex(nh).decode('utf-8')
    tm = ct.show_tables(tp, pn)
    raw, strings = [], {}
    procs = images = None
    kexts, codes = [], b''
    dyld = None
    for b in f['blocks']:
        tag, payload = bytes.fromhex(b['tag']), bytes.fromhex(b['payload'])
        if tag == ct.TAG_LOGS:
            raw += plistlib.loads(payload)['Events']
        elif tag == ct.TAG_STRINGS:
            strings = {v: k for k, v in plistlib.loads(payload)['StringIndex'].items()}
        elif tag == ct.TAG_PROCS:
            procs = payload
        elif tag == ct.TAG_IMAGES:
            images = payload
        elif tag == ct.TAG_KEXTS:
            kexts += [x['id'] for x in plistlib.loads(payload)['Binaries']]
        elif tag == ct.TAG_CODES:
            codes += payload
        elif tag == ct.TAG_DYLD:
            d = plistlib.loads(payload)
            if dyld is None:
                dyld = [ct.bplist({k: v for k, v in d.items() if k != 'Binaries'}), [x['id'] for x in d['Binaries']]]
            else:
                dyld[1] += [x['id'] for x in d['Binaries']]
    logs = []
    for i, e in enumerate(raw):
        proc = strings[e['p']] if 'p' in e else ''
        pid = e.get('pid', 0)
        logs.append('L%d:%d:%d:%s:%s' % (i, e['tid'], pid, ct.hexd(proc.encode()), ct.hexd(strings[e['cm']].encode())))
        if proc and e['tid']:
            tp[e['tid']] = pid
            pn[pid] = proc
    meta = 'codes=%s kexts=%s dyld=%s images=%s procs=%s' % (
        ct.hexd(codes), '.'.join(map(str, kexts)),
        '~/e/~' if dyld is None else '%s/n/b%s' % (ct.hexd(dyld[0]), '.'.join(map(str, dyld[1]))),
        ct.hexd(images) if images else '~', ct.hexd(procs) if procs else '~')
    return ev, logs, tm, ct.show_tables(tp, pn), meta


def oracle_v3(c, got):
    f = c['file']
    try:
        outcome, rest = got.split(' ', 1)
        l, r = rest.index('['), rest.index(']')
        outs = rest[l + 1:r].split() if r > l + 1 else []
        tail = rest[r + 2:]
    except Exception:
        return ('v3:unparsable-answer', got[:200])
    ev, logs, tm, tables, meta = expected(f)
    if outcome != 'done':
        return ('v3:raises', 'a well-formed v3 dump raised ' + outcome)
    got_ev = [o for o in outs if o.startswith('E')]
    got_logs = [o for o in outs if o.startswith('L')]
    if len(got_ev) != len(ev):
        return ('v3:event-count', 'expected %d events from %d chunks, got %d' % (len(ev), len(f['chunks']), len(got_ev)))
    if got_ev != ev:
        return ('v3:event-differs', 'an event is not the decoding of its record (chunk sizes %s)'
                % [len(ch['recs']) for ch in f['chunks']])
    if outs[:len(ev)] != ev:
        return ('v3:log-before-event', 'a log record was delivered before the last event')
    if got_logs != logs:
        return ('v3:logs', 'log records differ: expected %d (%s…) got %d (%s…)'
                % (len(logs), ' '.join(logs[:2]), len(got_logs), ' '.join(got_logs[:2])))
    if not tail.startswith(tables + ' '):
        return ('v3:tables', 'tables after the parse are not thread map + log attributions: ' + tail[:160])
    if ev and (' tm:' + tm + ' ') not in (' ' + tail):
        return ('v3:threadmap', 'tables while events are delivered are not the thread-map chunk: ' + tail[:200])
    if meta not in tail:
        return ('v3:metadata', 'metadata attributes differ; expected ' + meta[:300])
    hdr = 'hdr=%s/%s ' % (','.join(map(str, f['hdr'])), f['cpu'])
    if hdr not in tail:
        return ('v3:header', 'v3_header differs')
    return None


def mk_case(rng, f):
    return {'file': f, 'prior': c02.gen_prior(rng), 'hex': file_hex(f), 'plists': ct.v3_plists(f)}


# ---------------------------------------------------------------------------------------------- malformed stream

def malformed(rng, n):
    out = []
    for _ in range(n):
        f = ct.gen_v3(rng, small=rng.random() < 0.6)
        kind = rng.randrange(10)
        pl = None
        if kind == 0 and f['blocks']:        # a non-final block left unpadded (the reader then eats the next tag's head)
            i = rng.randrange(len(f['blocks']))
            f['blocks'][i]['padded'] = False
        elif kind == 1:                      # log events whose strings are missing from the (last) index
            ids = [5000 + i for i in range(3)]
            evs = [ct.gen_raw_log(rng, ids, rng.random() < 0.5, True, 7) for _ in range(2)]
            f['blocks'].append({'tag': ct.TAG_LOGS.hex(), 'payload': ct.bplist({'Events': evs}).hex(), 'padded': True})
        elif kind == 2:                      # plist without the expected key
            tag = rng.choice([ct.TAG_KEXTS, ct.TAG_LOGS, ct.TAG_STRINGS, ct.TAG_DYLD])
            f['blocks'].insert(rng.randrange(len(f['blocks']) + 1),
                               {'tag': tag.hex(), 'payload': ct.bplist({'Other': 1}).hex(), 'padded': True})
            if tag == ct.TAG_DYLD:           # second dyld block extends 'Binaries' of the first
                f['blocks'].append({'tag': tag.hex(), 'payload': ct.bplist({'Binaries': [{'id': 900}]}).hex(), 'padded': True})
        elif kind == 3:                      # payload that is no plist at all
            tag = rng.choice([ct.TAG_KEXTS, ct.TAG_PROCS, ct.TAG_IMAGES, ct.TAG_LOGS, ct.TAG_STRINGS, ct.TAG_DYLD])
            f['blocks'].insert(rng.randrange(len(f['blocks']) + 1),
                               {'tag': tag.hex(), 'payload': rng.choice([b'', b'garbage!', b'bplist00\x00', rng.randbytes(13)]).hex(),
                                'padded': True})
        elif kind == 4:                      # trace codes that are not UTF-8
            f['blocks'].insert(rng.randrange(len(f['blocks']) + 1),
                               {'tag': ct.TAG_CODES.hex(), 'payload': b'0x1\tA\n\xff\xfe'.hex(), 'padded': True})
        elif kind == 5 and f['threads']:     # a thread entry the 20-byte field cannot hold: the map ends there, silently
            i = rng.randrange(len(f['threads']))
            f['threads'][i][2] = rng.choice([bytes(range(1, 21)), b'\xff' + bytes(3)]).hex()
        elif kind == 6:                      # size field larger than the records present / not matching
            ch = rng.choice(f['chunks'])
            ch['extra'] = rng.choice([64, 128, 64 * 40, (1 << 40)])
        elif kind == 7:                      # cpu_info payload that is no plist
            f['cpu'] = rng.choice([b'', b'junk', rng.randbytes(9)]).hex()
        elif kind == 8:                      # marker or tag missing
            f['filler'] = ''
            pl = ct.v3_plists(f)
            data = ct.v3_bytes(f).replace(rng.choice([ct.STACKSHOT_END, ct.TAG_THREADMAP, ct.TAG_EVENTS]), b'X' * 8, 1)
            out.append({'prior': c02.gen_prior(rng), 'hex': data.hex(), 'plists': pl, 'kind': kind})
            continue
        else:                                # trailing junk shorter than a block header
            pl = ct.v3_plists(f)
            data = ct.v3_bytes(f) + rng.randbytes(rng.randrange(1, 16))
            out.append({'prior': c02.gen_prior(rng), 'hex': data.hex(), 'plists': pl, 'kind': kind})
            continue
        try:
            hx = file_hex(f)
        except OverflowError:
            continue
        out.append({'prior': c02.gen_prior(rng), 'hex': hx, 'plists': ct.v3_plists(f), 'kind': kind})
    return out


# ---------------------------------------------------------------------------------------------- sequences / public API

def line_seq(c):
    tp, pn = prior_of(c)
    a, b = ct.prior_args(tp, pn)
    return 'parseseqn %s %s %s %s' % (a, b, c['plists'], ' '.join(c['hexes']))


def impl_seq(c):
    from pykdebugparser.kd_buf_parser import KdBufParser
    tp, pn = prior_of(c)
    kp = KdBufParser(tp, pn)
    return ' || '.join(ct.show_run(ct.run_impl(bytes.fromhex(h), tp, pn, kp=kp), reads=False) for h in c['hexes'])


def oracle_seq(c, got):
    parts = got.split(' || ')
    for f, a in zip(c['files'], parts):
        if f is None:
            continue
        r = oracle_v3({'file': f}, a)
        if r:
            return (r[0] + '@seq', 'in a sequence of parses on one parser object: ' + r[1])
    return None


def line_api(c):
    return 'kevents - - %s %s' % (c['plists'], c['hex'])


def impl_api(c):
    from pykdebugparser.pykdebugparser import PyKdebugParser
    p = PyKdebugParser()
    evs, err = [], None
    try:
        for e in p.kevents(io.BytesIO(bytes.fromhex(c['hex']))):
            evs.append(e)
    except Exception as e:
        err = e
    return '%s n=%d [%s] %s' % (ct.show_err(err), len(evs), ' '.join(ct.show_ev(e) for e in evs),
                                ct.show_tables(p.threads_pids, p.pids_names))


def oracle_api(c, got):
    ev, logs, tm, tables, meta = expected(c['file'])
    if not got.startswith('done n=%d [%s] %s' % (len(ev), ' '.join(ev), tables)):
        return ('v3:kevents-api', 'PyKdebugParser.kevents on a well-formed v3 dump: events or final tables differ')
    # os_log_events: the log records, in order
    from pykdebugparser.pykdebugparser import PyKdebugParser
    p = PyKdebugParser()
    got_logs = ['L%d:%d:%d:%s:%s' % (i, o.thread_identifier, o.process_identifier, ct.hexd(o.process.encode()),
                                     ct.hexd(o.composed_message.encode()))
                for i, o in enumerate(p.os_log_events(io.BytesIO(bytes.fromhex(c['hex']))))]
    if got_logs != logs:
        return ('v3:os-log-api', 'PyKdebugParser.os_log_events differs from the log blocks of the dump')
    return None


# ---------------------------------------------------------------------------------------------- tags at the scanner's block edges

SCANS = [('filler', ct.STACKSHOT_END), ('gap1', ct.TAG_THREADMAP), ('chunk0', ct.TAG_EVENTS), ('chunk1', ct.TAG_EVENTS)]
STYLES = ['hi', 'zero', 'near', 'soup']


def _base_recipe(rng):
    seed = rng.randrange(1 << 30)
    return {'v': 3, 'seed': seed, 'threads': rng.randrange(0, 4), 'trail': rng.choice([0, 0, 5]),
            'filler': {'len': rng.randrange(0, 9), 'seed': seed}, 'gap1': {'len': rng.randrange(0, 9), 'seed': seed + 1},
            'chunks': [{'gap': {'len': rng.randrange(0, 9), 'seed': seed + 2}, 'n': rng.randrange(1, 4), 'extra': rng.choice([0, 17])},
                       {'gap': {'len': rng.randrange(0, 9), 'seed': seed + 3}, 'n': rng.randrange(1, 3), 'extra': 0}]}


def _set_gap(rc, which, spec):
    if which in ('filler', 'gap1'):
        rc[which] = spec
    else:
        rc['chunks'][int(which[-1])]['gap'] = spec


def block_case_set(rng, tier, sizes):
    """For every block size B the scanner may work with, in priority order (the byte budget of a size cuts the list):
    1. every scan (stackshot end, thread-map tag, events tag of the first and of a MORE chunk) with its tag straddling the
       edge k*B of ITS scan (counted from where the scan starts) after j = 0..len(tag) bytes, k = 1;
    2. a proper prefix of the tag ending exactly at the edge, the real tag one byte later (every prefix length);
    3. the same straddles with the edge counted from the start of the file;  4. k = 2;
    5. near-miss prefixes straddling the edge;  6. chunks with more than B bytes of records."""
    out = []
    quick = tier == 'quick'
    total_budget = (4 << 20) if quick else None
    for B, origin in sizes:
        plan = []
        for k, mode in ((1, 'rel'), (1, 'abs'), (2, 'rel')):
            group = []
            for which, tag in SCANS:
                for j in range(len(tag) + 1):
                    group.append(('straddle', which, tag, k, mode, j))
            plan.append(group)
        near_edge, near_str = [], []
        for which, tag in SCANS[:3]:
            for i in range(1, len(tag)):
                near_edge.append(('near', which, tag, 1, 'rel', (i, 0)))
                near_str.append(('near', which, tag, 1, 'rel', (i, max(1, i // 2))))
        plan = [plan[0], near_edge, plan[1], plan[2], near_str, [('records', None, None, 1, 'rel', 0), ('records', None, None, 1, 'rel', 1)]]
        budget = (36 * 2 * B) if quick else (48 << 20)
        ncase = 0
        for group in plan:
            for kind, which, tag, k, mode, j in group:
                rc = _base_recipe(rng)
                style = STYLES[ncase % len(STYLES)]
                if kind == 'records':
                    n = B // 64 + 5
                    rc['chunks'][0]['n'] = n
                    rc['chunks'][1]['n'] = n + 3 if j else 2
                    cost = 64 * (n + rc['chunks'][1]['n'])
                    desc = 'records'
                else:
                    base = 0
                    if mode == 'abs':
                        _set_gap(rc, which, {'len': 0})
                        _, info = ct.big_bytes(rc)
                        base = info['scans'][[w for w, _ in SCANS].index(which)] % B
                    if kind == 'straddle':
                        n = k * B - j - base
                        spec = {'len': n, 'style': style, 'seed': rc['seed']}
                        desc = '%s tag after %d bytes across edge %d*B (%s)' % (which, j, k, mode)
                    else:
                        i, s_ = j
                        n = k * B + 1 - s_ - base
                        spec = {'len': n, 'style': style, 'seed': rc['seed'], 'tail': (tag[:i] + b'\xa5').hex()}
                        desc = '%s: prefix of %d tag bytes %s the edge, tag 1 byte later' % (
                            which, i, 'ending at' if not s_ else 'across')
                    if n < 0 or (kind == 'near' and n < i + 1):
                        continue
                    _set_gap(rc, which, spec)
                    cost = n + 600
                if cost > budget or (total_budget is not None and cost > total_budget):
                    continue
                budget -= cost
                if total_budget is not None:
                    total_budget -= cost
                out.append({'rc': rc, 'B': B, 'origin': origin, 'what': desc, 'kind': kind, 'api': ncase % 2})
                ncase += 1
    return out


def run_blocks(c):
    """(events, exception, tables text) of the real code on the recipe dump, read from a plain io.BytesIO; even cases through
    KdBufParser.parse, odd ones through PyKdebugParser.kevents."""
    from pykdebugparser.kd_buf_parser import KdBufParser
    from pykdebugparser.pykdebugparser import PyKdebugParser
    from pykdebugparser.os_log_event import OsLogEvent
    data, info = ct.big_bytes(c['rc'])
    tp, pn = {7: 7}, {7: 'stale'}
    if c.get('api'):
        p = PyKdebugParser()
        p.threads_pids.update(tp)
        p.pids_names.update(pn)
        tp, pn = p.threads_pids, p.pids_names
        gen = lambda: p.kevents(io.BytesIO(data))
    else:
        gen = lambda: KdBufParser(tp, pn).parse(io.BytesIO(data))
    evs, err = [], [None]

    def go():
        try:
            for e in gen():
                if not isinstance(e, OsLogEvent):
                    evs.append(e)
        except Exception as x:
            err[0] = x
    ct.guarded(go, 180)
    return info, evs, err[0], ct.show_tables(tp, pn)


def oracle_blocks(c):
    info, evs, err, tables = run_blocks(c)
    if isinstance(err, ct.Watchdog):
        return ('v3:hang@blocks', 'the parser does not return on a well-formed dump (%s)' % c['what'])
    r = ct.judge_whole(info, evs, err, tables, 'v3 dump')
    if r:
        return ('v3:%s@blocks' % r[0], '%s — %s, block size aimed at %d (%s), scans start at %s, tags at %s'
                % (r[1], c['what'], c['B'], c['origin'], info['scans'], info['tags']))
    return None


def decl_translation_tie(rep):
    """`decl_source_is_expected_ir` through the driver (`cnircheck`): the construct declarations translated from the source are
    the ones `kd_header_v3_decl_eq_model` / `kd_v3_threadmap_decl_eq_model` / `kd_v3_additional_data_decl_eq_model` are proved for."""
    from .. import cnir
    return cnir.enable(rep)


# ---------------------------------------------------------------------------------------------- requests made before any is read

def oracle_lazy_parses(c):
    """`KdBufParser.parse` is lazy: a caller may hold several requests on ONE KdBufParser before reading any of them.  Read one
    after the other (in any order), each request delivers what a FRESH parser delivers for its dump — the same events and log
    records — and when a request has been read to its end the parser's metadata (header, trace codes, kernel extensions, dyld
    modules, images, processes) and tables are those a fresh parser has after that dump: nothing of the dumps whose requests
    were merely MADE earlier (oracle on the code alone)."""
    from pykdebugparser.kd_buf_parser import KdBufParser

    def digest(evs):
        return [ct.show_ev(e) if not hasattr(e, 'composed_message') else 'L:%d:%s' % (e.thread_identifier, e.composed_message)
                for e in evs]
    datas = [bytes.fromhex(h) for h in c['hexes']]
    fresh = []
    for d in datas:
        kp = KdBufParser({}, {})
        try:
            evs = digest(list(kp.parse(io.BytesIO(d))))
        except Exception as e:      # noqa: BLE001
            return None             # the generators only make well-formed dumps; not this oracle's business otherwise
        fresh.append((evs, ct.show_meta(kp), ct.show_tables(kp.threads_pids, kp.pids_names)))
    kp = KdBufParser({}, {})
    gens = [kp.parse(io.BytesIO(d)) for d in datas]           # all requests made before any is read
    for i in c['order']:
        try:
            evs = digest(list(gens[i]))
        except Exception as e:      # noqa: BLE001
            return ('v3:raises@lazy', 'request %d of %d (all made on ONE KdBufParser before any was read, order %s) raised %s; a '
                    'fresh parser reads that dump' % (i + 1, len(gens), c['order'], core.err_name(e)), c)
        if evs != fresh[i][0]:
            return ('v3:events@lazy', 'request %d of %d (all made before any was read, order %s) does not deliver what a fresh '
                    'parser delivers for its dump' % (i + 1, len(gens), c['order']), c)
        have = (ct.show_meta(kp), ct.show_tables(kp.threads_pids, kp.pids_names))
        if have != fresh[i][1:]:
            k = 0 if have[0] != fresh[i][1] else 1
            return ('v3:metadata@lazy', 'after request %d of %d was read to its end (all %d made on ONE KdBufParser before any was '
                    'read, order %s) the parser shows %s, a fresh parser after that dump %s'
                    % (i + 1, len(gens), len(gens), c['order'], have[k][:300], fresh[i][1 + k][:300]), c)
    return None


def lazy_parse_cases(rng, tier):
    out = []
    for _ in range(25 if tier == 'quick' else 500):
        fs = [ct.gen_v3(rng, small=True) for _ in range(rng.randrange(2, 4))]
        order = rng.choice([list(range(len(fs))), list(reversed(range(len(fs)))), rng.sample(range(len(fs)), len(fs))])
        out.append({'hexes': [ct.v3_bytes(f).hex() for f in fs], 'order': order})
    return out


def correspondence(rep, rng, tier):
    from .. import rdir
    if decl_translation_tie(rep):
        from .. import cnir
        cnir.section_decl_ir_v3(rep, rng, 300 if tier == 'quick' else 6000)
    rdir.enable(rep)
    _kdinit.init_section(rep)
    quick = tier == 'quick'
    from .. import pipeline as _PL
    _PL.section_e2e(rep, rng, tier, n=(150 if quick else 3000), plain=0.7, only_v3=True)
    main = [mk_case(rng, ct.gen_v3(rng, small=(i % 3 == 0))) for i in range(400 if quick else 6000)]
    run_section(rep, 'v3', main, line_v3, impl_v3, oracle_fn=oracle_v3,
                nontrivial_fn=lambda c, got: len(c['file']['chunks']) > 1 and len(c['file']['blocks']) > 0,
                kind_fn=lambda c, got: 'ch%d-bl%d' % (min(len(c['file']['chunks']), 3), min(len(c['file']['blocks']), 3)),
                rule='generated V3Files: chunkings 1..5 of 0-30 records, scanner gaps with near-miss prefixes of every tag and '
                     'complete foreign tags, thread maps with duplicates and trailing bytes, block subsets/orders/multiplicities '
                     'of all 7 known tags + unknown tags with real binary plists, last block padded or not, log records '
                     'with/without p and pid, tid 0; full answer compared; oracle from the description alone')
    junk = []
    for _ in range(100 if quick else 2500):
        f = ct.gen_v3(rng, small=rng.random() < 0.6)
        if f['threads']:
            f['threads'] = ct.add_junk(rng, f['threads'])
            junk.append(mk_case(rng, f))
    run_section(rep, 'v3-junk', junk, line_v3, impl_v3, oracle_fn=oracle_v3,
                nontrivial_fn=lambda c, got: any(len(t) > 3 for t in c['file']['threads']),
                rule='generated V3Files whose 20-byte command fields hold bytes BEHIND the name\'s terminator (reused kernel '
                     'slots): the name is the C string up to the first NUL; same comparison and oracle as section v3')
    mal = malformed(rng, 300 if quick else 5000)
    run_section(rep, 'v3-malformed', mal, line_v3, impl_v3,
                kind_fn=lambda c, got: 'k%d-%s' % (c['kind'], got.split(' ', 1)[0]),
                rule='malformed stream: unpadded inner block, unresolvable log strings, plists without the expected key, payloads '
                     'that are no plist, non-UTF-8 trace codes, thread entries that end the map, wrong size fields, bad cpu_info, '
                     'missing marker/tag, trailing junk — outcome kind and partial attributes must agree')
    from .. import readprobe
    sizes = readprobe.block_sizes(tier, version=3)
    rep.notes.append(readprobe.describe(tier))
    core.run_code_section(rep, 'v3-lazy-parses', lazy_parse_cases(rng, tier), oracle_lazy_parses,
                          kind_fn=lambda c: 'n=%d' % len(c['hexes']),
                          rule='code-only section: 2-3 KdBufParser.parse() requests for well-formed v3 dumps made on ONE KdBufParser '
                               'BEFORE any is read, then read one after the other in every order: each delivers the events and log '
                               'records a fresh parser delivers, and after each the metadata and tables are those of a fresh parser '
                               'after that dump')
    core.run_code_section(rep, 'v3-blocks', block_case_set(rng, tier, sizes), oracle_blocks,
                          kind_fn=lambda c: c['kind'] + ':' + c['origin'].split(':')[0],
                          rule='code-only section (inputs too long for a protocol line): for every block size B the scanner may '
                               'work with — request sizes above one record recorded from the real reader on small dumps '
                               '(tools/kdv/readprobe.py), integer constants of the reader\'s source and their products with 64, and '
                               'in the thorough tier / on a changed source the powers of two 2^9..2^20 — well-formed version-3 '
                               'dumps whose stackshot filler / gap in front of the thread-map tag / gap in front of the events tag '
                               '(first chunk and MORE chunk) has length k*B - j, j = 0..len(tag), k = 1, 2: the tag straddles a '
                               'block edge of ITS scan at every split point (edges counted from the scan\'s start, and from the '
                               'start of the file); proper prefixes of the tag ending at / lying across the edge with the real '
                               'tag one byte later; fillers of high bytes, zero bytes, the tag without its last byte repeated, '
                               'other tags; chunks with more than B bytes of records; read from a plain BytesIO through '
                               'KdBufParser.parse and PyKdebugParser.kevents alternately, per-size byte budget; demanded: no '
                               'exception, ALL fields of the events = the records of all chunks decoded, tables = thread map')
    seqs = []
    for _ in range(100 if quick else 1500):
        fs, hexes = [], []
        for _ in range(rng.randrange(2, 4)):
            if rng.random() < 0.3:
                g = c02.gen_file(rng, small=True)
                fs.append(None)
                hexes.append(c02.file_bytes(g).hex())
            else:
                f = ct.gen_v3(rng, small=True)
                fs.append(f)
                hexes.append(file_hex(f))
        pls = ';'.join(x for x in (ct.v3_plists(f) for f in fs if f is not None) if x != '-') or '-'
        pls = ';'.join(dict.fromkeys(pls.split(';')))
        seqs.append({'files': fs, 'hexes': hexes, 'plists': pls, 'prior': c02.gen_prior(rng)})
    run_section(rep, 'v3-seq', seqs, line_seq, impl_seq, oracle_fn=oracle_seq,
                rule='2-3 successive parses (v3 and v2 mixed) on ONE KdBufParser: tables and metadata attributes carried over '
                     'exactly as the model says; each v3 parse satisfies the oracle')
    api = [mk_case(rng, ct.gen_v3(rng, small=True)) for _ in range(150 if quick else 2000)]
    run_section(rep, 'v3-api', api, line_api, impl_api, oracle_fn=oracle_api,
                rule='PyKdebugParser().kevents / os_log_events on generated dumps')
    encs = [ct.gen_v3(rng, small=rng.random() < 0.5) for _ in range(200 if quick else 3000)]
    for f in encs[::2]:
        f['threads'] = ct.add_junk(rng, f['threads'])
    run_section(rep, 'encv3', encs, ct.line_enc_v3, lambda f: ct.v3_bytes(f).hex(),
                rule='Lean Spec.encodeV3 output == the harness\'s own Python encoder, byte for byte')
    _kdinit.metadata_section(rep, rng, tier)


def replay(path):
    with open(path) as fd:
        r = json.load(fd)
    rp = r['replay']
    sec, case = rp['section'], rp['case']
    if sec == 'end-to-end':
        from .. import pipeline as _PL
        return _PL.replay_e2e(case, 'C03', path)
    if sec in ('kd-init-ir', 'kd-init-metadata'):
        res = _kdinit.replay(rp)
        if res:
            print('failing:', res)
            print(f'VIOLATION property=C03 replay={path}')
            return 1
        print('no violation on this input')
        return 0
    if sec == 'v3-lazy-parses':
        res = oracle_lazy_parses(case)
        print('oracle:', res[:2] if res else None)
        if res:
            print(f'VIOLATION property=C03 replay={path}')
            return 1
        print('no violation on this input')
        return 0
    if sec == 'v3-blocks':
        info, evs, err, tables = run_blocks(case)
        print('recipe:', case['rc'])
        print('what  :', case['what'], '| block size aimed at', case['B'], '| scans start at', info['scans'], 'tags at', info['tags'],
              'records at', info['areas'])
        print('impl  : %s, %d events, %s' % (ct.show_err(err), len(evs), tables))
        res = oracle_blocks(case)
        if res:
            print('failing:', res)
            print(f'VIOLATION property=C03 replay={path}')
            return 1
        print('no violation on this input')
        return 0
    fns = {'v3': (line_v3, impl_v3, oracle_v3), 'v3-junk': (line_v3, impl_v3, oracle_v3), 'v3-malformed': (line_v3, impl_v3, None),
           'v3-seq': (line_seq, impl_seq, oracle_seq), 'v3-api': (line_api, impl_api, oracle_api)}
    if sec not in fns:
        return 0
    line_fn, impl_fn, orc = fns[sec]
    try:
        got = impl_fn(case)
    except Exception as e:
        got = 'err ' + core.err_name(e)
    model = core.drive([line_fn(case)])[0]
    print('impl :', got[:3000])
    print('model:', model[:3000])
    res = orc(case, got) if orc else None
    if res:
        print('failing:', res)
        print(f'VIOLATION property=C03 replay={path}')
        return 1
    return 0


LEVEL_TEXT = ('Lean theorems over the reader/construct model of parse_v3 against the file grammar Spec.encodeV3, for ALL well-formed '
              'V3Files (any chunking, filler, gaps, thread map, block list) and ANY prior parser state: seekUntil_first_occurrence, '
              'v3_round_trip (whole reader incl. 8-byte realignment, size//64 loop, MORE continuation, seek(-8,1), '
              'Select(Aligned, plain) blocks), v3_events, v3_events_chunking, v3_events_before_logs, v3_threadmap, v3_blocks '
              '(last-wins / concatenation of metadata, logs in order resolved through the last string block, tables extended by '
              'logs); end to end (Model/EndToEnd, version-3 branch of the composition bytes -> formatted_traces lines): '
              'e2e_dump_of_encoded_v3 (what traces/formatted_traces work on = the thread-map chunk + the decodings of the records of '
              'ALL chunks in file order, log records dropped, final exception = the one KdBufParser.parse ends with, raised after '
              'every event; no first-byte hypothesis — K1 is a v2 defect), e2e_dump_of_encoded_v3_ok (no exception under the '
              'hypotheses of v3_blocks), e2e_threadmap_of_encoded_v3, e2e_lines_of_encoded_v3 (+ _ok: the lines = line builder '
              'over traces of that dump; exception order rendering > trace layer > container), e2e_lines_chunking_v3 (lines '
              'independent of chunking / filler / header / blocks), e2e_lines_v3_eq_v2 (same lines as the v2 file with that thread '
              'map and those records); the model is tied to the code by differential runs on generated dumps with real binary '
              'plists incl. all parser attributes, parse sequences, the public kevents/os_log_events entry points, and '
              'formatted_traces on version-3 dumps (section end-to-end, incl. blocks that raise behind the last chunk and cuts).'
              " TRANSLATION TIE: the source text of parse / parse_v2 / parse_v3 (WHOLE: header, scans, thread map, chunk loop, reader.seek(-8, 1), the additional-data range, the attribute resets, the block loop with its if/elif chain on block.tag, the log loop) / seek_until / set_thread_map is translated on every run (tools/gen_pyir_rd.py, pure ast) into the Python-subset IR of Model/PyIRRd (statements over the model's reader: read, seek(-k, 1), while/for/break/raise/yield, bytes slices and comparisons, for-loops over the parsed blocks and the raw log events, the per-branch operations on the parser attributes, construct parsers / plistlib.loads / from_raw_log_event as primitives; big-step interpreter); source_is_expected_ir: the generated program is the one of Spec/PyIRRdExpected; parse_is_interpreted_source: for EVERY byte string and prior state the model's parse IS that program run by the interpreter, with the same read calls — nothing of parse_v3 is hand-modelled any more; per piece: seek_until_ir_eq_model, parse_v3_tail_ir_eq_model (the interpreted tail = tailV3 from any state), parse_v3_ir_eq_model.  The CONSTRUCTOR KdBufParser.__init__ is translated too (attribute initialisers sorted by attribute; part of the same generated program, so source_is_expected_ir covers it): kd_init_ir_eq_model — for every combination of given / None arguments and whatever the attributes held before, the interpreted constructor binds a given table to the caller's dict ITSELF (else a new empty dict) and leaves exactly the metadata {} (trace_codes '', kernel_extensions {'Binaries': []}, dyld_modules {}, images {}, processes {}, v3_header None) that the reader model parse / parseV3 / tailV3 starts from; kd_init_defaults (omitted = None; a third argument TypeError); kd_fresh_parser_parse (the interpreted parse on that object = the hand model from <given tables, {}>); kd_init_no_arguments (= EndToEnd.freshParser).  Sections kd-init-ir (driver rdinit) and kd-init-metadata (code only)."
              " DECLARATIONS: the construct declarations kd_header_v3 / kd_v3_threadmap / kd_v3_additional_data themselves (module-level construct expressions, and BplistAdapter._decode = plistlib.loads) are translated too (tools/gen_pyir_cn.py -> Gen/PyIRCn, deep embedding Model/PyIRCn.Con with the interpreter Con.parse over the model's reader monad and the combinators of Model/Construct): decl_source_is_expected_ir; kd_header_v3_decl_eq_model (= headerV3Inner; Aligned(8, ...) is applied at the call site: header_v3_call_site), kd_v3_threadmap_decl_eq_model (= prefixedBytes + greedyEntries), kd_v3_additional_data_decl_eq_model (= greedyRange blockElem with the fuel tailV3 supplies), each for EVERY reader state: same value, exception, position, read counters; parse_v3_rests_on_declarations.")
LEVEL_NOTE = ('plistlib.loads and OsLogEvent decoding are opaque parameters of the model (BlockOk / LogsResolve state what must load); '
              '"the dump\'s string index" = the LAST string block (assumption of the specification). Trusted: Lean kernel, '
              'Model/Construct + Model/Reader as models of construct/BytesIO (diffed, not verified), Spec.encodeV3 as the meaning of '
              '"version-3 dump".'
              ' The hand model of the readers is no longer trusted by itself: it is proved equal to the interpreted source (trusted instead: translator tools/gen_pyir_rd.py and interpreter Model/PyIRRd, both tested against CPython by the sections *-ir; the construct parsers incl. kd_v3_additional_data, plistlib.loads and OsLogEvent.from_raw_log_event as primitives / parameters; the tail of parse_v3 is translated and proved like the rest).'
              ' The construct parsers kd_header_v3 / kd_v3_threadmap / kd_v3_additional_data are no longer primitives by fiat: their declarations are translated and proved equal to the hand models (trusted instead: translator tools/gen_pyir_cn.py, Con.parse as the way construct composes its classes, and ONE combinator of Model/Construct per construct class).')
TECHNIQUE = 'Lean 4 proof (parser/encoder round trip) + differential correspondence + translation validation (source text -> IR, proved equal to the model)'
