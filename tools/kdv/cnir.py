"""Translation tie of the construct DECLARATIONS of kd_buf_parser.py (kd_threadmap, kd_header_v2, kd_header_v3, kd_v3_threadmap,
kd_v3_additional_data, BplistAdapter._decode -> Gen/PyIRCn, tools/gen_pyir_cn.py, Model/PyIRCn), shared by C02 / C03."""
import io

from . import core

TRUSTED = ('the construct DECLARATIONS of kd_buf_parser.py are tied to the SOURCE TEXT by translation as well: tools/gen_pyir_cn.py '
           '(pure ast) turns the module-level expressions kd_threadmap / kd_header_v2 / kd_header_v3 / kd_v3_threadmap / '
           'kd_v3_additional_data (and what BplistAdapter._decode returns) into terms of Model/PyIRCn.Con on every run; '
           'decl_source_is_expected_ir says they are the terms of Spec/PyIRCnExpected; <decl>_decl_eq_model say that those terms, run by '
           'the interpreter Con.parse over the SAME reader monad and combinators as Model/Construct, ARE the hand models threadEntry / '
           'headerV2 / headerV3Inner / prefixedBytes+greedyEntries / greedyRange blockElem for every reader state (result, exception, '
           'position, read counters).  So the sizes (Padding(0x100), FixedSized(0x14, …)), the order and names of the fields, Int32ul vs '
           'Int64ul, the Array count field, Aligned(8, …) / Select / Prefixed nesting are read off the source, not re-typed.  Trusted '
           'there: the translator, Con.parse as the way construct COMPOSES its classes (Struct runs its subconstructs in order with the '
           'fields so far as context, Prefixed / FixedSized parse on a private sub-stream, a module-level name is the object bound earlier), '
           'and the meaning of each single class = its combinator in Model/Construct (int32ul, int64ul, padding, arrayN, greedyRange, '
           'constZeroByte, select2, aligned, readExact, cstring) — validated against the real library by the sections v2 / v3 / … and by '
           'decl-ir (the generated declarations parsed by Con.parse vs the real construct objects)')


def enable(rep):
    """Checks `decl_source_is_expected_ir` through the driver.  Returns whether the generated declarations can be interpreted."""
    ans = core.drive(['cnircheck'])[0]
    if ans == 'same':
        rep.notes.append('translation tie: Gen/PyIRCn (the construct declarations of kd_buf_parser.py) = Spec/PyIRCnExpected')
    else:
        rep.broken.append('theorem decl_source_is_expected_ir: the construct declarations that tools/gen_pyir_cn.py translates from the '
                          'source text of kd_buf_parser.py are not the terms of Spec/PyIRCnExpected that kd_threadmap_decl_eq_model / '
                          'kd_header_v2_decl_eq_model / kd_header_v3_decl_eq_model / kd_v3_threadmap_decl_eq_model / '
                          'kd_v3_additional_data_decl_eq_model are proved for (%s)' % ans)
    return 'unsupported' not in ans


def _entry(t):
    name = t.process.encode('utf8')
    return '%d:%d:%s' % (t.tid, t.pid, name.hex() if name else '-')


def impl_v2(data):
    """the real `kd_header_v2` on the bytes (canonical answer of the driver command `cnv2`)"""
    from . import impl  # noqa: F401
    from pykdebugparser import kd_buf_parser as K
    rd = io.BytesIO(data)
    try:
        h = K.kd_header_v2.parse_stream(rd)
    except Exception as e:
        return 'err %s pos=%d' % (core.err_name(e), rd.tell())
    tm = ','.join(_entry(t) for t in h.threadmap) if len(h.threadmap) else '-'
    return 'ok n=%d is64=%d tick=%d tm=%s pad=%d pos=%d' % (h.number_of_treads, h.is_64bit, h.tick_frequency, tm, len(h._pad), rd.tell())


def impl_tm(data):
    from . import impl  # noqa: F401
    from pykdebugparser import kd_buf_parser as K
    rd = io.BytesIO(data)
    try:
        t = K.kd_threadmap.parse_stream(rd)
    except Exception as e:
        return 'err %s pos=%d' % (core.err_name(e), rd.tell())
    return 'ok %s pos=%d' % (_entry(t), rd.tell())


def section_decl_ir(rep, rng, header_bytes, n):
    """`decl-ir`: the GENERATED kd_header_v2 / kd_threadmap, run by Con.parse, against the real construct objects on the same bytes.
    `header_bytes(rng)` yields the bytes of a version-2 file behind its magic."""
    cases = []
    for i in range(n):
        data = header_bytes(rng)
        k = rng.randrange(6)
        if k == 0 and data:                       # truncated
            data = data[:rng.randrange(len(data))]
        elif k == 1 and data:                     # a flipped byte (count field, name field, padding …)
            p = rng.choice([0, 1, rng.randrange(len(data)), min(len(data) - 1, 0x11c + rng.randrange(64))])
            data = data[:p] + bytes([data[p] ^ rng.choice([1, 0x80, 0xff])]) + data[p + 1:]
        if i % 3 == 2:                            # a bare thread entry
            cut = data[0x11c:0x11c + 32] if len(data) >= 0x11c + 32 and rng.random() < 0.7 else bytes(rng.randrange(256) for _ in range(rng.choice([0, 11, 31, 32, 40])))
            if rng.random() < 0.3 and len(cut) == 32:
                cut = cut[:12] + bytes(rng.choice([0x41, 0xff, 0xc3, 0]) for _ in range(20))
            cases.append({'op': 'cntm', 'data': cut.hex()})
        else:
            cases.append({'op': 'cnv2', 'data': data.hex()})
    core.run_section(rep, 'decl-ir', cases,
                     lambda c: '%s %s' % (c['op'], c['data'] or '-'),
                     lambda c: (impl_v2 if c['op'] == 'cnv2' else impl_tm)(bytes.fromhex(c['data'])),
                     nontrivial_fn=lambda c, got: got.startswith('ok') and len(c['data']) > 64,
                     kind_fn=lambda c, got: c['op'] + '-' + got.split(' ')[0] + ('' if not got.startswith('err') else '-' + got.split(' ')[1]),
                     rule='version-2 headers (whole, truncated, one byte flipped) and bare thread entries (incl. names without NUL / '
                          'not UTF-8): the construct declarations GENERATED from the source and run by PyIRCn.Con.parse must give the '
                          'values, the exception kind and the stream position of the real kd_header_v2 / kd_threadmap objects')


def impl_tm3(data):
    from . import impl  # noqa: F401
    from pykdebugparser import kd_buf_parser as K
    rd = io.BytesIO(data)
    try:
        h = K.kd_v3_threadmap.parse_stream(rd)
    except Exception as e:
        return 'err %s pos=%d' % (core.err_name(e), rd.tell())
    return 'ok tm=%s pos=%d' % (','.join(_entry(t) for t in h.threadmap) if len(h.threadmap) else '-', rd.tell())


def impl_ad(data):
    from . import impl  # noqa: F401
    from pykdebugparser import kd_buf_parser as K
    rd = io.BytesIO(data)
    try:
        bs = K.kd_v3_additional_data.parse_stream(rd)
    except Exception as e:
        return 'err %s pos=%d' % (core.err_name(e), rd.tell())
    return 'ok %s pos=%d' % (','.join('%s:%s' % (bytes(b.tag).hex() or '-', bytes(b.data).hex() or '-') for b in bs) if len(bs) else '-',
                             rd.tell())


def _gen_entry(rng):
    name = rng.choice([b'a', b'launchd', 'é'.encode(), b'', bytes([0xff]), b'A' * 20, b'x' * 19])
    field = (name + b'\0' + bytes(rng.randrange(256) for _ in range(20)))[:20]
    return rng.randrange(1 << 64).to_bytes(8, 'little') + rng.randrange(1 << 32).to_bytes(4, 'little') + field


def section_decl_ir_v3(rep, rng, n):
    """`decl-ir` (C03): the GENERATED kd_v3_threadmap / kd_v3_additional_data, run by Con.parse, against the real construct objects."""
    cases = []
    for i in range(n):
        if i % 2:
            body = b''.join(_gen_entry(rng) for _ in range(rng.choice([0, 1, 2, 3, 5]))) + bytes(rng.randrange(256) for _ in range(rng.choice([0, 0, 5, 31])))
            ln = len(body) + rng.choice([0, 0, 0, -1, 1, 40])
            data = max(ln, 0).to_bytes(8, 'little') + body + bytes(rng.randrange(256) for _ in range(rng.choice([0, 3, 64])))
            if rng.random() < 0.15:
                data = data[:rng.randrange(len(data) + 1)]
            cases.append({'op': 'cntm3', 'data': data.hex()})
        else:
            data = b''
            for _ in range(rng.choice([0, 1, 2, 3, 6])):
                pay = bytes(rng.randrange(256) for _ in range(rng.choice([0, 1, 5, 8, 13, 16])))
                data += bytes(rng.randrange(256) for _ in range(8)) + len(pay).to_bytes(8, 'little') + pay
                if rng.random() < 0.8:
                    data += bytes(rng.randrange(256) for _ in range(-len(pay) % 8))      # alignment (any bytes)
            k = rng.randrange(5)
            if k == 0 and data:
                data = data[:rng.randrange(len(data))]
            elif k == 1:
                data += bytes(rng.randrange(256) for _ in range(rng.choice([1, 7, 8, 15, 17])))
            cases.append({'op': 'cnad', 'data': data.hex()})
    core.run_section(rep, 'decl-ir', cases,
                     lambda c: '%s %s' % (c['op'], c['data'] or '-'),
                     lambda c: (impl_tm3 if c['op'] == 'cntm3' else impl_ad)(bytes.fromhex(c['data'])),
                     nontrivial_fn=lambda c, got: got.startswith('ok') and not got.startswith('ok -') and not got.startswith('ok tm=-'),
                     kind_fn=lambda c, got: c['op'] + '-' + ('err' if got.startswith('err') else 'empty' if got.split(' ')[1] in ('-', 'tm=-') else 'some'),
                     rule='thread-map payloads (entries incl. names without NUL / not UTF-8, trailing bytes, wrong length prefix, cut) and '
                          'additional-data block streams (aligned and unaligned blocks, stray tails, cut): the construct declarations '
                          'GENERATED from the source and run by PyIRCn.Con.parse must give the values, the exception kind and the stream '
                          'position of the real kd_v3_threadmap / kd_v3_additional_data objects')
