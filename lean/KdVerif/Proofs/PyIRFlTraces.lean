import KdVerif.Proofs.PyIRFl
import KdVerif.Model.TracePipeline
/-
  The expected IR of `traces()` (`Spec/PyIRFlExpected`), run by the interpreter of `Model/PyIRFl`: for every
  configuration the frame returns the stream `TracesParser(codes, shared tables).feed_generator(self.kevents(kdebug,
  <the copy of filter_class with the helper classes appended = TracePipeline.effectiveClasses>))` with exactly the
  post-filter stages of `TracePipeline.postFilter`, in that order, and leaves the parser's filter attributes alone.
  The proof walks the body statement by statement (`tr2` … `tr12`) with the values of `has_filters`,
  `add_trace_class`, `add_fs_class` written out as OPERANDS of `and`/`or` (`val4`, `val5`, `val8`: a list or a bool),
  whose truthiness is stable under the later `append`s.  Core Lean only.
-/
set_option linter.unusedSimpArgs false
namespace KdVerif.PyIRFl
open KdVerif.Filters KdVerif.TracePipeline

/-! ### statement lemmas -/

theorem exec_assign (call : CallFn) (w : World) (env : Env) (v : Nat) (e : Expr) (next : Stmt) (x : Val)
    (h : eval call w env e = .ok x) :
    exec call (.assign v e next) env w = exec call next (env.set v x) w := by
  simp only [exec, h, bindE_ok]

/-- `if <var k>: l.append(n)` followed by `next` -/
theorem exec_if_append (call : CallFn) (w : World) (env : Env) (k : Nat) (l : Expr) (n : Nat) (next : Stmt)
    (vk : Val) (b : Bool) (r : Ref) (h' : Heap)
    (hk : env k = some vk) (ht : truthy w vk = .ok b) (hl : eval call w env l = .ok (.ref r))
    (ha : w.heap.append r n = some h') :
    exec call (.ite (.var k) (.append l (.int n) .done) .done next) env w
      = exec call next env (if b then { w with heap := h' } else w) := by
  cases b <;> simp [exec, eval, hk, ht, hl, ha]

/-! ### the heap of a `traces()` frame: `self.filter_class` copied, `extra` appended to the copy -/

def H (cfg : Cfg) (extra : List Nat) : Heap := { cfg := cfg, locs := [cfg.filterClass ++ extra] }

theorem H_deref_loc (cfg : Cfg) (extra : List Nat) : (H cfg extra).deref (.loc 0) = some (cfg.filterClass ++ extra) := rfl
theorem H_deref_sub (cfg : Cfg) (extra : List Nat) : (H cfg extra).deref .selfSubclass = some cfg.filterSubclass := rfl
theorem H_append (cfg : Cfg) (extra : List Nat) (n : Nat) :
    (H cfg extra).append (.loc 0) n = some (H cfg (extra ++ [n])) := by
  simp [H, Heap.append]

def hasF (cfg : Cfg) : Bool := !cfg.filterClass.isEmpty || !cfg.filterSubclass.isEmpty

/-- `has_filters`: an OPERAND of `filter_class or self.filter_subclass` -/
def val4 (cfg : Cfg) : Val := if cfg.filterClass.isEmpty then .ref .selfSubclass else .ref (.loc 0)

theorem truthy_val4 (cfg : Cfg) (extra : List Nat) (t : Tables) :
    truthy { heap := H cfg extra, tabs := t } (val4 cfg) = .ok (hasF cfg) := by
  cases hfc : cfg.filterClass with
  | nil => simp [val4, hasF, hfc, truthy, H, Heap.deref]
  | cons a l => simp [val4, hasF, hfc, truthy, H, Heap.deref]

/-- `add_trace_class` -/
def val5 (cfg : Cfg) : Val := if hasF cfg then .bool (!cfg.filterClass.contains 7) else val4 cfg

theorem truthy_val5 (cfg : Cfg) (extra : List Nat) (t : Tables) :
    truthy { heap := H cfg extra, tabs := t } (val5 cfg) = .ok (addTraceClass cfg) := by
  by_cases h : hasF cfg = true
  · simp only [val5, h, if_true, truthy_bool, addTraceClass, Gen.Consts.DBG_TRACE]
    simp only [hasF] at h; rw [h, Bool.true_and]
  · have h' : hasF cfg = false := by simpa using h
    simp only [val5, h', Bool.false_eq_true, if_false, truthy_val4, addTraceClass]
    simp only [hasF] at h'; rw [h', Bool.false_and]

def x1 (cfg : Cfg) : List Nat := if addTraceClass cfg then [7] else []

theorem contains_x1 (cfg : Cfg) (n : Nat) (hn : n ≠ 7) :
    (cfg.filterClass ++ x1 cfg).contains n = cfg.filterClass.contains n := by
  unfold x1; split <;> simp [hn]

/-- `add_fs_class` -/
def val8 (cfg : Cfg) : Val :=
  if hasF cfg then (if hasBsd cfg then .bool (!cfg.filterClass.contains 3) else .bool false) else val4 cfg

theorem truthy_val8 (cfg : Cfg) (extra : List Nat) (t : Tables) :
    truthy { heap := H cfg extra, tabs := t } (val8 cfg) = .ok (addFsClass cfg) := by
  by_cases h : hasF cfg = true
  · simp only [val8, h, if_true, addFsClass, Gen.Consts.DBG_FSYSTEM]
    simp only [hasF] at h; rw [h, Bool.true_and]
    cases hasBsd cfg <;> simp
  · have h' : hasF cfg = false := by simpa using h
    simp only [val8, h', Bool.false_eq_true, if_false, truthy_val4, addFsClass]
    simp only [hasF] at h'; rw [h', Bool.false_and, Bool.false_and]

def x2 (cfg : Cfg) : List Nat := x1 cfg ++ if addFsClass cfg then [3] else []

theorem classes_x2 (cfg : Cfg) : cfg.filterClass ++ x2 cfg = effectiveClasses cfg := by
  simp only [x2, x1, effectiveClasses, Gen.Consts.DBG_TRACE, Gen.Consts.DBG_FSYSTEM]
  cases addTraceClass cfg <;> cases addFsClass cfg <;> simp

theorem anyE_bsd (call : CallFn) (w : World) (env : Env) (l : List Nat) :
    anyE (fun n => bindE (eval call w (env.set 6 (.int n)) Expected.bsdTest) (truthy w)) l
      = .ok (l.any fun sc => sc >>> 8 == Gen.Consts.DBG_BSD) := by
  induction l with
  | nil => rfl
  | cons n ns ih =>
    have hn : bindE (eval call w (env.set 6 (.int n)) Expected.bsdTest) (truthy w)
        = .ok (n >>> 8 == 4) := by
      have : ((n : Int) >>> 8) = ((n >>> 8 : Nat) : Int) := rfl
      simp only [Expected.bsdTest, eval, Env.set, if_true, bindE_ok, this, pyEq, truthy_bool]
      exact congrArg _ (natCast_beq (n >>> 8) 4)
    simp only [anyE, hn, bindE_ok, ih, List.any_cons, Gen.Consts.DBG_BSD]
    by_cases h : n >>> 8 = 4
    · have : n ≠ 0 := by rintro rfl; simp at h
      simp [h, this]
    · simp [h]


/-! ### the body of `traces()`, statement by statement -/

def stT1 : Stage := ⟨10, .call1 .filterProcessCallback (.var 10)⟩
def stT2 : Stage := ⟨11, .not (.eq (.shr (.field (Expected.firstRecord 11) .eventid) 24) (.int 7))⟩
def stT3 : Stage := ⟨12, .not (.eq (.shr (.field (Expected.firstRecord 12) .eventid) 24) (.int 3))⟩

def stagesT (cfg : Cfg) : List Stage :=
  (if cfg.filterProcess.isSome then [stT1] else []) ++ (if addTraceClass cfg then [stT2] else []) ++
    (if addFsClass cfg then [stT3] else [])

def tr12 : Stmt := .ite (.var 8) (.assignFilter 9 stT3.param stT3.body (.var 9) .done) .done (.ret (.var 9))
def tr11 : Stmt := .ite (.var 5) (.assignFilter 9 stT2.param stT2.body (.var 9) .done) .done tr12
def tr10 : Stmt :=
  .ite (.isNone (.self .filterProcess)) .done (.assignFilter 9 stT1.param stT1.body (.var 9) .done) tr11
def tr9 : Stmt :=
  .assign 9 (.feedKevents (.var 2) (.self .threadsPids) (.self .pidsNames) (.var 0) (.var 3)) tr10
def tr8 : Stmt := .ite (.var 8) (.append (.var 3) (.int 3) .done) .done tr9
def e8 : Expr := .and (.var 4) (.and (.var 7) (.not (.isIn (.int 3) (.var 3))))
def tr7 : Stmt := .assign 8 e8 tr8
def e7 : Expr := .or (.isIn (.int 4) (.var 3)) (.anyFilter 6 Expected.bsdTest (.self .filterSubclass))
def tr6 : Stmt := .assign 7 e7 tr7
def tr5 : Stmt := .ite (.var 5) (.append (.var 3) (.int 7) .done) .done tr6
def e5 : Expr := .and (.var 4) (.not (.isIn (.int 7) (.var 3)))
def tr4 : Stmt := .assign 5 e5 tr5
def e4 : Expr := .or (.var 3) (.self .filterSubclass)
def tr3 : Stmt := .assign 4 e4 tr4
def tr2 : Stmt := .assignList 3 (.self .filterClass) tr3

theorem traces_body :
    Expected.traces.body = .assign 2 (.ifExp (.isNone (.var 1)) .defaultTraceCodes (.var 1)) tr2 := rfl

theorem eval_e4 (call : CallFn) (cfg : Cfg) (env : Env) (h3 : env 3 = some (.ref (.loc 0))) :
    eval call { heap := H cfg [] } env e4 = .ok (val4 cfg) := by
  have ht := truthy_ref { heap := H cfg [] } (.loc 0) _ (H_deref_loc cfg [])
  simp only [e4, eval, h3, bindE_ok, ht, getAttr, val4, List.append_nil]
  cases cfg.filterClass <;> rfl

theorem eval_e5 (call : CallFn) (cfg : Cfg) (env : Env) (h3 : env 3 = some (.ref (.loc 0)))
    (h4 : env 4 = some (val4 cfg)) :
    eval call { heap := H cfg [] } env e5 = .ok (val5 cfg) := by
  simp only [e5, eval, h3, h4, bindE_ok, truthy_val4, H_deref_loc, val5, List.append_nil, truthy_bool]
  have : memNat 7 cfg.filterClass = cfg.filterClass.contains 7 := memNat_natCast 7 _
  cases hasF cfg <;> simp [this]

theorem eval_e7 (call : CallFn) (cfg : Cfg) (env : Env) (h3 : env 3 = some (.ref (.loc 0))) :
    eval call { heap := H cfg (x1 cfg) } env e7 = .ok (.bool (hasBsd cfg)) := by
  have hm : memNat 4 (cfg.filterClass ++ x1 cfg) = cfg.filterClass.contains 4 := by
    rw [← contains_x1 cfg 4 (by decide)]; exact memNat_natCast 4 _
  simp only [e7, eval, h3, bindE_ok, H_deref_loc, H_deref_sub, hm, truthy_bool, getAttr, anyE_bsd, hasBsd,
    Gen.Consts.DBG_BSD]
  cases cfg.filterClass.contains 4 <;> simp

theorem eval_e8 (call : CallFn) (cfg : Cfg) (env : Env) (h3 : env 3 = some (.ref (.loc 0)))
    (h4 : env 4 = some (val4 cfg)) (h7 : env 7 = some (.bool (hasBsd cfg))) :
    eval call { heap := H cfg (x1 cfg) } env e8 = .ok (val8 cfg) := by
  have hm : memNat 3 (cfg.filterClass ++ x1 cfg) = cfg.filterClass.contains 3 := by
    rw [← contains_x1 cfg 3 (by decide)]; exact memNat_natCast 3 _
  simp only [e8, eval, h3, h4, h7, bindE_ok, truthy_val4, H_deref_loc, hm, truthy_bool, val8]
  cases hasF cfg <;> cases hasBsd cfg <;> simp

/-- The frame of `traces()` when it returns: the stream it returns, the heap. -/
theorem runBlock_traces (call : CallFn) (cfg : Cfg) (given : Bool) :
    ∃ env : Env,
      runBlock call Expected.traces [.kdebug, if given then .codes true else .none] { heap := { cfg := cfg } }
        = .ok (.stream (.traces given (some (.loc 0))) (stagesT cfg), env, { heap := H cfg (x2 cfg) }) := by
  have hpad : padArgs Expected.traces [.kdebug, if given then .codes true else .none]
      = some [.kdebug, if given then .codes true else .none] := by cases given <;> rfl
  let a1 : Val := if given then .codes true else .none
  let env2 : Env := (Env.ofArgs [.kdebug, a1]).set 2 (.codes given)
  let env3 : Env := env2.set 3 (.ref (.loc 0))
  let env4 : Env := env3.set 4 (val4 cfg)
  let env5 : Env := env4.set 5 (val5 cfg)
  let env7 : Env := env5.set 7 (.bool (hasBsd cfg))
  let env8 : Env := env7.set 8 (val8 cfg)
  let env9 : Env := env8.set 9 (.stream (.traces given (some (.loc 0))) [])
  -- trace_codes_map = …
  have s2 : exec call Expected.traces.body (Env.ofArgs [.kdebug, a1]) { heap := { cfg := cfg } }
      = exec call tr2 env2 { heap := { cfg := cfg } } := by
    rw [traces_body]
    apply exec_assign
    cases given <;> simp [eval, Env.ofArgs, a1]
  -- filter_class = list(self.filter_class)
  have s3 : exec call tr2 env2 { heap := { cfg := cfg } } = exec call tr3 env3 { heap := H cfg [] } := by
    simp [tr2, exec, eval, getAttr, Heap.deref, Heap.alloc, H, env3]
  have s4 : exec call tr3 env3 { heap := H cfg [] } = exec call tr4 env4 { heap := H cfg [] } :=
    exec_assign _ _ _ _ _ _ _ (eval_e4 call cfg env3 (by simp [env3, Env.set]))
  have s5 : exec call tr4 env4 { heap := H cfg [] } = exec call tr5 env5 { heap := H cfg [] } :=
    exec_assign _ _ _ _ _ _ _ (eval_e5 call cfg env4 (by simp [env4, env3, Env.set]) (by simp [env4, Env.set]))
  have s6 : exec call tr5 env5 { heap := H cfg [] } = exec call tr6 env5 { heap := H cfg (x1 cfg) } := by
    have := exec_if_append call { heap := H cfg [] } env5 5 (.var 3) 7 tr6 (val5 cfg) (addTraceClass cfg) (.loc 0)
      (H cfg [7]) (by simp [env5, Env.set]) (truthy_val5 cfg [] {}) (by simp [eval, env5, env4, env3, Env.set])
      (H_append cfg [] 7)
    refine this.trans ?_
    cases h : addTraceClass cfg <;> simp [x1, h]
  have s7 : exec call tr6 env5 { heap := H cfg (x1 cfg) } = exec call tr7 env7 { heap := H cfg (x1 cfg) } :=
    exec_assign _ _ _ _ _ _ _ (eval_e7 call cfg env5 (by simp [env5, env4, env3, Env.set]))
  have s8 : exec call tr7 env7 { heap := H cfg (x1 cfg) } = exec call tr8 env8 { heap := H cfg (x1 cfg) } :=
    exec_assign _ _ _ _ _ _ _ (eval_e8 call cfg env7 (by simp [env7, env5, env4, env3, Env.set])
      (by simp [env7, env5, env4, Env.set]) (by simp [env7, Env.set]))
  have s9 : exec call tr8 env8 { heap := H cfg (x1 cfg) } = exec call tr9 env8 { heap := H cfg (x2 cfg) } := by
    have := exec_if_append call { heap := H cfg (x1 cfg) } env8 8 (.var 3) 3 tr9 (val8 cfg) (addFsClass cfg) (.loc 0)
      (H cfg (x1 cfg ++ [3])) (by simp [env8, Env.set]) (truthy_val8 cfg _ {})
      (by simp [eval, env8, env7, env5, env4, env3, Env.set]) (H_append cfg _ 3)
    refine this.trans ?_
    cases h : addFsClass cfg <;> simp [x2, h]
  have s10 : exec call tr9 env8 { heap := H cfg (x2 cfg) } = exec call tr10 env9 { heap := H cfg (x2 cfg) } := by
    apply exec_assign
    simp [eval, getAttr, env8, env7, env5, env4, env3, env2, Env.set, Env.ofArgs]
  obtain ⟨env10, f10, v10, e10⟩ := exec_stage_unless call { heap := H cfg (x2 cfg) } env9 (.isNone (.self .filterProcess)) 9
    stT1.param stT1.body tr11 _ (cfg.filterProcess.isNone) (.traces given (some (.loc 0))) []
    (eval_isNone_attr call _ env9 .filterProcess) (by cases h : cfg.filterProcess <;> simp [getAttr, H, h])
    (by simp [env9, Env.set])
  obtain ⟨env11, f11, v11, e11⟩ := exec_stage_if call { heap := H cfg (x2 cfg) } env10 (.var 5) 9
    stT2.param stT2.body tr12 (val5 cfg) (addTraceClass cfg) (.traces given (some (.loc 0))) _
    (by simp [eval, f10 5 (by decide), env9, env8, env7, env5, Env.set]) (truthy_val5 cfg _ {}) v10
  obtain ⟨env12, f12, v12, e12⟩ := exec_stage_if call { heap := H cfg (x2 cfg) } env11 (.var 8) 9
    stT3.param stT3.body (.ret (.var 9)) (val8 cfg) (addFsClass cfg) (.traces given (some (.loc 0))) _
    (by simp [eval, f11 8 (by decide), f10 8 (by decide), env9, env8, Env.set]) (truthy_val8 cfg _ {}) v11
  refine ⟨env12, ?_⟩
  have e10' : exec call tr10 env9 { heap := H cfg (x2 cfg) } = exec call tr11 env10 { heap := H cfg (x2 cfg) } := e10
  have e11' : exec call tr11 env10 { heap := H cfg (x2 cfg) } = exec call tr12 env11 { heap := H cfg (x2 cfg) } := e11
  have e12' : exec call tr12 env11 { heap := H cfg (x2 cfg) }
      = exec call (.ret (.var 9)) env12 { heap := H cfg (x2 cfg) } := e12
  simp only [runBlock, hpad, bindE_ok]
  show bindE (exec call Expected.traces.body (Env.ofArgs [.kdebug, a1]) { heap := { cfg := cfg } }) _ = _
  rw [s2, s3, s4, s5, s6, s7, s8, s9, s10, e10', e11', e12']
  simp only [exec, eval, v12, bindE_ok]
  cases hfp : cfg.filterProcess <;> simp [stagesT, hfp]


/-! ### the post-filter stages on the traces -/

/-- `TracePipeline.postFilter` for any representation of the yielded traces: `view` shows of each its first record
    (`trace.ktraces[0]`) and the two shared tables at the moment it is yielded. -/
def postFilterV {α : Type} (view : α → Kevent × Tables) (cfg : Cfg) (l : List α) : List α :=
  let l := match cfg.filterProcess with
    | some fp => l.filter fun x => procMatches fp (view x).2 (view x).1.tid
    | none => l
  let l := if addTraceClass cfg then l.filter fun x => (view x).1.eventid >>> 24 != Gen.Consts.DBG_TRACE else l
  let l := if addFsClass cfg then l.filter fun x => (view x).1.eventid >>> 24 != Gen.Consts.DBG_FSYSTEM else l
  l

theorem stage_T1 (p : Prog) (hC : p.filterProcessCallback = Expected.filterProcessCallback) (d : Nat) (env : Env) (w : World) (fp : String) (hfp : w.heap.cfg.filterProcess = some fp)
    (k : Kevent) :
    bindE (eval (callAt p (d + 1)) w (env.set stT1.param (.trace k)) stT1.body) (truthy w)
      = .ok (procMatches fp w.tabs k.tid) := by
  have hv : (env.set 10 (.trace k)) 10 = some (.trace k) := by simp [Env.set]
  simp only [stT1, eval, hv, bindE_ok, callAt_filterProcessCallback p hC d w k, hfp, truthy_bool]

theorem eval_firstRecord (call : CallFn) (w : World) (env : Env) (t : Nat) (k : Kevent)
    (h : env t = some (.trace k)) : eval call w env (Expected.firstRecord t) = .ok (.item (.event k)) := by
  simp [Expected.firstRecord, eval, h, getField]

theorem stage_class (call : CallFn) (env : Env) (w : World) (t c : Nat) (k : Kevent) :
    bindE (eval call w (env.set t (.trace k))
        (.not (.eq (.shr (.field (Expected.firstRecord t) .eventid) 24) (.int c)))) (truthy w)
      = .ok (k.eventid >>> 24 != c) := by
  have hr := eval_firstRecord call w (env.set t (.trace k)) t k (by simp [Env.set])
  have : ((k.eventid : Int) >>> 24) = ((k.eventid >>> 24 : Nat) : Int) := rfl
  simp only [eval, hr, bindE_ok, getField, this, pyEq, truthy_bool]
  exact congrArg (fun b => Except.ok (!b)) (natCast_beq (k.eventid >>> 24) c)

theorem runTraces_expected {α : Type} (view : α → Kevent × Tables) (p : Prog) (hT : p.traces = Expected.traces)
    (hC : p.filterProcessCallback = Expected.filterProcessCallback) (cfg : Cfg) (given : Bool) (l : List α) :
    runTraces view p cfg given l
      = .ok { codesGiven := given, classArg := some (effectiveClasses cfg), cfgAfter := cfg,
              out := postFilterV view cfg l } := by
  obtain ⟨env, hrun⟩ := runBlock_traces (callAt p depth) cfg given
  have hk : p.traces = Expected.traces := hT
  simp only [runTraces, hk, hrun, bindE_ok, H_deref_loc, classes_x2]
  have hcfg : (H cfg (x2 cfg)).cfg = cfg := rfl
  -- the three stages, one after the other
  have h1 : ∀ l : List α, ∀ rest,
      applyStages (callAt p depth) env (fun x => { heap := H cfg (x2 cfg), tabs := (view x).2 })
        (fun x => .trace (view x).1) ((if cfg.filterProcess.isSome then [stT1] else []) ++ rest) l
      = applyStages (callAt p depth) env (fun x => { heap := H cfg (x2 cfg), tabs := (view x).2 })
        (fun x => .trace (view x).1) rest
        (match cfg.filterProcess with
         | some fp => l.filter fun x => procMatches fp (view x).2 (view x).1.tid
         | none => l) := by
    intro l rest
    cases hfp : cfg.filterProcess with
    | none => rfl
    | some fp =>
      simp only [Option.isSome_some, if_true, List.singleton_append]
      exact applyStages_cons_ok _ _ _ _ _ _ _ _ fun x _ => stage_T1 p hC 1 env _ fp hfp (view x).1
  have h2 : ∀ (b : Bool) (t c : Nat) (l : List α) (rest : List Stage),
      applyStages (callAt p depth) env (fun x => { heap := H cfg (x2 cfg), tabs := (view x).2 })
        (fun x => .trace (view x).1)
        ((if b then [⟨t, .not (.eq (.shr (.field (Expected.firstRecord t) .eventid) 24) (.int c))⟩] else []) ++ rest) l
      = applyStages (callAt p depth) env (fun x => { heap := H cfg (x2 cfg), tabs := (view x).2 })
        (fun x => .trace (view x).1) rest
        (if b then l.filter fun x => (view x).1.eventid >>> 24 != c else l) := by
    intro b t c l rest
    cases b
    · rfl
    · simp only [if_true, List.singleton_append]
      exact applyStages_cons_ok _ _ _ _ _ _ _ _ fun x _ => stage_class _ env _ t c (view x).1
  have h2' := h2 (addTraceClass cfg) 11 7
  have h3' := fun l => h2 (addFsClass cfg) 12 3 l []
  simp only [List.append_nil] at h3'
  simp only [stagesT, List.append_assoc]
  rw [h1,
    show stT2 = ⟨11, .not (.eq (.shr (.field (Expected.firstRecord 11) .eventid) 24) (.int (7 : Nat)))⟩ from rfl,
    show stT3 = ⟨12, .not (.eq (.shr (.field (Expected.firstRecord 12) .eventid) 24) (.int (3 : Nat)))⟩ from rfl,
    h2', h3']
  simp only [applyStages, bindE_ok, postFilterV, Gen.Consts.DBG_TRACE, Gen.Consts.DBG_FSYSTEM, hcfg]

end KdVerif.PyIRFl
