"""Translator of the COMPOSITE HANDLERS of property C20 (pure `ast`, nothing is imported or run):

    pykdebugparser/trace_handlers/perf.py   the five handlers of its `handlers` dict (`handle_event`, `handle_thd_data`, …)
    pykdebugparser/trace_handlers/mach.py   `handlers['MACH_vmfault']`                       (`handle_mach_vmfault`)
    pykdebugparser/trace_handlers/dyld.py   `handlers['DBG_DYLD_TIMING_LAUNCH_EXECUTABLE']`  (`handle_timing_launch_executable`)

-> lean/KdVerif/Gen/PyIRCo.lean: per module one `Program` of the IR of lean/KdVerif/Model/PyIRCo.lean — the functions the
dict names for those keys and every handler they call (`f(parser, …)`), in source order; the dataclasses those functions
construct (fields after `ktraces` with defaults, `__str__`); the dict entries.

The bodies are translated by a small symbolic evaluator, so that harmless restylings give the same term:
  * statement lists are right-nested `seq`; an `if` without `else` has `skip` as its else branch; docstrings and `pass` vanish;
  * the two parameters may have any name;
  * a local bound to a TOTAL expression — one that, on a non-empty window of four-word records, cannot raise and does not
    depend on anything mutable: `events`, `events[0]`, `events[-1]`, their record fields, `values[k]` (k <= 3), constants,
    `&`, `bool()`, `!=`, an enum-flag comprehension, a comprehension selecting records of `events` by name or id range,
    `[1:-1]`, `list()`, `+` of lists, a temporary that already holds a value — is a name for that expression and is replaced by
    it at its uses (renaming, aliasing, naming a sub-list change nothing);
  * every other value a local is bound to (a constructed object, the result of a handler call / a comprehension of handler
    calls / `parse_event_list`, an expression that may raise such as `Cls(x)` of an enum or `sorted(…)`) is stored, where the
    source binds it, in a fresh temporary numbered in order of appearance; `x.f = g(parser, y)` calls into a temporary first;
  * a local whose value after an `if` depends on the branch taken and that is used afterwards (`pid = None` … `if …: pid = …`)
    is a mutable local: all of its bindings become assignments to one number (allocated at its first binding);
  * `v += e` on lists is `v = v + e`; conditions in one spelling: `if not c: A else: B` is `ite c B A`, `a == b` is
    `ite (ne a b) B A`, `x is None` is `ite (isNotNone x) B A`;
  * `to_x(e)` where `to_x` is a module-level `def to_x(p): return [m for m in E if m.value & p]` (either operand order,
    optionally `list(E)`) of an `Enum` class `E` of the module is `flagsOf "E" e`, as is the comprehension written out.
Everything else becomes an explicit `.unsupported "<source text>"` node or an entry of `notes`: never a guess."""
import ast
import os

TABLES = {'threads_pids': '.threadsPids', 'pids_names': '.pidsNames', 'tids_names': '.tidsNames',
          'global_strings': '.globalStrings'}
KEVENT_FIELDS = {'timestamp': 'int', 'data': 'bytes', 'values': 'words', 'tid': 'int', 'debugid': 'int', 'eventid': 'int',
                 'func_qualifier': 'int'}
MODULES = [
    ('perf', 'perf.py', ['PERF_Event', 'PERF_THD_Data', 'PERF_THD_CSwitch', 'PERF_STK_UData', 'PERF_STK_UHdr']),
    ('mach', 'mach.py', ['MACH_vmfault']),
    ('dyld', 'dyld.py', ['DBG_DYLD_TIMING_LAUNCH_EXECUTABLE']),
]


def src(node):
    try:
        return ' '.join(ast.unparse(node).split())
    except Exception:
        return '<?>'


def is_nat(e):
    return isinstance(e, ast.Constant) and isinstance(e.value, int) and not isinstance(e.value, bool) and e.value >= 0


def is_name(e, name=None):
    return isinstance(e, ast.Name) and (name is None or e.id == name)


class NeedMutable(Exception):
    def __init__(self, name):
        self.name = name


class Module:
    """What the translator knows about one source module."""

    def __init__(self, tree, notes, label):
        self.notes = notes
        self.label = label
        self.imports = {}            # bound name -> (module, name)
        self.enums = {}              # class name -> [member names]
        self.dataclasses = {}        # class name -> ClassDef node
        self.funs = {}               # name -> FunctionDef node
        self.order = []              # module-level def / class names in source order
        self.table = None
        self.counts = {}
        for node in tree.body:
            if isinstance(node, ast.ImportFrom) and node.level == 0:
                for al in node.names:
                    self.bind(al.asname or al.name)
                    self.imports[al.asname or al.name] = (node.module, al.name)
            elif isinstance(node, ast.Import):
                for al in node.names:
                    self.bind((al.asname or al.name).split('.')[0])
            elif isinstance(node, ast.ClassDef):
                self.bind(node.name)
                self.order.append(node.name)
                bases = [src(b) for b in node.bases]
                if bases == ['Enum'] and not node.keywords and not node.decorator_list:
                    self.enums[node.name] = self.enum_members(node)
                elif not bases:
                    self.dataclasses[node.name] = node
            elif isinstance(node, ast.FunctionDef):
                self.bind(node.name)
                self.order.append(node.name)
                self.funs[node.name] = node
            elif isinstance(node, (ast.Assign, ast.AnnAssign, ast.AugAssign)):
                targets = node.targets if isinstance(node, ast.Assign) else [node.target]
                for t in targets:
                    for n in ast.walk(t):
                        if isinstance(n, ast.Name):
                            self.bind(n.id)
                if isinstance(node, ast.Assign) and len(node.targets) == 1 and is_name(node.targets[0], 'handlers'):
                    self.table = node.value
        # a module-level name rebound inside a function (`global`) or by a nested statement is outside the subset
        self.globals_used = any(isinstance(n, (ast.Global, ast.Nonlocal)) for n in ast.walk(tree))
        if self.globals_used:
            notes.append('%s: global / nonlocal statement' % label)
        for node in tree.body:       # module-level statements other than the ones above may rebind anything
            if not isinstance(node, (ast.ImportFrom, ast.Import, ast.ClassDef, ast.FunctionDef, ast.Assign, ast.AnnAssign,
                                     ast.AugAssign)) \
                    and not (isinstance(node, ast.Expr) and isinstance(node.value, ast.Constant)):
                notes.append('%s: module-level statement not understood: %s' % (label, src(node)[:120]))
        for n in ast.walk(tree):     # handlers[...] = … / handlers.update(…) / del handlers[…] anywhere
            if isinstance(n, ast.Subscript) and isinstance(n.ctx, (ast.Store, ast.Del)) and is_name(n.value, 'handlers'):
                notes.append('%s: handlers[...] stored at line %d' % (label, n.lineno))
            if isinstance(n, ast.Call) and isinstance(n.func, ast.Attribute) and is_name(n.func.value, 'handlers'):
                notes.append('%s: handlers.%s(...) called at line %d' % (label, n.func.attr, n.lineno))

    def bind(self, name):
        self.counts[name] = self.counts.get(name, 0) + 1

    def once(self, name):
        return self.counts.get(name, 0) == 1

    def imported(self, name, module, orig):
        return self.once(name) and self.imports.get(name) == (module, orig)

    @staticmethod
    def enum_members(node):
        out = []
        for st in node.body:
            if isinstance(st, ast.Assign) and len(st.targets) == 1 and isinstance(st.targets[0], ast.Name) \
                    and is_nat(st.value):
                out.append(st.targets[0].id)
            elif isinstance(st, ast.Expr) and isinstance(st.value, ast.Constant) or isinstance(st, ast.Pass):
                pass
            else:
                return None           # something else in the class body: not a plain enum
        return out

    def enum_ok(self, name):
        return self.enums.get(name) is not None and self.once(name) and self.imported('Enum', 'enum', 'Enum')

    def flag_helper(self, name):
        """`def name(p): return [m for m in E if m.value & p]` -> 'E' (None otherwise)"""
        f = self.funs.get(name)
        if f is None or not self.once(name):
            return None
        a = f.args
        if len(a.args) != 1 or a.vararg or a.kwarg or a.kwonlyargs or a.posonlyargs or a.defaults or f.decorator_list:
            return None
        body = [s for s in f.body if not (isinstance(s, ast.Expr) and isinstance(s.value, ast.Constant))]
        if len(body) != 1 or not isinstance(body[0], ast.Return) or body[0].value is None:
            return None
        r = self.flags_comp(body[0].value)
        if r is None or not is_name(r[1], a.args[0].arg):
            return None
        return r[0]

    def flags_comp(self, e):
        """`[m for m in E if m.value & X]` -> ('E', X-node), X not mentioning m"""
        if not (isinstance(e, ast.ListComp) and len(e.generators) == 1):
            return None
        g = e.generators[0]
        if g.is_async or not isinstance(g.target, ast.Name) or len(g.ifs) != 1:
            return None
        m = g.target.id
        it = g.iter
        if isinstance(it, ast.Call) and is_name(it.func, 'list') and len(it.args) == 1 and not it.keywords \
                and 'list' not in self.counts:
            it = it.args[0]
        if not (isinstance(it, ast.Name) and self.enum_ok(it.id) and is_name(e.elt, m)):
            return None
        t = g.ifs[0]
        if not (isinstance(t, ast.BinOp) and isinstance(t.op, ast.BitAnd)):
            return None

        def is_mval(n):
            return isinstance(n, ast.Attribute) and n.attr == 'value' and is_name(n.value, m)
        x = t.right if is_mval(t.left) else t.left if is_mval(t.right) else None
        if x is None or any(is_name(n, m) for n in ast.walk(x)):
            return None
        return it.id, x


# kinds of total expressions: 'records' | 'record' | 'words' | 'int' | 'bytes' | 'bool' | 'members' | 'list' | 'obj' |
# 'none' | 'str' | 'member' | 'any'
class Fn:
    """One handler body -> Stmt (python tuples)."""

    def __init__(self, fn, mod):
        self.fn = fn
        self.mod = mod
        self.parser = fn.args.args[0].arg
        self.events = fn.args.args[1].arg
        self.mutable = set()
        self.called = []

    # ---- one attempt ---------------------------------------------------------------------------------------
    def attempt(self):
        self.env = {}                # name -> ('sym', ir, kind) | ('conflict',)
        self.index = {}              # mutable local -> number
        self.nvars = 0
        self.kinds = {}              # temp number -> kind
        return self.seq(self.block(self.fn.body))

    def fresh(self, kind='any'):
        k = self.nvars
        self.nvars += 1
        self.kinds[k] = kind
        return k

    def shadowed(self, name):
        """is a module-level / builtin name we give a meaning to rebound in this function?"""
        return name in (self.parser, self.events) or name in self.local_names

    # ---- expressions -> (ir, kind, total) ------------------------------------------------------------------
    def uns(self, e):
        return ('unsupported', src(e)), 'any', False

    def code_name_test(self, t, x):
        """`parser.trace_codes.get(x.eventid[, '']) == 'NAME'` -> (default given?, NAME)"""
        if not (isinstance(t, ast.Compare) and len(t.ops) == 1 and isinstance(t.ops[0], ast.Eq)):
            return None
        a, b = t.left, t.comparators[0]
        if isinstance(a, ast.Constant):
            a, b = b, a
        if not (isinstance(b, ast.Constant) and isinstance(b.value, str)):
            return None
        if not (isinstance(a, ast.Call) and isinstance(a.func, ast.Attribute) and a.func.attr == 'get' and not a.keywords
                and len(a.args) in (1, 2)):
            return None
        tc = a.func.value
        if not (isinstance(tc, ast.Attribute) and tc.attr == 'trace_codes' and is_name(tc.value, self.parser)):
            return None
        k = a.args[0]
        if not (isinstance(k, ast.Attribute) and k.attr == 'eventid' and is_name(k.value, x)):
            return None
        if len(a.args) == 2:
            d = a.args[1]
            if not (isinstance(d, ast.Constant) and d.value == ''):
                return None
            return True, b.value
        return False, b.value

    def range_test(self, t, x):
        """`lo <= x.eventid <= hi` -> (lo, hi)"""
        if isinstance(t, ast.Compare) and len(t.ops) == 2 and all(isinstance(o, ast.LtE) for o in t.ops) \
                and is_nat(t.left) and is_nat(t.comparators[1]):
            m = t.comparators[0]
            if isinstance(m, ast.Attribute) and m.attr == 'eventid' and is_name(m.value, x):
                return t.left.value, t.comparators[1].value
        return None

    def comp_source(self, g):
        """the generator `for x in L [if TEST(x)]` of a comprehension -> (x, ir of the selected records, total) | None"""
        if g.is_async or not isinstance(g.target, ast.Name) or len(g.ifs) > 1:
            return None
        x = g.target.id
        if x in (self.parser, self.events):
            return None
        l, kind, total = self.ex(g.iter)
        if kind != 'records':
            return None
        if not g.ifs:
            return x, l, total
        nt = self.code_name_test(g.ifs[0], x)
        if nt is not None:
            return x, ('filterNamedD' if nt[0] else 'filterNamed', l, nt[1]), total
        rt = self.range_test(g.ifs[0], x)
        if rt is not None:
            return x, ('filterRange', l, rt[0], rt[1]), total
        return None

    def handler_call(self, e, arg_pred=None):
        """`f(parser, ARG)` with `f` a module-level handler -> (f, ARG node) | None"""
        if isinstance(e, ast.Call) and isinstance(e.func, ast.Name) and not e.keywords and len(e.args) == 2 \
                and e.func.id in self.mod.funs and self.mod.once(e.func.id) and not self.shadowed(e.func.id) \
                and is_name(e.args[0], self.parser) and not any(isinstance(a, ast.Starred) for a in e.args):
            f = self.mod.funs[e.func.id]
            a = f.args
            if len(a.args) == 2 and not (a.vararg or a.kwarg or a.kwonlyargs or a.posonlyargs or a.defaults
                                         or f.decorator_list):
                return e.func.id, e.args[1]
        return None

    def map_call(self, e):
        """`[f(parser, [x])(.attr) for x in L (if TEST)]` -> (f, src ir, attr | None) | None"""
        if not (isinstance(e, ast.ListComp) and len(e.generators) == 1):
            return None
        cs = self.comp_source(e.generators[0])
        if cs is None:
            return None
        x, l, _ = cs
        elt, field = e.elt, None
        if isinstance(elt, ast.Attribute):
            elt, field = elt.value, elt.attr
        hc = self.handler_call(elt)
        if hc is None:
            return None
        f, arg = hc
        if not (isinstance(arg, ast.List) and len(arg.elts) == 1 and is_name(arg.elts[0], x)):
            return None
        return f, l, field

    def ex(self, e):
        """-> (ir, kind, total)"""
        M = self.mod
        if isinstance(e, ast.Constant):
            if e.value is None:
                return ('none',), 'none', True
            if is_nat(e):
                return ('int', e.value), 'int', True
            if isinstance(e.value, str):
                return ('str', e.value), 'str', True
            return self.uns(e)
        if isinstance(e, ast.Name):
            if e.id in self.mutable:
                if e.id in self.index:
                    return ('var', self.index[e.id]), 'any', False      # the value it has NOW: not a stable name
                return self.uns(e)
            if e.id in self.env:
                b = self.env[e.id]
                if b[0] == 'conflict':
                    raise NeedMutable(e.id)
                return b[1], b[2], True
            if e.id == self.events:
                return ('events',), 'records', True
            return self.uns(e)
        if isinstance(e, ast.Subscript):
            v, kind, total = self.ex(e.value)
            s = e.slice
            if is_nat(s):
                if kind == 'records':
                    return ('index', v, s.value), 'record', total and v == ('events',) and s.value == 0
                if kind == 'words':
                    return ('index', v, s.value), 'int', total and s.value <= 3
                return ('index', v, s.value), 'any', False
            if isinstance(s, ast.UnaryOp) and isinstance(s.op, ast.USub) and is_nat(s.operand) and s.operand.value == 1:
                if kind == 'records':
                    return ('last', v), 'record', total and v == ('events',)
                return ('last', v), ('int' if kind == 'words' else 'any'), False
            if isinstance(s, ast.Slice) and s.step is None:
                lo, hi = s.lower, s.upper
                if lo is not None and is_nat(lo) and lo.value == 1 and isinstance(hi, ast.UnaryOp) \
                        and isinstance(hi.op, ast.USub) and is_nat(hi.operand) and hi.operand.value == 1 \
                        and kind == 'records':
                    return ('inner', v), 'records', total
                if lo is None and hi is not None:
                    n, nk, nt = self.ex(hi)
                    if nk in ('int', 'any') and kind in ('words', 'bytes', 'records', 'list', 'any'):
                        return ('takeTo', v, n), kind, total and nt and nk == 'int' and kind != 'any'
            return self.uns(e)
        if isinstance(e, ast.Attribute):
            v = e.value
            if isinstance(v, ast.Name) and v.id in M.enums and not self.shadowed(v.id):
                if M.enum_ok(v.id) and e.attr in M.enums[v.id]:
                    return ('member', v.id, e.attr), 'member', True
                return self.uns(e)
            if is_name(v, self.parser):
                return self.uns(e)
            b, kind, total = self.ex(v)
            if kind == 'record':
                if e.attr in KEVENT_FIELDS:
                    return ('attr', b, e.attr), KEVENT_FIELDS[e.attr], total
                return ('attr', b, e.attr), 'any', False
            return ('attr', b, e.attr), 'any', False
        if isinstance(e, ast.BinOp) and isinstance(e.op, ast.BitAnd):
            a, ka, ta = self.ex(e.left)
            b, kb, tb = self.ex(e.right)
            return ('band', a, b), 'int', ta and tb and ka == kb == 'int'
        if isinstance(e, ast.BinOp) and isinstance(e.op, ast.Add):
            a, ka, ta = self.ex(e.left)
            b, kb, tb = self.ex(e.right)
            if ka == kb and ka in ('list', 'records', 'words'):
                return ('concat', a, b), ka, ta and tb
            return ('concat', a, b), 'any', False
        if isinstance(e, ast.Compare) and len(e.ops) == 1:
            op, a, b = e.ops[0], e.left, e.comparators[0]
            if isinstance(op, ast.IsNot) and isinstance(b, ast.Constant) and b.value is None:
                x, _, t = self.ex(a)
                return ('isNotNone', x), 'bool', t
            if isinstance(op, ast.NotEq):
                x, kx, tx = self.ex(a)
                y, ky, ty = self.ex(b)
                return ('ne', x, y), 'bool', tx and ty and kx == ky == 'int'
            if isinstance(op, ast.In):
                x, _, _ = self.ex(a)
                y, _, _ = self.ex(b)
                return ('isIn', x, y), 'bool', False
            return self.uns(e)
        if isinstance(e, ast.ListComp):
            fc = M.flags_comp(e)
            if fc is not None and not self.shadowed(fc[0]):
                x, kx, tx = self.ex(fc[1])
                return ('flagsOf', fc[0], x), 'members', tx and kx == 'int'
            if len(e.generators) == 1:
                cs = self.comp_source(e.generators[0])
                if cs is not None and is_name(e.elt, cs[0]) and e.generators[0].ifs:
                    return cs[1], 'records', cs[2]
            return self.uns(e)
        if isinstance(e, ast.Call):
            f = e.func
            if isinstance(f, ast.Name) and not self.shadowed(f.id) and not e.keywords \
                    and not any(isinstance(a, ast.Starred) for a in e.args):
                if M.flag_helper(f.id) is not None and len(e.args) == 1:
                    x, kx, tx = self.ex(e.args[0])
                    return ('flagsOf', M.flag_helper(f.id), x), 'members', tx and kx == 'int'
                if f.id in M.enums and M.enum_ok(f.id) and len(e.args) == 1:
                    x, _, _ = self.ex(e.args[0])
                    return ('enumOf', f.id, x), 'member', False
                if f.id == 'bool' and 'bool' not in M.counts and len(e.args) == 1:
                    x, kx, tx = self.ex(e.args[0])
                    return ('toBool', x), 'bool', tx and kx == 'int'
                if f.id == 'list' and 'list' not in M.counts and len(e.args) == 1:
                    a = e.args[0]
                    if isinstance(a, ast.Call) and isinstance(a.func, ast.Attribute) and a.func.attr == 'from_iterable' \
                            and is_name(a.func.value, 'chain') and M.imported('chain', 'itertools', 'chain') \
                            and not self.shadowed('chain') and len(a.args) == 1 and not a.keywords:
                        x, _, _ = self.ex(a.args[0])
                        return ('chain', x), 'words', False
                    x, kx, tx = self.ex(a)
                    if kx in ('words', 'records', 'list'):
                        return ('listOf', x), kx, tx
                    return ('listOf', x), 'any', False
            if isinstance(f, ast.Name) and f.id == 'sorted' and 'sorted' not in M.counts and not self.shadowed('sorted') \
                    and len(e.args) == 1 and len(e.keywords) == 1 and e.keywords[0].arg == 'key':
                k = e.keywords[0].value
                if isinstance(k, ast.Lambda) and len(k.args.args) == 1 and not (k.args.vararg or k.args.kwarg
                                                                               or k.args.kwonlyargs or k.args.defaults
                                                                               or k.args.posonlyargs) \
                        and isinstance(k.body, ast.Attribute) and is_name(k.body.value, k.args.args[0].arg):
                    x, _, _ = self.ex(e.args[0])
                    return ('sortedBy', x, k.body.attr), 'list', False
            if isinstance(f, ast.Name) and f.id == 'UUID' and M.imported('UUID', 'uuid', 'UUID') and not self.shadowed('UUID') \
                    and not e.args and len(e.keywords) == 1 and e.keywords[0].arg == 'bytes':
                x, _, _ = self.ex(e.keywords[0].value)
                return ('uuidOf', x), 'any', False
            return self.uns(e)
        return self.uns(e)

    def cond(self, e):
        """(condition ir, swapped)"""
        if isinstance(e, ast.UnaryOp) and isinstance(e.op, ast.Not):
            c, sw = self.cond(e.operand)
            return c, not sw
        if isinstance(e, ast.Compare) and len(e.ops) == 1:
            op, a, b = e.ops[0], e.left, e.comparators[0]
            if isinstance(op, ast.Eq):
                return ('ne', self.ex(a)[0], self.ex(b)[0]), True
            if isinstance(op, ast.Is) and isinstance(b, ast.Constant) and b.value is None:
                return ('isNotNone', self.ex(a)[0]), True
        return self.ex(e)[0], False

    # ---- statements ----------------------------------------------------------------------------------------
    def class_call(self, v):
        return isinstance(v, ast.Call) and isinstance(v.func, ast.Name) and v.func.id in self.mod.dataclasses \
            and self.mod.once(v.func.id) and not self.shadowed(v.func.id)

    def construct(self, idx, v):
        if v.keywords or not v.args or any(isinstance(a, ast.Starred) for a in v.args):
            return ('unsupported', src(v))
        self.classes_used.append(v.func.id)
        return ('construct', idx, v.func.id, self.ex(v.args[0])[0], [self.ex(a)[0] for a in v.args[1:]])

    def effect(self, v):
        """a right-hand side with an effect -> (statements storing it into temporary k, k, kind) | None"""
        if self.class_call(v):
            c = self.construct(self.nvars, v)
            if c[0] == 'unsupported':
                return [c], None, None
            k = self.fresh('obj')
            return [c], k, 'obj'
        hc = self.handler_call(v)
        if hc is not None:
            arg = self.ex(hc[1])[0]
            k = self.fresh('any')
            self.called.append(hc[0])
            return [('call', k, hc[0], arg)], k, 'any'
        mc = self.map_call(v)
        if mc is not None:
            k = self.fresh('list')
            self.called.append(mc[0])
            return [('mapCall', k, mc[0], mc[1], mc[2])], k, 'list'
        if isinstance(v, ast.Call) and isinstance(v.func, ast.Attribute) and v.func.attr == 'parse_event_list' \
                and is_name(v.func.value, self.parser) and len(v.args) == 1 and not v.keywords \
                and not isinstance(v.args[0], ast.Starred):
            arg = self.ex(v.args[0])[0]
            k = self.fresh('any')
            return [('nested', k, arg)], k, 'any'
        return None

    def value(self, v):
        """a right-hand side -> (statements to emit first, ir of the value, kind, total)"""
        ef = self.effect(v)
        if ef is not None:
            st, k, kind = ef
            if k is None:
                return st, None, None, False
            return st, ('var', k), kind, True
        ir, kind, total = self.ex(v)
        return [], ir, kind, total

    def bind(self, name, v):
        """`name = v`"""
        if name in (self.parser, self.events):
            return [('unsupported', 'parameter %s rebound' % name)]
        st, ir, kind, total = self.value(v)
        if ir is None:
            return st
        if name in self.mutable:
            if name not in self.index:
                self.index[name] = self.fresh(kind)
            # an effect result went to its own temporary first only if the mutable local is not that temporary
            return st + [('assign', self.index[name], ir)]
        if total:
            self.env[name] = ('sym', ir, kind)
            return st
        k = self.fresh(kind)
        self.env[name] = ('sym', ('var', k), kind)
        return st + [('assign', k, ir)]

    def block(self, stmts):
        out = []
        for s in stmts:
            out += self.stmt(s)
        return out

    def stmt(self, s):
        if isinstance(s, ast.Pass):
            return []
        if isinstance(s, ast.Expr) and isinstance(s.value, ast.Constant) and isinstance(s.value.value, str):
            return []                                              # docstring
        if isinstance(s, ast.Return):
            if s.value is None:
                return [('ret', ('none',))]
            st, ir, _, _ = self.value(s.value)
            if ir is None:
                return st
            return st + [('ret', ir)]
        if isinstance(s, ast.Assign) and len(s.targets) == 1:
            t, v = s.targets[0], s.value
            if isinstance(t, ast.Name):
                return self.bind(t.id, v)
            if isinstance(t, ast.Attribute) and isinstance(t.value, ast.Name):
                o, kind, _ = self.ex(t.value)
                if o[0] == 'var':
                    st, ir, _, _ = self.value(v)
                    if ir is None:
                        return st
                    return st + [('setField', o[1], t.attr, ir)]
                return [('unsupported', src(s))]
            if isinstance(t, ast.Subscript) and isinstance(t.value, ast.Attribute) and is_name(t.value.value, self.parser) \
                    and t.value.attr in TABLES and not isinstance(t.slice, ast.Slice):
                return [('store', TABLES[t.value.attr], self.ex(t.slice)[0], self.ex(v)[0])]
            return [('unsupported', src(s))]
        if isinstance(s, ast.AugAssign) and isinstance(s.target, ast.Name) and isinstance(s.op, ast.Add):
            # `v += e` is `v = v + e` (lists)
            name = s.target.id
            st, ir, kind, total = self.value(s.value)
            if ir is None:
                return st
            old, ko, to = self.ex(ast.Name(id=name, ctx=ast.Load()))
            new = ('concat', old, ir)
            lists = ko == kind and ko in ('list', 'records', 'words')
            if name in self.mutable:
                if name not in self.index:
                    return [('unsupported', src(s))]
                return st + [('assign', self.index[name], new)]
            if old[0] == 'unsupported':
                return [('unsupported', src(s))]
            if lists and to and total:
                self.env[name] = ('sym', new, ko)
                return st
            k = self.fresh(ko if lists else 'any')
            self.env[name] = ('sym', ('var', k), ko if lists else 'any')
            return st + [('assign', k, new)]
        if isinstance(s, ast.If):
            c, sw = self.cond(s.test)
            before = dict(self.env)
            a = self.seq(self.block(s.body))
            env_a = self.env
            self.env = dict(before)
            b = self.seq(self.block(s.orelse))
            env_b = self.env
            merged = {}
            for name in set(env_a) | set(env_b):
                if name in env_a and name in env_b and env_a[name] == env_b[name]:
                    merged[name] = env_a[name]
                else:
                    merged[name] = ('conflict',)
            self.env = merged
            return [('ite', c, b, a) if sw else ('ite', c, a, b)]
        return [('unsupported', src(s))]

    @staticmethod
    def seq(stmts):
        if not stmts:
            return ('skip',)
        if len(stmts) == 1:
            return stmts[0]
        return ('seq', stmts[0], Fn.seq(stmts[1:]))

    def function(self):
        for n in ast.walk(self.fn):
            if n is not self.fn and isinstance(n, (ast.FunctionDef, ast.AsyncFunctionDef, ast.ClassDef, ast.Global,
                                                   ast.Nonlocal, ast.Yield, ast.YieldFrom, ast.Await, ast.NamedExpr, ast.Try,
                                                   ast.With, ast.Delete, ast.For, ast.While, ast.Import, ast.ImportFrom)):
                return ('unsupported', '%s uses %s' % (self.fn.name, type(n).__name__))
        # names bound anywhere in the function outside comprehensions / lambdas (they shadow module-level names)
        self.local_names = set()

        def walk(n, scoped):
            if isinstance(n, (ast.ListComp, ast.GeneratorExp, ast.SetComp, ast.DictComp, ast.Lambda)):
                scoped = True
            if isinstance(n, ast.Name) and isinstance(n.ctx, (ast.Store, ast.Del)) and not scoped:
                self.local_names.add(n.id)
            for c in ast.iter_child_nodes(n):
                walk(c, scoped)
        for s in self.fn.body:
            walk(s, False)
        if self.parser in self.local_names or self.events in self.local_names:
            return ('unsupported', '%s rebinds a parameter' % self.fn.name)
        local_names = self.local_names
        for _ in range(len(local_names) + 2):
            self.called, self.classes_used = [], []
            # while the walk runs, a local shadows a module-level name only through `shadowed`
            try:
                return self.attempt()
            except NeedMutable as m:
                self.mutable.add(m.name)
        return ('unsupported', '%s: locals not understood' % self.fn.name)


# ----------------------------------------------------------------------------------------------------------------
# dataclasses and their __str__
# ----------------------------------------------------------------------------------------------------------------

def self_field(n, me):
    return n.attr if isinstance(n, ast.Attribute) and is_name(n.value, me) else None


def join_piece(e, me):
    """`'sep'.join(map(lambda x: x.name, self.f))` / `'sep'.join(map(hex, self.f))` -> piece | None"""
    if not (isinstance(e, ast.Call) and isinstance(e.func, ast.Attribute) and e.func.attr == 'join'
            and isinstance(e.func.value, ast.Constant) and isinstance(e.func.value.value, str) and len(e.args) == 1
            and not e.keywords):
        return None
    m = e.args[0]
    if not (isinstance(m, ast.Call) and is_name(m.func, 'map') and len(m.args) == 2 and not m.keywords):
        return None
    f, arg = m.args
    fld = self_field(arg, me)
    if fld is None:
        return None
    if is_name(f, 'hex'):
        return ('joinHex', e.func.value.value, fld)
    if isinstance(f, ast.Lambda) and len(f.args.args) == 1 and not (f.args.vararg or f.args.kwarg or f.args.kwonlyargs
                                                                     or f.args.defaults or f.args.posonlyargs) \
            and isinstance(f.body, ast.Attribute) and f.body.attr == 'name' and is_name(f.body.value, f.args.args[0].arg):
        return ('joinNames', e.func.value.value, fld)
    return None


def value_piece(v, me, locs):
    """the expression inside `{…}` -> [piece]"""
    if isinstance(v, ast.Name) and v.id in locs:
        return locs[v.id]
    f = self_field(v, me)
    if f is not None:
        return [('fld', f)]
    if isinstance(v, ast.Call) and isinstance(v.func, ast.Name) and len(v.args) == 1 and not v.keywords:
        f = self_field(v.args[0], me)
        if f is not None and v.func.id == 'hex':
            return [('hexFld', f)]
        if f is not None and v.func.id == 'len':
            return [('lenFld', f)]
    if isinstance(v, ast.Attribute) and v.attr == 'name' and self_field(v.value, me) is not None:
        return [('nameFld', self_field(v.value, me))]
    j = join_piece(v, me)
    if j is not None:
        return [j]
    return [('punsupported', src(v))]


def merge_lits(ps):
    out = []
    for p in ps:
        if p[0] == 'lit':
            if not p[1]:
                continue
            if out and out[-1][0] == 'lit':
                out[-1] = ('lit', out[-1][1] + p[1])
                continue
        out.append(p)
    return out


def pieces(e, me, locs):
    """an f-string, a plain str constant or a local string -> [piece]"""
    if isinstance(e, ast.Constant) and isinstance(e.value, str):
        return merge_lits([('lit', e.value)])
    if isinstance(e, ast.JoinedStr):
        out = []
        for v in e.values:
            if isinstance(v, ast.Constant) and isinstance(v.value, str):
                out.append(('lit', v.value))
            elif isinstance(v, ast.FormattedValue) and v.conversion == -1 and v.format_spec is None:
                out += value_piece(v.value, me, locs)
            else:
                out.append(('punsupported', src(v)))
        return merge_lits(out)
    if isinstance(e, ast.Name) and e.id in locs:
        return locs[e.id]
    j = join_piece(e, me)
    if j is not None:
        return [j]
    return [('punsupported', src(e))]


def scond(e, me):
    if isinstance(e, ast.BoolOp) and isinstance(e.op, ast.And) and len(e.values) >= 2:
        cs = [scond(v, me) for v in e.values]
        out = cs[-1]
        for c in reversed(cs[:-1]):
            out = ('and', c, out)
        return out
    if isinstance(e, ast.Compare) and len(e.ops) == 1:
        f = self_field(e.left, me)
        b = e.comparators[0]
        if f and isinstance(e.ops[0], ast.IsNot) and isinstance(b, ast.Constant) and b.value is None:
            return ('isNotNone', f)
        if f and isinstance(e.ops[0], ast.Eq) and is_nat(b):
            return ('eqInt', f, b.value)
    if self_field(e, me):
        return ('truthy', self_field(e, me))
    return ('cunsupported', src(e))


def sseq(stmts):
    if not stmts:
        return ('sskip',)
    if len(stmts) == 1:
        return stmts[0]
    return ('sseq', stmts[0], sseq(stmts[1:]))


def str_def(fn):
    """`__str__` -> (base pieces, SStmt)"""
    bad = ([('punsupported', 'def __str__: ' + '; '.join(src(s) for s in fn.body)[:300])], ('sskip',))
    a = fn.args
    if len(a.args) != 1 or a.vararg or a.kwarg or a.kwonlyargs or a.posonlyargs or a.defaults or fn.decorator_list:
        return bad
    me = a.args[0].arg
    body = [s for s in fn.body if not (isinstance(s, ast.Expr) and isinstance(s.value, ast.Constant))
            and not isinstance(s, ast.Pass)]
    if not body or not isinstance(body[-1], ast.Return) or body[-1].value is None:
        return bad
    stores = [n.id for s in fn.body for n in ast.walk(s) if isinstance(n, ast.Name) and isinstance(n.ctx, ast.Store)]
    if me in stores:
        return bad
    acc = body[-1].value.id if isinstance(body[-1].value, ast.Name) else None
    locs = {}

    class Bad(Exception):
        pass

    def local_assign(s):
        """`name = <string expression>` (a name for that text, bound once)"""
        if isinstance(s, ast.Assign) and len(s.targets) == 1 and isinstance(s.targets[0], ast.Name) \
                and s.targets[0].id != acc and stores.count(s.targets[0].id) == 1:
            locs[s.targets[0].id] = pieces(s.value, me, locs)
            return True
        return False

    def stmts(block):
        out = []
        for s in block:
            if local_assign(s):
                continue
            if isinstance(s, ast.AugAssign) and isinstance(s.op, ast.Add) and is_name(s.target, acc):
                out.append(('sappend', pieces(s.value, me, locs)))
            elif isinstance(s, ast.If) and not s.orelse:
                out.append(('site', scond(s.test, me), sseq(stmts(s.body))))
            else:
                raise Bad()
        return out
    try:
        if acc is None:
            rest = body[:-1]
            for s in rest:
                if not local_assign(s):
                    raise Bad()
            return pieces(body[-1].value, me, locs), ('sskip',)
        i = 0
        while i < len(body) - 1 and local_assign(body[i]):
            i += 1
        first = body[i]
        if not (isinstance(first, ast.Assign) and len(first.targets) == 1 and is_name(first.targets[0], acc)) \
                or i >= len(body) - 1:
            raise Bad()
        if sum(1 for s in fn.body for n in ast.walk(s)
               if isinstance(n, ast.Assign) and any(is_name(t, acc) for t in n.targets)) != 1:
            raise Bad()
        base = pieces(first.value, me, locs)
        return base, sseq(stmts(body[i + 1:-1]))
    except Bad:
        return bad


def fdefault(e):
    if isinstance(e, ast.Constant):
        if e.value is None:
            return ('fnone',)
        if is_nat(e):
            return ('fint', e.value)
        if isinstance(e.value, str):
            return ('fstr', e.value)
    return None


def class_def(c, notes, dataclass_ok, label):
    """-> (name, [(field, default | None)], strdef)"""
    decos = [src(d) for d in c.decorator_list]
    if decos != ['dataclass'] or not dataclass_ok:
        notes.append('%s: class %s: decorators %s (expected exactly @dataclass from dataclasses)' % (label, c.name, decos))
    if c.bases or c.keywords:
        notes.append('%s: class %s has bases' % (label, c.name))
    fields = []
    sd = None
    for s in c.body:
        if isinstance(s, ast.Expr) and isinstance(s.value, ast.Constant) or isinstance(s, ast.Pass):
            continue
        if isinstance(s, ast.AnnAssign) and isinstance(s.target, ast.Name) and s.simple:
            d = None
            if s.value is not None:
                d = fdefault(s.value)
                if d is None:
                    notes.append('%s: class %s: default of %s not understood: %s' % (label, c.name, s.target.id, src(s.value)))
            fields.append((s.target.id, d))
        elif isinstance(s, ast.FunctionDef) and s.name == '__str__' and sd is None:
            sd = str_def(s)
        else:
            notes.append('%s: class %s: member not understood: %s' % (label, c.name, src(s)[:120]))
    if not fields or fields[0] != ('ktraces', None):
        notes.append('%s: class %s: the first field is not `ktraces` without default' % (label, c.name))
    else:
        fields = fields[1:]
    if len({f for f, _ in fields}) != len(fields) or any(f == 'ktraces' for f, _ in fields):
        notes.append('%s: class %s: a field is declared twice' % (label, c.name))
    if sd is None:
        sd = ([('punsupported', 'class %s has no __str__' % c.name)], ('sskip',))
    return (c.name, fields, sd)


# ----------------------------------------------------------------------------------------------------------------
# the modules
# ----------------------------------------------------------------------------------------------------------------

def translate_module(repo, label, fname, keys, notes):
    """-> (classes, funs, handlers)"""
    with open(os.path.join(repo, 'pykdebugparser', 'trace_handlers', fname)) as fd:
        tree = ast.parse(fd.read())
    M = Module(tree, notes, label)
    dataclass_ok = M.imported('dataclass', 'dataclasses', 'dataclass')
    handlers = []
    if not isinstance(M.table, ast.Dict) or not M.once('handlers'):
        notes.append('%s: `handlers` is not a module-level dict display bound once' % label)
    else:
        d = {}
        for k, v in zip(M.table.keys, M.table.values):
            if k is None:
                notes.append('%s: handlers has a ** entry' % label)
            elif isinstance(k, ast.Constant) and isinstance(k.value, str):
                if k.value in keys:
                    if isinstance(v, ast.Name) and v.id in M.funs and M.once(v.id):
                        d[k.value] = v.id          # a repeated key: the last value wins, the first position stays
                    else:
                        d[k.value] = None
                        notes.append('%s: handlers entry not understood: %s: %s' % (label, src(k), src(v)))
            else:
                notes.append('%s: handlers key not understood: %s' % (label, src(k)))
        for k in keys:
            if k not in d:
                notes.append('%s: handlers has no entry %s' % (label, k))
        handlers = [(k, v) for k, v in d.items() if v is not None]
    # the functions: the roots and, transitively, the handlers they call
    todo = [f for _, f in handlers]
    bodies, used_classes = {}, []
    while todo:
        f = todo.pop(0)
        if f in bodies:
            continue
        node = M.funs[f]
        a = node.args
        if len(a.args) != 2 or a.vararg or a.kwarg or a.kwonlyargs or a.posonlyargs or a.defaults or node.decorator_list \
                or a.args[0].arg == a.args[1].arg:
            bodies[f] = ('unsupported', 'def %s(%s): not (parser, events)' % (f, src(a)))
            continue
        fn = Fn(node, M)
        bodies[f] = fn.function()
        todo += [g for g in getattr(fn, 'called', []) if g not in bodies]
        used_classes += getattr(fn, 'classes_used', [])
    funs = [(n, bodies[n]) for n in M.order if n in bodies]
    classes = [class_def(M.dataclasses[n], notes, dataclass_ok, label) for n in M.order
               if n in M.dataclasses and n in used_classes]
    for n in sorted(set(bodies) | set(used_classes)):
        if not M.once(n):
            notes.append('%s: module-level name bound twice: %s' % (label, n))
    return classes, funs, handlers


def translate(repo):
    """-> ({label: (classes, funs, handlers)}, notes)"""
    notes = []
    out = {}
    for label, fname, keys in MODULES:
        out[label] = translate_module(repo, label, fname, keys, notes)
    return out, notes


# ----------------------------------------------------------------------------------------------------------------
# Lean rendering
# ----------------------------------------------------------------------------------------------------------------

def lean(t, S):
    k = t[0]
    L = lambda x: lean(x, S)  # noqa: E731
    if k in ('none', 'events', 'skip'):
        return '.' + k
    if k == 'int':
        return '(.int %d)' % t[1]
    if k == 'str':
        return '(.str %s)' % S(t[1])
    if k == 'var':
        return '(.var %d)' % t[1]
    if k == 'index':
        return '(.index %s %d)' % (L(t[1]), t[2])
    if k in ('attr', 'filterNamed', 'filterNamedD', 'sortedBy'):
        return '(.%s %s %s)' % (k, L(t[1]), S(t[2]))
    if k in ('band', 'ne', 'isIn', 'takeTo', 'concat', 'seq'):
        return '(.%s %s %s)' % (k, L(t[1]), L(t[2]))
    if k in ('last', 'toBool', 'isNotNone', 'inner', 'listOf', 'chain', 'uuidOf', 'ret'):
        return '(.%s %s)' % (k, L(t[1]))
    if k in ('flagsOf', 'enumOf'):
        return '(.%s %s %s)' % (k, S(t[1]), L(t[2]))
    if k == 'member':
        return '(.member %s %s)' % (S(t[1]), S(t[2]))
    if k == 'filterRange':
        return '(.filterRange %s %d %d)' % (L(t[1]), t[2], t[3])
    if k == 'unsupported':
        return '(.unsupported %s)' % S(t[1])
    if k == 'assign':
        return '(.assign %d %s)' % (t[1], L(t[2]))
    if k == 'construct':
        return '(.construct %d %s %s [%s])' % (t[1], S(t[2]), L(t[3]), ', '.join(L(a) for a in t[4]))
    if k == 'setField':
        return '(.setField %d %s %s)' % (t[1], S(t[2]), L(t[3]))
    if k == 'store':
        return '(.store %s %s %s)' % (t[1], L(t[2]), L(t[3]))
    if k == 'ite':
        return '(.ite %s %s %s)' % (L(t[1]), L(t[2]), L(t[3]))
    if k == 'call':
        return '(.call %d %s %s)' % (t[1], S(t[2]), L(t[3]))
    if k == 'mapCall':
        return '(.mapCall %d %s %s %s)' % (t[1], S(t[2]), L(t[3]), 'none' if t[4] is None else '(some %s)' % S(t[4]))
    if k == 'nested':
        return '(.nested %d %s)' % (t[1], L(t[2]))
    raise ValueError(k)


def lean_piece(p, S):
    if p[0] in ('joinNames', 'joinHex'):
        return '.%s %s %s' % (p[0], S(p[1]), S(p[2]))
    return {'lit': '.lit %s', 'fld': '.fld %s', 'hexFld': '.hexFld %s', 'lenFld': '.lenFld %s', 'nameFld': '.nameFld %s',
            'punsupported': '.unsupported %s'}[p[0]] % S(p[1])


def lean_pieces(l, S):
    return '[' + ', '.join(lean_piece(p, S) for p in l) + ']'


def lean_scond(c, S):
    if c[0] == 'and':
        return '(.and %s %s)' % (lean_scond(c[1], S), lean_scond(c[2], S))
    if c[0] == 'eqInt':
        return '(.eqInt %s %d)' % (S(c[1]), c[2])
    return '(%s)' % ({'isNotNone': '.isNotNone %s', 'truthy': '.truthy %s', 'cunsupported': '.unsupported %s'}[c[0]] % S(c[1]))


def lean_sstmt(s, S):
    if s[0] == 'sskip':
        return '.skip'
    if s[0] == 'sseq':
        return '(.seq %s %s)' % (lean_sstmt(s[1], S), lean_sstmt(s[2], S))
    if s[0] == 'sappend':
        return '(.append %s)' % lean_pieces(s[1], S)
    if s[0] == 'site':
        return '(.ite %s %s)' % (lean_scond(s[1], S), lean_sstmt(s[2], S))
    raise ValueError(s[0])


def lean_fdefault(d, S):
    if d is None:
        return 'none'
    return {'fnone': 'some .none', 'fint': 'some (.int %s)', 'fstr': 'some (.str %s)'}[d[0]] % \
        (() if d[0] == 'fnone' else (d[1] if d[0] == 'fint' else S(d[1])))


def lean_class(c, S):
    name, fields, (base, rest) = c
    fs = ', '.join('(%s, %s)' % (S(f), lean_fdefault(d, S)) for f, d in fields)
    return '{ name := %s, fields := [%s],\n    str := { base := %s, rest := %s } }' % (
        S(name), fs, lean_pieces(base, S), lean_sstmt(rest, S))


def generate(repo, write_if_changed, lean_str):
    mods, notes = translate(repo)
    S = lean_str
    L = ['import KdVerif.Model.PyIRCo', 'namespace KdVerif.Gen.PyIRCo', 'open KdVerif.PyIRCo', '',
         '/-! The composite handlers of property C20 — perf.py (`handle_event`, `handle_thd_data`, …), mach.py',
         '    (`handle_mach_vmfault`), dyld.py (`handle_timing_launch_executable` and the two image handlers it calls) —, the',
         '    dataclasses they construct with their `__str__`, and their `handlers` entries, translated from the source text',
         '    into the IR of `Model/PyIRCo` (tools/gen_pyir_co.py). -/', '']
    for label, _, _ in MODULES:
        classes, funs, handlers = mods[label]
        L.append('def %sClasses : List ClassDef := [\n  ' % label + ',\n  '.join(lean_class(c, S) for c in classes) + ']\n')
        L.append('def %sFuns : List FunDef := [\n  ' % label +
                 ',\n  '.join('{ name := %s, body :=\n    %s }' % (S(n), lean(b, S)) for n, b in funs) + ']\n')
        L.append('def %sHandlers : List (String × String) := [\n  ' % label +
                 ',\n  '.join('(%s, %s)' % (S(k), S(v)) for k, v in handlers) + ']\n')
        L.append('def %s : Program := { classes := %sClasses, funs := %sFuns, handlers := %sHandlers }\n'
                 % (label, label, label, label))
    L.append('def progs : Programs := { perf := perf, mach := mach, dyld := dyld }\n')
    L.append('/-- What the translator could not express outside the bodies (must be empty). -/')
    L.append('def notes : List String := [' + ', '.join(S(n) for n in notes) + ']\n')
    L += ['end KdVerif.Gen.PyIRCo', '']
    return write_if_changed('PyIRCo.lean', '\n'.join(L))
