import KdVerif.Props.C02
import KdVerif.Proofs.ContainerV3
import KdVerif.Proofs.Blocks
import KdVerif.Proofs.EndToEnd
import KdVerif.Proofs.PyIRRdKd
/-
  C03 — a version-3 dump yields all chunked events, then logs, plus metadata sections.

  Subject: `parse plist fromKdBuf prior (encodeV3 f)` (Model/ContainerV3), the model of
  `KdBufParser(tp, pn).parse(reader)` exhausted, for EVERY well-formed `V3File` (Spec/ContainerV3): any
  header fields, any cpu_info payload that loads, any stackshot filler and gaps satisfying the scanner
  side-conditions (the first occurrence of each tag is where the grammar puts it — `NoEarlier`), any thread
  map (+ < 32 trailing bytes), ANY chunking `first :: more` of the record list, any blocks (all but the
  last aligned).  `plist` (plistlib.loads, as far as the parser looks at the result) is an opaque parameter.

  WHAT IS PROVED (everything below is for all inputs, no `sorry`):
  * `seekUntil_first_occurrence` — the scanner;
  * `v3_round_trip` — the whole reader: header, 8-byte realignment, `read(4)`, both scans, thread-map chunk,
    every chunk with `size // 64`, MORE continuation, `seek(-8, 1)`, the additional-data range with the
    `Select(Aligned…, plain)` alternative: the parse equals the block loop + log loop applied to exactly the
    file's blocks, with exactly the decoded records as events;
  * `v3_events`, `v3_events_chunking`, `v3_events_before_logs`, `v3_threadmap`, `v3_header`;
  * `v3_blocks` — metadata = payloads (last wins for processes/images, concatenation in file order for
    kexts/dyld/trace codes), logs of all log blocks in order, numbered, resolved through the LAST string
    block, tables extended by the logs that name a process and a thread.
  * end to end (`Model/EndToEnd.lean`): `e2e_dump_of_encoded_v3`, `e2e_threadmap_of_encoded_v3`,
    `e2e_lines_of_encoded_v3` (+ `_ok`), `e2e_lines_chunking_v3` — what `PyKdebugParser.traces` /
    `formatted_traces` work on for an encoded v3 file, and the lines.
  ASSUMPTIONS of the specification (not findings): "the dump's string index" = the last string block;
  plist payloads are opaque (`BlockOk` says what must load); OsLogEvent is reduced to cm/tid/p/pid.
-/
namespace KdVerif.C03
open KdVerif Spec Reader Gen.Consts

/-- **seek_until stops exactly behind the FIRST occurrence of the tag**: if the unread bytes are
    `pre ++ tag ++ post` and `tag` does not occur earlier (`NoEarlier`: no window of `pre ++ tag` starting
    inside `pre` equals `tag`), the scan succeeds and leaves exactly `post` unread — whatever `pre` contains
    (near-miss prefixes of the tag, other tags, …). -/
theorem seekUntil_first_occurrence {r : Reader} {tag pre post : Bytes} (hL : tag ≠ [])
    (h : r.rest = pre ++ (tag ++ post)) (hno : NoEarlier tag pre) :
    ∃ r', seekUntil tag r = (.ok (), r') ∧ r'.rest = post ∧ r'.data = r.data :=
  seekUntil_cont hL h hno

/-- … and at end of file it raises instead of spinning. -/
theorem seekUntil_eof {r : Reader} {tag : Bytes} (hL : tag ≠ []) (h : r.rest = []) :
    ∃ r', seekUntil tag r = (.error .eof, r') :=
  seekUntil_nil_fails tag hL r h

/-- the blocks as the reader sees them. -/
def blocksOf (f : V3File) : List (Bytes × Bytes) := f.blocks.map fun b => (b.tag, b.payload)

theorem recs_decode (f : V3File) (wf : f.WF) : ∀ x ∈ f.recs, fromKdBuf x = .ok (specDecode x) := by
  intro x hx
  simp only [V3File.recs, List.mem_flatMap] at hx
  obtain ⟨c, hc, hxc⟩ := hx
  have := (wf.2.2.2.2.2.2.2.2.2.1 c hc).2.2.2.2 x hxc
  exact C01.decode_eq_spec x this.1 this.2

theorem rejectsShort : RejectsShort fromKdBuf := fun x hx => ⟨_, C01.decode_rejects_other_lengths x hx⟩

/-- **Round trip of the whole v3 reader.**  For every well-formed v3 file whose cpu_info payload loads,
    and ANY prior parser state: the parse is the block loop and log loop (`tailOfBlocks`) applied to exactly
    the file's blocks, with the decodings of all records of all chunks as events, the thread-map chunk as
    tables and the header fields + cpu_info payload as `v3_header`. -/
theorem v3_round_trip (plist : Bytes → Option PView) (prior : PState) (f : V3File) (wf : f.WF)
    (hcpu : plist f.cpu ≠ none) :
    ∃ rd, parse plist fromKdBuf prior (encodeV3 f) =
      tailOfBlocks plist (f.recs.map specDecode) (C02.threadTables f.threads)
        { prior.md with header := some (f.hdr, f.cpu) } (blocksOf f) rd := by
  obtain ⟨rd, h⟩ := parse_encodeV3 plist fromKdBuf specDecode rejectsShort prior f wf hcpu (recs_decode f wf)
  refine ⟨rd, ?_⟩
  rw [h]
  simp only [setThreadMap, C02.threadTables, List.foldl_map, toEntry, blocksOf]

theorem tailOfBlocks_events {ε : Type} (plist : Bytes → Option PView) (evs : List ε) (t : Tables) (m : V3Meta)
    (bl : List (Bytes × Bytes)) (rd : Reader) : (tailOfBlocks plist evs t m bl rd).events = evs := by
  unfold tailOfBlocks
  split
  · exact events_evs _ _ _ _ _ _
  · exact events_evs_logs _ _ _ _ _ _ _

/-- **Events.**  The events are the decodings of ALL records of ALL chunks, in file order, each the
    little-endian reading of its own record (C01) — exactly `f.recs.length` of them. -/
theorem v3_events (plist : Bytes → Option PView) (prior : PState) (f : V3File) (wf : f.WF) (hcpu : plist f.cpu ≠ none) :
    (parse plist fromKdBuf prior (encodeV3 f)).events = f.recs.map specDecode := by
  obtain ⟨rd, h⟩ := v3_round_trip plist prior f wf hcpu
  rw [h, tailOfBlocks_events]

/-- **… for every chunking.**  Two well-formed files whose chunks hold the same records in the same
    order — however they are split into 1..k chunks, whatever the gaps, size remainders and the other
    sections are — deliver the same events. -/
theorem v3_events_chunking (plist : Bytes → Option PView) (prior prior' : PState) (f g : V3File) (wf : f.WF) (wg : g.WF)
    (hf : plist f.cpu ≠ none) (hg : plist g.cpu ≠ none) (hrecs : f.recs = g.recs) :
    (parse plist fromKdBuf prior (encodeV3 f)).events = (parse plist fromKdBuf prior' (encodeV3 g)).events := by
  rw [v3_events plist prior f wf hf, v3_events plist prior' g wg hg, hrecs]

/-- **Events precede every log.**  The delivered sequence is all events followed by log records only. -/
theorem v3_events_before_logs (plist : Bytes → Option PView) (prior : PState) (f : V3File) (wf : f.WF)
    (hcpu : plist f.cpu ≠ none) :
    ∃ logs : List LogOut, (parse plist fromKdBuf prior (encodeV3 f)).outs =
      (f.recs.map specDecode).map .ev ++ logs.map .log := by
  obtain ⟨rd, h⟩ := v3_round_trip plist prior f wf hcpu
  rw [h]
  unfold tailOfBlocks
  split
  · exact ⟨[], by simp⟩
  · exact ⟨_, rfl⟩

/-- **Thread map.**  While the events are delivered the two tables are exactly the thread-map chunk
    filled into EMPTY tables (later entry for a key wins: `C02.v2_lookup_last_wins`), whatever they held. -/
theorem v3_threadmap (plist : Bytes → Option PView) (prior : PState) (f : V3File) (wf : f.WF) (hcpu : plist f.cpu ≠ none) :
    (parse plist fromKdBuf prior (encodeV3 f)).tmTables = C02.threadTables f.threads := by
  obtain ⟨rd, h⟩ := v3_round_trip plist prior f wf hcpu
  rw [h]
  unfold tailOfBlocks
  split <;> rfl

/-- **Blocks.**  If every block's payload loads with the key its tag needs (`BlockOk`) and the log
    records' strings are in the string index (`LogsResolve`), then, for any prior state:
    * the parse ends normally; events, then the log records of ALL log blocks in file order, numbered
      0,1,…, message and process name resolved through the inverted index of the LAST string block;
    * `v3_header` = the twelve header integers and the cpu_info payload;
    * processes / images = the payload of the LAST such block (none if there is none);
    * kernel extensions, dyld binaries, trace codes = concatenation over the blocks in file order;
    * the tables are the thread map extended, in order, by every log record that names a process and
      has a non-zero thread id. -/
theorem v3_blocks (plist : Bytes → Option PView) (prior : PState) (f : V3File) (wf : f.WF) (hcpu : plist f.cpu ≠ none)
    (hok : ∀ b ∈ blocksOf f, BlockOk plist b) :
    let x := parse plist fromKdBuf prior (encodeV3 f)
    let strings := match lastOf TRACEV3_LOG_STRINGS (blocksOf f) with
      | some p => invertIndex (itemsOf plist p)
      | none => []
    let raw := (payloadsOf TRACEV3_LOG_EVENTS (blocksOf f)).flatMap (eventsOf plist)
    LogsResolve strings raw →
      x.err = none ∧
      x.outs = (f.recs.map specDecode).map .ev ++ (expectedLogs strings 0 raw).map .log ∧
      x.md.header = some (f.hdr, f.cpu) ∧
      x.md.processes = lastOf TRACEV3_PROCESSES (blocksOf f) ∧
      x.md.images = lastOf TRACEV3_IMAGES (blocksOf f) ∧
      x.md.kexts = (payloadsOf TRACEV3_KERNEL_EXTENSIONS (blocksOf f)).flatMap (binariesOf plist) ∧
      x.md.dyldBin.getD [] = (payloadsOf TRACEV3_DYLD_MODULES (blocksOf f)).flatMap (binariesOf plist) ∧
      x.md.traceCodes = (payloadsOf TRACEV3_TRACE_CODES (blocksOf f)).flatten ∧
      x.tables = (expectedLogs strings 0 raw).foldl extendTables (C02.threadTables f.threads) := by
  intro x strings raw hres
  obtain ⟨rd, h⟩ := v3_round_trip plist prior f wf hcpu
  obtain ⟨s, e, g0, g1, g2, g3, g4, g5, g6, g7⟩ := dispatchBlocks_ok plist (blocksOf f)
    ⟨V3Meta.reset { prior.md with header := some (f.hdr, f.cpu) }, [], []⟩ hok (Or.inl ⟨rfl, rfl⟩)
  have hstr : s.logStrings = strings := g7
  have hraw : s.logEvents = raw := by rw [g6]; rfl
  have hx : x = tailOfBlocks plist (f.recs.map specDecode) (C02.threadTables f.threads)
      { prior.md with header := some (f.hdr, f.cpu) } (blocksOf f) rd := h
  rw [hx]
  unfold tailOfBlocks
  rw [e]
  dsimp only
  rw [hstr, hraw, logLoop_ok strings raw 0 _ hres]
  refine ⟨rfl, rfl, g0, ?_, ?_, ?_, ?_, ?_, rfl⟩
  · rw [g1]; cases lastOf TRACEV3_PROCESSES (blocksOf f) <;> rfl
  · rw [g2]; cases lastOf TRACEV3_IMAGES (blocksOf f) <;> rfl
  · rw [g3]; rfl
  · rw [g5]; rfl
  · rw [g4]; rfl


/-! ### end to end: what the trace layer and the line builder receive from an encoded v3 file (`Model/EndToEnd.lean`) -/

/-- The thread-map chunk as the trace layer receives it: `(tid, pid, name)` in file order, the name bytes decoded
    (`CString('utf8')`). -/
def fileThreadMap (f : V3File) : Declared.ThreadMap :=
  f.threads.map fun t => (t.tid, t.pid, EndToEnd.utf8 t.name)

theorem threadMapOf_entries (f : V3File) : EndToEnd.threadMapOf (f.threads.map toEntry) = fileThreadMap f := by
  simp only [EndToEnd.threadMapOf, fileThreadMap, List.map_map]
  rfl

/-- **C03 composed with C01, at the entry of the trace layer.**  For every well-formed v3 file whose cpu_info payload
    loads — any header, filler and gaps, any thread-map chunk, ANY chunking of the records, any blocks: what
    `PyKdebugParser.traces` / `formatted_traces` work on is exactly the thread-map chunk's entries (in file order) and
    exactly the decodings of the records of ALL chunks (C01's `specDecode`, in file order) — the log records are not
    among them (`kevents` drops them) —, and the exception the container reader ends with, AFTER every event has been
    handed over, is the one `KdBufParser.parse` ends with on the same bytes (block loop / log loop; whatever the parser
    object held before).  No first-byte hypothesis: the v3 reader has no padding skipper (K1 is a v2 defect). -/
theorem e2e_dump_of_encoded_v3 (plist : Bytes → Option PView) (prior : PState) (f : V3File) (wf : f.WF)
    (hcpu : plist f.cpu ≠ none) :
    EndToEnd.dumpOf plist (encodeV3 f) =
      .ok ({ threadMap := fileThreadMap f, events := f.recs.map specDecode },
           (parse plist fromKdBuf prior (encodeV3 f)).err) := by
  obtain ⟨rd, h⟩ := EndToEnd.dumpOf_encoded_v3 plist f wf hcpu
  have hc := (EndToEnd.dumpOf_is_parse plist prior _ _ _ h).2.1
  rw [h, hc, threadMapOf_entries]

/-- … and when every block loads with the key its tag needs and the log records' strings are in the string index
    (the hypotheses of `v3_blocks`), the container contributes no exception. -/
theorem e2e_dump_of_encoded_v3_ok (plist : Bytes → Option PView) (f : V3File) (wf : f.WF) (hcpu : plist f.cpu ≠ none)
    (hok : ∀ b ∈ blocksOf f, BlockOk plist b)
    (hres : LogsResolve
      (match lastOf TRACEV3_LOG_STRINGS (blocksOf f) with
        | some p => invertIndex (itemsOf plist p)
        | none => [])
      ((payloadsOf TRACEV3_LOG_EVENTS (blocksOf f)).flatMap (eventsOf plist))) :
    EndToEnd.dumpOf plist (encodeV3 f) =
      .ok ({ threadMap := fileThreadMap f, events := f.recs.map specDecode }, none) := by
  rw [e2e_dump_of_encoded_v3 plist EndToEnd.freshParser f wf hcpu,
    (v3_blocks plist EndToEnd.freshParser f wf hcpu hok hres).1]

/-- For every well-formed v3 file whose cpu_info payload loads the dump is readable and the trace layer receives the
    thread-map chunk.  (If the cpu_info payload does not load, `parse_v3` raises before `set_thread_map`.) -/
theorem e2e_threadmap_of_encoded_v3 (plist : Bytes → Option PView) (f : V3File) (wf : f.WF)
    (hcpu : plist f.cpu ≠ none) :
    ∃ d c, EndToEnd.dumpOf plist (encodeV3 f) = .ok (d, c) ∧ d.threadMap = fileThreadMap f :=
  ⟨_, _, e2e_dump_of_encoded_v3 plist EndToEnd.freshParser f wf hcpu, rfl⟩

/-- **The lines of an encoded v3 file.**  The lines `formatted_traces` yields for the file's bytes are the lines of the
    line builder over `traces` of (the thread-map chunk, the decodings of the records of all chunks), and the iteration
    ends with the first rendering exception, else the exception of the trace layer, else — after ALL lines — the
    exception the container reader ends with in the blocks behind the last chunk. -/
theorem e2e_lines_of_encoded_v3 (env : Trace.Env) (obj : TracePipeline.Obj) (sh : Format.Show)
    (plist : Bytes → Option PView) (prior : PState) (f : V3File) (wf : f.WF) (hcpu : plist f.cpu ≠ none) :
    let res := (TracePipeline.traces env obj
      { threadMap := fileThreadMap f, events := f.recs.map specDecode }).1
    EndToEnd.formattedTraces env obj sh plist (encodeV3 f) =
      ((EndToEnd.formatAll sh res.traces).1,
       match (EndToEnd.formatAll sh res.traces).2 with
       | some e => some e
       | none => match res.err with
         | some e => some e
         | none => (parse plist fromKdBuf prior (encodeV3 f)).err) := by
  intro res
  have h := e2e_dump_of_encoded_v3 plist prior f wf hcpu
  exact Prod.ext (EndToEnd.formattedTraces_lines env obj sh plist _ _ _ h)
    (EndToEnd.formattedTraces_err env obj sh plist _ _ _ h)

/-- … with blocks that load (`v3_blocks`' hypotheses): the exception of the trace layer only. -/
theorem e2e_lines_of_encoded_v3_ok (env : Trace.Env) (obj : TracePipeline.Obj) (sh : Format.Show)
    (plist : Bytes → Option PView) (f : V3File) (wf : f.WF) (hcpu : plist f.cpu ≠ none)
    (hok : ∀ b ∈ blocksOf f, BlockOk plist b)
    (hres : LogsResolve
      (match lastOf TRACEV3_LOG_STRINGS (blocksOf f) with
        | some p => invertIndex (itemsOf plist p)
        | none => [])
      ((payloadsOf TRACEV3_LOG_EVENTS (blocksOf f)).flatMap (eventsOf plist))) :
    let res := (TracePipeline.traces env obj
      { threadMap := fileThreadMap f, events := f.recs.map specDecode }).1
    EndToEnd.formattedTraces env obj sh plist (encodeV3 f) =
      ((EndToEnd.formatAll sh res.traces).1,
       match (EndToEnd.formatAll sh res.traces).2 with
       | some e => some e
       | none => res.err) := by
  intro res
  have h := e2e_lines_of_encoded_v3 env obj sh plist EndToEnd.freshParser f wf hcpu
  rw [(v3_blocks plist EndToEnd.freshParser f wf hcpu hok hres).1] at h
  rw [h]
  refine Prod.ext rfl ?_
  show (match (EndToEnd.formatAll sh res.traces).2 with
        | some e => some e
        | none => match res.err with
          | some e => some e
          | none => none) = _
  cases (EndToEnd.formatAll sh res.traces).2 <;> cases res.err <;> rfl

/-- **The lines do not depend on the chunking, the filler, the header or the blocks.**  Two well-formed v3 files with
    the same thread-map entries and the same records in the same order — however split into chunks, whatever else
    they contain — give the same formatted lines, for every filter configuration and column setting. -/
theorem e2e_lines_chunking_v3 (env : Trace.Env) (obj : TracePipeline.Obj) (sh : Format.Show)
    (plist : Bytes → Option PView) (f g : V3File) (wf : f.WF) (wg : g.WF) (hf : plist f.cpu ≠ none)
    (hg : plist g.cpu ≠ none) (hth : f.threads = g.threads) (hrecs : f.recs = g.recs) :
    (EndToEnd.formattedTraces env obj sh plist (encodeV3 f)).1 =
      (EndToEnd.formattedTraces env obj sh plist (encodeV3 g)).1 := by
  rw [e2e_lines_of_encoded_v3 env obj sh plist EndToEnd.freshParser f wf hf,
    e2e_lines_of_encoded_v3 env obj sh plist EndToEnd.freshParser g wg hg]
  simp only [fileThreadMap, hth, hrecs]

/-- … and the same lines as the version-2 file with that thread map and those records (first record not beginning
    with a zero byte: K1), whatever its padding. -/
theorem e2e_lines_v3_eq_v2 (env : Trace.Env) (obj : TracePipeline.Obj) (sh : Format.Show)
    (plist : Bytes → Option PView) (f : V3File) (g : V2File) (wf : f.WF) (wg : g.WF) (hf : plist f.cpu ≠ none)
    (h0 : C02.FirstByteNonZero g) (hth : f.threads = g.threads) (hrecs : f.recs = g.recs) :
    (EndToEnd.formattedTraces env obj sh plist (encodeV3 f)).1 =
      (EndToEnd.formattedTraces env obj sh plist (encodeV2 g)).1 := by
  rw [e2e_lines_of_encoded_v3 env obj sh plist EndToEnd.freshParser f wf hf,
    C02.e2e_lines_of_encoded env obj sh plist g wg h0]
  simp only [fileThreadMap, C02.fileThreadMap, hth, hrecs]

/-! ### non-vacuity: a concrete dump with two chunks, a gap containing near-miss tag prefixes, and blocks -/

def exRec (b : Nat) : Bytes := List.replicate 64 b

def exFile : V3File :=
  { hdr := [1, 2, 3, 4, 5, 6, 7, 8, 9, 10, 11, 12], cpu := [0x62, 0x70], four := [9, 9, 9, 9],
    filler := [115, 116, 97, 0, 0x1d, 0], gap1 := [0, 0x1d, 0, 0],
    threads := [⟨7, 100, [0x61], [0x62, 0, 0xfe]⟩, ⟨8, 100, [0xc3, 0xa9], []⟩], tmTrail := [1, 2, 3],
    first := ⟨[0, 0x1e, 0], 5, List.replicate 8 0, [exRec 1]⟩,
    more := [⟨[], 0, List.replicate 8 7, [exRec 2, exRec 3]⟩],
    blocks := [⟨TRACEV3_TRACE_CODES, [0x41, 0x0a], true⟩, ⟨TRACEV3_TRACE_CODES, [0x42], false⟩] }

theorem exFile_noEarlier : NoEarlier tagStackshotEnd exFile.filler ∧ NoEarlier tagThreadmap exFile.gap1 ∧
    NoEarlier tagEvents exFile.first.gap := by
  refine ⟨?_, ?_, ?_⟩ <;> intro i hi <;> simp only [exFile, List.length_cons, List.length_nil] at hi <;>
    (have : i = 0 ∨ i = 1 ∨ i = 2 ∨ i = 3 ∨ i = 4 ∨ i = 5 := by omega) <;>
    rcases this with rfl | rfl | rfl | rfl | rfl | rfl <;> first | decide | omega

theorem exFile_wf : exFile.WF := by
  obtain ⟨n1, n2, n3⟩ := exFile_noEarlier
  have hb : ∀ i : Fin 12, exFile.hdr[i.1]'(by have := i.2; simp [exFile]) <
      256 ^ Spec.v3FieldSizes[i.1]'(by have := i.2; simp [Spec.v3FieldSizes]) := by decide
  have hrec : ∀ b, b < 256 → (exRec b).length = 64 ∧ IsBytes (exRec b) := fun b hb =>
    ⟨by simp [exRec], fun x hx => by simp only [exRec, List.mem_replicate] at hx; omega⟩
  refine ⟨rfl, fun i h1 h2 => hb ⟨i, by simpa [Spec.v3FieldSizes] using h1⟩, by decide, rfl, n1, n2, ?_, by decide,
    by decide, ?_, ?_, ?_, ?_⟩
  · intro t ht
    simp only [exFile, List.mem_cons, List.not_mem_nil, or_false] at ht
    rcases ht with rfl | rfl <;> refine ⟨by decide, by decide, by decide, by decide, by decide⟩
  · intro c hc
    simp only [exFile, List.mem_cons, List.not_mem_nil, or_false] at hc
    rcases hc with rfl | rfl
    · refine ⟨n3, by decide, by decide, by decide, ?_⟩
      intro r hr; simp only [List.mem_singleton] at hr; subst hr; exact hrec 1 (by omega)
    · refine ⟨fun i hi => by simp at hi, by decide, by decide, by decide, ?_⟩
      intro r hr
      simp only [List.mem_cons, List.not_mem_nil, or_false] at hr
      rcases hr with rfl | rfl
      · exact hrec 2 (by omega)
      · exact hrec 3 (by omega)
  · intro b hb'
    simp only [exFile, List.mem_cons, List.not_mem_nil, or_false] at hb'
    rcases hb' with rfl | rfl <;> exact ⟨by decide, by decide⟩
  · exact ⟨Or.inl rfl, trivial⟩
  · intro b hb'
    simp only [exFile, List.head?_cons, Option.some.injEq] at hb'
    subst hb'
    decide

/-- the hypotheses of the theorems are met by the concrete file: two chunks, gaps containing proper
    prefixes of the tags they precede, a multi-byte thread name, an unpadded last block. -/
example (plist : Bytes → Option PView) (prior : PState) (h : plist exFile.cpu ≠ none) :
    (parse plist fromKdBuf prior (encodeV3 exFile)).events = [specDecode (exRec 1), specDecode (exRec 2), specDecode (exRec 3)]
    ∧ (parse plist fromKdBuf prior (encodeV3 exFile)).md.traceCodes = [0x41, 0x0a, 0x42] := by
  refine ⟨v3_events plist prior exFile exFile_wf h, ?_⟩
  have hok : ∀ b ∈ blocksOf exFile, BlockOk plist b := by
    intro b hb
    simp only [blocksOf, exFile, List.map_cons, List.map_nil, List.mem_cons, List.not_mem_nil, or_false] at hb
    rcases hb with rfl | rfl <;>
      exact ⟨fun e => absurd e (by decide), fun _ => by decide, fun e => absurd e (by decide), fun e => absurd e (by decide),
        fun e => absurd e (by decide), fun e => absurd e (by decide), fun e => absurd e (by decide)⟩
  have := (v3_blocks plist prior exFile exFile_wf h hok (by
    intro e he
    have hne : ¬ TRACEV3_LOG_EVENTS = TRACEV3_TRACE_CODES := by decide
    simp [payloadsOf, blocksOf, exFile, hne] at he)).2.2.2.2.2.2.2.1
  rw [this]; decide

/-- the model run on the concrete file (kernel-evaluated): 3 events from 2 chunks, both trace-code blocks
    concatenated, thread map as tables. -/
example :
    let x := parse (fun _ => some ⟨false, [], none, none, none⟩) fromKdBuf ⟨⟨[(1, 1)], [(1, [0x78])]⟩, {}⟩ (encodeV3 exFile)
    x.events = [specDecode (exRec 1), specDecode (exRec 2), specDecode (exRec 3)] ∧ x.err = none ∧
    x.md.traceCodes = [0x41, 0x0a, 0x42] ∧ x.tables.threadsPids = [(7, 100), (8, 100)] ∧
    x.md.header = some (exFile.hdr, exFile.cpu) := by
  decide +kernel

/-! #### non-vacuity of the end-to-end theorems -/

/-- `plistlib.loads` for the examples: the cpu_info payload of `exFile` is a (non-empty) dict, nothing else loads. -/
def exPlist : Bytes → Option PView := fun b => if b = [0x62, 0x70] then some ⟨false, [], none, none, none⟩ else none

/-- `exFile` meets the hypotheses: thread map `a` / `é`, the three records of the two chunks. -/
example :
    EndToEnd.dumpOf exPlist (encodeV3 exFile) =
      .ok ({ threadMap := fileThreadMap exFile, events := [specDecode (exRec 1), specDecode (exRec 2), specDecode (exRec 3)] },
           (parse exPlist fromKdBuf EndToEnd.freshParser (encodeV3 exFile)).err) ∧
    fileThreadMap exFile = [(7, 100, "a"), (8, 100, "é")] :=
  ⟨e2e_dump_of_encoded_v3 exPlist _ exFile exFile_wf (by decide), by decide +kernel⟩

/-- The thread map and the six records of `EndToEnd.exFile` (the version-2 example of C02 / C06 / C14) as a version-3
    dump: two records in the first chunk (size remainder 5, a gap with a near-miss of the events tag), four in a
    second chunk behind the MORE tag, then a trace-codes block and (last, unpadded) a processes block. -/
def exFileLines : V3File :=
  { exFile with
    threads := EndToEnd.exFile.threads
    first := ⟨[0, 0x1e, 0], 5, List.replicate 8 0, EndToEnd.exFile.recs.take 2⟩
    more := [⟨[], 0, List.replicate 8 7, EndToEnd.exFile.recs.drop 2⟩]
    blocks := [⟨TRACEV3_TRACE_CODES, [0x41, 0x0a], true⟩, ⟨TRACEV3_PROCESSES, [1, 2, 3], false⟩] }

theorem exFileLines_wf : exFileLines.WF := by
  obtain ⟨w1, w2, w3, w4, w5, w6, _, w8, _, w10, _, _, _⟩ := exFile_wf
  have hr : ∀ r ∈ EndToEnd.exFile.recs, r.length = 64 ∧ IsBytes r := EndToEnd.exFile_wf.2.2.2.2
  refine ⟨w1, w2, w3, w4, w5, w6, EndToEnd.exFile_wf.2.1, w8, by decide, ?_, ?_, ⟨Or.inl rfl, trivial⟩, ?_⟩
  · intro c hc
    simp only [exFileLines, List.mem_cons, List.not_mem_nil, or_false] at hc
    rcases hc with rfl | rfl
    · exact ⟨(w10 exFile.first (by simp)).1, by decide, by decide, by decide,
        fun r hr' => hr r (List.mem_of_mem_take hr')⟩
    · exact ⟨fun i hi => by simp at hi, by decide, by decide, by decide, fun r hr' => hr r (List.mem_of_mem_drop hr')⟩
  · intro b hb
    simp only [exFileLines, List.mem_cons, List.not_mem_nil, or_false] at hb
    rcases hb with rfl | rfl <;> exact ⟨by decide, by decide⟩
  · intro b hb
    simp only [exFileLines, List.head?_cons, Option.some.injEq] at hb
    subst hb
    decide

/-- same thread map, same records as the version-2 example: by `e2e_lines_v3_eq_v2` the same six lines, for every
    environment, filter and column setting. -/
example (env : Trace.Env) (obj : TracePipeline.Obj) (sh : Format.Show) :
    (EndToEnd.formattedTraces env obj sh exPlist (encodeV3 exFileLines)).1 =
      (EndToEnd.formattedTraces env obj sh exPlist (encodeV2 EndToEnd.exFile)).1 :=
  e2e_lines_v3_eq_v2 env obj sh exPlist exFileLines EndToEnd.exFile exFileLines_wf EndToEnd.exFile_wf (by decide)
    EndToEnd.exFile_first rfl (by decide +kernel)

/-- the composition run on the bytes (kernel-evaluated): the six lines; the payload of the processes block does not
    load, `plistlib`'s exception surfaces AFTER the last line; cut inside the last record (the second chunk's fourth): the first
    five lines, then `struct.error`; cut inside the thread-map chunk: no line, `StreamError`; with a payload that
    loads: no exception. -/
example :
    let file := encodeV3 exFileLines
    EndToEnd.formattedTraces EndToEnd.exEnv {} {} exPlist file =
      (["1 launchd(42)                       Process exit name: x",
        "2 launchd(42)                       New thread 9 of parent: 50",
        "3 (50)                              Process exit name: y",
        "4 launchd(42)                       New thread of parent: new",
        "5 new(50)                           Process exit name: z",
        "6 Error: tid 8                      Process exit name: {"], some .valueError) ∧
    (EndToEnd.formattedTraces EndToEnd.exEnv {} {} exPlist (file.take (file.length - 100))) =
      (["1 launchd(42)                       Process exit name: x",
        "2 launchd(42)                       New thread 9 of parent: 50",
        "3 (50)                              Process exit name: y",
        "4 launchd(42)                       New thread of parent: new",
        "5 new(50)                           Process exit name: z"], some .structError) ∧
    EndToEnd.formattedTraces EndToEnd.exEnv {} {} exPlist (file.take 150) = ([], some .streamError) ∧
    (EndToEnd.formattedTraces EndToEnd.exEnv {} {} (fun _ => some ⟨false, [], none, none, none⟩) file).2 = none := by
  decide +kernel

/-! ### Translation tie: the source text of `seek_until` and of the WHOLE `parse_v3`

  (`tools/gen_pyir_rd.py` → `Gen/PyIRRd.lean`, IR and interpreter `Model/PyIRRd`; see `Props/C02`.)  Nothing of
  `parse_v3` is hand-modelled apart from what it CALLS: the construct parsers (`Aligned(8, kd_header_v3)`,
  `kd_v3_threadmap`, `Int64ul`, `kd_v3_additional_data` = `greedyRange blockElem`), `plistlib.loads` (the parameter
  `plist`) and `OsLogEvent.from_raw_log_event` (`fromRawLog`). -/

/-- **The translated source is the program the refinement lemmas were proved for.** -/
theorem source_is_expected_ir : Gen.PyIRRd.prog = PyIRRd.Expected.prog ∧ Gen.PyIRRd.notes = [] := by decide

/-- **`seek_until`, interpreted, is `seekUntil`** — for every tag and every reader state: same outcome (found /
    `EOFError`), same position, same read counters.  With `seekUntil_first_occurrence`: the interpreted source stops
    exactly behind the FIRST occurrence of the tag. -/
theorem seek_until_ir_eq_model (tag : Bytes) (r : Reader) :
    PyIRRd.runSeek Gen.PyIRRd.prog.seekUntil tag r = seekUntil tag r := by
  rw [source_is_expected_ir.1]; exact PyIRRd.runSeek_expected tag r

/-- **The tail of `parse_v3`, interpreted, is `tailV3`**: what the translated generator does behind its chunk loop —
    `reader.seek(-8, 1)`, `kd_v3_additional_data.parse_stream(reader)`, the five attribute resets, the block loop with
    its `if / elif` chain on `block.tag` (`dyld_modules` seeded by `update` when empty and `['Binaries']` extended
    otherwise, `trace_codes +=` the decoded payload, `processes` / `images` replaced, kernel-extension binaries and raw log
    events accumulated, the string index inverted), then the log loop (`from_raw_log_event`, both tables extended when the
    record names a process and a thread, `yield`) — from ANY state (reader, tables, parser attributes, local variables)
    that has yielded the records `evs`: the same outputs in the same order, the same exception, tables, attributes and
    reader as the model's `tailV3`. -/
theorem parse_v3_tail_ir_eq_model (plist : Bytes → Option PView) (evs : List Kevent) (env : PyIRRd.Env) (t : Tables)
    (m : V3Meta) (r : Reader) :
    PyIRRd.runFrom (Gen.PyIRRd.prog.params fromKdBuf plist) Gen.PyIRRd.prog.parseV3.afterLoop
        ⟨env, r, t, t, m, evs.map .ev⟩ =
      tailV3 plist evs t m r := by
  rw [source_is_expected_ir.1]
  exact PyIRRd.tail_exec (PyIRRd.Expected.prog.params fromKdBuf plist) evs ⟨env, r, t, t, m, evs.map .ev⟩ rfl rfl

/-- **The WHOLE `parse_v3`, interpreted, is `parseV3`** — header, realignment read, both scans, thread-map chunk,
    `set_thread_map`, the chunk loop with `size // 64` records per chunk and the MORE continuation, and the tail
    (`parse_v3_tail_ir_eq_model`) — for every reader state and prior parser state.  `viaV3` is nothing but the translated
    generator run to its end. -/
theorem parse_v3_ir_eq_model (plist : Bytes → Option PView) (prior : PState) (r : Reader) (g : r.pos ≤ r.data.length) :
    parseV3 plist fromKdBuf prior r = PyIRRd.viaV3 Gen.PyIRRd.prog plist fromKdBuf prior r := by
  rw [source_is_expected_ir.1]
  exact PyIRRd.parseV3_via_ir plist fromKdBuf PyIRRd.kd_rejectsShort PyIRRd.kd_noHang prior r g

/-- **The subject of every C03 theorem is the interpreted source.** -/
theorem parse_is_interpreted_source (plist : Bytes → Option PView) (prior : PState) (data : Bytes) :
    parse plist fromKdBuf prior data = PyIRRd.parseVia Gen.PyIRRd.prog plist fromKdBuf prior data :=
  PyIRRd.parse_eq_parseVia_gen source_is_expected_ir plist prior data

/-- non-vacuity: the generated `seek_until`, interpreted, finds a tag behind a near miss and stops behind it -/
example : (PyIRRd.runSeek Gen.PyIRRd.prog.seekUntil [1, 2, 3] (Reader.ofBytes [9, 1, 2, 1, 2, 3, 7])).1.toOption = some () ∧
    (PyIRRd.runSeek Gen.PyIRRd.prog.seekUntil [1, 2, 3] (Reader.ofBytes [9, 1, 2, 1, 2, 3, 7])).2 =
      { data := [9, 1, 2, 1, 2, 3, 7], pos := 6, calls := 4, got := 6, req := 6 } := by decide

/-- `exFile` with a trace-codes block, a string-index block and (last, unpadded) a log block -/
def exFileLogs : V3File :=
  { exFile with
    blocks := [⟨TRACEV3_TRACE_CODES, [0x41, 0x0a], true⟩, ⟨TRACEV3_LOG_STRINGS, [0x53], true⟩,
               ⟨TRACEV3_LOG_EVENTS, [0x4c], false⟩] }

/-- `plistlib.loads` for `exFileLogs`: the cpu_info payload, a string index `{'hi': 5, 'p': 6}`, two raw log events
    (message 5 on thread 9 of process 6 = `p`, pid 77; message 5 without thread and process) -/
def exPlistLogs : Bytes → Option PView := fun b =>
  if b = [0x62, 0x70] then some ⟨false, [], none, none, none⟩
  else if b = [0x53] then some ⟨false, [], none, none, some [([0x68, 0x69], 5), ([0x70], 6)]⟩
  else if b = [0x4c] then some ⟨false, [], none, some [⟨5, 9, some 6, some 77⟩, ⟨5, 0, none, none⟩], none⟩
  else none

/-- non-vacuity: the WHOLE generated `parse_v3` (through the generated `parse`), interpreted, on a dump with two chunks,
    a trace-codes block, a string index and a log block: the three records, then the two log events in order (resolved
    through the inverted index), no exception; the trace codes are the block's payload; the first log event extends both
    tables, the second (no process, thread 0) does not; the reader ends at the end of the file. -/
example :
    (PyIRRd.parseVia Gen.PyIRRd.prog exPlistLogs fromKdBuf ⟨Tables.empty, {}⟩ (encodeV3 exFileLogs)).events.length = 3 ∧
    (PyIRRd.parseVia Gen.PyIRRd.prog exPlistLogs fromKdBuf ⟨Tables.empty, {}⟩ (encodeV3 exFileLogs)).outs.length = 5 ∧
    (PyIRRd.parseVia Gen.PyIRRd.prog exPlistLogs fromKdBuf ⟨Tables.empty, {}⟩ (encodeV3 exFileLogs)).logs =
      [⟨0, [0x68, 0x69], 9, [0x70], 77⟩, ⟨1, [0x68, 0x69], 0, [], 0⟩] ∧
    (PyIRRd.parseVia Gen.PyIRRd.prog exPlistLogs fromKdBuf ⟨Tables.empty, {}⟩ (encodeV3 exFileLogs)).err = none ∧
    (PyIRRd.parseVia Gen.PyIRRd.prog exPlistLogs fromKdBuf ⟨Tables.empty, {}⟩ (encodeV3 exFileLogs)).md.traceCodes =
      [0x41, 0x0a] ∧
    (PyIRRd.parseVia Gen.PyIRRd.prog exPlistLogs fromKdBuf ⟨Tables.empty, {}⟩ (encodeV3 exFileLogs)).tables =
      ⟨[(7, 100), (8, 100), (9, 77)], [(100, [0xc3, 0xa9]), (77, [0x70])]⟩ ∧
    (PyIRRd.parseVia Gen.PyIRRd.prog exPlistLogs fromKdBuf ⟨Tables.empty, {}⟩ (encodeV3 exFileLogs)).tmTables =
      ⟨[(7, 100), (8, 100)], [(100, [0xc3, 0xa9])]⟩ ∧
    (PyIRRd.parseVia Gen.PyIRRd.prog exPlistLogs fromKdBuf ⟨Tables.empty, {}⟩ (encodeV3 exFileLogs)).rd.pos =
      (encodeV3 exFileLogs).length := by
  decide +kernel

/-! ### Translation tie, continued: the constructor `KdBufParser.__init__`

  `tools/gen_pyir_rd.py` also translates `KdBufParser.__init__(self, threads_pids=None, pids_names=None)` into
  `Gen.PyIRRd.prog.init : PyIRRd.CtorDef` (so `source_is_expected_ir` above — and in C02 / C06 — covers it): the attribute
  initialisers SORTED by attribute (every value is a display, `None`, or `{} if <parameter> is None else <parameter>` over a
  parameter that is never rebound — they do not depend on each other; `dict()` = `{}`); `self.versions` is the dict display
  of `prog.parse`.  `PyIRRd.runCtor d given m₀` constructs the object: `given[k]` says whether the k-th argument is a dict
  or `None` (omitted arguments take the default, `None`); `m₀` stands for whatever the metadata attributes would show if
  an initialiser were missing.  `CtorObj.toPState t`: the state `PState` of the hand model, given the contents `t` of the
  caller's two dicts. -/

/-- **kd_init_ir_eq_model.**  The interpreted constructor yields the initial state the reader model starts from — for
    every combination of given / `None` arguments, whatever `m₀`:
    * a table that was passed IS the caller's dict (`TableRef.arg k`: `set_thread_map` and the log loop then write the
      caller's tables), a table that was not is a new empty dict;
    * the metadata is exactly `{}` = `V3Meta`'s defaults, the `md` of `PyIRRd.St.init` that `parse` / `parseV3` / `tailV3`
      start from: `trace_codes = ''`, `kernel_extensions = {'Binaries': []}` (the list the first kernel-extension block
      extends), `dyld_modules = {}` (empty, so the first dyld block seeds it), `images = {}`, `processes = {}`,
      `v3_header = None`;
    * hence `toPState t = ⟨the tables given (else empty), {}⟩`. -/
theorem kd_init_ir_eq_model (m₀ : V3Meta) (t : Tables) (a b : Bool) :
    ∃ o, PyIRRd.runCtor Gen.PyIRRd.prog.init [a, b] m₀ = .ok o ∧
      o.threadsPids = some (if a then .arg 0 else .fresh) ∧ o.pidsNames = some (if b then .arg 1 else .fresh) ∧
      o.md = {} ∧
      o.toPState t = some ⟨⟨if a then t.threadsPids else [], if b then t.pidsNames else []⟩, {}⟩ := by
  rw [source_is_expected_ir.1]
  cases a <;> cases b <;> exact ⟨_, rfl, rfl, rfl, rfl, rfl⟩

/-- omitted arguments are `None` arguments; a third argument is a `TypeError` -/
theorem kd_init_defaults (m₀ : V3Meta) (a : Bool) :
    PyIRRd.runCtor Gen.PyIRRd.prog.init [] m₀ = PyIRRd.runCtor Gen.PyIRRd.prog.init [false, false] m₀ ∧
    PyIRRd.runCtor Gen.PyIRRd.prog.init [a] m₀ = PyIRRd.runCtor Gen.PyIRRd.prog.init [a, false] m₀ ∧
    ∀ x y z, PyIRRd.runCtor Gen.PyIRRd.prog.init [x, y, z] m₀ = .error .typeError := by
  rw [source_is_expected_ir.1]
  exact ⟨rfl, rfl, fun _ _ _ => rfl⟩

/-- **Request level.**  `PyKdebugParser.kevents` / `os_log_events` build a FRESH parser per request on the object's two
    tables — `KdBufParser(self.threads_pids, self.pids_names).parse(kdebug)`, translated in `Model/PyIRFl`
    (`Stmt.parseStream`; `C12.source_is_expected_ir`, `kevents_ir_eq_model`) —, `__main__` builds `KdBufParser({}, {})`.
    For the object the interpreted constructor builds on the caller's tables `t`, the interpreted `parse` of ANY byte string
    is the hand model `parse` started from `⟨t, {}⟩`: no metadata of an earlier request is visible, and the events and the
    final exception are those of `EndToEnd.freshParser` (`Proofs/EndToEnd.parseV3_prior_irrelevant`). -/
theorem kd_fresh_parser_parse (plist : Bytes → Option PView) (m₀ : V3Meta) (t : Tables) (data : Bytes) :
    ∃ o st, PyIRRd.runCtor Gen.PyIRRd.prog.init [true, true] m₀ = .ok o ∧ o.toPState t = some st ∧ st = ⟨t, {}⟩ ∧
      PyIRRd.parseVia Gen.PyIRRd.prog plist fromKdBuf st data = parse plist fromKdBuf ⟨t, {}⟩ data := by
  obtain ⟨o, h1, _, _, _, h5⟩ := kd_init_ir_eq_model m₀ t true true
  exact ⟨o, ⟨t, {}⟩, h1, h5, rfl, (parse_is_interpreted_source plist ⟨t, {}⟩ data).symm⟩

/-- without arguments (`KdBufParser()`): the state `EndToEnd.freshParser` of the end-to-end model -/
theorem kd_init_no_arguments (m₀ : V3Meta) (t : Tables) :
    ∃ o, PyIRRd.runCtor Gen.PyIRRd.prog.init [] m₀ = .ok o ∧ o.toPState t = some EndToEnd.freshParser := by
  obtain ⟨o, h1, _, _, _, h5⟩ := kd_init_ir_eq_model m₀ t false false
  exact ⟨o, by rw [(kd_init_defaults m₀ false).1]; exact h1, h5⟩

/-- non-vacuity: whatever the attributes "held" (`m₀` with junk in every field), the generated constructor leaves the
    defaults; and the interpreter tells when an initialiser is missing or has the wrong display. -/
example : (PyIRRd.runCtor Gen.PyIRRd.prog.init [true, true]
      ⟨some ([1], [2]), [3], [4], some [5], false, some [6], some [7], some [8]⟩).toOption.map (·.md) = some {} := by
  decide

example : (PyIRRd.runCtor { Gen.PyIRRd.prog.init with sets := Gen.PyIRRd.prog.init.sets.filter (·.1 ≠ .v3Header) }
      [true, true] ⟨some ([1], [2]), [], [], none, true, none, none, none⟩).toOption.map (·.md.header) =
    some (some ([1], [2])) := by decide

/-- `self.kernel_extensions = {}` is not the display the block loop needs (`['Binaries']` of an empty dict: `KeyError`) -/
example : (PyIRRd.runCtor { Gen.PyIRRd.prog.init with sets := [(.md .kernelExtensions, .display .emptyDict)] }
    [true, true] {}).toOption = none := by decide

/-! ### translation tie of the construct DECLARATIONS (`kd_header_v3`, `kd_v3_threadmap`, `kd_v3_additional_data`)

The reader tie above keeps `Aligned(8, kd_header_v3).parse_stream(reader)`, `kd_v3_threadmap.parse_stream(reader)` and
`kd_v3_additional_data.parse_stream(reader)` as primitives.  What these names ARE — the module-level construct
expressions — is translated too (`tools/gen_pyir_cn.py` → `Gen/PyIRCn`) and run by `PyIRCn.Con.parse` over the same
reader monad and the same combinators of `Model/Construct` (see `C02.kd_threadmap_decl_eq_model`,
`C02.kd_header_v2_decl_eq_model` for the version-2 half). -/

/-- **The translated declarations are the ones the lemmas were proved for** (`Spec/PyIRCnExpected`, quoting the Python),
    `BplistAdapter._decode` returns `plistlib.loads(obj)`, and the translator met nothing outside the subset. -/
theorem decl_source_is_expected_ir : Gen.PyIRCn.module = PyIRCn.Expected.module ∧ Gen.PyIRCn.notes = [] := by decide

/-- **`kd_header_v3`, interpreted, is `headerV3Inner`** — for EVERY reader state and whatever `plistlib.loads` does
    (`env.plist`): the declaration bound to `kd_header_v3`, run by `Con.parse` and read as (the twelve integer fields in
    order, the cpu_info payload), gives the same value or the same exception (StreamError of a short field, the
    model's `ValueError` of a payload that does not load) and the same reader (position, read counters).  The
    DECLARATION carries no alignment: `Aligned(8, …)` is applied at the call site in `parse_v3` (translated by the
    reader tie, `Prim.headerV3`); see `header_v3_call_site`. -/
theorem kd_header_v3_decl_eq_model (env : PyIRCn.Env) (ctx : List (String × PyIRCn.CVal)) (r : Reader) :
    PyIRCn.project PyIRCn.CVal.toHeaderV3 ((Gen.PyIRCn.module.decl "kd_header_v3").parse env ctx) r =
      headerV3Inner env.plist r := by
  rw [decl_source_is_expected_ir.1, PyIRCn.decl_kd_header_v3, PyIRCn.project_kd_header_v3]

/-- the call site `Aligned(8, kd_header_v3).parse_stream(reader)`: the model's `headerV3` is `aligned 8` around the
    interpreted declaration. -/
theorem header_v3_call_site (env : PyIRCn.Env) (ctx : List (String × PyIRCn.CVal)) :
    headerV3 env.plist =
      aligned 8 (PyIRCn.project PyIRCn.CVal.toHeaderV3 ((Gen.PyIRCn.module.decl "kd_header_v3").parse env ctx)) := by
  have h : PyIRCn.project PyIRCn.CVal.toHeaderV3 ((Gen.PyIRCn.module.decl "kd_header_v3").parse env ctx) =
      headerV3Inner env.plist := funext (kd_header_v3_decl_eq_model env ctx)
  rw [h]; rfl

/-- **`kd_v3_threadmap`, interpreted, is the thread-map reader of `parseV3`** (`prefixedBytes` then the pure
    `greedyEntries` of the payload: the last two steps of `threadmapV3`) — for EVERY reader state, and for every fuel
    policy that gives a range on a private sub-stream of `n` bytes at least `n / 32 + 1` iterations (both policies used by
    the other declaration theorems do: `n + 1` and `n / 16 + 2`): the `Prefixed(Int64ul, …)` length and payload are read
    with the model's two reads, `GreedyRange(kd_threadmap)` runs on the private sub-stream — so the hand model's PURE
    recursion over 32-byte slices (`greedyEntriesAux`: stop at the first entry that is short, has no NUL or is not UTF-8,
    drop it and everything behind it) is a THEOREM about the interpreted `GreedyRange` / `Struct` / `FixedSized` /
    `CString` (`PyIRCn.greedyRange_threadEntry`), no longer its definition. -/
theorem kd_v3_threadmap_decl_eq_model (env : PyIRCn.Env) (ctx : List (String × PyIRCn.CVal))
    (hf : ∀ b : Bytes, b.length / 32 + 1 ≤ env.fuel (Reader.ofBytes b)) (r : Reader) :
    PyIRCn.project PyIRCn.CVal.toThreadmapV3 ((Gen.PyIRCn.module.decl "kd_v3_threadmap").parse env ctx) r =
      (prefixedBytes >>= fun payload => pure (greedyEntries payload)) r := by
  rw [decl_source_is_expected_ir.1, PyIRCn.decl_kd_v3_threadmap, PyIRCn.project_kd_v3_threadmap env ctx hf]

/-- the call site in `parse_v3`: the model's `threadmapV3` is the two scans followed by the interpreted declaration. -/
theorem threadmap_v3_call_site (env : PyIRCn.Env) (ctx : List (String × PyIRCn.CVal))
    (hf : ∀ b : Bytes, b.length / 32 + 1 ≤ env.fuel (Reader.ofBytes b)) :
    threadmapV3 = (do
      let _ ← readPlain (8 - Gen.Consts.RAW_VERSION_SIZE)
      seekUntil Gen.Consts.TRACEV3_STACKSHOT_END
      seekUntil Gen.Consts.TRACEV3_THREADMAP_TAG
      PyIRCn.project PyIRCn.CVal.toThreadmapV3 ((Gen.PyIRCn.module.decl "kd_v3_threadmap").parse env ctx)) := by
  have h : PyIRCn.project PyIRCn.CVal.toThreadmapV3 ((Gen.PyIRCn.module.decl "kd_v3_threadmap").parse env ctx) =
      (prefixedBytes >>= fun payload => pure (greedyEntries payload)) :=
    funext (kd_v3_threadmap_decl_eq_model env ctx hf)
  rw [h]; rfl

/-- both fuel policies of the declaration theorems satisfy the hypothesis -/
example (b : Bytes) : b.length / 32 + 1 ≤ (fun r : Reader => r.rest.length + 1) (Reader.ofBytes b) := by
  show b.length / 32 + 1 ≤ (List.drop 0 b).length + 1
  simp only [List.drop_zero]; omega

example (b : Bytes) : b.length / 32 + 1 ≤ (fun r : Reader => r.rest.length / 16 + 2) (Reader.ofBytes b) := by
  show b.length / 32 + 1 ≤ (List.drop 0 b).length / 16 + 2
  simp only [List.drop_zero]; omega

/-- non-vacuity: a 70-byte payload — one good entry, one entry whose name has no NUL, 6 more bytes: one entry is
    delivered, the reader stands behind the WHOLE payload (position 78, two reads) -/
example :
    (match PyIRCn.project PyIRCn.CVal.toThreadmapV3
        ((Gen.PyIRCn.module.decl "kd_v3_threadmap").parse ⟨EndToEnd.noPlist, fun r => r.rest.length / 16 + 2⟩ [])
        (Reader.ofBytes ([70, 0, 0, 0, 0, 0, 0, 0] ++ C02.exEntry 5 9 ([0x61, 0] ++ List.replicate 18 1) ++
          C02.exEntry 6 9 (List.replicate 20 0x41) ++ [1, 2, 3, 4, 5, 6] ++ [0xaa])) with
     | (.ok tm, r) => some (tm, r.pos, r.calls)
     | (.error _, _) => none) = some ([⟨5, 9, [0x61]⟩], 78, 2) := by decide +kernel

/-- **`kd_v3_additional_data`, interpreted, is the greedy range of `blockElem`** — for EVERY reader state: the
    declaration bound to `kd_v3_additional_data` (`GreedyRange(Struct('tag' / Bytes(8), 'data' / Select(Aligned(8,
    Prefixed(Int64ul, GreedyBytes)), Prefixed(Int64ul, GreedyBytes))))`), run by `Con.parse` and read as the list of
    (tag, data) pairs, is `greedyRange blockElem` with the fuel the policy gives at the reader it starts on: the same
    blocks, the same reader (the aligned alternative first, the rewind and the unaligned alternative when its padding
    read is short, the rewind of the whole range behind the last good block).  With the policy of `tailV3`
    (`rest / 16 + 2`) this is literally the term `tailV3` / the reader tie's primitive use. -/
theorem kd_v3_additional_data_decl_eq_model (env : PyIRCn.Env) (ctx : List (String × PyIRCn.CVal)) (r : Reader) :
    PyIRCn.project PyIRCn.CVal.toBlocks ((Gen.PyIRCn.module.decl "kd_v3_additional_data").parse env ctx) r =
      greedyRange blockElem (env.fuel r) r := by
  rw [decl_source_is_expected_ir.1, PyIRCn.decl_kd_v3_additional_data, PyIRCn.project_kd_v3_additional_data]

/-- one element of the range: the interpreted `Struct` is `blockElem` (as a `Container` of `tag` and `data`). -/
theorem block_struct_decl_value (env : PyIRCn.Env) (ctx : List (String × PyIRCn.CVal)) :
    PyIRCn.Expected.blockStruct.parse env ctx = PyIRCn.mapRM PyIRCn.blockToCVal blockElem :=
  PyIRCn.parse_blockStruct env ctx

/-- the fuel policy of the version-3 tie: what `tailV3` gives its range; on a private sub-stream of `n` bytes it is
    `n / 16 + 2 ≥ n / 32 + 1`. -/
def declEnv (plist : Bytes → Option PView) : PyIRCn.Env := ⟨plist, fun r => r.rest.length / 16 + 2⟩

theorem declEnv_fuel (plist : Bytes → Option PView) (b : Bytes) :
    b.length / 32 + 1 ≤ (declEnv plist).fuel (Reader.ofBytes b) := by
  show b.length / 32 + 1 ≤ (List.drop 0 b).length / 16 + 2
  simp only [List.drop_zero]; omega

/-- **`parse_v3` rests on the declarations**: the hand model `parseV3` (= the interpreted `parse_v3`, by
    `parse_is_interpreted_source`) with its three construct primitives replaced by the interpreted declarations —
    `Aligned(8, kd_header_v3)`, `kd_v3_threadmap` behind the two scans, `kd_v3_additional_data` behind
    `reader.seek(-8, 1)`. -/
theorem parse_v3_rests_on_declarations {ε : Type} (plist : Bytes → Option PView) (dec : Bytes → Except PyErr ε)
    (prior : PState) (r : Reader) :
    parseV3 plist dec prior r =
      match aligned 8 (PyIRCn.project PyIRCn.CVal.toHeaderV3
          ((Gen.PyIRCn.module.decl "kd_header_v3").parse (declEnv plist) [])) r with
      | (.error e, r1) => ⟨[], some e, prior.tables, prior.tables, prior.md, r1⟩
      | (.ok h, r1) =>
        match (do
            let _ ← readPlain (8 - Gen.Consts.RAW_VERSION_SIZE)
            seekUntil Gen.Consts.TRACEV3_STACKSHOT_END
            seekUntil Gen.Consts.TRACEV3_THREADMAP_TAG
            PyIRCn.project PyIRCn.CVal.toThreadmapV3
              ((Gen.PyIRCn.module.decl "kd_v3_threadmap").parse (declEnv plist) [])) r1 with
        | (.error e, r2) => ⟨[], some e, prior.tables, prior.tables, { prior.md with header := some h }, r2⟩
        | (.ok tm, r2) =>
          let t := setThreadMap prior.tables tm
          let q := chunkLoop dec (r2.rest.length / 16 + 2) r2
          match q.2.1 with
          | some e => ⟨q.1.map .ev, some e, t, t, { prior.md with header := some h }, q.2.2⟩
          | none =>
            match PyIRCn.project PyIRCn.CVal.toBlocks
                ((Gen.PyIRCn.module.decl "kd_v3_additional_data").parse (declEnv plist) [])
                (q.2.2.seekTo (q.2.2.pos - 8)) with
            | (.error e, r4) => ⟨q.1.map .ev, some e, t, t, { prior.md with header := some h }, r4⟩
            | (.ok blocks, r4) => tailOfBlocks plist q.1 t { prior.md with header := some h } blocks r4 := by
  have h1 := header_v3_call_site (declEnv plist) []
  have h2 := threadmap_v3_call_site (declEnv plist) [] (declEnv_fuel plist)
  rw [← h1, ← h2]
  simp only [kd_v3_additional_data_decl_eq_model]
  rfl

/-- non-vacuity: two blocks — the first aligned (5-byte payload + 3 bytes of alignment), the second at the end of the
    stream with no room for its alignment (the `Select` falls back to the unaligned alternative) — then 3 stray bytes:
    both blocks are delivered and the reader is rewound behind the second one (position 42). -/
example :
    (match PyIRCn.project PyIRCn.CVal.toBlocks
        ((Gen.PyIRCn.module.decl "kd_v3_additional_data").parse (declEnv EndToEnd.noPlist) [])
        (Reader.ofBytes ([1, 2, 3, 4, 5, 6, 7, 8] ++ [5, 0, 0, 0, 0, 0, 0, 0] ++ [9, 9, 9, 9, 9] ++ [0, 0, 0] ++
          [8, 7, 6, 5, 4, 3, 2, 1] ++ [2, 0, 0, 0, 0, 0, 0, 0] ++ [0xaa, 0xbb] ++ [1, 2, 3])) with
     | (.ok bs, r) => some (bs, r.pos)
     | (.error _, _) => none) =
    some ([([1, 2, 3, 4, 5, 6, 7, 8], [9, 9, 9, 9, 9]), ([8, 7, 6, 5, 4, 3, 2, 1], [0xaa, 0xbb])], 42) := by
  decide +kernel

/-- twelve fields 1 … 12, a 3-byte payload, then one more byte -/
def exDeclHeaderV3 : Bytes :=
  [1, 0, 0, 0] ++ [2, 0, 0, 0] ++ [3, 0, 0, 0, 0, 0, 0, 0] ++ [4, 0, 0, 0] ++ [5, 0, 0, 0] ++ [6, 0, 0, 0, 0, 0, 0, 0] ++
  [7, 0, 0, 0, 0, 0, 0, 0] ++ [8, 0, 0, 0] ++ [9, 0, 0, 0] ++ [10, 0, 0, 0] ++ [11, 0, 0, 0] ++ [12, 1, 0, 0] ++
  [3, 0, 0, 0, 0, 0, 0, 0] ++ [0x62, 0x70, 0x6c] ++ [0xaa]

/-- non-vacuity: the generated `kd_header_v3`, interpreted, on concrete bytes, with a `plistlib.loads` that accepts
    exactly the payload `bpl`: the twelve integers (the last one 0x10c), the payload, 14 reads, position 71 … -/
example :
    (match PyIRCn.project PyIRCn.CVal.toHeaderV3
        ((Gen.PyIRCn.module.decl "kd_header_v3").parse
          ⟨fun p => if p = [0x62, 0x70, 0x6c] then some ⟨true, [], none, none, none⟩ else none, fun _ => 0⟩ [])
        (Reader.ofBytes exDeclHeaderV3) with
     | (.ok h, r) => some (h, r.pos, r.calls)
     | (.error _, _) => none) =
    some (([1, 2, 3, 4, 5, 6, 7, 8, 9, 10, 11, 0x10c], [0x62, 0x70, 0x6c]), 71, 14) := by decide +kernel

/-- … and when `plistlib.loads` rejects the payload: the model's ValueError, the payload consumed -/
example :
    (match PyIRCn.project PyIRCn.CVal.toHeaderV3
        ((Gen.PyIRCn.module.decl "kd_header_v3").parse ⟨EndToEnd.noPlist, fun _ => 0⟩ []) (Reader.ofBytes exDeclHeaderV3) with
     | (x, r) => (PyIRCn.outcome x, r.pos)) = ((none, some .valueError), 71) := by decide +kernel

end KdVerif.C03
