import KdVerif.Model.Bytes
/-
  L1: `struct.unpack` for little-endian, unaligned formats and `kevent.from_kd_buf`.
  The format list and the two masks are parameters; `Gen/Consts.lean` (regenerated from
  /repo on every run) instantiates them.
-/
namespace KdVerif

inductive FieldSpec
  | u64 | u32 | u16 | u8 | bytes (n : Nat)
  deriving DecidableEq, Repr

def FieldSpec.size : FieldSpec → Nat
  | .u64 => 8 | .u32 => 4 | .u16 => 2 | .u8 => 1 | .bytes n => n

inductive SVal
  | int (n : Nat) | bytes (b : Bytes)
  deriving DecidableEq, Repr

def calcsize (fmt : List FieldSpec) : Nat := (fmt.map FieldSpec.size).sum

def unpackAux : List FieldSpec → Bytes → List SVal
  | [], _ => []
  | f :: fs, bs =>
    (match f with
     | .bytes n => SVal.bytes (bs.take n)
     | _ => SVal.int (leNat (bs.take f.size))) :: unpackAux fs (bs.drop f.size)

/-- `struct.unpack('<…', bs)`: wrong length raises `struct.error`. -/
def structUnpack (fmt : List FieldSpec) (bs : Bytes) : Except PyErr (List SVal) :=
  if bs.length = calcsize fmt then .ok (unpackAux fmt bs) else .error .structError

structure Kevent where
  timestamp : Nat
  data : Bytes
  values : List Nat
  tid : Nat
  debugid : Nat
  eventid : Nat
  qual : Nat
  deriving DecidableEq, Repr, Inhabited

/-- Where a `Kevent` field comes from in `from_kd_buf` (emitted by the translator from the function's AST):
    position `i` of the `struct.unpack` tuple, that position masked, or a second unpack of that position. -/
inductive KSrc
  | field (i : Nat) | andMask (i : Nat) (mask : Nat) | unpackOf (i : Nat) (fmt : List FieldSpec) | unsupported
  deriving DecidableEq, Repr

def argsFormat : List FieldSpec := [.u64, .u64, .u64, .u64]

/-- The shape `decodeWith` implements (masks are parameters there). -/
def expectedShape (idMask fnMask : Nat) : List (String × KSrc) :=
  [("timestamp", .field 0), ("data", .field 1), ("values", .unpackOf 1 argsFormat), ("tid", .field 2),
   ("debugid", .field 3), ("eventid", .andMask 3 idMask), ("func_qualifier", .andMask 3 fnMask)]

/-- `from_kd_buf` with the record format and the two masks as parameters. -/
def decodeWith (fmt : List FieldSpec) (idMask fnMask : Nat) (bs : Bytes) : Except PyErr Kevent :=
  match structUnpack fmt bs with
  | .error e => .error e
  | .ok [.int ts, .bytes data, .int tid, .int dbg, .int _, .int _] =>
    (match structUnpack argsFormat data with
     | .error e => .error e
     | .ok [.int a, .int b, .int c, .int d] =>
       .ok { timestamp := ts, data := data, values := [a, b, c, d], tid := tid, debugid := dbg,
             eventid := dbg &&& idMask, qual := dbg &&& fnMask }
     | .ok _ => .error .valueError)
  | .ok _ => .error .valueError

end KdVerif
