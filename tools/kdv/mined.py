"""Constants mined from the source under test.

A change that fires only for ONE trace name, ONE window length or ONE nested code is invisible to generators that draw
names from a synthetic alphabet and lengths from a hand-written list.  The source says which names and numbers it treats
specially: every integer literal (also folded `1 << 12`, `4 * 1024`), every module-level / class-level integer attribute and
every string literal that is — or looks like — a trace name is collected here, per file, and fed back into the failing-input
searches (C04: every name in every role of a pairing history, window lengths around every mined number; C09 / C10: long
windows of those lengths).  Nothing here decides anything: the constants only steer where the searches look."""
import ast
import importlib
import os
import re

from . import core, impl  # noqa: F401  (impl puts REPO_DIR first on sys.path and checks the import origin)

NAME_RX = re.compile(r'[A-Za-z][A-Za-z0-9_]{2,}')
# the files whose numbers are window / record / buffer sizes whatever changed
CORE_FILES = ('pykdebugparser/traces_parser.py', 'pykdebugparser/kd_buf_parser.py', 'pykdebugparser/pykdebugparser.py',
              'pykdebugparser/kevent.py')
DEFAULT_LENGTHS = (1023, 1024, 1025, 1500, 4094, 4095, 4096, 4097, 4098)
LEN_MIN, LEN_MAX = 64, 70000

_CACHE = {}


def package_files():
    """Relative paths (to the repository root) of the package's .py files, sorted."""
    if 'files' not in _CACHE:
        out = []
        root = os.path.join(core.REPO, 'pykdebugparser')
        for dp, dn, fns in os.walk(root):
            dn[:] = sorted(d for d in dn if d != '__pycache__')
            for fn in sorted(fns):
                if fn.endswith('.py'):
                    out.append(os.path.relpath(os.path.join(dp, fn), core.REPO))
        _CACHE['files'] = out
    return list(_CACHE['files'])


def _tree(rel):
    key = ('tree', rel)
    if key not in _CACHE:
        try:
            with open(os.path.join(core.REPO, rel), 'rb') as fd:
                _CACHE[key] = ast.parse(fd.read())
        except (OSError, SyntaxError, ValueError):
            _CACHE[key] = None
    return _CACHE[key]


def _is_int(v):
    return isinstance(v, int) and not isinstance(v, bool)


_FOLD = {ast.Add: lambda a, b: a + b, ast.Sub: lambda a, b: a - b, ast.Mult: lambda a, b: a * b,
         ast.LShift: lambda a, b: a << b if 0 <= b <= 80 else None, ast.BitOr: lambda a, b: a | b,
         ast.Pow: lambda a, b: a ** b if 0 <= b <= 80 and abs(a) <= 1 << 16 else None,
         ast.FloorDiv: lambda a, b: a // b if b else None, ast.RShift: lambda a, b: a >> b if 0 <= b <= 80 else None}


def _fold(node):
    """Value of an expression built from integer literals only (`1 << 12`, `4 * 1024 - 1`), else None."""
    if isinstance(node, ast.Constant):
        return node.value if _is_int(node.value) else None
    if isinstance(node, ast.UnaryOp) and isinstance(node.op, ast.USub):
        v = _fold(node.operand)
        return None if v is None else -v
    if isinstance(node, ast.BinOp) and type(node.op) in _FOLD:
        a, b = _fold(node.left), _fold(node.right)
        if a is None or b is None:
            return None
        try:
            return _FOLD[type(node.op)](a, b)
        except (ArithmeticError, ValueError, OverflowError):
            return None
    return None


def _module_name(rel):
    parts = rel[:-3].split(os.sep)
    if parts[-1] == '__init__':
        parts = parts[:-1]
    return '.'.join(parts)


def _module_ints(rel):
    """Integer attributes of the imported module and of the (non-enum) classes it defines."""
    out = set()
    if rel.endswith('__main__.py'):
        return out
    try:
        mod = importlib.import_module(_module_name(rel))
    except Exception:                                   # a module that does not import contributes its literals only
        return out
    import enum
    for v in list(vars(mod).values()):
        if _is_int(v) and not isinstance(v, enum.Enum):
            out.add(int(v))
        elif isinstance(v, type) and getattr(v, '__module__', None) == mod.__name__ and not issubclass(v, enum.Enum):
            for w in list(vars(v).values()):
                if _is_int(w) and not isinstance(w, enum.Enum):
                    out.add(int(w))
    return out


def int_constants(files=None):
    """{file: sorted list of the integers the file mentions}: every integer literal, every expression of integer literals
    (folded), and every integer attribute of the imported module and of its classes."""
    out = {}
    for rel in (package_files() if files is None else files):
        key = ('ints', rel)
        if key not in _CACHE:
            vals = set()
            tree = _tree(rel)
            if tree is not None:
                for node in ast.walk(tree):
                    if isinstance(node, (ast.Constant, ast.BinOp, ast.UnaryOp)):
                        v = _fold(node)
                        if v is not None:
                            vals.add(v)
                vals |= _module_ints(rel)
            _CACHE[key] = sorted(vals)
        out[rel] = list(_CACHE[key])
    return out


def table_names():
    if 'table' not in _CACHE:
        from pykdebugparser.trace_codes import default_trace_codes
        _CACHE['table'] = set(default_trace_codes().values())
    return _CACHE['table']


def name_constants(files=None):
    """{file: sorted list of string literals that are a trace name of the bundled code table or look like one}."""
    names = table_names()
    out = {}
    for rel in (package_files() if files is None else files):
        key = ('names', rel)
        if key not in _CACHE:
            vals = set()
            tree = _tree(rel)
            if tree is not None:
                for node in ast.walk(tree):
                    if isinstance(node, ast.Constant) and isinstance(node.value, str):
                        s = node.value
                        if s in names or (NAME_RX.fullmatch(s) and len(s) <= 80):
                            vals.add(s)
            _CACHE[key] = sorted(vals)
        out[rel] = list(_CACHE[key])
    return out


def changed_files():
    """Source files that differ from the fingerprinted revision (tools/kdv/fingerprint.py); [] on the fingerprinted tree."""
    if 'changed' not in _CACHE:
        from . import fingerprint
        _CACHE['changed'] = [f for f in fingerprint.changed(core.REPO) if f.endswith('.py') or f.startswith('<')]
    return list(_CACHE['changed'])


def all_names(changed=None, tier='thorough'):
    """Mined names in search order: names mentioned by changed files first, then by the pairing code itself, then the rest.
    On the quick tier of an unchanged tree only the literals that ARE table names, and all literals of the core files."""
    changed = changed_files() if changed is None else changed
    per = name_constants()
    table = table_names()
    order = [f for f in changed if f in per] + [f for f in CORE_FILES if f in per] + sorted(per)
    out = []
    for f in dict.fromkeys(order):
        wide = tier != 'quick' or bool(changed) or f in CORE_FILES
        out += [s for s in per[f] if wide or s in table]
    return list(dict.fromkeys(out))


def window_lengths(tier, changed=None):
    """Numbers of records to put between a START and its END, in search order (most telling first, no duplicates):
    the default lengths; on a changed source or in the thorough tier moreover L-1, L, L+1 for every mined integer L in
    [64, 70000] of the pairing / reader files and of every changed file, and the powers of two 2^8 .. 2^16 with both
    neighbours."""
    changed = changed_files() if changed is None else list(changed)
    out = list(DEFAULT_LENGTHS)
    if changed or tier == 'thorough':
        present = set(package_files())
        files = ([f for f in CORE_FILES if f in changed] + [f for f in CORE_FILES if f not in changed]
                 + [f for f in changed if f not in CORE_FILES])
        for f, ints in int_constants([f for f in files if f in present]).items():
            for v in ints:
                if LEN_MIN <= v <= LEN_MAX:
                    out += [v - 1, v, v + 1]
        for k in range(8, 17):
            out += [(1 << k) - 1, 1 << k, (1 << k) + 1]
    return list(dict.fromkeys(out))


def take_within(lengths, budget, cost=lambda n: n):
    """The prefix-closed selection of `lengths` (in the given order) whose summed cost stays within `budget`; a length that
    does not fit is skipped, later cheaper ones are still taken.  Returns (taken, skipped)."""
    taken, skipped, spent = [], [], 0
    for n in lengths:
        c = cost(n)
        if spent + c <= budget:
            taken.append(n)
            spent += c
        else:
            skipped.append(n)
    return taken, skipped


def bytes_constants(files=None):
    """Byte strings the source mentions (bytes literals of 2..32 bytes and module-level bytes attributes): magics, tags,
    markers.  Data that BEGINS with one of them is data — a record whose timestamp happens to spell a magic is a record."""
    out = []
    for rel in (package_files() if files is None else files):
        tree = _tree(rel)
        if tree is None:
            continue
        for node in ast.walk(tree):
            if isinstance(node, ast.Constant) and isinstance(node.value, bytes) and 2 <= len(node.value) <= 32:
                out.append(node.value)
        try:
            import importlib
            mod = importlib.import_module(_module_name(rel))
            out += [v for v in vars(mod).values() if isinstance(v, bytes) and 2 <= len(v) <= 32]
        except Exception:       # noqa: BLE001
            pass
    return list(dict.fromkeys(out))
