"""Translator of the GLUE between the user and the translated methods (pure `ast`, nothing is imported or run)
-> lean/KdVerif/Gen/PyIRCli.lean, terms of the IR of lean/KdVerif/Model/PyIRCli.lean:

  pykdebugparser/__main__.py       print_with_count (a statement-level term), BasedIntParamType.convert / BASED_INT, the option
                                   declarations, the seven commands kevents / traces / callstacks / processes / kexts / images / logs
  pykdebugparser/pykdebugparser.py PyKdebugParser.__init__ (attribute, default value), formatted_kevents / formatted_traces /
                                   formatted_callstacks / formatted_logs

Normal form (so that harmless rewrites give the same term):
  * print_with_count: variables are numbered — parameters first, locals in order of first binding; a statement list is a
    right-nested `seq`; an `if` without `else` has `skip` as its else branch; `v = v + e` is `v += e`; docstrings, `pass`,
    annotations vanish;
  * a command: its decorators are looked up (`@count` -> the module-level `count = click.option(…)`) and SORTED by the name of
    the keyword argument they produce (click calls the callback by keyword: the order of the decorators does not matter), the
    parameters of the callback are sorted as well; the local that holds the parser may have any name; each run of consecutive
    `parser.<attr> = <parameter | list(parameter) | constant>` assignments to pairwise distinct attributes is sorted by
    attribute (they commute); `help=` is dropped.  Option NAMES, spellings, types, defaults, `multiple` are kept;
  * `__init__`: the assignments `self.<attr> = <constant | [] | {}>` in source order;
  * `formatted_x`: `map(lambda x: self.F(x, extra…), self.S(args…))` or the generator expression
    `(self.F(x, extra…) for x in self.S(args…))` (the same lazy map), the bound variable under any name; a local bound once to
    `default_trace_codes() if trace_codes is None else trace_codes` is inlined (node `codesOrDefault`).
Everything else becomes an explicit `.unsupported "<source text>"` node or a note: never a guess."""
import ast
import os

COMMANDS = ['kevents', 'traces', 'callstacks', 'processes', 'kexts', 'images', 'logs']
FORMATTED = [('formatted_kevents', 'formattedKevents'), ('formatted_traces', 'formattedTraces'),
             ('formatted_callstacks', 'formattedCallstacks'), ('formatted_logs', 'formattedLogs')]


def src(n):
    try:
        return ast.unparse(n)
    except Exception:
        return '<?>'


def body_of(fn):
    """statements without docstring / pass"""
    out = []
    for i, s in enumerate(fn.body):
        if i == 0 and isinstance(s, ast.Expr) and isinstance(s.value, ast.Constant) and isinstance(s.value.value, str):
            continue
        if isinstance(s, ast.Pass):
            continue
        out.append(s)
    return out


def const_val(e):
    """a constant expression -> Val tuple, or None"""
    if isinstance(e, ast.Constant):
        v = e.value
        if v is None:
            return ('none',)
        if isinstance(v, bool):
            return ('bool', v)
        if isinstance(v, int):
            return ('int', v)
        if isinstance(v, str):
            return ('str', v)
        return None
    if isinstance(e, ast.UnaryOp) and isinstance(e.op, ast.USub) and isinstance(e.operand, ast.Constant) \
            and isinstance(e.operand.value, int) and not isinstance(e.operand.value, bool):
        return ('int', -e.operand.value)
    if isinstance(e, ast.List) and not e.elts:
        return ('list', [])
    if isinstance(e, ast.Dict) and not e.keys:
        return ('dict',)
    return None


# ---------------------------------------------------------------------------------------------------------------- pwc

class Pwc:
    def __init__(self, fn):
        self.vars = {}
        for a in fn.args.args:
            self.vars[a.arg] = len(self.vars)
        self.nparams = len(self.vars)

    def bind(self, name):
        if name not in self.vars:
            self.vars[name] = len(self.vars)
        return self.vars[name]

    def expr(self, e):
        if isinstance(e, ast.Name) and e.id in self.vars:
            return ('var', self.vars[e.id])
        c = const_val(e)
        if c is not None and c[0] == 'int':
            return ('int', c[1])
        if isinstance(e, ast.Compare) and len(e.ops) == 1 and isinstance(e.ops[0], ast.Eq):
            return ('eq', self.expr(e.left), self.expr(e.comparators[0]))
        return ('unsupported', src(e))

    def block(self, stmts):
        out = [self.stmt(s) for s in stmts if not isinstance(s, ast.Pass)
               and not (isinstance(s, ast.Expr) and isinstance(s.value, ast.Constant) and isinstance(s.value.value, str))]
        if not out:
            return ('skip',)
        r = out[-1]
        for s in reversed(out[:-1]):
            r = ('seq', s, r)
        return r

    def stmt(self, s):
        if isinstance(s, ast.Assign) and len(s.targets) == 1 and isinstance(s.targets[0], ast.Name):
            name = s.targets[0].id
            v = s.value
            if isinstance(v, ast.BinOp) and isinstance(v.op, ast.Add) and isinstance(v.left, ast.Name) and v.left.id == name \
                    and name in self.vars:
                return ('addAssign', self.vars[name], self.expr(v.right))
            e = self.expr(v)
            return ('assign', self.bind(name), e)
        if isinstance(s, ast.AnnAssign) and isinstance(s.target, ast.Name) and s.value is not None:
            e = self.expr(s.value)
            return ('assign', self.bind(s.target.id), e)
        if isinstance(s, ast.AugAssign) and isinstance(s.op, ast.Add) and isinstance(s.target, ast.Name) and s.target.id in self.vars:
            return ('addAssign', self.vars[s.target.id], self.expr(s.value))
        if isinstance(s, ast.Expr) and isinstance(s.value, ast.Call) and isinstance(s.value.func, ast.Name) \
                and s.value.func.id == 'print' and len(s.value.args) == 1 and not s.value.keywords \
                and not isinstance(s.value.args[0], ast.Starred) and 'print' not in self.vars:
            return ('print', self.expr(s.value.args[0]))
        if isinstance(s, ast.If):
            c = self.expr(s.test)
            t = self.block(s.body)
            return ('ite', c, t, self.block(s.orelse))
        if isinstance(s, ast.Break):
            return ('brk',)
        if isinstance(s, ast.For) and isinstance(s.target, ast.Name) and not s.orelse:
            it = self.expr(s.iter)
            v = self.bind(s.target.id)
            return ('forIn', v, it, self.block(s.body))
        return ('sunsupported', src(s))


def lean_p(t, S):
    k = t[0]
    L = lambda x: lean_p(x, S)  # noqa: E731
    if k == 'var':
        return '(.var %d)' % t[1]
    if k == 'int':
        return '(.int (%d))' % t[1]
    if k == 'eq':
        return '(.eq %s %s)' % (L(t[1]), L(t[2]))
    if k in ('unsupported', 'sunsupported'):
        return '(.unsupported %s)' % S(t[1])
    if k in ('skip', 'brk'):
        return '.' + k
    if k == 'seq':
        return '(.seq %s\n      %s)' % (L(t[1]), L(t[2]))
    if k in ('assign', 'addAssign'):
        return '(.%s %d %s)' % (k, t[1], L(t[2]))
    if k == 'print':
        return '(.print %s)' % L(t[1])
    if k == 'ite':
        return '(.ite %s %s %s)' % (L(t[1]), L(t[2]), L(t[3]))
    if k == 'forIn':
        return '(.forIn %d %s\n      %s)' % (t[1], L(t[2]), L(t[3]))
    raise ValueError(t)


# ---------------------------------------------------------------------------------------------------------------- __main__

def attr_path(e):
    """`a.b.c` -> ['a', 'b', 'c'] or None"""
    parts = []
    while isinstance(e, ast.Attribute):
        parts.append(e.attr)
        e = e.value
    if isinstance(e, ast.Name):
        parts.append(e.id)
        return list(reversed(parts))
    return None


class Main:
    def __init__(self, tree, notes):
        self.notes = notes
        self.alias = {}           # local name -> qualified name
        self.assigns = {}         # module-level NAME -> value node (bound once)
        self.rebound = set()
        self.funcs = {}
        self.classes = {}
        for n in tree.body:
            if isinstance(n, ast.Import):
                for a in n.names:
                    self.alias[a.asname or a.name.split('.')[0]] = a.name if a.asname else a.name.split('.')[0]
            elif isinstance(n, ast.ImportFrom):
                for a in n.names:
                    self.alias[a.asname or a.name] = (n.module or '') + '.' + a.name
            elif isinstance(n, ast.Assign) and len(n.targets) == 1 and isinstance(n.targets[0], ast.Name):
                nm = n.targets[0].id
                if nm in self.assigns:
                    self.rebound.add(nm)
                self.assigns[nm] = n.value
            elif isinstance(n, ast.FunctionDef):
                if n.name in self.funcs:
                    self.rebound.add(n.name)
                self.funcs[n.name] = n
            elif isinstance(n, ast.ClassDef):
                self.classes[n.name] = n

    def qual(self, e):
        """qualified name of a dotted expression through the imports: `click.option` -> 'click.option'"""
        p = attr_path(e)
        if p is None:
            return None
        head = self.alias.get(p[0])
        if head is None:
            return None
        return '.'.join([head] + p[1:])

    # -- BASED_INT
    def convert(self):
        bad = {'base': 0, 'fails': False}
        cls = self.classes.get('BasedIntParamType')
        if cls is None or len(cls.bases) != 1 or self.qual(cls.bases[0]) != 'click.ParamType':
            self.notes.append('class BasedIntParamType(click.ParamType) not found')
            return bad
        fn = next((n for n in cls.body if isinstance(n, ast.FunctionDef) and n.name == 'convert'), None)
        if fn is None or [a.arg for a in fn.args.args] != ['self', 'value', 'param', 'ctx']:
            self.notes.append('BasedIntParamType.convert(self, value, param, ctx) not found')
            return bad
        b = body_of(fn)
        ok = False
        if len(b) == 1 and isinstance(b[0], ast.Try) and len(b[0].body) == 1 and isinstance(b[0].body[0], ast.Return) \
                and len(b[0].handlers) == 1 and not b[0].orelse and not b[0].finalbody:
            r = b[0].body[0].value
            h = b[0].handlers[0]
            if isinstance(r, ast.Call) and isinstance(r.func, ast.Name) and r.func.id == 'int' and len(r.args) == 2 and not r.keywords \
                    and isinstance(r.args[0], ast.Name) and r.args[0].id == 'value' and const_val(r.args[1]) is not None \
                    and const_val(r.args[1])[0] == 'int' \
                    and isinstance(h.type, ast.Name) and h.type.id == 'ValueError' and len(h.body) == 1 \
                    and isinstance(h.body[0], ast.Expr) and isinstance(h.body[0].value, ast.Call) \
                    and attr_path(h.body[0].value.func) == ['self', 'fail']:
                ok = True
                bad = {'base': const_val(r.args[1])[1], 'fails': True}
        if not ok:
            self.notes.append('BasedIntParamType.convert is not `try: return int(value, <base>) except ValueError: self.fail(…)`')
        return bad

    def is_based_int(self, e):
        if isinstance(e, ast.Name) and e.id in self.assigns and e.id not in self.rebound:
            v = self.assigns[e.id]
            return isinstance(v, ast.Call) and isinstance(v.func, ast.Name) and v.func.id == 'BasedIntParamType' \
                and not v.args and not v.keywords and 'BasedIntParamType' in self.classes
        return False

    # -- declarations
    def decl(self, call):
        """`click.option(…)` / `click.argument(…)` -> Decl dict"""
        q = self.qual(call.func)
        is_arg = q == 'click.argument'
        flags = []
        bad = None
        for a in call.args:
            if isinstance(a, ast.Constant) and isinstance(a.value, str):
                flags.append(a.value)
            else:
                bad = 'non-literal spelling ' + src(a)
        kw = {}
        for k in call.keywords:
            if k.arg in ('type', 'default', 'help', 'multiple') and k.arg not in kw:
                kw[k.arg] = k.value
            else:
                bad = 'keyword ' + src(k.value) if k.arg is None else 'keyword %s=%s' % (k.arg, src(k.value))
        d = {'isArgument': is_arg, 'flags': flags, 'default': ('none',), 'multiple': False, 'param': '', 'kind': None}
        # the keyword the callback receives (click's Option._parse_decls / Argument._parse_decls)
        if is_arg:
            if len(flags) == 1:
                d['param'] = flags[0].replace('-', '_').lower()
            else:
                bad = bad or 'argument with %d names' % len(flags)
        else:
            explicit = None
            possible = []
            for f in flags:
                if f.isidentifier():
                    explicit = f
                    continue
                first = f.split('/', 1)[0].strip() if '/' in f else f
                if not first:
                    bad = bad or 'spelling ' + f
                    continue
                stripped = first.lstrip('-')
                possible.append((len(first) - len(stripped), stripped))
            if explicit is not None:
                d['param'] = explicit
            elif possible:
                possible.sort(key=lambda x: -x[0])
                d['param'] = possible[0][1].replace('-', '_').lower()
            else:
                bad = bad or 'option without a spelling'
        if 'default' in kw:
            c = const_val(kw['default'])
            if c is None or c[0] in ('list', 'dict'):
                bad = bad or 'default=' + src(kw['default'])
            else:
                d['default'] = c
        if 'multiple' in kw:
            c = const_val(kw['multiple'])
            if c is None or c[0] != 'bool':
                bad = bad or 'multiple=' + src(kw['multiple'])
            else:
                d['multiple'] = c[1]
        slash = any('/' in f for f in flags)
        if 'type' in kw:
            t = kw['type']
            tq = self.qual(t)
            if slash:
                bad = bad or 'a flag with type=' + src(t)
            elif tq == 'click.INT':
                d['kind'] = ('int',)
            elif tq == 'click.STRING':
                d['kind'] = ('str',)
            elif self.is_based_int(t):
                d['kind'] = ('basedInt',)
            elif isinstance(t, ast.Call) and self.qual(t.func) == 'click.File' and len(t.args) == 1 and not t.keywords \
                    and isinstance(t.args[0], ast.Constant) and isinstance(t.args[0].value, str):
                d['kind'] = ('file', t.args[0].value)
            else:
                bad = bad or 'type=' + src(t)
        elif slash:
            if len(flags) == 1 and d['default'][0] in ('none', 'bool') and not d['multiple']:
                d['kind'] = ('flag',)
            else:
                bad = bad or 'flag declaration ' + src(call)
        elif d['default'][0] in ('none', 'str'):
            d['kind'] = ('str',)
        elif d['default'][0] == 'int':
            d['kind'] = ('int',)                      # click infers the type from the default
        else:
            bad = bad or 'untyped option with default ' + src(kw.get('default'))
        if bad or d['kind'] is None:
            d['kind'] = ('unsupported', (bad or 'kind') + ' in ' + src(call))
        return d

    def decorator_decl(self, dec):
        """a decorator of a command -> Decl dict | 'command' | None"""
        e = dec
        if isinstance(e, ast.Name) and e.id in self.assigns and e.id not in self.rebound:
            e = self.assigns[e.id]
        if isinstance(e, ast.Call):
            q = self.qual(e.func)
            if q in ('click.option', 'click.argument'):
                return self.decl(e)
        return None

    def group_name(self):
        for name, fn in self.funcs.items():
            for d in fn.decorator_list:
                if isinstance(d, ast.Call) and self.qual(d.func) == 'click.group' and not d.args and not d.keywords:
                    return name
        return None

    # -- a command
    def command(self, name, group, pwc_name):
        fn = self.funcs.get(name)
        bad = {'name': name, 'decls': [], 'fnParams': [], 'body': [('unsupported', 'command %s not found' % name)]}
        if fn is None or name in self.rebound:
            self.notes.append('command %s not found' % name)
            return bad
        decls = []
        registered = False
        for d in fn.decorator_list:
            if isinstance(d, ast.Call) and isinstance(d.func, ast.Attribute) and d.func.attr == 'command' \
                    and isinstance(d.func.value, ast.Name) and d.func.value.id == group and not d.args and not d.keywords:
                registered = True
                continue
            x = self.decorator_decl(d)
            if x is None:
                self.notes.append('%s: decorator %s' % (name, src(d)))
            else:
                decls.append(x)
        if not registered:
            self.notes.append('%s is not registered by @%s.command()' % (name, group))
        a = fn.args
        if a.vararg or a.kwarg or a.kwonlyargs or a.posonlyargs or a.defaults:
            self.notes.append('%s: parameter list %s' % (name, src(a)))
        params = [x.arg for x in a.args]
        decls.sort(key=lambda d: d['param'])
        stmts = body_of(fn)
        out = []
        pvar = None
        for s in stmts:
            t = None
            if isinstance(s, ast.Assign) and len(s.targets) == 1:
                tg = s.targets[0]
                if isinstance(tg, ast.Name) and pvar is None and isinstance(s.value, ast.Call) and not s.value.keywords \
                        and tg.id not in params:
                    q = self.qual(s.value.func) or ''
                    cls = q.rsplit('.', 1)[-1]
                    if q in ('pykdebugparser.pykdebugparser.PyKdebugParser', 'pykdebugparser.kd_buf_parser.KdBufParser'):
                        pvar = tg.id
                        t = ('newParser', cls, [self.cexpr(x, params, pvar) for x in s.value.args])
                elif isinstance(tg, ast.Attribute) and isinstance(tg.value, ast.Name) and tg.value.id == pvar and pvar is not None:
                    t = ('setAttr', tg.attr, self.cexpr(s.value, params, pvar))
            elif isinstance(s, ast.Expr) and isinstance(s.value, ast.Call) and not s.value.keywords and pvar is not None:
                c = s.value
                if isinstance(c.func, ast.Name) and c.func.id == pwc_name and pwc_name not in params and len(c.args) == 2:
                    m = self.method_call(c.args[0], pvar)
                    if m is not None:
                        t = ('printWithCount', m[0], self.cexpr(m[1], params, pvar), self.cexpr(c.args[1], params, pvar))
                elif isinstance(c.func, ast.Name) and c.func.id == 'list' and 'list' not in params and len(c.args) == 1:
                    m = self.method_call(c.args[0], pvar)
                    if m is not None:
                        t = ('drain', m[0], self.cexpr(m[1], params, pvar))
            if t is None and isinstance(s, ast.Expr) and isinstance(s.value, ast.Call) and pvar is not None:
                c = s.value                                 # print(json.dumps(parser.<attr>, indent=<n>))
                if isinstance(c.func, ast.Name) and c.func.id == 'print' and 'print' not in params and len(c.args) == 1 \
                        and not c.keywords and isinstance(c.args[0], ast.Call) and self.qual(c.args[0].func) == 'json.dumps':
                    j = c.args[0]
                    if len(j.args) == 1 and len(j.keywords) == 1 and j.keywords[0].arg == 'indent' \
                            and const_val(j.keywords[0].value) is not None and const_val(j.keywords[0].value)[0] == 'int' \
                            and isinstance(j.args[0], ast.Attribute) and isinstance(j.args[0].value, ast.Name) \
                            and j.args[0].value.id == pvar:
                        t = ('printJson', j.args[0].attr, const_val(j.keywords[0].value)[1])
            out.append(t if t is not None else ('unsupported', src(s)))
        # consecutive assignments to pairwise distinct attributes commute: sorted by attribute
        norm, run = [], []

        def flush():
            attrs = [x[1] for x in run]
            norm.extend(sorted(run, key=lambda x: x[1]) if len(set(attrs)) == len(attrs) else run)
            run.clear()
        for t in out:
            if t[0] == 'setAttr' and t[2][0] != 'unsupported':
                run.append(t)
            else:
                flush()
                norm.append(t)
        flush()
        return {'name': name, 'decls': decls, 'fnParams': sorted(params), 'body': norm}

    def method_call(self, e, pvar):
        """`parser.<m>(arg)` -> (m, arg)"""
        if isinstance(e, ast.Call) and not e.keywords and len(e.args) == 1 and isinstance(e.func, ast.Attribute) \
                and isinstance(e.func.value, ast.Name) and e.func.value.id == pvar and not isinstance(e.args[0], ast.Starred):
            return e.func.attr, e.args[0]
        return None

    def cexpr(self, e, params, pvar):
        if isinstance(e, ast.Name) and e.id in params:
            return ('name', e.id)
        if isinstance(e, ast.Call) and isinstance(e.func, ast.Name) and e.func.id == 'list' and 'list' not in params \
                and len(e.args) == 1 and not e.keywords and isinstance(e.args[0], ast.Name) and e.args[0].id in params:
            return ('listOf', e.args[0].id)
        c = const_val(e)
        if c is not None:
            return ('lit', c)
        return ('unsupported', src(e))


# ---------------------------------------------------------------------------------------------------------------- pykdebugparser.py

def translate_init(cls, notes):
    fn = next((n for n in cls.body if isinstance(n, ast.FunctionDef) and n.name == '__init__'), None)
    if fn is None:
        notes.append('PyKdebugParser.__init__ not found')
        return []
    a = fn.args
    if [x.arg for x in a.args] != ['self'] or a.vararg or a.kwarg or a.kwonlyargs or a.posonlyargs:
        notes.append('PyKdebugParser.__init__ takes parameters: ' + src(a))
    out = []
    for s in body_of(fn):
        if isinstance(s, ast.Assign) and len(s.targets) == 1 and attr_path(s.targets[0]) is not None \
                and len(attr_path(s.targets[0])) == 2 and attr_path(s.targets[0])[0] == 'self':
            c = const_val(s.value)
            out.append((s.targets[0].attr, ('lit', c) if c is not None else ('unsupported', src(s.value))))
        else:
            notes.append('__init__: statement ' + src(s))
    return out


def translate_formatted(cls, name, imports, notes):
    bad = {'hasCodesParam': False, 'formatter': '', 'fmtArgs': [('unsupported', name + ' not found')], 'source': '', 'srcArgs': []}
    fn = next((n for n in cls.body if isinstance(n, ast.FunctionDef) and n.name == name), None)
    if fn is None:
        notes.append('PyKdebugParser.%s not found' % name)
        return bad
    a = fn.args
    params = [x.arg for x in a.args]
    if a.vararg or a.kwarg or a.kwonlyargs or a.posonlyargs or not params or params[0] != 'self' or len(params) not in (2, 3):
        notes.append('%s: parameter list %s' % (name, src(a)))
        return bad
    has_codes = len(params) == 3
    if has_codes:
        if len(a.defaults) != 1 or const_val(a.defaults[0]) != ('none',):
            notes.append('%s: the code-table parameter has no default None' % name)
            return bad
    elif a.defaults:
        notes.append('%s: parameter list %s' % (name, src(a)))
        return bad
    kd = params[1]
    tc = params[2] if has_codes else None

    def is_codes_or_default(e):
        """`default_trace_codes() if tc is None else tc` (or `tc if tc is not None else default_trace_codes()`)"""
        def is_default(x):
            return isinstance(x, ast.Call) and isinstance(x.func, ast.Name) and x.func.id == 'default_trace_codes' \
                and not x.args and not x.keywords and imports.get('default_trace_codes') == 'pykdebugparser.trace_codes.default_trace_codes'

        def is_tc(x):
            return tc is not None and isinstance(x, ast.Name) and x.id == tc
        if not isinstance(e, ast.IfExp) or not isinstance(e.test, ast.Compare) or len(e.test.ops) != 1 \
                or not is_tc(e.test.left) or const_val(e.test.comparators[0]) != ('none',):
            return False
        if isinstance(e.test.ops[0], ast.Is):
            return is_default(e.body) and is_tc(e.orelse)
        if isinstance(e.test.ops[0], ast.IsNot):
            return is_tc(e.body) and is_default(e.orelse)
        return False

    body = body_of(fn)
    alias = set()
    for s in body[:-1]:
        if isinstance(s, ast.Assign) and len(s.targets) == 1 and isinstance(s.targets[0], ast.Name) \
                and s.targets[0].id not in params and s.targets[0].id not in alias and is_codes_or_default(s.value):
            alias.add(s.targets[0].id)
        else:
            notes.append('%s: statement before the return: %s' % (name, src(s)))
    if not body or not isinstance(body[-1], ast.Return) or body[-1].value is None:
        notes.append('%s: no final return' % name)
        return bad
    r = body[-1].value
    call = var = it = None
    if isinstance(r, ast.Call) and isinstance(r.func, ast.Name) and r.func.id == 'map' and len(r.args) == 2 and not r.keywords \
            and isinstance(r.args[0], ast.Lambda):
        lam = r.args[0]
        la = lam.args
        if len(la.args) == 1 and not (la.vararg or la.kwarg or la.kwonlyargs or la.posonlyargs or la.defaults):
            var, call, it = la.args[0].arg, lam.body, r.args[1]
    elif isinstance(r, ast.GeneratorExp) and len(r.generators) == 1 and not r.generators[0].ifs and not r.generators[0].is_async \
            and isinstance(r.generators[0].target, ast.Name):
        var, call, it = r.generators[0].target.id, r.elt, r.generators[0].iter
    if var is None or var in params or var in alias:
        notes.append('%s: the returned value is not map(lambda x: …, …): %s' % (name, src(r)))
        return bad

    def farg(e):
        if isinstance(e, ast.Name) and e.id == kd:
            return ('kdebug',)
        if isinstance(e, ast.Name) and tc is not None and e.id == tc:
            return ('traceCodes',)
        if isinstance(e, ast.Name) and e.id in alias:
            return ('codesOrDefault',)
        if is_codes_or_default(e):
            return ('codesOrDefault',)
        return ('unsupported', src(e))

    def self_call(e):
        if isinstance(e, ast.Call) and not e.keywords and isinstance(e.func, ast.Attribute) and isinstance(e.func.value, ast.Name) \
                and e.func.value.id == 'self' and not any(isinstance(x, ast.Starred) for x in e.args):
            return e.func.attr, list(e.args)
        return None
    f = self_call(call)
    s = self_call(it)
    if f is None or s is None or not f[1] or not (isinstance(f[1][0], ast.Name) and f[1][0].id == var):
        notes.append('%s: not self.<formatter>(x, …) over self.<source>(…): %s' % (name, src(r)))
        return bad
    return {'hasCodesParam': has_codes, 'formatter': f[0], 'fmtArgs': [farg(x) for x in f[1][1:]], 'source': s[0],
            'srcArgs': [farg(x) for x in s[1]]}


# ---------------------------------------------------------------------------------------------------------------- entry

def translate(repo):
    notes = []
    with open(os.path.join(repo, 'pykdebugparser', '__main__.py')) as fd:
        tree = ast.parse(fd.read())
    m = Main(tree, notes)
    res = {}
    pwc_name = 'print_with_count'
    fn = m.funcs.get(pwc_name)
    pwc_notes = []
    if fn is None or pwc_name in m.rebound or fn.decorator_list:
        pwc_notes.append('print_with_count not found')
        res['printWithCount'] = (0, ('sunsupported', 'print_with_count not found'))
    else:
        a = fn.args
        if a.vararg or a.kwarg or a.kwonlyargs or a.posonlyargs or a.defaults:
            pwc_notes.append('print_with_count: parameter list ' + src(a))
        p = Pwc(fn)
        res['printWithCount'] = (p.nparams, p.block(body_of(fn)))
    res['pwcNotes'] = pwc_notes
    res['basedInt'] = m.convert()
    group = m.group_name()
    if group is None:
        notes.append('no @click.group() function')
    res['commands'] = {c: m.command(c, group, pwc_name) for c in COMMANDS}
    extra = sorted(n for n, f in m.funcs.items() if n not in COMMANDS and any(
        isinstance(d, ast.Call) and isinstance(d.func, ast.Attribute) and d.func.attr == 'command' for d in f.decorator_list))
    if extra:
        notes.append('further commands: ' + ', '.join(extra))
    with open(os.path.join(repo, 'pykdebugparser', 'pykdebugparser.py')) as fd:
        tree2 = ast.parse(fd.read())
    imports = {}
    for n in tree2.body:
        if isinstance(n, ast.ImportFrom):
            for a in n.names:
                imports[a.asname or a.name] = (n.module or '') + '.' + a.name
    cls = next((n for n in tree2.body if isinstance(n, ast.ClassDef) and n.name == 'PyKdebugParser'), None)
    if cls is None:
        notes.append('class PyKdebugParser not found')
        res['init'] = []
        res['formatted'] = {f: {'hasCodesParam': False, 'formatter': '', 'fmtArgs': [('unsupported', 'no class')], 'source': '',
                                'srcArgs': []} for f, _ in FORMATTED}
    else:
        res['init'] = translate_init(cls, notes)
        res['formatted'] = {f: translate_formatted(cls, f, imports, notes) for f, _ in FORMATTED}
    return res, notes


def generate(repo, write_if_changed, lean_str):
    res, notes = translate(repo)
    S = lean_str

    def val(v):
        k = v[0]
        if k == 'none':
            return '.none'
        if k == 'bool':
            return '(.bool %s)' % ('true' if v[1] else 'false')
        if k == 'int':
            return '(.int (%d))' % v[1]
        if k == 'str':
            return '(.str %s)' % S(v[1])
        if k == 'list':
            return '(.list [])'
        if k == 'dict':
            return '.dict'
        raise ValueError(v)

    def expr(e):
        k = e[0]
        if k == 'lit':
            return '(.lit %s)' % val(e[1])
        if k in ('name', 'listOf', 'unsupported'):
            return '(.%s %s)' % (k, S(e[1]))
        raise ValueError(e)

    def kind(k):
        if k[0] in ('int', 'basedInt', 'str', 'flag'):
            return '.' + k[0]
        return '(.%s %s)' % (k[0], S(k[1]))

    def decl(d):
        return ('{ param := %s, isArgument := %s, flags := [%s], kind := %s, default := %s, multiple := %s }'
                % (S(d['param']), 'true' if d['isArgument'] else 'false', ', '.join(S(f) for f in d['flags']), kind(d['kind']),
                   val(d['default']), 'true' if d['multiple'] else 'false'))

    def stmt(t):
        k = t[0]
        if k == 'newParser':
            return '.newParser %s [%s]' % (S(t[1]), ', '.join(expr(x) for x in t[2]))
        if k == 'setAttr':
            return '.setAttr %s %s' % (S(t[1]), expr(t[2]))
        if k == 'printWithCount':
            return '.printWithCount %s %s %s' % (S(t[1]), expr(t[2]), expr(t[3]))
        if k == 'drain':
            return '.drain %s %s' % (S(t[1]), expr(t[2]))
        if k == 'printJson':
            return '.printJson %s (%d)' % (S(t[1]), t[2])
        if k == 'unsupported':
            return '.unsupported %s' % S(t[1])
        raise ValueError(t)

    def farg(a):
        return '.' + a[0] if a[0] != 'unsupported' else '(.unsupported %s)' % S(a[1])

    out = ['import KdVerif.Model.PyIRCli', 'namespace KdVerif.Gen.PyIRCli', 'open KdVerif.PyIRCli', '',
           '/-! The glue of pykdebugparser/__main__.py (`print_with_count`, `BASED_INT`, the seven commands with their option',
           '    declarations) and of pykdebugparser/pykdebugparser.py (`PyKdebugParser.__init__`, the four `formatted_*` maps),',
           '    translated from the source text into the IR of `Model/PyIRCli` (tools/gen_pyir_cli.py). -/', '']
    n, body = res['printWithCount']
    out.append('def printWithCount : Func := { params := %d, body :=\n    %s }\n' % (n, lean_p(body, S)))
    out.append('def basedInt : Convert := { base := (%d), valueErrorFails := %s }\n'
               % (res['basedInt']['base'], 'true' if res['basedInt']['fails'] else 'false'))
    for c in COMMANDS:
        cm = res['commands'][c]
        out.append('def %s : Command :=\n  { name := %s\n    decls := [%s]\n    fnParams := [%s]\n    body := [%s] }\n'
                   % (c, S(cm['name']), ',\n      '.join(decl(d) for d in cm['decls']), ', '.join(S(p) for p in cm['fnParams']),
                      ',\n      '.join(stmt(t) for t in cm['body'])))
    out.append('def init : List (String × Expr) :=\n  [%s]\n' % ',\n   '.join('(%s, %s)' % (S(a), expr(e)) for a, e in res['init']))
    for f, nm in FORMATTED:
        x = res['formatted'][f]
        out.append('def %s : Formatted :=\n  { hasCodesParam := %s, formatter := %s, fmtArgs := [%s], source := %s, srcArgs := [%s] }\n'
                   % (nm, 'true' if x['hasCodesParam'] else 'false', S(x['formatter']), ', '.join(farg(a) for a in x['fmtArgs']),
                      S(x['source']), ', '.join(farg(a) for a in x['srcArgs'])))
    out.append('def prog : Prog :=\n  { printWithCount := printWithCount\n    init := init\n    formatted := [%s] }\n'
               % ', '.join('(%s, %s)' % (S(f), nm) for f, nm in FORMATTED))
    out.append('def commands : List Command := [%s]\n' % ', '.join(COMMANDS))
    out.append('/-- What the translator could not express outside the terms (must be empty): about `print_with_count`, … -/')
    out.append('def pwcNotes : List String := [' + ', '.join(S(x) for x in res['pwcNotes']) + ']\n')
    out.append('/-- … and about everything (those included). -/')
    out.append('def notes : List String := pwcNotes ++ [' + ', '.join(S(x) for x in notes) + ']\n')
    out.append('end KdVerif.Gen.PyIRCli\n')
    return write_if_changed('PyIRCli.lean', '\n'.join(out))
