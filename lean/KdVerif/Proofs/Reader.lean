import KdVerif.Model.ContainerV2
import KdVerif.Proofs.Bytes
/-
  Lemmas about the reader monad and the construct primitives, in "unread suffix" form:
  if the unread suffix is `x ++ s` and a primitive is built to consume `x`, it returns the value
  encoded by `x` and leaves `s` unread.
-/
namespace KdVerif

theorem RM.bind_ok {α β : Type} {m : RM α} {f : α → RM β} {r r' : Reader} {a : α}
    (h : m r = (.ok a, r')) : (m >>= f) r = f a r' := by
  show RM.bind' m f r = _
  unfold RM.bind'; rw [h]

theorem RM.bind_err {α β : Type} {m : RM α} {f : α → RM β} {r r' : Reader} {e : PyErr}
    (h : m r = (.error e, r')) : (m >>= f) r = (.error e, r') := by
  show RM.bind' m f r = _
  unfold RM.bind'; rw [h]

@[simp] theorem RM.pure_apply {α : Type} (a : α) (r : Reader) : (pure a : RM α) r = (.ok a, r) := rfl

namespace Reader

@[simp] theorem read_fst (r : Reader) (n : Nat) : (r.read n).1 = r.rest.take n := rfl
@[simp] theorem read_data (r : Reader) (n : Nat) : (r.read n).2.data = r.data := rfl
@[simp] theorem read_pos (r : Reader) (n : Nat) : (r.read n).2.pos = r.pos + min n r.rest.length := by
  simp [read, List.length_take]
@[simp] theorem seekTo_data (r : Reader) (p : Nat) : (r.seekTo p).data = r.data := rfl
@[simp] theorem seekTo_pos (r : Reader) (p : Nat) : (r.seekTo p).pos = p := rfl

theorem read_rest (r : Reader) (n : Nat) : (r.read n).2.rest = r.rest.drop n := by
  simp only [rest, read, List.length_take, List.length_drop, List.drop_drop]
  by_cases h : n ≤ r.data.length - r.pos
  · rw [Nat.min_eq_left h]
  · have h' : r.data.length - r.pos ≤ n := by omega
    rw [Nat.min_eq_right h', List.drop_eq_nil_of_le (by omega), List.drop_eq_nil_of_le (by omega)]

/-- `r'` continues `r` on the same data with `s` unread. -/
def Cont (r r' : Reader) (s : Bytes) : Prop := r'.rest = s ∧ r'.data = r.data

theorem Cont.trans_data {r r' r'' : Reader} {s s' : Bytes} (h : Cont r r' s) (h' : Cont r' r'' s') :
    Cont r r'' s' := ⟨h'.1, h'.2.trans h.2⟩

theorem read_cont {r : Reader} {x s : Bytes} (h : r.rest = x ++ s) :
    (r.read x.length).1 = x ∧ Cont r (r.read x.length).2 s := by
  refine ⟨?_, ?_, rfl⟩
  · simp [h]
  · rw [read_rest, h]; simp

end Reader

open Reader

theorem readExact_eq (n : Nat) (r : Reader) : readExact n r =
    if ssizeLimit ≤ n then (.error .streamError, r.bump)
    else if (r.read n).1.length = n then (.ok (r.read n).1, (r.read n).2)
    else (.error .streamError, (r.read n).2) := rfl

theorem readExact_small {n : Nat} (h : n < ssizeLimit) (r : Reader) : readExact n r =
    if (r.read n).1.length = n then (.ok (r.read n).1, (r.read n).2) else (.error .streamError, (r.read n).2) := by
  rw [readExact_eq, if_neg (Nat.not_le.mpr h)]

theorem readExact_err {n : Nat} {r r' : Reader} {e : PyErr} (h : readExact n r = (.error e, r')) :
    e = .streamError := by
  rw [readExact_eq] at h
  split at h
  · simp only [Prod.mk.injEq, Except.error.injEq] at h; exact h.1.symm
  · split at h <;> simp only [Prod.mk.injEq, Except.error.injEq] at h
    · simp at h
    · exact h.1.symm

theorem readExact_cont {r : Reader} {x s : Bytes} {n : Nat} (h : r.rest = x ++ s) (hn : x.length = n)
    (hlt : n < ssizeLimit := by decide) :
    ∃ r', readExact n r = (.ok x, r') ∧ Cont r r' s := by
  subst hn
  obtain ⟨h1, h2⟩ := read_cont h
  refine ⟨(r.read x.length).2, ?_, h2⟩
  rw [readExact_small hlt]
  simp only [h1, if_true]

theorem padding_cont {r : Reader} {x s : Bytes} {n : Nat} (h : r.rest = x ++ s) (hn : x.length = n)
    (hlt : n < ssizeLimit := by decide) :
    ∃ r', padding n r = (.ok (), r') ∧ Cont r r' s := by
  obtain ⟨r', h1, h2⟩ := readExact_cont h hn hlt
  exact ⟨r', by unfold padding; rw [RM.bind_ok h1]; rfl, h2⟩

theorem int32ul_cont {r : Reader} {v : Nat} {s : Bytes} (h : r.rest = toLE 4 v ++ s) (hv : v < 2 ^ 32) :
    ∃ r', int32ul r = (.ok v, r') ∧ Cont r r' s := by
  obtain ⟨r', h1, h2⟩ := readExact_cont h (toLE_length 4 v)
  refine ⟨r', ?_, h2⟩
  unfold int32ul; rw [RM.bind_ok h1, RM.pure_apply, leNat_toLE]
  have : v % 256 ^ 4 = v := Nat.mod_eq_of_lt (by omega)
  rw [this]

theorem int64ul_cont {r : Reader} {v : Nat} {s : Bytes} (h : r.rest = toLE 8 v ++ s) (hv : v < 2 ^ 64) :
    ∃ r', int64ul r = (.ok v, r') ∧ Cont r r' s := by
  obtain ⟨r', h1, h2⟩ := readExact_cont h (toLE_length 8 v)
  refine ⟨r', ?_, h2⟩
  unfold int64ul; rw [RM.bind_ok h1, RM.pure_apply, leNat_toLE]
  have : v % 256 ^ 8 = v := Nat.mod_eq_of_lt (by omega)
  rw [this]

end KdVerif
