import KdVerif.Spec.PyIRRdExpected
import KdVerif.Proofs.Trunc
import KdVerif.Proofs.Cost
/-
  The expected IR of the reader code (`Spec/PyIRRdExpected`), run by the interpreter of `Model/PyIRRd`, is the
  hand model of `Model/ContainerV2|V3`: `seekUntil`, `setThreadMap`, `parseV2`, the whole of `parseV3` (prefix up to
  the end of the chunk loop: `chunk_loop`; tail: `tail_exec` = `tailV3`, with `block_body` = `dispatchBlock`,
  `blocks_loop` = `dispatchBlocks`, `log_loop` = `logLoop`), and the dispatch of `parse` — for every reader state.
  Core Lean only.
-/
namespace KdVerif.PyIRRd
open Reader Expected

/-! ### reader steps -/

theorem read1_cons (r : Reader) (b : Nat) (t : Bytes) (h : r.rest = b :: t) :
    (r.read 1).1 = [b] ∧ (r.read 1).2 = r.stepBytes 1 0 ∧ (r.read 1).2.rest = t := by
  refine ⟨by simp [h], ?_, by rw [read_rest, h]; rfl⟩
  simp [Reader.read, Reader.stepBytes, h]

theorem read1_nil (r : Reader) (h : r.rest = []) : (r.read 1).1 = [] ∧ (r.read 1).2 = r.stepBytes 0 1 := by
  refine ⟨by simp [h], ?_⟩
  simp [Reader.read, Reader.stepBytes, h]

theorem stepBytes_stepBytes (r : Reader) (a k e : Nat) : (r.stepBytes a 0).stepBytes k e = r.stepBytes (a + k) e := by
  simp [Reader.stepBytes, Nat.add_assoc]

theorem stepBytes_zero (r : Reader) : r.stepBytes 0 0 = r := by
  simp [Reader.stepBytes]

theorem seekAux_shift (tag : Bytes) : ∀ (rest found : Bytes) (n : Nat),
    seekAux tag rest found (n + 1) = ((seekAux tag rest found n).1, (seekAux tag rest found n).2 + 1)
  | [], found, n => by simp [seekAux]
  | b :: t, found, n => by
    simp only [seekAux]
    split
    · rfl
    · exact seekAux_shift tag t _ (n + 1)

/-! ### seek_until -/

theorem seek_loop (tag : Bytes) : ∀ (rest : Bytes) (fuel : Nat) (found : Bytes) (st : St Unit),
    st.rd.rest = rest → rest.length + 1 ≤ fuel →
    st.env 0 = some (.bytes tag) → st.env 1 = some (.bytes found) →
    ∃ st', whileLoop (fun s => evalC s.env seekCond) (fun s => exec leafParams seekBody s) fuel st =
        ((if (seekAux tag rest found 0).1 then Signal.normal else Signal.err .eof), st') ∧
      st'.rd = st.rd.stepBytes (seekAux tag rest found 0).2 (if (seekAux tag rest found 0).1 then 0 else 1) := by
  intro rest
  induction rest with
  | nil =>
    intro fuel found st hr hf h0 h1
    obtain ⟨f, rfl⟩ : ∃ f, fuel = f + 1 := ⟨fuel - 1, by simp at hf; omega⟩
    by_cases hm : found = tag
    · refine ⟨st, ?_, ?_⟩
      · simp [whileLoop, evalC, seekCond, evalB, h0, h1, hm, seekAux]
      · simp [seekAux, hm, stepBytes_zero]
    · obtain ⟨e1, e2⟩ := read1_nil st.rd hr
      refine ⟨{ st with rd := (st.rd.read 1).2, env := st.env.set 2 (.bytes (st.rd.read 1).1) }, ?_, ?_⟩
      · simp [whileLoop, evalC, seekCond, evalB, h0, h1, hm, seekAux, seekBody, exec, evalI, hr, Env.set]
      · simp [seekAux, hm, e2]
  | cons b t ih =>
    intro fuel found st hr hf h0 h1
    obtain ⟨f, rfl⟩ : ∃ f, fuel = f + 1 := ⟨fuel - 1, by simp at hf; omega⟩
    by_cases hm : found = tag
    · refine ⟨st, ?_, ?_⟩
      · simp [whileLoop, evalC, seekCond, evalB, h0, h1, hm, seekAux]
      · simp [seekAux, hm, stepBytes_zero]
    · obtain ⟨e1, e2, e3⟩ := read1_cons st.rd b t hr
      let st1 : St Unit :=
        { st with rd := (st.rd.read 1).2,
                  env := ((st.env.set 2 (.bytes [b])).set 1 (.bytes (found.drop 1 ++ [b]))) }
      have hbody : exec leafParams seekBody st = (.normal, st1) := by
        simp [seekBody, exec, evalI, evalC, evalB, hr, Env.set, h1, st1]
      obtain ⟨st', hl, hrd⟩ := ih f (found.drop 1 ++ [b]) st1 e3 (by simp at hf; omega)
        (by simp [st1, Env.set, h0]) (by simp [st1, Env.set])
      refine ⟨st', ?_, ?_⟩
      · have hc : evalC st.env seekCond = .ok true := by simp [evalC, seekCond, evalB, h0, h1, hm]
        rw [whileLoop]
        simp only [hc, hbody, hl]
        simp [seekAux, hm, seekAux_shift]
      · rw [hrd]
        simp only [seekAux, hm, if_false, seekAux_shift, st1, e2]
        rw [stepBytes_stepBytes, Nat.add_comm]

/-- `seek_until`, interpreted, is the model's `seekUntil`: same result, same reader, same read counters. -/
theorem runSeek_expected (tag : Bytes) (r : Reader) : runSeek Expected.seekUntil tag r = KdVerif.seekUntil tag r := by
  rw [seekUntil_eq]
  let st1 : St Unit :=
    ⟨(Env.empty.set 0 (.bytes tag)).set 1 (.bytes (r.read tag.length).1), (r.read tag.length).2, Tables.empty, Tables.empty, {}, []⟩
  obtain ⟨st', hl, hrd⟩ := seek_loop tag (r.read tag.length).2.rest (loopFuel st1) (r.read tag.length).1 st1 rfl
    (by simp [loopFuel, st1]) (by simp [st1, Env.set]) (by simp [st1, Env.set])
  have hexec : exec leafParams Expected.seekUntil.body ⟨Env.empty.set 0 (.bytes tag), r, Tables.empty, Tables.empty, {}, []⟩ =
      ((if (seekAux tag (r.read tag.length).2.rest (r.read tag.length).1 0).1 then Signal.normal else Signal.err .eof), st') := by
    simp only [Expected.seekUntil, exec, evalI, evalB, Env.set, if_true]
    exact hl
  simp only [runSeek, Expected.seekUntil, ne_eq, not_true_eq_false, if_false]
  have hexec' := hexec
  simp only [Expected.seekUntil] at hexec'
  rw [hexec']
  cases hb : (seekAux tag (r.read tag.length).2.rest (r.read tag.length).1 0).1
  · simp only [hb, Bool.false_eq_true, if_false] at hrd ⊢
    rw [hrd]
  · simp only [hb, if_true] at hrd ⊢
    rw [hrd]

/-! ### set_thread_map -/

theorem storeAll_expected (t : Tables) (e : ThreadEntry) :
    storeAll t e [(.threadsPids, .tid, .pid), (.pidsNames, .pid, .process)] = .ok (t.add e) := by
  simp [storeAll, storeOne, natField, Tables.add]

theorem forThreads_expected : ∀ (l : List ThreadEntry) (t : Tables),
    forThreads [(.threadsPids, .tid, .pid), (.pidsNames, .pid, .process)] t l = .ok (l.foldl Tables.add t)
  | [], t => rfl
  | e :: es, t => by
    rw [forThreads, storeAll_expected]
    exact forThreads_expected es (t.add e)

/-- `set_thread_map`, interpreted, is the model's `setThreadMap` (clear both tables, then fill in order). -/
theorem execTm_expected (l : List ThreadEntry) (t : Tables) :
    execTm l Expected.setThreadMap t = .ok (KdVerif.setThreadMap t l) := by
  simp only [Expected.setThreadMap, execTm, forThreads_expected, KdVerif.setThreadMap]
  rfl

theorem params_seek {ε : Type} (dec : Bytes → Except PyErr ε) (plist : Bytes → Option PView) :
    (Expected.prog.params dec plist).seek = KdVerif.seekUntil := by
  funext tag r
  exact runSeek_expected tag r

theorem params_setTm {ε : Type} (dec : Bytes → Except PyErr ε) (plist : Bytes → Option PView) :
    (Expected.prog.params dec plist).setTm = KdVerif.setThreadMap := by
  funext t l
  simp [Program.params, Expected.prog, execTm_expected]

/-! ### parse: the dispatch -/

theorem find_versions (v : Bytes) :
    (List.find? (fun kv : BConst × Method => kv.1.val == v) [(.v2, .parseV2), (.v3, .parseV3)]).map (·.2) =
      if v = Gen.Consts.RAW_VERSION2_BYTES then some Method.parseV2
      else if v = Gen.Consts.RAW_VERSION3_BYTES then some Method.parseV3 else none := by
  by_cases h2 : v = Gen.Consts.RAW_VERSION2_BYTES
  · subst h2; simp [List.find?, BConst.val]
  · have b2 : (Gen.Consts.RAW_VERSION2_BYTES == v) = false := by
      rw [beq_eq_false_iff_ne]; exact fun e => h2 e.symm
    by_cases h3 : v = Gen.Consts.RAW_VERSION3_BYTES
    · subst h3; simp [List.find?, BConst.val, b2, h2]
    · have b3 : (Gen.Consts.RAW_VERSION3_BYTES == v) = false := by
        rw [beq_eq_false_iff_ne]; exact fun e => h3 e.symm
      simp [List.find?, BConst.val, b2, b3, h2, h3]

theorem runDispatch_expected (data : Bytes) :
    runDispatch Expected.parse data =
      .ok ((if ((Reader.ofBytes data).read Gen.Consts.RAW_VERSION_SIZE).1 = Gen.Consts.RAW_VERSION2_BYTES then some Method.parseV2
            else if ((Reader.ofBytes data).read Gen.Consts.RAW_VERSION_SIZE).1 = Gen.Consts.RAW_VERSION3_BYTES then some Method.parseV3
            else none),
           ((Reader.ofBytes data).read Gen.Consts.RAW_VERSION_SIZE).2) := by
  simp only [runDispatch, Expected.parse, evalI, IConst.val]
  rw [find_versions]

/-! ### parse_v2 -/

def sigOf : Option PyErr → Signal
  | none => .normal
  | some e => .err e

theorem record_loop {ε : Type} (P : Params ε) : ∀ (g f : Nat) (st : St ε), g ≤ f →
    (recordLoop P.dec g st.rd).2.1 ≠ some .hang →
    ∃ st', whileLoop (fun s => evalC s.env .tt) (fun s => exec P recordBody s) f st =
        (sigOf (recordLoop P.dec g st.rd).2.1, st') ∧
      st'.rd = (recordLoop P.dec g st.rd).2.2 ∧ st'.outs = st.outs ++ (recordLoop P.dec g st.rd).1.map .ev ∧
      st'.tables = st.tables ∧ st'.tmTables = st.tmTables ∧ st'.md = st.md
  | 0, f, st, _, h => by simp [recordLoop] at h
  | g + 1, f, st, hgf, h => by
    obtain ⟨f', rfl⟩ : ∃ f', f = f' + 1 := ⟨f - 1, by omega⟩
    have hk : evalI st.env (.const .keventSize) = .ok 64 := rfl
    by_cases hp : (st.rd.read 64).1 = []
    · refine ⟨{ st with rd := (st.rd.read 64).2, env := st.env.set 1 (.bytes (st.rd.read 64).1) }, ?_, ?_⟩
      · simp only [whileLoop, evalC, recordBody, exec, hk, evalB, Env.set, if_true, hp, decide_true, recordLoop, sigOf]
      · simp only [recordLoop, hp, if_true, List.map_nil, List.append_nil, and_self]
    · cases hd : P.dec (st.rd.read 64).1 with
      | error e =>
        refine ⟨{ st with rd := (st.rd.read 64).2, env := st.env.set 1 (.bytes (st.rd.read 64).1) }, ?_, ?_⟩
        · simp only [whileLoop, evalC, recordBody, exec, hk, evalB, Env.set, if_true, hp, decide_false, recordLoop,
            if_false, hd, sigOf]
        · simp only [recordLoop, hp, if_false, hd, List.map_nil, List.append_nil, and_self]
      | ok ev =>
        let st2 : St ε :=
          { st with rd := (st.rd.read 64).2, env := st.env.set 1 (.bytes (st.rd.read 64).1), outs := st.outs ++ [.ev ev] }
        have hbody : exec P recordBody st = (.normal, st2) := by
          simp only [recordBody, exec, hk, evalC, evalB, Env.set, if_true, hp, decide_false, hd, st2]
        have hrec : recordLoop P.dec (g + 1) st.rd =
            (ev :: (recordLoop P.dec g (st.rd.read 64).2).1, (recordLoop P.dec g (st.rd.read 64).2).2.1,
              (recordLoop P.dec g (st.rd.read 64).2).2.2) := by
          simp only [recordLoop, hp, if_false, hd]
        rw [hrec] at h ⊢
        obtain ⟨st', hl, h1, h2, h3, h4, h5⟩ := record_loop P g f' st2 (by omega) h
        refine ⟨st', ?_, h1, ?_, h3, h4, h5⟩
        · rw [whileLoop]
          simp only [evalC, hbody]
          exact hl
        · rw [h2]; simp [st2]

theorem filterMap_ev_map {ε : Type} (l : List ε) : (l.map (Out.ev : ε → Out ε)).filterMap Out.ev? = l := by
  induction l with
  | nil => rfl
  | cons a t ih => simp only [List.map_cons, List.filterMap_cons, Out.ev?, ih]

theorem filterMap_ev_comp {ε : Type} (l : List ε) : l.filterMap (Out.ev? ∘ (Out.ev : ε → Out ε)) = l := by
  rw [← List.filterMap_map]; exact filterMap_ev_map l

/-- `parse_v2`, interpreted, is the model's `parseV2`: same events, same final exception, same tables, same reader
    (position and read counters) — for every reader state and every record decoder that rejects short records. -/
theorem runGen_parseV2 {ε : Type} (dec : Bytes → Except PyErr ε) (plist : Bytes → Option PView)
    (hdec : RejectsShort dec) (hnh : NoHangDec dec) (prior : Tables) (hdr : Option (List Nat × Bytes)) (r : Reader)
    (g : Good r) :
    let x := runGen (Expected.prog.params dec plist) Expected.parseV2 prior hdr r
    let y := KdVerif.parseV2 dec prior r
    x.events = y.events ∧ x.err = y.err ∧ x.tables = y.tables ∧ x.rd = y.rd ∧ x.hdr = hdr := by
  intro x y
  have hx : x = runGen (Expected.prog.params dec plist) Expected.parseV2 prior hdr r := rfl
  have hy : y = KdVerif.parseV2 dec prior r := rfl
  obtain ⟨s1, _⟩ := linA_headerV2 r g
  cases hh : headerV2 r with
  | mk res r1 =>
  rw [hh] at s1
  cases res with
  | error e =>
    have : x = ⟨[], some e, prior, hdr, r1⟩ := by
      rw [hx]; simp [runGen, runFrom, St.init, Expected.parseV2, exec, execPrim, hh, errOf, Run3.events]
    rw [this, hy]; simp [KdVerif.parseV2, hh]
  | ok h =>
    let st1 : St ε :=
      ⟨Env.empty.set 0 (.tmap h.threadmap), r1, KdVerif.setThreadMap prior h.threadmap,
        KdVerif.setThreadMap prior h.threadmap, { header := hdr }, []⟩
    have hnohang : (recordLoop dec (r1.rest.length / 64 + 2) st1.rd).2.1 ≠ some .hang := by
      apply recordLoop_nohang dec hdec hnh _ _ s1.good
      simp only [st1, Reader.rest, List.length_drop]
      have := s1.good
      omega
    obtain ⟨st', hl, h1, h2, h3, h4, h5⟩ := record_loop (Expected.prog.params dec plist) (r1.rest.length / 64 + 2)
      (loopFuel st1) st1 (by simp only [loopFuel, st1]; omega) hnohang
    simp only [show (Expected.prog.params dec plist).dec = dec from rfl] at hl h1 h2
    have hexec : exec (Expected.prog.params dec plist) Expected.parseV2 (St.init ⟨prior, { header := hdr }⟩ r) =
        (sigOf (recordLoop dec (r1.rest.length / 64 + 2) r1).2.1, st') := by
      simp only [Expected.parseV2, St.init, exec, execPrim, hh, Env.set, if_true, params_setTm]
      exact hl
    rw [hx, hy]
    simp only [runGen, runFrom, hexec, KdVerif.parseV2, hh, Run3.events]
    cases hq : (recordLoop dec (r1.rest.length / 64 + 2) r1).2.1 with
    | none => simp only [sigOf, errOf]; simp [h1, h2, h3, h5, st1, filterMap_ev_comp]
    | some e => simp only [sigOf, errOf]; simp [h1, h2, h3, h5, st1, filterMap_ev_comp]

/-! ### parse_v3: the chunk loop -/

theorem exec_seq_normal {ε : Type} (P : Params ε) (a b : Stmt) (st st1 : St ε) (h : exec P a st = (.normal, st1)) :
    exec P (.seq a b) st = exec P b st1 := by
  rw [exec, h]

theorem exec_seq_err {ε : Type} (P : Params ε) (a b : Stmt) (st st1 : St ε) (e : PyErr)
    (h : exec P a st = (.err e, st1)) : exec P (.seq a b) st = (.err e, st1) := by
  rw [exec, h]

/-- the body of `for _ in range(size // KEVENT_SIZE)` -/
def recBody : Stmt := .seq (.read 2 (.const .keventSize)) (.yieldKd (.var 2))

theorem records_n {ε : Type} (P : Params ε) : ∀ (n : Nat) (st : St ε),
    ∃ st', forLoop (fun s => exec P recBody s) n st = (sigOf (recordsN P.dec n st.rd).2.1, st') ∧
      st'.rd = (recordsN P.dec n st.rd).2.2 ∧ st'.outs = st.outs ++ (recordsN P.dec n st.rd).1.map .ev ∧
      st'.tables = st.tables ∧ st'.tmTables = st.tmTables ∧ st'.md = st.md ∧ st'.env 1 = st.env 1
  | 0, st => ⟨st, by simp [forLoop, recordsN, sigOf]⟩
  | n + 1, st => by
    have hk : evalI st.env (.const .keventSize) = .ok Gen.Consts.keventSize := rfl
    cases hd : P.dec (st.rd.read Gen.Consts.keventSize).1 with
    | error e =>
      have hrec : recordsN P.dec (n + 1) st.rd = ([], some e, (st.rd.read Gen.Consts.keventSize).2) := by
        simp only [recordsN, hd]
      rw [hrec]
      refine ⟨{ st with rd := (st.rd.read Gen.Consts.keventSize).2,
                        env := st.env.set 2 (.bytes (st.rd.read Gen.Consts.keventSize).1) }, ?_, rfl, ?_, rfl, rfl, rfl, ?_⟩
      · simp only [forLoop, recBody, exec, hk, evalB, Env.set, if_true, hd, sigOf]
      · simp only [List.map_nil, List.append_nil]
      · simp [Env.set]
    | ok ev =>
      have hrec : recordsN P.dec (n + 1) st.rd =
          (ev :: (recordsN P.dec n (st.rd.read Gen.Consts.keventSize).2).1,
            (recordsN P.dec n (st.rd.read Gen.Consts.keventSize).2).2.1,
            (recordsN P.dec n (st.rd.read Gen.Consts.keventSize).2).2.2) := by
        simp only [recordsN, hd]
      rw [hrec]
      let st2 : St ε :=
        { st with rd := (st.rd.read Gen.Consts.keventSize).2,
                  env := st.env.set 2 (.bytes (st.rd.read Gen.Consts.keventSize).1), outs := st.outs ++ [.ev ev] }
      have hbody : exec P recBody st = (.normal, st2) := by
        simp only [recBody, exec, hk, evalB, Env.set, if_true, hd, st2]
      obtain ⟨st', hl, h1, h2, h3, h4, h5, h6⟩ := records_n P n st2
      refine ⟨st', ?_, h1, ?_, h3, h4, h5, ?_⟩
      · rw [forLoop]; simp only [hbody]; exact hl
      · rw [h2]; simp [st2]
      · rw [h6]; simp [st2, Env.set]

/-- one iteration of the chunk loop -/
theorem chunk_body {ε : Type} (P : Params ε) (hseek : P.seek = KdVerif.seekUntil) (st : St ε) :
    match KdVerif.seekUntil Gen.Consts.TRACEV3_EVENTS_TAG st.rd with
    | (.error e, r1) => ∃ st', exec P chunkBody st = (.err e, st') ∧ st'.rd = r1 ∧ st'.outs = st.outs ∧
        st'.tables = st.tables ∧ st'.tmTables = st.tmTables ∧ st'.md = st.md
    | (.ok _, r1) =>
      match int64ul r1 with
      | (.error e, r2) => ∃ st', exec P chunkBody st = (.err e, st') ∧ st'.rd = r2 ∧ st'.outs = st.outs ∧
          st'.tables = st.tables ∧ st'.tmTables = st.tmTables ∧ st'.md = st.md
      | (.ok size, r2) =>
        match (recordsN P.dec (size / Gen.Consts.keventSize) (r2.read 8).2).2.1 with
        | some e => ∃ st', exec P chunkBody st = (.err e, st') ∧
            st'.rd = (recordsN P.dec (size / Gen.Consts.keventSize) (r2.read 8).2).2.2 ∧
            st'.outs = st.outs ++ (recordsN P.dec (size / Gen.Consts.keventSize) (r2.read 8).2).1.map .ev ∧
            st'.tables = st.tables ∧ st'.tmTables = st.tmTables ∧ st'.md = st.md
        | none => ∃ st', exec P chunkBody st =
              ((if ((recordsN P.dec (size / Gen.Consts.keventSize) (r2.read 8).2).2.2.read
                    Gen.Consts.TRACEV3_MORE_EVENTS.length).1 = Gen.Consts.TRACEV3_MORE_EVENTS
                then Signal.normal else Signal.brk), st') ∧
            st'.rd = ((recordsN P.dec (size / Gen.Consts.keventSize) (r2.read 8).2).2.2.read
                    Gen.Consts.TRACEV3_MORE_EVENTS.length).2 ∧
            st'.outs = st.outs ++ (recordsN P.dec (size / Gen.Consts.keventSize) (r2.read 8).2).1.map .ev ∧
            st'.tables = st.tables ∧ st'.tmTables = st.tmTables ∧ st'.md = st.md := by
  cases hs : KdVerif.seekUntil Gen.Consts.TRACEV3_EVENTS_TAG st.rd with
  | mk res1 r1 =>
  cases res1 with
  | error e =>
    refine ⟨{ st with rd := r1 }, ?_, rfl, rfl, rfl, rfl, rfl⟩
    simp only [chunkBody, exec, evalB, BConst.val, hseek, hs]
  | ok u =>
    have h1 : exec P (.callSeek (.const .eventsTag)) st = (.normal, { st with rd := r1 }) := by
      simp only [exec, evalB, BConst.val, hseek, hs]
    dsimp only
    cases hi : int64ul r1 with
    | mk res2 r2 =>
    cases res2 with
    | error e =>
      refine ⟨{ st with rd := r2 }, ?_, rfl, rfl, rfl, rfl, rfl⟩
      rw [chunkBody, exec_seq_normal _ _ _ _ _ h1]
      simp only [exec, execPrim, hi]
    | ok size =>
      dsimp only
      let st2 : St ε := { st with rd := r2, env := st.env.set 1 (.int size) }
      have h2 : exec P (.prim .int64ul 1) { st with rd := r1 } = (.normal, st2) := by
        simp only [exec, execPrim, hi, st2]
      let st3 : St ε := { st2 with rd := (r2.read 8).2 }
      have h3 : exec P (.readDrop (.lit 8)) st2 = (.normal, st3) := by
        simp only [exec, evalI, st3, st2]
      have hn : evalI st3.env (.div (.var 1) (.const .keventSize)) = .ok (size / Gen.Consts.keventSize) := by
        simp [evalI, st3, st2, Env.set, IConst.val, Gen.Consts.keventSize]
      obtain ⟨st4, hl, r4, o4, t4, m4, d4, e4⟩ := records_n P (size / Gen.Consts.keventSize) st3
      have hrd3 : st3.rd = (r2.read 8).2 := rfl
      rw [hrd3] at hl r4 o4
      have h4 : exec P chunkRecords st3 =
          (sigOf (recordsN P.dec (size / Gen.Consts.keventSize) (r2.read 8).2).2.1, st4) := by
        simp only [chunkRecords, exec, hn]
        exact hl
      cases hq : (recordsN P.dec (size / Gen.Consts.keventSize) (r2.read 8).2).2.1 with
      | some e =>
        dsimp only
        refine ⟨st4, ?_, r4, by rw [o4], by rw [t4], by rw [m4], by rw [d4]⟩
        rw [chunkBody, exec_seq_normal _ _ _ _ _ h1, exec_seq_normal _ _ _ _ _ h2, exec_seq_normal _ _ _ _ _ h3]
        rw [hq] at h4
        exact exec_seq_err _ _ _ _ _ _ h4
      | none =>
        dsimp only
        rw [hq] at h4
        let st5 : St ε :=
          { st4 with rd := (st4.rd.read Gen.Consts.TRACEV3_MORE_EVENTS.length).2,
                     env := st4.env.set 3 (.bytes (st4.rd.read Gen.Consts.TRACEV3_MORE_EVENTS.length).1) }
        refine ⟨st5, ?_, by simp only [st5, r4], by simp only [st5, o4]; rfl, by simp only [st5, t4]; rfl,
          by simp only [st5, m4]; rfl, by simp only [st5, d4]; rfl⟩
        rw [chunkBody, exec_seq_normal _ _ _ _ _ h1, exec_seq_normal _ _ _ _ _ h2, exec_seq_normal _ _ _ _ _ h3,
          exec_seq_normal _ _ _ _ _ h4]
        have h5 : exec P (.read 3 (.len (.const .moreEvents))) st4 = (.normal, st5) := by
          simp only [exec, evalI, evalB, BConst.val, st5]
        rw [exec_seq_normal _ _ _ _ _ h5, ← r4]
        by_cases hm : (st4.rd.read Gen.Consts.TRACEV3_MORE_EVENTS.length).1 = Gen.Consts.TRACEV3_MORE_EVENTS
        · have hc : evalC st5.env (.ne (.var 3) (.const .moreEvents)) = .ok false := by
            simp only [evalC, evalB, BConst.val, st5, Env.set, if_true, hm, ne_eq, not_true_eq_false, decide_false]
          rw [exec, hc, if_pos hm]; rfl
        · have hc : evalC st5.env (.ne (.var 3) (.const .moreEvents)) = .ok true := by
            simp only [evalC, evalB, BConst.val, st5, Env.set, if_true, ne_eq, hm, not_false_eq_true, decide_true]
          rw [exec, hc, if_neg hm]; rfl

theorem chunk_loop {ε : Type} (P : Params ε) (hseek : P.seek = KdVerif.seekUntil) :
    ∀ (g f : Nat) (st : St ε), g ≤ f → (chunkLoop P.dec g st.rd).2.1 ≠ some .hang →
    ∃ st', whileLoop (fun s => evalC s.env .tt) (fun s => exec P chunkBody s) f st =
        (sigOf (chunkLoop P.dec g st.rd).2.1, st') ∧
      st'.rd = (chunkLoop P.dec g st.rd).2.2 ∧ st'.outs = st.outs ++ (chunkLoop P.dec g st.rd).1.map .ev ∧
      st'.tables = st.tables ∧ st'.tmTables = st.tmTables ∧ st'.md = st.md
  | 0, f, st, _, h => by simp [chunkLoop] at h
  | g + 1, f, st, hgf, h => by
    obtain ⟨f', rfl⟩ : ∃ f', f = f' + 1 := ⟨f - 1, by omega⟩
    have hb := chunk_body P hseek st
    rw [chunkLoop] at h ⊢
    cases hs : KdVerif.seekUntil Gen.Consts.TRACEV3_EVENTS_TAG st.rd with
    | mk res1 r1 =>
    rw [hs] at hb h
    cases res1 with
    | error e =>
      dsimp only at hb h ⊢
      obtain ⟨st', he, h1, h2, h3, h4, h5⟩ := hb
      refine ⟨st', ?_, h1, by rw [h2]; simp, h3, h4, h5⟩
      rw [whileLoop]; simp only [evalC, he, sigOf]
    | ok u =>
      dsimp only at hb h ⊢
      cases hi : int64ul r1 with
      | mk res2 r2 =>
      rw [hi] at hb h
      cases res2 with
      | error e =>
        dsimp only at hb h ⊢
        obtain ⟨st', he, h1, h2, h3, h4, h5⟩ := hb
        refine ⟨st', ?_, h1, by rw [h2]; simp, h3, h4, h5⟩
        rw [whileLoop]; simp only [evalC, he, sigOf]
      | ok size =>
        dsimp only at hb h ⊢
        cases hq : (recordsN P.dec (size / Gen.Consts.keventSize) (r2.read 8).2).2.1 with
        | some e =>
          rw [hq] at hb h
          dsimp only at hb h ⊢
          obtain ⟨st', he, h1, h2, h3, h4, h5⟩ := hb
          refine ⟨st', ?_, h1, h2, h3, h4, h5⟩
          rw [whileLoop]; simp only [evalC, he, sigOf]
        | none =>
          rw [hq] at hb h
          dsimp only at hb h ⊢
          obtain ⟨st1, he, h1, h2, h3, h4, h5⟩ := hb
          by_cases hm : ((recordsN P.dec (size / Gen.Consts.keventSize) (r2.read 8).2).2.2.read
              Gen.Consts.TRACEV3_MORE_EVENTS.length).1 = Gen.Consts.TRACEV3_MORE_EVENTS
          · rw [if_pos hm] at he h ⊢
            dsimp only at h ⊢
            rw [← h1] at h ⊢
            obtain ⟨st', hl, k1, k2, k3, k4, k5⟩ := chunk_loop P hseek g f' st1 (by omega) h
            refine ⟨st', ?_, k1, ?_, by rw [k3, h3], by rw [k4, h4], by rw [k5, h5]⟩
            · rw [whileLoop]; simp only [evalC, he]; exact hl
            · rw [k2, h2, List.append_assoc, List.map_append]
          · rw [if_neg hm] at he ⊢
            dsimp only
            refine ⟨st1, ?_, h1, h2, h3, h4, h5⟩
            rw [whileLoop]; simp only [evalC, he, sigOf]

/-! ### parse_v3: header to chunk loop -/

theorem threadmapV3_steps (r : Reader) :
    threadmapV3 r =
      match KdVerif.seekUntil Gen.Consts.TRACEV3_STACKSHOT_END (r.read (8 - Gen.Consts.RAW_VERSION_SIZE)).2 with
      | (.error e, ra) => (.error e, ra)
      | (.ok _, ra) =>
        match KdVerif.seekUntil Gen.Consts.TRACEV3_THREADMAP_TAG ra with
        | (.error e, rb) => (.error e, rb)
        | (.ok _, rb) =>
          match prefixedBytes rb with
          | (.error e, rc) => (.error e, rc)
          | (.ok p, rc) => (.ok (greedyEntries p), rc) := by
  unfold threadmapV3
  have h0 : readPlain (8 - Gen.Consts.RAW_VERSION_SIZE) r =
      (.ok (r.read (8 - Gen.Consts.RAW_VERSION_SIZE)).1, (r.read (8 - Gen.Consts.RAW_VERSION_SIZE)).2) := rfl
  rw [RM.bind_ok h0]
  cases ha : KdVerif.seekUntil Gen.Consts.TRACEV3_STACKSHOT_END (r.read (8 - Gen.Consts.RAW_VERSION_SIZE)).2 with
  | mk res ra =>
  cases res with
  | error e => rw [RM.bind_err ha]
  | ok u =>
    rw [RM.bind_ok ha]
    dsimp only
    cases hb : KdVerif.seekUntil Gen.Consts.TRACEV3_THREADMAP_TAG ra with
    | mk res rb =>
    cases res with
    | error e => rw [RM.bind_err hb]
    | ok u =>
      rw [RM.bind_ok hb]
      dsimp only
      cases hc : prefixedBytes rb with
      | mk res rc =>
      cases res with
      | error e => rw [RM.bind_err hc]
      | ok p => rw [RM.bind_ok hc]; rfl

/-! ### parse_v3: the tail (`reader.seek(-8, 1)`, the additional data, the block loop, the log loop) -/

/-- the parts of the state the block loop leaves alone -/
def SameIO {ε : Type} (a b : St ε) : Prop :=
  b.rd = a.rd ∧ b.tables = a.tables ∧ b.tmTables = a.tmTables ∧ b.outs = a.outs

theorem exec_tag_ite {ε : Type} (P : Params ε) (c : BConst) (t e : Stmt) (st : St ε) (b : Bytes × Bytes)
    (h : st.env 7 = some (.block b)) :
    exec P (.ite (.eq (.blockTag 7) (.const c)) t e) st = if b.1 = c.val then exec P t st else exec P e st := by
  by_cases hc : b.1 = c.val
  · simp only [exec, evalC, evalB, h, hc, decide_true, if_true]
  · simp only [exec, evalC, evalB, h, hc, decide_false, if_false]

theorem evalP_loads {ε : Type} (P : Params ε) (st : St ε) (b : Bytes × Bytes) (h : st.env 7 = some (.block b)) :
    evalP P.plist st.env (.loads (.blockData 7)) =
      match P.plist b.2 with | some v => .ok (b.2, v) | none => .error .valueError := by
  cases hp : P.plist b.2 <;> simp only [evalP, evalB, h, hp]

/-- what `block_body` says about one branch -/
def BlockStep {ε : Type} (st : St ε) (x : Signal × St ε) : Except PyErr BlockState → Prop
  | .error e => ∃ st', x = (.err e, st') ∧ st'.md = st.md ∧ SameIO st st'
  | .ok s' => ∃ st', x = (.normal, st') ∧ st'.md = s'.md ∧
      st'.env 5 = some (.events s'.logEvents) ∧ st'.env 6 = some (.strings s'.logStrings) ∧ SameIO st st'

section branches
variable {ε : Type} (P : Params ε) (s : BlockState) (b : Bytes × Bytes) (st : St ε)
  (h7 : st.env 7 = some (.block b)) (hm : st.md = s.md)
  (h5 : st.env 5 = some (.events s.logEvents)) (h6 : st.env 6 = some (.strings s.logStrings))
include h7 hm h5 h6

theorem branch_dyld :
    BlockStep st
      (exec P (.seq (.assignP 8 (.loads (.blockData 7)))
        (.iteAttrEmpty .dyldModules (.attrUpdate .dyldModules (.var 8)) (.binExtend .dyldModules (.var 8)))) st)
      (match P.plist b.2 with
        | none => .error .valueError
        | some v =>
          if s.md.dyldEmpty then
            .ok { s with md := { s.md with dyldBase := some v.others, dyldEmpty := v.isEmpty, dyldBin := v.binaries } }
          else
            match s.md.dyldBin, v.binaries with
            | some l, some l2 => .ok { s with md := { s.md with dyldBin := some (l ++ l2) } }
            | _, _ => .error .keyError) := by
  have hl := evalP_loads P st b h7
  cases hp : P.plist b.2 with
  | none =>
    refine ⟨st, ?_, rfl, rfl, rfl, rfl, rfl⟩
    simp only [exec, hl, hp]
  | some v =>
    simp only [exec, hl, hp, metaIsEmpty, hm]
    cases hd : s.md.dyldEmpty with
    | true =>
      simp only [evalP, Env.set, if_true, metaStep, metaUpdate, hd]
      exact ⟨_, rfl, rfl, by simp [Env.set, h5], by simp [Env.set, h6], rfl, rfl, rfl, rfl⟩
    | false =>
      simp only [evalP, Env.set, if_true, metaBinExtend, Bool.false_eq_true, if_false]
      cases h1 : s.md.dyldBin with
      | none => exact ⟨_, rfl, by simp [hm], rfl, rfl, rfl, rfl⟩
      | some l =>
        cases h2 : v.binaries with
        | none => exact ⟨_, rfl, by simp [hm], rfl, rfl, rfl, rfl⟩
        | some l2 =>
          exact ⟨_, rfl, by simp [hd], by simp [Env.set, h5], by simp [Env.set, h6], rfl, rfl, rfl, rfl⟩

theorem branch_codes :
    BlockStep st (exec P (.strAppendDecoded .traceCodes (.blockData 7)) st)
      (if validUtf8 b.2 then .ok { s with md := { s.md with traceCodes := s.md.traceCodes ++ b.2 } }
       else .error .unicodeError) := by
  simp only [exec, evalB, h7, metaAppendDecoded, hm]
  cases hv : validUtf8 b.2 with
  | true => exact ⟨_, rfl, rfl, h5, h6, rfl, rfl, rfl, rfl⟩
  | false => exact ⟨_, rfl, rfl, rfl, rfl, rfl, rfl⟩

theorem branch_setP (a : Attr) (f : V3Meta → Bytes → V3Meta)
    (ha : ∀ m q, metaSetP m q a = .ok (f m q.1)) :
    BlockStep st (exec P (.setAttrP a (.loads (.blockData 7))) st)
      (match P.plist b.2 with
        | none => .error .valueError
        | some _ => .ok { s with md := f s.md b.2 }) := by
  have hl := evalP_loads P st b h7
  simp only [exec, hl, ha, hm]
  cases hp : P.plist b.2 with
  | none => exact ⟨_, rfl, rfl, rfl, rfl, rfl, rfl⟩
  | some v => exact ⟨_, rfl, rfl, h5, h6, rfl, rfl, rfl, rfl⟩

theorem branch_kexts :
    BlockStep st (exec P (.binExtend .kernelExtensions (.loads (.blockData 7))) st)
      (match P.plist b.2 with
        | none => .error .valueError
        | some v =>
          match v.binaries with
          | none => .error .keyError
          | some l => .ok { s with md := { s.md with kexts := s.md.kexts ++ l } }) := by
  have hl := evalP_loads P st b h7
  simp only [exec, hl, metaBinExtend, hm]
  cases hp : P.plist b.2 with
  | none => exact ⟨_, rfl, rfl, rfl, rfl, rfl, rfl⟩
  | some v =>
    dsimp only
    cases h2 : v.binaries with
    | none => exact ⟨_, rfl, rfl, rfl, rfl, rfl, rfl⟩
    | some l2 => exact ⟨_, rfl, rfl, h5, h6, rfl, rfl, rfl, rfl⟩

theorem branch_events :
    BlockStep st (exec P (.eventsExtend 5 (.loads (.blockData 7))) st)
      (match P.plist b.2 with
        | none => .error .valueError
        | some v =>
          match v.events with
          | none => .error .keyError
          | some l => .ok { s with logEvents := s.logEvents ++ l }) := by
  have hl := evalP_loads P st b h7
  simp only [exec, hl, h5]
  cases hp : P.plist b.2 with
  | none => exact ⟨_, rfl, rfl, rfl, rfl, rfl, rfl⟩
  | some v =>
    dsimp only
    cases h2 : v.events with
    | none => exact ⟨_, rfl, rfl, rfl, rfl, rfl, rfl⟩
    | some l2 => exact ⟨_, rfl, hm, by simp [Env.set], by simp [Env.set, h6], rfl, rfl, rfl, rfl⟩

omit h6 in
theorem branch_strings :
    BlockStep st (exec P (.assignInvIndex 6 (.loads (.blockData 7))) st)
      (match P.plist b.2 with
        | none => .error .valueError
        | some v =>
          match v.stringIndex with
          | none => .error .keyError
          | some items => .ok { s with logStrings := invertIndex items }) := by
  have hl := evalP_loads P st b h7
  simp only [exec, hl]
  cases hp : P.plist b.2 with
  | none => exact ⟨_, rfl, rfl, rfl, rfl, rfl, rfl⟩
  | some v =>
    dsimp only
    cases h2 : v.stringIndex with
    | none => exact ⟨_, rfl, rfl, rfl, rfl, rfl, rfl⟩
    | some items => exact ⟨_, rfl, hm, by simp [Env.set, h5], by simp [Env.set], rfl, rfl, rfl, rfl⟩

omit h7 hm h5 h6 in
theorem blockStep_ite {c : Prop} [Decidable c] {x y : Signal × St ε} {a a' : Except PyErr BlockState}
    (h1 : c → BlockStep st x a) (h2 : ¬c → BlockStep st y a') :
    BlockStep st (if c then x else y) (if c then a else a') := by
  by_cases h : c
  · rw [if_pos h, if_pos h]; exact h1 h
  · rw [if_neg h, if_neg h]; exact h2 h

/-- one block: the `if / elif` chain on `block.tag` is `dispatchBlock` -/
theorem block_body : BlockStep st (exec P blockBody st) (dispatchBlock P.plist s b) := by
  unfold dispatchBlock
  rw [blockBody, exec_tag_ite P _ _ _ st b h7]
  refine blockStep_ite st (fun _ => branch_dyld P s b st h7 hm h5 h6) (fun _ => ?_)
  rw [exec_tag_ite P _ _ _ st b h7]
  refine blockStep_ite st (fun _ => branch_codes P s b st h7 hm h5 h6) (fun _ => ?_)
  rw [exec_tag_ite P _ _ _ st b h7]
  refine blockStep_ite st (fun _ => branch_setP P s b st h7 hm h5 h6 .processes
    (fun m q => { m with processes := some q }) (fun _ _ => rfl)) (fun _ => ?_)
  rw [exec_tag_ite P _ _ _ st b h7]
  refine blockStep_ite st (fun _ => branch_kexts P s b st h7 hm h5 h6) (fun _ => ?_)
  rw [exec_tag_ite P _ _ _ st b h7]
  refine blockStep_ite st (fun _ => branch_setP P s b st h7 hm h5 h6 .images
    (fun m q => { m with images := some q }) (fun _ _ => rfl)) (fun _ => ?_)
  rw [exec_tag_ite P _ _ _ st b h7]
  refine blockStep_ite st (fun _ => branch_events P s b st h7 hm h5 h6) (fun _ => ?_)
  rw [exec_tag_ite P _ _ _ st b h7]
  refine blockStep_ite st (fun _ => branch_strings P s b st h7 hm h5) (fun _ => ?_)
  exact ⟨st, rfl, hm, h5, h6, rfl, rfl, rfl, rfl⟩

end branches

/-- the block loop is `dispatchBlocks` -/
theorem blocks_loop {ε : Type} (P : Params ε) : ∀ (bs : List (Bytes × Bytes)) (s : BlockState) (st : St ε),
    st.md = s.md → st.env 5 = some (.events s.logEvents) → st.env 6 = some (.strings s.logStrings) →
    ∃ st', forEach (fun a s => exec P blockBody { s with env := s.env.set 7 a }) (bs.map Val.block) st =
        (sigOf (dispatchBlocks P.plist s bs).2, st') ∧
      st'.md = (dispatchBlocks P.plist s bs).1.md ∧ SameIO st st' ∧
      ((dispatchBlocks P.plist s bs).2 = none →
        st'.env 5 = some (.events (dispatchBlocks P.plist s bs).1.logEvents) ∧
        st'.env 6 = some (.strings (dispatchBlocks P.plist s bs).1.logStrings))
  | [], s, st, hm, h5, h6 => ⟨st, rfl, hm, ⟨rfl, rfl, rfl, rfl⟩, fun _ => ⟨h5, h6⟩⟩
  | b :: bs, s, st, hm, h5, h6 => by
    have hb := block_body P s b { st with env := st.env.set 7 (.block b) } (by simp [Env.set]) hm
      (by simp [Env.set, h5]) (by simp [Env.set, h6])
    rw [dispatchBlocks]
    cases hd : dispatchBlock P.plist s b with
    | error e =>
      rw [hd] at hb
      obtain ⟨st', he, k1, k2⟩ := hb
      refine ⟨st', ?_, by rw [k1]; exact hm, k2, fun h => by simp at h⟩
      simp only [List.map_cons, forEach, he, sigOf]
    | ok s' =>
      rw [hd] at hb
      obtain ⟨st1, he, k1, k5, k6, k2⟩ := hb
      obtain ⟨st', hl, j1, j2, j3⟩ := blocks_loop P bs s' st1 k1 k5 k6
      refine ⟨st', ?_, j1, ?_, j3⟩
      · simp only [List.map_cons, forEach, he]; exact hl
      · obtain ⟨a1, a2, a3, a4⟩ := k2
        obtain ⟨b1, b2, b3, b4⟩ := j2
        exact ⟨by rw [b1, a1], by rw [b2, a2], by rw [b3, a3], by rw [b4, a4]⟩

/-- the log loop is `logLoop` -/
theorem log_loop {ε : Type} (P : Params ε) (strings : List (Nat × Bytes)) : ∀ (es : List RawLog) (i : Nat) (st : St ε),
    st.env 6 = some (.strings strings) →
    ∃ st', forEach (fun a s => exec P logBody { s with env := s.env.set 9 a })
          ((es.zipIdx i).map fun p => Val.rawLog p.2 p.1) st =
        (sigOf (logLoop strings i st.tables es).2.1, st') ∧
      st'.outs = st.outs ++ (logLoop strings i st.tables es).1.map .log ∧
      st'.tables = (logLoop strings i st.tables es).2.2 ∧
      st'.rd = st.rd ∧ st'.tmTables = st.tmTables ∧ st'.md = st.md
  | [], i, st, _ => ⟨st, rfl, by simp [logLoop], rfl, rfl, rfl, rfl⟩
  | e :: es, i, st, h6 => by
    rw [logLoop]
    cases hf : KdVerif.fromRawLog strings i e with
    | error err =>
      refine ⟨{ st with env := st.env.set 9 (.rawLog i e) }, ?_, by simp, rfl, rfl, rfl, rfl⟩
      simp [List.zipIdx_cons, forEach, logBody, exec, Env.set, h6, hf, sigOf]
    | ok lo =>
      dsimp only
      let env10 : Env := (st.env.set 9 (.rawLog i e)).set 10 (.logOut lo)
      let t' : Tables := if lo.process ≠ [] ∧ lo.tid ≠ 0 then st.tables.add ⟨lo.tid, lo.pid, lo.process⟩ else st.tables
      let st2 : St ε := { st with env := env10, tables := t', outs := st.outs ++ [.log lo] }
      have hbody : exec P logBody { st with env := st.env.set 9 (.rawLog i e) } = (.normal, st2) := by
        by_cases hp : lo.process = []
        · simp [logBody, exec, Env.set, h6, hf, evalC, hp, st2, env10, t']
        · by_cases ht : lo.tid = 0
          · simp [logBody, exec, Env.set, h6, hf, evalC, hp, ht, st2, env10, t']
          · simp [logBody, exec, Env.set, h6, hf, evalC, hp, ht, st2, env10, t', storeOne, natField, Tables.add]
      obtain ⟨st', hl, k1, k2, k3, k4, k5⟩ := log_loop P strings es (i + 1) st2 (by simp [st2, env10, Env.set, h6])
      refine ⟨st', ?_, ?_, k2, by rw [k3], by rw [k4], by rw [k5]⟩
      · simp only [List.zipIdx_cons, List.map_cons, forEach, hbody]; exact hl
      · rw [k1]; simp [st2, t']

theorem exec_resets {ε : Type} (P : Params ε) (k : Stmt) (st : St ε) :
    exec P (v3Resets k) st =
      exec P k { st with md := st.md.reset, env := (st.env.set 5 (.events [])).set 6 (.strings []) } := by
  simp only [v3Resets, exec, metaInit, metaStep]
  rfl

/-- **the tail of `parse_v3`, interpreted, is the model's `tailV3`** — from any state behind the chunk loop (any reader,
    tables, parser attributes, local variables) that has yielded the records `evs`. -/
theorem tail_exec {ε : Type} (P : Params ε) (evs : List ε) (st : St ε) (ho : st.outs = evs.map .ev)
    (ht : st.tmTables = st.tables) :
    runFrom P v3Tail st = tailV3 P.plist evs st.tables st.md st.rd := by
  unfold tailV3
  dsimp only
  let st1 : St ε := { st with rd := st.rd.seekTo (st.rd.pos - 8) }
  have e1 : exec P (.seekRel 8) st = (.normal, st1) := rfl
  cases hg : greedyRange blockElem ((st.rd.seekTo (st.rd.pos - 8)).rest.length / 16 + 2) (st.rd.seekTo (st.rd.pos - 8)) with
  | mk res r2 =>
  cases res with
  | error e =>
    have hx : exec P v3Tail st = (.err e, { st1 with rd := r2 }) := by
      rw [v3Tail, exec_seq_normal _ _ _ _ _ e1]
      apply exec_seq_err
      simp only [exec, execPrim, st1, hg]
    simp only [runFrom, hx, errOf, st1, ho, ht]
  | ok blocks =>
    dsimp only
    let st2 : St ε := { st1 with rd := r2, env := st.env.set 4 (.blocks blocks) }
    have e2 : exec P (.prim .additionalData 4) st1 = (.normal, st2) := by
      simp only [exec, execPrim, st1, hg, st2]
    let st3 : St ε :=
      { st2 with md := st.md.reset, env := ((st.env.set 4 (.blocks blocks)).set 5 (.events [])).set 6 (.strings []) }
    have hrun : ∀ x, exec P (.seq (.forIn 7 4 blockBody) (.forIn 9 5 logBody)) st3 = x → exec P v3Tail st = x := by
      intro x hx
      rw [v3Tail, exec_seq_normal _ _ _ _ _ e1, exec_seq_normal _ _ _ _ _ e2, exec_resets]
      exact hx
    obtain ⟨st4, hl, m4, ⟨r4, t4, tm4, o4⟩, env4⟩ := blocks_loop P blocks ⟨st.md.reset, [], []⟩ st3 rfl
      (by simp [st3, Env.set]) (by simp [st3, Env.set])
    have e3 : exec P (.forIn 7 4 blockBody) st3 = (sigOf (dispatchBlocks P.plist ⟨st.md.reset, [], []⟩ blocks).2, st4) := by
      have : (st3.env 4).bind itemsOf = some (blocks.map Val.block) := by simp [st3, Env.set, itemsOf]
      simp only [exec, this]
      exact hl
    unfold tailOfBlocks
    cases hd : dispatchBlocks P.plist ⟨st.md.reset, [], []⟩ blocks with
    | mk s oe =>
    rw [hd] at e3 m4 env4
    cases oe with
    | some e =>
      have hx := hrun _ (exec_seq_err _ _ _ _ _ _ e3)
      simp only [runFrom, hx, errOf, m4, r4, t4, tm4, o4, st3, st2, st1, ho, ht]
    | none =>
      dsimp only
      obtain ⟨h5, h6⟩ := env4 rfl
      obtain ⟨st5, hl5, o5, t5, r5, tm5, m5⟩ := log_loop P s.logStrings s.logEvents 0 st4 h6
      have e4 : exec P (.forIn 9 5 logBody) st4 = (sigOf (logLoop s.logStrings 0 st4.tables s.logEvents).2.1, st5) := by
        have : (st4.env 5).bind itemsOf = some ((s.logEvents.zipIdx 0).map fun p => Val.rawLog p.2 p.1) := by
          simp [h5, itemsOf]
        simp only [exec, this]
        exact hl5
      have hx := hrun _ ((exec_seq_normal _ _ _ _ _ e3).trans e4)
      rw [t4] at hx o5 t5
      have ht3 : st3.tables = st.tables := rfl
      rw [ht3] at hx o5 t5
      cases hq : (logLoop s.logStrings 0 st.tables s.logEvents).2.1 with
      | none =>
        rw [hq] at hx
        simp only [runFrom, hx, sigOf, errOf, o5, t5, r5, tm5, m5, m4, r4, tm4, o4, st3, st2, st1, ho, ht]
      | some e =>
        rw [hq] at hx
        simp only [runFrom, hx, sigOf, errOf, o5, t5, r5, tm5, m5, m4, r4, tm4, o4, st3, st2, st1, ho, ht]

/-- the statements of `parse_v3` behind the header, as one sequence -/
def v3AfterHeader : Stmt :=
  .seq (.readDrop (.sub (.lit 8) (.const .rawVersionSize)))
    (.seq (.callSeek (.const .stackshotEnd))
      (.seq (.callSeek (.const .threadmapTag))
        (.seq (.prim .threadmapV3 0)
          (.seq (.setThreadMap 0)
            (.seq (.while .tt chunkBody) v3Tail)))))

theorem parseV3_eq : Expected.parseV3 = .seq (.prim .headerV3 0) v3AfterHeader := rfl

/-- **the WHOLE `parse_v3`, interpreted, is the model's `parseV3`**: header, realignment read, both scans, thread-map
    chunk, `set_thread_map`, the chunk loop, `reader.seek(-8, 1)`, the additional-data blocks and their dispatch, the log
    loop — for every reader state and every prior parser state. -/
theorem parseV3_via_ir {ε : Type} (plist : Bytes → Option PView) (dec : Bytes → Except PyErr ε)
    (hdec : RejectsShort dec) (hnh : NoHangDec dec) (prior : PState) (r : Reader) (g : Good r) :
    KdVerif.parseV3 plist dec prior r = viaV3 Expected.prog plist dec prior r := by
  have hP : (Expected.prog.params dec plist).plist = plist := rfl
  have hD : (Expected.prog.params dec plist).dec = dec := rfl
  have hV : viaV3 Expected.prog plist dec prior r =
      runFrom (Expected.prog.params dec plist) Expected.parseV3 (St.init prior r) := rfl
  rw [hV]
  obtain ⟨s1, _⟩ := linA_headerV3 plist r g
  unfold KdVerif.parseV3
  cases hh : headerV3 plist r with
  | mk res r1 =>
  rw [hh] at s1
  cases res with
  | error e =>
    have hx : exec (Expected.prog.params dec plist) Expected.parseV3 (St.init prior r) =
        (.err e, { (St.init prior r : St ε) with rd := r1 }) := by
      simp only [parseV3_eq, exec, execPrim, hP, hh, St.init]
    simp only [runFrom, hx]
    rfl
  | ok h =>
    dsimp only
    let st1 : St ε := ⟨Env.empty, r1, prior.tables, prior.tables, { prior.md with header := some h }, []⟩
    have e1 : exec (Expected.prog.params dec plist) (.prim .headerV3 0) (St.init prior r) = (.normal, st1) := by
      simp only [exec, execPrim, hP, hh, st1, St.init]
    have hrun : ∀ (x : Signal × St ε),
        exec (Expected.prog.params dec plist) v3AfterHeader st1 = x →
        exec (Expected.prog.params dec plist) Expected.parseV3 (St.init prior r) = x := by
      intro x hs
      rw [parseV3_eq, exec_seq_normal _ _ _ _ _ e1, hs]
    obtain ⟨s2, _⟩ := linA_threadmapV3 r1 s1.good
    have hsteps := threadmapV3_steps r1
    -- the four statements that make up `threadmapV3`
    have e2 : exec (Expected.prog.params dec plist) (.readDrop (.sub (.lit 8) (.const .rawVersionSize))) st1 =
        (.normal, { st1 with rd := (r1.read (8 - Gen.Consts.RAW_VERSION_SIZE)).2 }) := by
      simp [exec, evalI, IConst.val, Gen.Consts.RAW_VERSION_SIZE, st1]
    cases ha : KdVerif.seekUntil Gen.Consts.TRACEV3_STACKSHOT_END (r1.read (8 - Gen.Consts.RAW_VERSION_SIZE)).2 with
    | mk resa ra =>
    rw [ha] at hsteps
    cases resa with
    | error e =>
      dsimp only at hsteps
      have hx := hrun (.err e, { st1 with rd := ra }) (by
        rw [v3AfterHeader, exec_seq_normal _ _ _ _ _ e2]
        apply exec_seq_err
        simp only [exec, evalB, BConst.val, params_seek, ha])
      simp only [runFrom, hx, hsteps, errOf, st1]
    | ok ua =>
      dsimp only at hsteps
      have e3 : exec (Expected.prog.params dec plist) (.callSeek (.const .stackshotEnd))
          { st1 with rd := (r1.read (8 - Gen.Consts.RAW_VERSION_SIZE)).2 } = (.normal, { st1 with rd := ra }) := by
        simp only [exec, evalB, BConst.val, params_seek, ha]
      cases hb : KdVerif.seekUntil Gen.Consts.TRACEV3_THREADMAP_TAG ra with
      | mk resb rb =>
      rw [hb] at hsteps
      cases resb with
      | error e =>
        dsimp only at hsteps
        have hx := hrun (.err e, { st1 with rd := rb }) (by
          rw [v3AfterHeader, exec_seq_normal _ _ _ _ _ e2, exec_seq_normal _ _ _ _ _ e3]
          apply exec_seq_err
          simp only [exec, evalB, BConst.val, params_seek, hb])
        simp only [runFrom, hx, hsteps, errOf, st1]
      | ok ub =>
        dsimp only at hsteps
        have e4 : exec (Expected.prog.params dec plist) (.callSeek (.const .threadmapTag)) { st1 with rd := ra } =
            (.normal, { st1 with rd := rb }) := by
          simp only [exec, evalB, BConst.val, params_seek, hb]
        cases hc : prefixedBytes rb with
        | mk resc rc =>
        rw [hc] at hsteps
        cases resc with
        | error e =>
          dsimp only at hsteps
          have hx := hrun (.err e, { st1 with rd := rc }) (by
            rw [v3AfterHeader, exec_seq_normal _ _ _ _ _ e2, exec_seq_normal _ _ _ _ _ e3,
              exec_seq_normal _ _ _ _ _ e4]
            apply exec_seq_err
            simp only [exec, execPrim, hc])
          simp only [runFrom, hx, hsteps, errOf, st1]
        | ok payload =>
          dsimp only at hsteps
          rw [hsteps] at s2 ⊢
          dsimp only at s2 ⊢
          let st5 : St ε := { st1 with rd := rc, env := Env.empty.set 0 (.tmap (greedyEntries payload)) }
          have e5 : exec (Expected.prog.params dec plist) (.prim .threadmapV3 0) { st1 with rd := rb } =
              (.normal, st5) := by
            simp only [exec, execPrim, hc, st5, st1]
          let st6 : St ε :=
            { st5 with tables := KdVerif.setThreadMap prior.tables (greedyEntries payload),
                       tmTables := KdVerif.setThreadMap prior.tables (greedyEntries payload) }
          have e6 : exec (Expected.prog.params dec plist) (.setThreadMap 0) st5 = (.normal, st6) := by
            simp only [exec, st5, st6, st1, Env.set, if_true, params_setTm]
          have hnohang : (chunkLoop (Expected.prog.params dec plist).dec (rc.rest.length / 16 + 2) st6.rd).2.1 ≠ some .hang := by
            apply chunkLoop_nohang dec hdec hnh _ _ s2.good
            simp only [Reader.rest, List.length_drop]
            have := s2.good
            omega
          obtain ⟨st', hl, k1, k2, k3, k4, k5⟩ := chunk_loop (Expected.prog.params dec plist) (params_seek dec plist)
            (rc.rest.length / 16 + 2) (loopFuel st6) st6 (by simp only [loopFuel, st6, st5]; omega) hnohang
          simp only [hD] at hl k1 k2
          have hw : exec (Expected.prog.params dec plist) (.while .tt chunkBody) st6 =
              (sigOf (chunkLoop dec (rc.rest.length / 16 + 2) st6.rd).2.1, st') := by
            rw [exec]; exact hl
          have hrun' : ∀ (x : Signal × St ε),
              exec (Expected.prog.params dec plist) (.seq (.while .tt chunkBody) v3Tail) st6 = x →
              exec (Expected.prog.params dec plist) Expected.parseV3 (St.init prior r) = x := by
            intro x hs
            apply hrun
            rw [v3AfterHeader, exec_seq_normal _ _ _ _ _ e2, exec_seq_normal _ _ _ _ _ e3,
              exec_seq_normal _ _ _ _ _ e4, exec_seq_normal _ _ _ _ _ e5, exec_seq_normal _ _ _ _ _ e6]
            exact hs
          have hrd6 : st6.rd = rc := rfl
          rw [hrd6] at hw k1 k2
          cases hq : (chunkLoop dec (rc.rest.length / 16 + 2) rc).2.1 with
          | some e =>
            rw [hq] at hw
            have hx := hrun' _ (exec_seq_err _ _ _ _ _ _ hw)
            simp only [runFrom, hx, errOf, k1, k2, k3, k4, k5, st6, st5, st1, List.nil_append]
          | none =>
            rw [hq] at hw
            have hx := hrun' _ (exec_seq_normal _ _ _ _ _ hw)
            have ht := tail_exec (Expected.prog.params dec plist) (chunkLoop dec (rc.rest.length / 16 + 2) rc).1 st'
              (by rw [k2]; rfl) (by rw [k3, k4])
            simp only [runFrom] at ht ⊢
            rw [hx, ht, hP, k1, k3, k5]

/-! ### the whole parse -/

/-- **`KdBufParser.parse(reader)`, exhausted, is the interpreted source** (dispatch, `parse_v2` and `parse_v3` entirely,
    `seek_until`, `set_thread_map`) — for every byte string and every prior parser state. -/
theorem parse_eq_parseVia {ε : Type} (plist : Bytes → Option PView) (dec : Bytes → Except PyErr ε)
    (hdec : RejectsShort dec) (hnh : NoHangDec dec) (prior : PState) (data : Bytes) :
    KdVerif.parse plist dec prior data = parseVia Expected.prog plist dec prior data := by
  have g0 : Good (Reader.ofBytes data) := Nat.zero_le _
  have g1 : Good ((Reader.ofBytes data).read Gen.Consts.RAW_VERSION_SIZE).2 :=
    (step_read _ Gen.Consts.RAW_VERSION_SIZE g0).good
  unfold KdVerif.parse parseVia
  have hd : Expected.prog.parse = Expected.parse := rfl
  rw [hd, runDispatch_expected]
  by_cases h2 : ((Reader.ofBytes data).read Gen.Consts.RAW_VERSION_SIZE).1 = Gen.Consts.RAW_VERSION2_BYTES
  · simp only [h2, if_true]
    obtain ⟨a, b, c, d, _⟩ := runGen_parseV2 dec plist hdec hnh prior.tables prior.md.header _ g1
    simp only [viaV2]
    have hp : Expected.prog.parseV2 = Expected.parseV2 := rfl
    rw [hp, a, b, c, d]
  · simp only [h2, if_false]
    by_cases h3 : ((Reader.ofBytes data).read Gen.Consts.RAW_VERSION_SIZE).1 = Gen.Consts.RAW_VERSION3_BYTES
    · simp only [h3, if_true]
      rw [parseV3_via_ir plist dec hdec hnh prior _ g1]
    · simp only [h3, if_false]

end KdVerif.PyIRRd
