import KdVerif.Model.EndToEnd
import KdVerif.Props.C01
import KdVerif.Proofs.ContainerV2
import KdVerif.Proofs.Trunc
import KdVerif.Proofs.TracePipeline
import KdVerif.Model.ContainerV3
import KdVerif.Proofs.ContainerV3
/-
  Cross-layer composition lemmas about `Model/EndToEnd.lean` (`dumpOf`, `formatAll`, `formattedTraces`):
  * `dumpOf` on an encoded version-2 file (round trip of the container layer, composed with C01), and on an encoded
    version-3 file (`dumpOf_encoded_v3`: thread-map chunk + the records of all chunks);
  * `dumpOf` on a cut file (`dumpOf_trunc`: same thread map, events a prefix) and the prefix-preservation of every
    stage behind it (event filter, `runAnnot`, post-filters, `formatAll`);
  * the shape of what `formatAll` returns (`formatAll_shape`).
  Core Lean only.
-/
namespace KdVerif.EndToEnd
open KdVerif KdVerif.Reader KdVerif.Spec KdVerif.Trace KdVerif.Filters KdVerif.TracePipeline

/-- The record decoder of the composition IS C01's `from_kd_buf` model. -/
theorem decodeRecord_eq : decodeRecord = fromKdBuf := rfl

theorem decodeRecord_rejectsShort : RejectsShort decodeRecord :=
  fun x hx => ⟨_, C01.decode_rejects_other_lengths x hx⟩

/-! ### the container layer on an encoded file -/

/-- The reader after the four magic bytes of an encoded file. -/
theorem read_magic (f : V2File) :
    ((Reader.ofBytes (encodeV2 f)).read Gen.Consts.RAW_VERSION_SIZE).1 = Gen.Consts.RAW_VERSION2_BYTES ∧
    ((Reader.ofBytes (encodeV2 f)).read Gen.Consts.RAW_VERSION_SIZE).2.rest = v2Body f := by
  have h : (Reader.ofBytes (encodeV2 f)).rest = v2Magic ++ v2Body f := by
    simp [Reader.rest, Reader.ofBytes, encodeV2, v2Body]
  obtain ⟨h1, c1⟩ := read_cont h
  exact ⟨h1, c1.1⟩

/-- records whose first one does not begin with a zero byte: the flattened record area is empty or begins with a
    non-zero byte (what the greedy padding skipper needs to stop where the padding ends). -/
theorem recs_tail (f : V2File) (wf : f.WF) (h0 : ∀ x, f.recs.head? = some x → x.head? ≠ some 0) :
    f.recs.flatten = [] ∨ f.recs.flatten.head? ≠ some 0 ∧ f.recs.flatten ≠ [] := by
  obtain ⟨_, _, _, _, hr⟩ := wf
  cases hrecs : f.recs with
  | nil => exact Or.inl rfl
  | cons x xs =>
    right
    have hx : x.length = 64 := (hr x (by simp [hrecs])).1
    obtain ⟨b, t, rfl⟩ : ∃ b t, x = b :: t := by
      cases x with
      | nil => simp at hx
      | cons b t => exact ⟨b, t, rfl⟩
    have := h0 (b :: t) (by simp [hrecs])
    simp at this
    simp [this]

/-- The header of an encoded file parses — whatever the records are — and gives the file's thread map. -/
theorem headerV2_encoded (f : V2File) (wf : f.WF) {r : Reader} (h : r.rest = v2Body f) :
    ∃ hd r', headerV2 r = (.ok hd, r') ∧ hd.threadmap = f.threads.map toEntry := by
  obtain ⟨hn, wts, hi, hk, _⟩ := wf
  obtain ⟨k, t, e, c⟩ := split_zeros f.recs.flatten
  have h' := h
  simp only [v2Body] at h'
  rw [e, ← List.append_assoc (zeros f.pad), zeros_add] at h'
  obtain ⟨r', e', _⟩ := headerV2_cont (n := f.threads.length) h' hn wts hi hk c rfl
  exact ⟨_, r', e', rfl⟩

theorem dumpOf_encoded (plist : Bytes → Option PView) (f : V2File) (wf : f.WF)
    (h0 : ∀ x, f.recs.head? = some x → x.head? ≠ some 0) :
    dumpOf plist (encodeV2 f) =
      .ok ({ threadMap := threadMapOf (f.threads.map toEntry), events := f.recs.map specDecode }, none) := by
  obtain ⟨hm, hr⟩ := read_magic f
  obtain ⟨hd, r', eh, htm⟩ := headerV2_encoded f wf hr
  have hd' : ∀ x ∈ f.recs, decodeRecord x = .ok (specDecode x) := fun x hx =>
    C01.decode_eq_spec x (wf.2.2.2.2 x hx).1 (wf.2.2.2.2 x hx).2
  obtain ⟨he, herr⟩ := parseV2_events decodeRecord specDecode Tables.empty f wf hd' h0 hr
  unfold dumpOf
  simp only [hm, if_true, eh, he, herr, htm]

/-- Without the first-byte hypothesis: the dump is still readable and its thread map is the file's. -/
theorem dumpOf_encoded_threadMap (plist : Bytes → Option PView) (f : V2File) (wf : f.WF) :
    ∃ d c, dumpOf plist (encodeV2 f) = .ok (d, c) ∧ d.threadMap = threadMapOf (f.threads.map toEntry) := by
  obtain ⟨hm, hr⟩ := read_magic f
  obtain ⟨hd, r', eh, htm⟩ := headerV2_encoded f wf hr
  refine ⟨{ threadMap := threadMapOf (f.threads.map toEntry),
             events := (parseV2 decodeRecord Tables.empty
               ((Reader.ofBytes (encodeV2 f)).read Gen.Consts.RAW_VERSION_SIZE).2).events },
          (parseV2 decodeRecord Tables.empty
               ((Reader.ofBytes (encodeV2 f)).read Gen.Consts.RAW_VERSION_SIZE).2).err, ?_, rfl⟩
  unfold dumpOf
  simp only [hm, if_true, eh, htm]

/-! ### the container layer on a cut file -/

/-- **The cut dump as the trace layer sees it.**  When the container reader gets through the header of the cut file
    at all, it gets through the header of the whole file, the thread map is the same, and the events of the cut file
    are a prefix of the events of the whole file.  (The greedy zero skipper `_pad` looks one byte ahead, so a cut inside
    the padding — or inside leading zero bytes of the first record — ends the padding earlier than in the whole file;
    but then the cut file ends there too and delivers no event: `zeroSkip_detW`.) -/
theorem dumpOf_trunc (plist : Bytes → Option PView) (file : Bytes) (k : Nat) (d' : Dump) (c' : Option PyErr)
    (h : dumpOf plist (file.take k) = .ok (d', c')) :
    ∃ d c, dumpOf plist file = .ok (d, c) ∧ d'.threadMap = d.threadMap ∧ d'.events <+: d.events := by
  have h0 : Rel k (Reader.ofBytes file) (Reader.ofBytes (file.take k)) := ⟨rfl, rfl⟩
  unfold dumpOf at h ⊢
  by_cases hl : ((Reader.ofBytes (file.take k)).read Gen.Consts.RAW_VERSION_SIZE).1.length = Gen.Consts.RAW_VERSION_SIZE
  · obtain ⟨h1, h2⟩ := h0.read_full _ hl
    simp only [h1] at h ⊢
    by_cases hv : ((Reader.ofBytes (file.take k)).read Gen.Consts.RAW_VERSION_SIZE).1 = Gen.Consts.RAW_VERSION2_BYTES
    · simp only [hv, if_true] at h ⊢
      cases hh' : headerV2 ((Reader.ofBytes (file.take k)).read Gen.Consts.RAW_VERSION_SIZE).2 with
      | mk res' r1' =>
      rw [hh'] at h
      cases res' with
      | error e => simp at h
      | ok hd' =>
        obtain ⟨hd, r1, hh, htm, _⟩ := headerV2_detW k _ _ h2 hd' r1' hh'
        rw [hh]
        simp only [Except.ok.injEq, Prod.mk.injEq] at h
        obtain ⟨hd1, _⟩ := h
        refine ⟨_, _, rfl, ?_, ?_⟩
        · rw [← hd1, htm]
        · rw [← hd1]
          exact parseV2_trunc decodeRecord decodeRecord_rejectsShort Tables.empty Tables.empty h2
    · simp only [hv, if_false] at h ⊢
      by_cases hv3 : ((Reader.ofBytes (file.take k)).read Gen.Consts.RAW_VERSION_SIZE).1 = Gen.Consts.RAW_VERSION3_BYTES
      · simp only [hv3, if_true] at h ⊢
        cases hh' : headerV3 plist ((Reader.ofBytes (file.take k)).read Gen.Consts.RAW_VERSION_SIZE).2 with
        | mk res' r1' =>
        rw [hh'] at h
        cases res' with
        | error e => simp at h
        | ok hd' =>
          obtain ⟨r1, hh, hr1⟩ := Det.headerV3 plist k _ _ h2 hd' r1' hh'
          rw [hh]
          dsimp only at h ⊢
          cases ht' : threadmapV3 r1' with
          | mk res2' r2' =>
          rw [ht'] at h
          cases res2' with
          | error e => simp at h
          | ok tm =>
            obtain ⟨r2, ht, _⟩ := Det.threadmapV3 k r1 r1' hr1 tm r2' ht'
            rw [ht]
            simp only [Except.ok.injEq, Prod.mk.injEq] at h
            obtain ⟨hd1, _⟩ := h
            refine ⟨_, _, rfl, ?_, ?_⟩
            · rw [← hd1]
            · rw [← hd1]
              exact parseV3_trunc plist decodeRecord decodeRecord_rejectsShort freshParser freshParser h2
      · simp only [hv3, if_false] at h
        simp at h
  · have n2 : ¬ ((Reader.ofBytes (file.take k)).read Gen.Consts.RAW_VERSION_SIZE).1 = Gen.Consts.RAW_VERSION2_BYTES :=
      fun e => hl (by rw [e]; rfl)
    have n3 : ¬ ((Reader.ofBytes (file.take k)).read Gen.Consts.RAW_VERSION_SIZE).1 = Gen.Consts.RAW_VERSION3_BYTES :=
      fun e => hl (by rw [e]; rfl)
    simp only [n2, n3, if_false] at h
    simp at h

/-! ### the stages behind the container preserve prefixes -/

theorem prefix_filterMap {α β : Type} (g : α → Option β) {l₁ l₂ : List α} (h : l₁ <+: l₂) :
    l₁.filterMap g <+: l₂.filterMap g := by
  obtain ⟨t, rfl⟩ := h
  rw [List.filterMap_append]; exact List.prefix_append _ _

theorem prefix_filter {α : Type} (p : α → Bool) {l₁ l₂ : List α} (h : l₁ <+: l₂) :
    l₁.filter p <+: l₂.filter p := by
  obtain ⟨t, rfl⟩ := h
  rw [List.filter_append]; exact List.prefix_append _ _

theorem prefix_map {α β : Type} (g : α → β) {l₁ l₂ : List α} (h : l₁ <+: l₂) : l₁.map g <+: l₂.map g := by
  obtain ⟨t, rfl⟩ := h
  rw [List.map_append]; exact List.prefix_append _ _

/-- The event filter (`kevents`: the three lazy `filter` stages) is per item. -/
theorem keventsWith_prefix (cfg : Cfg) (fc : List Nat) {l₁ l₂ : List Item} (h : l₁ <+: l₂) :
    keventsWith cfg fc l₁ <+: keventsWith cfg fc l₂ := by
  unfold keventsWith
  have h1 := prefix_filterMap asEvent h
  cases cfg.filterTid with
  | none =>
    dsimp only
    split
    · exact prefix_filter _ h1
    · exact h1
  | some t =>
    dsimp only
    split
    · exact prefix_filter _ (prefix_filter _ h1)
    · exact prefix_filter _ h1

theorem fedEvents_prefix (cfg : Cfg) {d' d : Dump} (h : d'.events <+: d.events) :
    fedEvents cfg d' <+: fedEvents cfg d :=
  keventsWith_prefix cfg _ (prefix_map _ h)

/-- `feed_generator` (with the tables at each yield) is causal. -/
theorem runAnnot_prefix (env : Env) (s : Trace.PState) (h₁ h₂ : List Kevent) :
    runAnnot env s h₁ <+: runAnnot env s (h₁ ++ h₂) := by
  induction h₁ generalizing s with
  | nil => exact List.nil_prefix
  | cons e es ih =>
    simp only [List.cons_append, runAnnot]
    cases feed env s e with
    | error err => exact List.prefix_refl _
    | ok p =>
      obtain ⟨r, s'⟩ := p
      dsimp only
      exact (List.prefix_append_right_inj _).2 (ih s')

/-- The post-filters decide per trace, from the trace and the tables at its own yield. -/
theorem postFilter_prefix (cfg : Cfg) {l₁ l₂ : List (TraceOut × Tabs)} (h : l₁ <+: l₂) :
    postFilter cfg l₁ <+: postFilter cfg l₂ := by
  unfold postFilter
  have h1 : (match cfg.filterProcess with
      | some fp => l₁.filter fun p => processMatches fp p.2 p.1
      | none => l₁) <+: (match cfg.filterProcess with
      | some fp => l₂.filter fun p => processMatches fp p.2 p.1
      | none => l₂) := by
    cases cfg.filterProcess with
    | none => exact h
    | some fp => exact prefix_filter _ h
  dsimp only
  have h2 : ∀ {a b : List (TraceOut × Tabs)}, a <+: b →
      (if addTraceClass cfg then a.filter fun p => p.1.cls != Gen.Consts.DBG_TRACE else a) <+:
      (if addTraceClass cfg then b.filter fun p => p.1.cls != Gen.Consts.DBG_TRACE else b) := by
    intro a b hab
    split
    · exact prefix_filter _ hab
    · exact hab
  have h3 : ∀ {a b : List (TraceOut × Tabs)}, a <+: b →
      (if addFsClass cfg then a.filter fun p => p.1.cls != Gen.Consts.DBG_FSYSTEM else a) <+:
      (if addFsClass cfg then b.filter fun p => p.1.cls != Gen.Consts.DBG_FSYSTEM else b) := by
    intro a b hab
    split
    · exact prefix_filter _ hab
    · exact hab
  exact h3 (h2 h1)

/-- **The trace layer is causal in the dump.**  Same thread map, events a prefix: the traces (with the tables at their
    yield) are a prefix — for every filter configuration. -/
theorem traces_prefix (env : Env) (obj : Obj) {d' d : Dump} (htm : d'.threadMap = d.threadMap)
    (hev : d'.events <+: d.events) :
    (traces env obj d').1.traces <+: (traces env obj d).1.traces := by
  obtain ⟨t, ht⟩ := fedEvents_prefix obj.cfg hev
  have hs : startState d' = startState d := by simp only [startState, htm]
  simp only [traces]
  rw [← ht, hs]
  exact postFilter_prefix _ (runAnnot_prefix env _ _ _)

/-- The line builder mapped over the traces stops at the first trace whose text raises: causal as well. -/
theorem formatAll_prefix (sh : Format.Show) {l₁ l₂ : List (TraceOut × Tabs)} (h : l₁ <+: l₂) :
    (formatAll sh l₁).1 <+: (formatAll sh l₂).1 := by
  obtain ⟨t, rfl⟩ := h
  induction l₁ with
  | nil => exact List.nil_prefix
  | cons p l ih =>
    obtain ⟨o, T⟩ := p
    simp only [List.cons_append, formatAll]
    cases o.text with
    | error e => exact List.prefix_refl _
    | ok body =>
      dsimp only
      exact (List.cons_prefix_cons).2 ⟨rfl, ih⟩

/-- The lines of `formattedTraces` are the lines of `formatAll` over the traces of the dump. -/
theorem formattedTraces_lines (env : Env) (obj : Obj) (sh : Format.Show) (plist : Bytes → Option PView) (file : Bytes)
    (d : Dump) (c : Option PyErr) (h : dumpOf plist file = .ok (d, c)) :
    (formattedTraces env obj sh plist file).1 = (formatAll sh (traces env obj d).1.traces).1 := by
  simp only [formattedTraces, h]

theorem formattedTraces_err (env : Env) (obj : Obj) (sh : Format.Show) (plist : Bytes → Option PView) (file : Bytes)
    (d : Dump) (c : Option PyErr) (h : dumpOf plist file = .ok (d, c)) :
    (formattedTraces env obj sh plist file).2 =
      match (formatAll sh (traces env obj d).1.traces).2 with
      | some e => some e
      | none => match (traces env obj d).1.err with
        | some e => some e
        | none => c := by
  simp only [formattedTraces, h]
  cases (formatAll sh (traces env obj d).1.traces).2 <;> cases (traces env obj d).1.err <;> rfl

theorem formattedTraces_unreadable (env : Env) (obj : Obj) (sh : Format.Show) (plist : Bytes → Option PView)
    (file : Bytes) (e : PyErr) (h : dumpOf plist file = .error e) :
    formattedTraces env obj sh plist file = ([], some e) := by
  simp only [formattedTraces, h]

/-- **Truncation, end to end.** -/
theorem formattedTraces_trunc (env : Env) (obj : Obj) (sh : Format.Show) (plist : Bytes → Option PView) (file : Bytes)
    (k : Nat) :
    (formattedTraces env obj sh plist (file.take k)).1 <+: (formattedTraces env obj sh plist file).1 := by
  cases h' : dumpOf plist (file.take k) with
  | error e => rw [formattedTraces_unreadable env obj sh plist _ e h']; exact List.nil_prefix
  | ok p =>
    obtain ⟨d', c'⟩ := p
    obtain ⟨d, c, h, htm, hev⟩ := dumpOf_trunc plist file k d' c' h'
    rw [formattedTraces_lines env obj sh plist _ d' c' h', formattedTraces_lines env obj sh plist _ d c h]
    exact formatAll_prefix sh (traces_prefix env obj htm hev)

/-! ### what `formatAll` returns -/

/-- The line `_format_trace` builds for a trace whose `str()` is `body`, on the tables at the trace's yield. -/
def lineOf (sh : Format.Show) (p : TraceOut × Tabs) (body : String) : String :=
  Format.formatTrace sh Format.Colour.off (fmtTables p.2)
    { timestamp := (firstOf p.1.events).timestamp, tid := (firstOf p.1.events).tid, body := body }

/-- **Shape of the formatted list.**  Line `i` is the line of trace `i` (nothing added, nothing dropped, order kept);
    the list ends where the traces end (no rendering exception) or at the first trace whose text raises (that exception is
    reported). -/
theorem formatAll_shape (sh : Format.Show) (l : List (TraceOut × Tabs)) :
    (∀ (i : Nat) line, (formatAll sh l).1[i]? = some line →
        ∃ p body, l[i]? = some p ∧ p.1.text = .ok body ∧ line = lineOf sh p body) ∧
    (((formatAll sh l).1.length = l.length ∧ (formatAll sh l).2 = none) ∨
     (∃ p e, l[(formatAll sh l).1.length]? = some p ∧ p.1.text = .error e ∧ (formatAll sh l).2 = some e)) := by
  induction l with
  | nil =>
    refine ⟨?_, Or.inl ⟨rfl, rfl⟩⟩
    intro i line h; simp [formatAll] at h
  | cons p l ih =>
    obtain ⟨o, T⟩ := p
    obtain ⟨ih1, ih2⟩ := ih
    cases ht : o.text with
    | error e =>
      have hf : formatAll sh ((o, T) :: l) = ([], some e) := by simp only [formatAll, ht]
      rw [hf]
      refine ⟨?_, Or.inr ⟨(o, T), e, rfl, ht, rfl⟩⟩
      intro i line h; simp at h
    | ok body =>
      have hf : formatAll sh ((o, T) :: l) = (lineOf sh (o, T) body :: (formatAll sh l).1, (formatAll sh l).2) := by
        simp only [formatAll, ht, lineOf]
      rw [hf]
      refine ⟨?_, ?_⟩
      · intro i line h
        cases i with
        | zero =>
          simp only [List.getElem?_cons_zero, Option.some.injEq] at h
          exact ⟨(o, T), body, rfl, ht, h.symm⟩
        | succ i =>
          simp only [List.getElem?_cons_succ] at h ⊢
          exact ih1 i line h
      · rcases ih2 with ⟨h1, h2⟩ | ⟨q, e, h1, h2, h3⟩
        · exact Or.inl ⟨by simp only [List.length_cons, h1], h2⟩
        · exact Or.inr ⟨q, e, by simpa only [List.length_cons, List.getElem?_cons_succ] using h1, h2, h3⟩


theorem mem_of_mem_ite_filter {α : Type} (c : Bool) (q : α → Bool) (l : List α) (p : α)
    (h : p ∈ (if c then l.filter q else l)) : p ∈ l := by
  split at h
  · exact (List.mem_filter.1 h).1
  · exact h

/-- The post-filters only drop traces. -/
theorem mem_of_mem_postFilter (cfg : Cfg) (l : List (TraceOut × Tabs)) (p : TraceOut × Tabs)
    (h : p ∈ postFilter cfg l) : p ∈ l := by
  unfold postFilter at h
  dsimp only at h
  have h2 := mem_of_mem_ite_filter _ _ _ _ (mem_of_mem_ite_filter _ _ _ _ h)
  cases hfp : cfg.filterProcess with
  | none => rw [hfp] at h2; exact h2
  | some fp => rw [hfp] at h2; exact (List.mem_filter.1 h2).1

/-- Every trace of `traces` was yielded by `feed_generator` over the fed events, from the thread map's tables. -/
theorem mem_traces (env : Env) (obj : Obj) (d : Dump) (p : TraceOut × Tabs) (h : p ∈ (traces env obj d).1.traces) :
    p ∈ runAnnot env (startState d) (fedEvents obj.cfg d) :=
  mem_of_mem_postFilter obj.cfg _ p h

/-- The two views of the lookup tables the formatter is given (composition glue vs. the C14 process-column half). -/
theorem fmtTables_eq (t : Tabs) : fmtTables t = Declared.fmtTables t.threadsPids t.pidsNames := rfl

/-- No thread / class / subclass filter: the decoders are fed every event of the dump. -/
theorem fedEvents_nofilter (cfg : Cfg) (d : Dump) (h1 : cfg.filterTid = none) (h2 : cfg.filterClass = [])
    (h3 : cfg.filterSubclass = []) : fedEvents cfg d = d.events := by
  have hc : effectiveClasses cfg = [] := by
    simp [effectiveClasses, addTraceClass, addFsClass, h2, h3]
  simp only [fedEvents, keventsWith, h1, hc, h3]
  simp only [List.isEmpty_nil, Bool.not_true, Bool.or_self, Bool.false_eq_true, if_false, List.filterMap_map]
  induction d.events with
  | nil => rfl
  | cons e es ih => simpa [asEvent] using ih

/-! ### the composition's container step is the container parser of C02 / C06 -/

theorem parseV2_prior_irrelevant {ε : Type} (dec : Bytes → Except PyErr ε) (prior prior' : Tables) (r : Reader) :
    (parseV2 dec prior r).events = (parseV2 dec prior' r).events ∧ (parseV2 dec prior r).err = (parseV2 dec prior' r).err := by
  unfold parseV2
  cases headerV2 r with
  | mk res r' => cases res <;> exact ⟨rfl, rfl⟩

theorem events_map_ev' {ε : Type} (l : List ε) (e : Option PyErr) (t t' : Tables) (m : V3Meta) (r : Reader) :
    (Run3.mk (l.map Out.ev) e t t' m r).events = l := by
  simp only [Run3.events]
  induction l with
  | nil => rfl
  | cons a l ih => simpa [Out.ev?] using ih

/-- `parse_v3` resets the attributes it reports before it looks at the blocks: what it delivers and how it ends depends
    on the attributes of the parser object only through `reset`. -/
theorem tailOfBlocks_reset {ε : Type} (plist : Bytes → Option PView) (evs : List ε) (t : Tables) (m m' : V3Meta)
    (hm : m.reset = m'.reset) (blocks : List (Bytes × Bytes)) (r2 : Reader) :
    (tailOfBlocks plist evs t m blocks r2).outs = (tailOfBlocks plist evs t m' blocks r2).outs ∧
    (tailOfBlocks plist evs t m blocks r2).err = (tailOfBlocks plist evs t m' blocks r2).err := by
  unfold tailOfBlocks
  rw [hm]
  split <;> exact ⟨rfl, rfl⟩

theorem tailV3_reset {ε : Type} (plist : Bytes → Option PView) (evs : List ε) (t : Tables) (m m' : V3Meta)
    (hm : m.reset = m'.reset) (r : Reader) :
    (tailV3 plist evs t m r).outs = (tailV3 plist evs t m' r).outs ∧
    (tailV3 plist evs t m r).err = (tailV3 plist evs t m' r).err := by
  unfold tailV3
  dsimp only
  cases greedyRange blockElem ((r.seekTo (r.pos - 8)).rest.length / 16 + 2) (r.seekTo (r.pos - 8)) with
  | mk res r2 =>
  cases res with
  | error e => exact ⟨rfl, rfl⟩
  | ok blocks => exact tailOfBlocks_reset plist evs t m m' hm blocks r2

/-- What a version-3 run delivers and how it ends does not depend on what the parser object held before
    (`set_thread_map` clears the tables; the attributes are reset). -/
theorem parseV3_prior_irrelevant {ε : Type} (plist : Bytes → Option PView) (dec : Bytes → Except PyErr ε)
    (prior prior' : PState) (r : Reader) :
    (parseV3 plist dec prior r).outs = (parseV3 plist dec prior' r).outs ∧
    (parseV3 plist dec prior r).err = (parseV3 plist dec prior' r).err := by
  unfold parseV3
  cases headerV3 plist r with
  | mk res r1 =>
  cases res with
  | error e => exact ⟨rfl, rfl⟩
  | ok hd =>
    dsimp only
    cases threadmapV3 r1 with
    | mk res2 r2 =>
    cases res2 with
    | error e => exact ⟨rfl, rfl⟩
    | ok tm =>
      dsimp only
      cases (chunkLoop dec (r2.rest.length / 16 + 2) r2).2.1 with
      | some e => exact ⟨rfl, rfl⟩
      | none =>
        dsimp only
        refine tailV3_reset plist _ _ _ _ ?_ _
        rfl

/-- while the events are delivered the tables are `set_thread_map` of the thread-map chunk. -/
theorem parseV3_tmTables {ε : Type} (plist : Bytes → Option PView) (dec : Bytes → Except PyErr ε) (prior : PState)
    {r r1 r2 : Reader} {hd : List Nat × Bytes} {tm : List ThreadEntry} (hh : headerV3 plist r = (.ok hd, r1))
    (ht : threadmapV3 r1 = (.ok tm, r2)) :
    (parseV3 plist dec prior r).tmTables = setThreadMap prior.tables tm := by
  unfold parseV3
  rw [hh]
  dsimp only
  rw [ht]
  dsimp only
  have tl : ∀ (evs : List ε) (t : Tables) (m : V3Meta) (x : Reader), (tailV3 plist evs t m x).tmTables = t := by
    intro evs t m x
    unfold tailV3
    dsimp only
    split
    · rfl
    · unfold tailOfBlocks
      split <;> rfl
  split
  · rfl
  · exact tl _ _ _ _

/-- A readable dump of the composition is what `KdBufParser.parse` (the subject of C02, C03 and C06) delivers for the
    same bytes, whatever the parser object held before: the same events, the same final exception, and the tables are
    `set_thread_map` of the thread map whose decoded form the trace layer receives. -/
theorem dumpOf_is_parse (plist : Bytes → Option PView) (prior : PState) (file : Bytes) (d : Dump) (c : Option PyErr)
    (h : dumpOf plist file = .ok (d, c)) :
    (parse plist fromKdBuf prior file).events = d.events ∧ (parse plist fromKdBuf prior file).err = c ∧
    ∃ tm, d.threadMap = threadMapOf tm ∧ (parse plist fromKdBuf prior file).tmTables = setThreadMap prior.tables tm := by
  unfold dumpOf at h
  unfold parse
  by_cases hv : ((Reader.ofBytes file).read Gen.Consts.RAW_VERSION_SIZE).1 = Gen.Consts.RAW_VERSION2_BYTES
  · simp only [hv, if_true] at h ⊢
    obtain ⟨p1, p2⟩ := parseV2_prior_irrelevant fromKdBuf prior.tables Tables.empty
      ((Reader.ofBytes file).read Gen.Consts.RAW_VERSION_SIZE).2
    cases hh : headerV2 ((Reader.ofBytes file).read Gen.Consts.RAW_VERSION_SIZE).2 with
    | mk res r1 =>
    rw [hh] at h
    cases res with
    | error e => simp at h
    | ok hd =>
      simp only [Except.ok.injEq, Prod.mk.injEq] at h
      obtain ⟨hd1, hc⟩ := h
      refine ⟨?_, ?_, hd.threadmap, ?_, ?_⟩
      · rw [events_map_ev', p1, ← hd1]; rfl
      · rw [← hc]; exact p2
      · rw [← hd1]
      · simp only [parseV2, hh]
  · simp only [hv, if_false] at h ⊢
    by_cases hv3 : ((Reader.ofBytes file).read Gen.Consts.RAW_VERSION_SIZE).1 = Gen.Consts.RAW_VERSION3_BYTES
    · simp only [hv3, if_true] at h ⊢
      obtain ⟨p1, p2⟩ := parseV3_prior_irrelevant plist fromKdBuf prior freshParser
        ((Reader.ofBytes file).read Gen.Consts.RAW_VERSION_SIZE).2
      cases hh : headerV3 plist ((Reader.ofBytes file).read Gen.Consts.RAW_VERSION_SIZE).2 with
      | mk res r1 =>
      rw [hh] at h
      cases res with
      | error e => simp at h
      | ok hd =>
        dsimp only at h
        cases ht : threadmapV3 r1 with
        | mk res2 r2 =>
        rw [ht] at h
        cases res2 with
        | error e => simp at h
        | ok tm =>
          simp only [Except.ok.injEq, Prod.mk.injEq] at h
          obtain ⟨hd1, hc⟩ := h
          refine ⟨?_, ?_, tm, ?_, parseV3_tmTables plist fromKdBuf prior hh ht⟩
          · rw [← hd1]; simp only [Run3.events, p1]; rfl
          · rw [← hc, p2]; rfl
          · rw [← hd1]
    · simp only [hv3, if_false] at h
      simp at h

/-! ### the container layer on an encoded version-3 file -/

theorem decodeRecord_v3recs (f : V3File) (wf : f.WF) : ∀ x ∈ f.recs, decodeRecord x = .ok (specDecode x) := by
  intro x hx
  simp only [V3File.recs, List.mem_flatMap] at hx
  obtain ⟨c, hc, hxc⟩ := hx
  have := (wf.2.2.2.2.2.2.2.2.2.1 c hc).2.2.2.2 x hxc
  exact C01.decode_eq_spec x this.1 this.2

/-- **The encoded version-3 file as the trace layer sees it.**  The thread-map chunk's entries and the decodings of the
    records of ALL chunks in file order; the exception the container ends with is the one the block loop / log loop ends
    with on exactly the file's blocks. -/
theorem dumpOf_encoded_v3 (plist : Bytes → Option PView) (f : V3File) (wf : f.WF) (hcpu : plist f.cpu ≠ none) :
    ∃ rd, dumpOf plist (encodeV3 f) =
      .ok ({ threadMap := threadMapOf (f.threads.map toEntry), events := f.recs.map specDecode },
           (tailOfBlocks plist (f.recs.map specDecode) (setThreadMap Tables.empty (f.threads.map toEntry))
              { freshParser.md with header := some (f.hdr, f.cpu) } (f.blocks.map fun b => (b.tag, b.payload)) rd).err) := by
  obtain ⟨r2, r3, rd, hm, eh, et, hp⟩ := parse_encodeV3_steps plist decodeRecord specDecode decodeRecord_rejectsShort
    freshParser f wf hcpu (decodeRecord_v3recs f wf)
  refine ⟨rd, ?_⟩
  have hnot2 : ¬ Gen.Consts.RAW_VERSION3_BYTES = Gen.Consts.RAW_VERSION2_BYTES := by decide
  have hev : (tailOfBlocks plist (f.recs.map specDecode) (setThreadMap freshParser.tables (f.threads.map toEntry))
      { freshParser.md with header := some (f.hdr, f.cpu) } (f.blocks.map fun b => (b.tag, b.payload)) rd).events =
      f.recs.map specDecode := by
    unfold tailOfBlocks
    split
    · exact events_evs _ _ _ _ _ _
    · exact events_evs_logs _ _ _ _ _ _ _
  unfold dumpOf
  simp only [hm, hnot2, if_false, if_true, eh, et, hp, hev]
  rfl

/-! ### a concrete dump (non-vacuity witnesses of the composition theorems) -/

/-- three kernel trace codes, Latin-1 as `bytes.decode`, no generated decoder. -/
def exEnv : Env :=
  { codes := fun k => [(0x7010010, "TRACE_STRING_PROC_EXIT"), (0x7000004, "TRACE_DATA_NEWTHREAD"),
                       (0x7010004, "TRACE_STRING_NEWTHREAD")].lookup k,
    host := ⟨fun _ => none, fun _ => none, fun _ => none, fun _ => none, 0⟩,
    tables := ⟨[], [], [], ⟨"", 0⟩, [], [], 0⟩, decoders := [],
    dec := fun bs => .ok (String.ofList (bs.map Char.ofNat)) }

/-- a 64-byte `kd_buf`: timestamp, 32 argument bytes, thread id, debug id, cpu / unused. -/
def exRecord (ts tid debugid : Nat) (data : Bytes) : Bytes :=
  toLE 8 ts ++ (data ++ zeros (32 - data.length)) ++ toLE 8 tid ++ toLE 4 debugid ++ zeros 12

/-- thread 7 declared twice by the map (the later entry wins); it announces thread 9 of pid 50 and names it "new";
    thread 8 is never declared; four bytes of padding. -/
def exFile : V2File :=
  ⟨[⟨7, 41, [111, 108, 100], [120, 0, 255]⟩, ⟨7, 42, [108, 97, 117, 110, 99, 104, 100], []⟩], 4,
   [exRecord 1 7 0x7010010 [120], exRecord 2 7 0x7000004 (toLE 8 9 ++ toLE 8 50), exRecord 3 9 0x7010010 [121],
    exRecord 4 7 0x7010004 [110, 101, 119], exRecord 5 9 0x7010010 [122], exRecord 6 8 0x7010010 [123]], 1, 24000000⟩

theorem exFile_wf : exFile.WF := by
  refine ⟨by decide, ?_, by decide, by decide, ?_⟩
  · intro t ht
    simp only [exFile, List.mem_cons, List.not_mem_nil, or_false] at ht
    rcases ht with rfl | rfl <;> refine ⟨by decide, by decide, by decide, by decide, by decide⟩
  · have : ∀ r ∈ exFile.recs, r.length = 64 ∧ ∀ b ∈ r, b < 256 := by decide +kernel
    exact this

theorem exFile_first : ∀ x, exFile.recs.head? = some x → x.head? ≠ some 0 := by
  intro x hx
  simp only [exFile, List.head?_cons, Option.some.injEq] at hx
  subst hx; decide

end KdVerif.EndToEnd
