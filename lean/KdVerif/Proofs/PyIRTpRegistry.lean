import KdVerif.Model.PyIRTp
import KdVerif.Proofs.PyIR
/-
  Lemmas about the handler registry `TracesParser.__init__` merges (`PyIRTp.merge`, `Model/PyIRTp`): a sequence of
  `dict.update` calls on insertion-ordered dicts; when no name is bound to two different values across the families, the
  merged registry does not depend on the order (or multiplicity) of the updates.  Used by `Props/C17`.  Core Lean only.
-/
namespace KdVerif.PyIRTp
open KdVerif.PyIR

/-! ### the registry -/

section registry
variable {β : Type}

theorem lookup_set (k k' : Nat) (v : β) (m : AList β) :
    AList.lookup k (AList.set k' v m) = if k' = k then some v else AList.lookup k m := by
  by_cases h : k' = k
  · subst h; simp [AList.lookup_set_self]
  · have h' : k ≠ k' := fun e => h e.symm
    simp [h, AList.lookup_set_ne h']

theorem lookup_isSome_of_mem (k : Nat) (v : β) : ∀ (m : AList β), (k, v) ∈ m → (AList.lookup k m).isSome
  | [], h => by simp at h
  | p :: r, h => by
    simp only [AList.lookup]
    split
    · rfl
    · rename_i hk
      rcases List.mem_cons.mp h with h | h
      · exact absurd (by rw [← h]) hk
      · exact lookup_isSome_of_mem k v r h

/-- after `d.update(other)` a binding comes from `other` or was in `d` -/
theorem dictUpdate_sound (k : Nat) (v : β) (other : AList β) : ∀ (d : AList β),
    AList.lookup k (dictUpdate d other) = some v → (k, v) ∈ other ∨ AList.lookup k d = some v := by
  induction other with
  | nil => intro d h; exact Or.inr h
  | cons kv rest ih =>
    intro d h
    have h' : AList.lookup k (dictUpdate (AList.set kv.1 kv.2 d) rest) = some v := h
    rcases ih _ h' with hm | hl
    · exact Or.inl (List.mem_cons_of_mem _ hm)
    · rw [lookup_set] at hl
      by_cases hk : kv.1 = k
      · simp only [hk, if_true, Option.some.injEq] at hl
        refine Or.inl (List.mem_cons.mpr (Or.inl ?_))
        rw [← hk, ← hl]
      · simp only [hk, if_false] at hl
        exact Or.inr hl

/-- … and every key of `d` or of `other` is bound afterwards -/
theorem dictUpdate_complete (k : Nat) (other : AList β) : ∀ (d : AList β),
    ((AList.lookup k d).isSome ∨ ∃ v, (k, v) ∈ other) → (AList.lookup k (dictUpdate d other)).isSome := by
  induction other with
  | nil =>
    intro d h
    rcases h with h | ⟨v, h⟩
    · exact h
    · simp at h
  | cons kv rest ih =>
    intro d h
    show (AList.lookup k (dictUpdate (AList.set kv.1 kv.2 d) rest)).isSome
    apply ih
    by_cases hk : kv.1 = k
    · left; rw [lookup_set]; simp [hk]
    · rcases h with h | ⟨v, h⟩
      · left; rw [lookup_set]; simpa [hk] using h
      · rcases List.mem_cons.mp h with h | h
        · exact absurd (by rw [← h]) hk
        · exact Or.inr ⟨v, h⟩

/-- the updates applied to a dict `acc` -/
def mergeFrom (fam : Family → AList β) (acc : AList β) (us : List Family) : AList β :=
  us.foldl (fun r f => dictUpdate r (fam f)) acc

theorem mergeFrom_sound (fam : Family → AList β) (k : Nat) (v : β) (us : List Family) : ∀ (acc : AList β),
    AList.lookup k (mergeFrom fam acc us) = some v → (∃ f ∈ us, (k, v) ∈ fam f) ∨ AList.lookup k acc = some v := by
  induction us with
  | nil => intro acc h; exact Or.inr h
  | cons f rest ih =>
    intro acc h
    have h' : AList.lookup k (mergeFrom fam (dictUpdate acc (fam f)) rest) = some v := h
    rcases ih _ h' with ⟨g, hg, hm⟩ | hl
    · exact Or.inl ⟨g, List.mem_cons_of_mem _ hg, hm⟩
    · rcases dictUpdate_sound k v (fam f) acc hl with hm | hl
      · exact Or.inl ⟨f, by simp, hm⟩
      · exact Or.inr hl

theorem mergeFrom_complete (fam : Family → AList β) (k : Nat) (us : List Family) : ∀ (acc : AList β),
    ((AList.lookup k acc).isSome ∨ ∃ f ∈ us, ∃ v, (k, v) ∈ fam f) → (AList.lookup k (mergeFrom fam acc us)).isSome := by
  induction us with
  | nil =>
    intro acc h
    rcases h with h | ⟨f, hf, _⟩
    · exact h
    · simp at hf
  | cons f rest ih =>
    intro acc h
    show (AList.lookup k (mergeFrom fam (dictUpdate acc (fam f)) rest)).isSome
    apply ih
    rcases h with h | ⟨g, hg, v, hm⟩
    · exact Or.inl (dictUpdate_complete k (fam f) acc (Or.inl h))
    · rcases List.mem_cons.mp hg with hg | hg
      · subst hg; exact Or.inl (dictUpdate_complete k (fam g) acc (Or.inr ⟨v, hm⟩))
      · exact Or.inr ⟨g, hg, v, hm⟩

/-- every binding of the merged registry is a binding of one of the merged families -/
theorem merge_sound (fam : Family → AList β) (k : Nat) (v : β) (us : List Family)
    (h : AList.lookup k (merge fam us) = some v) : ∃ f ∈ us, (k, v) ∈ fam f := by
  rcases mergeFrom_sound fam k v us [] h with h | h
  · exact h
  · simp [AList.lookup] at h

/-- a key of a merged family is bound in the merged registry -/
theorem merge_complete (fam : Family → AList β) (k : Nat) (us : List Family) (f : Family) (v : β)
    (hf : f ∈ us) (hm : (k, v) ∈ fam f) : (AList.lookup k (merge fam us)).isSome :=
  mergeFrom_complete fam k us [] (Or.inr ⟨f, hf, v, hm⟩)

/-- **Disjoint families: the merged registry does not depend on the order (or the multiplicity) of the updates.**  If a
    name is bound to one value across all families (`huniq`), then for any sequence of updates the registry binds `k` to
    `v` exactly when some merged family does. -/
theorem merge_lookup_iff (fam : Family → AList β)
    (huniq : ∀ f g k v v', (k, v) ∈ fam f → (k, v') ∈ fam g → v = v') (us : List Family) (k : Nat) (v : β) :
    AList.lookup k (merge fam us) = some v ↔ ∃ f ∈ us, (k, v) ∈ fam f := by
  constructor
  · exact merge_sound fam k v us
  · rintro ⟨f, hf, hmem⟩
    have hs := merge_complete fam k us f v hf hmem
    cases hl : AList.lookup k (merge fam us) with
    | none => rw [hl] at hs; exact absurd hs (by simp)
    | some v' =>
      obtain ⟨g, _, hg⟩ := merge_sound fam k v' us hl
      rw [huniq g f k v' v hg hmem]

theorem option_ext_some {α : Type} (a b : Option α) (h : ∀ x, a = some x ↔ b = some x) : a = b := by
  cases a with
  | none =>
    cases b with
    | none => rfl
    | some y => exact absurd ((h y).mpr rfl) (by simp)
  | some x => exact ((h x).mp rfl).symm

/-- … hence two update sequences that mention the same families build the same registry (as a dict: same lookups). -/
theorem merge_order_independent (fam : Family → AList β)
    (huniq : ∀ f g k v v', (k, v) ∈ fam f → (k, v') ∈ fam g → v = v') (us us' : List Family)
    (hsame : ∀ f, f ∈ us ↔ f ∈ us') (k : Nat) :
    AList.lookup k (merge fam us) = AList.lookup k (merge fam us') := by
  apply option_ext_some
  intro v
  rw [merge_lookup_iff fam huniq, merge_lookup_iff fam huniq]
  constructor
  · rintro ⟨f, hf, hm⟩; exact ⟨f, (hsame f).mp hf, hm⟩
  · rintro ⟨f, hf, hm⟩; exact ⟨f, (hsame f).mpr hf, hm⟩

end registry

end KdVerif.PyIRTp
