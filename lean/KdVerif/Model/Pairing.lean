import KdVerif.Model.Kevent
/-
  L3: `TracesParser.feed` / `_feed_start_event` / `_feed_end_event` / `_feed_single_event`.
  The two Python tables `on_going_events` / `on_going_traces` (tid -> event id -> list) are one
  function keyed by (trace-domain?, tid, event id).  `domOf eid` says whether `trace_codes[eid]` is
  one of the kernel trace-string/data names (`trace_handlers`), i.e. which table the event uses.
  The emitted value is the event list handed to `parse_event_list` (before the decodability test).
-/
namespace KdVerif.Pairing

structure Key where
  dom : Bool
  tid : Nat
  eid : Nat
  deriving DecidableEq, Repr

abbrev PState := Key → Option (List Kevent)

def PState.empty : PState := fun _ => none

/-- `for eventid in state[tid]: state[tid][eventid].append(event)` on the table of domain `d`. -/
def appendAll (s : PState) (d : Bool) (tid : Nat) (e : Kevent) : PState :=
  fun k => if k.dom = d ∧ k.tid = tid then (s k).map (· ++ [e]) else s k

def set (s : PState) (k : Key) (v : Option (List Kevent)) : PState :=
  fun k' => if k' = k then v else s k'

def keyOf (domOf : Nat → Bool) (e : Kevent) : Key := ⟨domOf e.eventid, e.tid, e.eventid⟩

/-- One `feed(event)`: new state and the event list passed to `parse_event_list`, if any. -/
def step (domOf : Nat → Bool) (s : PState) (e : Kevent) : PState × Option (List Kevent) :=
  let k := keyOf domOf e
  if e.qual = 1 then
    (appendAll (set s k (some [])) k.dom e.tid e, none)
  else if e.qual = 2 then
    match s k with
    | none => (s, none)
    | some _ =>
      let s' := appendAll s k.dom e.tid e
      (set s' k none, s' k)
  else
    (appendAll s k.dom e.tid e, some [e])

/-- State after a history, and the list of emitted windows paired with nothing else, in order. -/
def runFrom (domOf : Nat → Bool) (s : PState) : List Kevent → PState × List (List Kevent)
  | [] => (s, [])
  | e :: es =>
    let (s', o) := step domOf s e
    let (s'', os) := runFrom domOf s' es
    (s'', match o with | some w => w :: os | none => os)

def run (domOf : Nat → Bool) (h : List Kevent) : List (List Kevent) := (runFrom domOf PState.empty h).2

def stateAfter (domOf : Nat → Bool) (h : List Kevent) : PState := (runFrom domOf PState.empty h).1

/-- Per-event outputs (for the correspondence: which event emitted which window). -/
def outputs (domOf : Nat → Bool) : PState → List Kevent → List (Option (List Kevent))
  | _, [] => []
  | s, e :: es => let (s', o) := step domOf s e; o :: outputs domOf s' es

/-- `parse_event_list(events)` up to the handler call.  `decodable eid` = "`eid in trace_codes` and
    `trace_codes[eid] in self.handlers`".  `.ok none` = returns `None` before any handler runs,
    `.ok (some w)` = `self.handlers[name](self, w)` is called with exactly `w`; `events[0]` of an empty
    list raises `IndexError` (never reached from `feed`: `C04.window_first_event`, `C04.traces_eq_filter`). -/
def gate (decodable : Nat → Bool) : List Kevent → Except PyErr (Option (List Kevent))
  | [] => .error .indexError
  | x :: xs => .ok (if decodable x.eventid then some (x :: xs) else none)

/-- The gate applied to a sequence of delivered windows: the event lists that reach a handler, in order. -/
def gateAll (decodable : Nat → Bool) : List (List Kevent) → Except PyErr (List (List Kevent))
  | [] => .ok []
  | w :: ws =>
    match gate decodable w with
    | .error e => .error e
    | .ok o =>
      match gateAll decodable ws with
      | .error e => .error e
      | .ok r => .ok (match o with | some v => v :: r | none => r)

/-- `feed_generator` up to the handler calls: the handler invocations caused by a history. -/
def traces (decodable domOf : Nat → Bool) (h : List Kevent) : Except PyErr (List (List Kevent)) :=
  gateAll decodable (run domOf h)

end KdVerif.Pairing
