import KdVerif.Model.IR
/-
  Syntactic analyses of decoder expressions, all decidable and kernel-evaluable:
  field substitution, flattening of concatenations, the `name(p0, …)tail` shape check,
  and the "reads only …" footprint predicate `within`.
-/
namespace KdVerif.IR

/-- Replace `.field i` by the i-th constructor argument. -/
def subst (fs : List Expr) : Expr → Expr
  | .field i => (fs[i]?).getD (.field i)
  | .cInt64 e => .cInt64 (subst fs e) | .cInt32 e => .cInt32 (subst fs e)
  | .band a b => .band (subst fs a) (subst fs b) | .bor a b => .bor (subst fs a) (subst fs b)
  | .shr a b => .shr (subst fs a) (subst fs b) | .shl a b => .shl (subst fs a) (subst fs b)
  | .toBool e => .toBool (subst fs e) | .notE e => .notE (subst fs e)
  | .cmp op a b => .cmp op (subst fs a) (subst fs b)
  | .isNone e => .isNone (subst fs e)
  | .andE a b => .andE (subst fs a) (subst fs b) | .orE a b => .orE (subst fs a) (subst fs b)
  | .ite c t e => .ite (subst fs c) (subst fs t) (subst fs e)
  | .inList x l => .inList (subst fs x) (subst fs l)
  | .enumOf n e => .enumOf n (subst fs e) | .enumNameOr n e => .enumNameOr n (subst fs e)
  | .flagsOf n e => .flagsOf n (subst fs e) | .singleton e => .singleton (subst fs e)
  | .helper h e => .helper h (subst fs e)
  | .hostEnum t e => .hostEnum t (subst fs e) | .hostHas t e => .hostHas t (subst fs e)
  | .hostGet t e => .hostGet t (subst fs e)
  | .globalStr e => .globalStr (subst fs e) | .globalStrGet e d => .globalStrGet (subst fs e) (subst fs d)
  | .threadsPidsGet e => .threadsPidsGet (subst fs e)
  | .tidsNamesGet e d => .tidsNamesGet (subst fs e) (subst fs d)
  | .constDict n e => .constDict n (subst fs e)
  | .cat a b => .cat (subst fs a) (subst fs b)
  | .strOf e => .strOf (subst fs e) | .hexOf e => .hexOf (subst fs e) | .nameOf e => .nameOf (subst fs e)
  | .joinNames s e => .joinNames s (subst fs e) | .joinHex s e => .joinHex s (subst fs e)
  | .lower e => .lower (subst fs e) | .chrOf e => .chrOf (subst fs e) | .lenOf e => .lenOf (subst fs e)
  | e => e

/-- What an expression may read. `start` lists the START argument indices. -/
structure Sel where
  start : List Nat := []
  startAll : Bool := false
  endA : Bool := false
  endL : List Nat := []
  tid : Bool := false
  data : Bool := false
  lookups : Bool := false
  gstr : Bool := false
  tpids : Bool := false
  tnames : Bool := false
  host : Bool := false          -- signals / address families / socket kinds / SOL_SOCKET
  hostErrno : Bool := false     -- errno.errorcode
  fields : Bool := false
  deriving Repr, DecidableEq

/-- Every window/host/field read of `e` is permitted by `s`. -/
def within (s : Sel) : Expr → Bool
  | .startArg k => s.startAll || s.start.contains k
  | .endArg k => s.endA || s.endL.contains k
  | .startTid => s.tid
  | .field _ => s.fields
  | .int _ | .strLit _ | .bool _ | .none | .memberConst _ _ | .nilList => true
  | .startArgsList => s.startAll
  | .cInt64 e | .cInt32 e | .toBool e | .notE e | .isNone e | .enumOf _ e | .enumNameOr _ e | .flagsOf _ e
  | .singleton e | .helper _ e | .constDict _ e | .strOf e | .hexOf e | .nameOf e | .joinNames _ e
  | .joinHex _ e | .lower e | .chrOf e | .lenOf e => within s e
  | .band a b | .bor a b | .shr a b | .shl a b | .cmp _ a b | .andE a b | .orE a b | .inList a b
  | .cat a b => within s a && within s b
  | .ite c t e => within s c && within s t && within s e
  | .hostEnum t e | .hostHas t e | .hostGet t e => (if t = .errno then s.hostErrno else s.host) && within s e
  | .hostSolSocket => s.host
  | .lookupCount | .lookupPath _ | .lookupVnode _ | .lookupPathOrEmpty | .lookupRestPathOrEmpty
  | .lookupVnodeOrZero => s.lookups
  | .globalStr e => s.gstr && within s e
  | .globalStrGet e d => s.gstr && within s e && within s d
  | .threadsPidsGet e => s.tpids && within s e
  | .tidsNamesGet e d => s.tnames && within s e && within s d
  | .uuidOfData => s.data
  | .unsupported _ => true

/-- Concatenation tree -> list of pieces. -/
def flatten : Expr → List Expr
  | .cat a b => flatten a ++ flatten b
  | e => [e]

/-- Merge adjacent literals and drop empty ones. -/
def mergeLits : List Expr → List Expr
  | [] => []
  | .strLit a :: rest =>
    match mergeLits rest with
    | .strLit b :: rest' => .strLit (a ++ b) :: rest'
    | rest' => if a = [] then rest' else .strLit a :: rest'
  | e :: rest => e :: mergeLits rest

def normalize (e : Expr) : List Expr := mergeLits (flatten e)

def commaSp : List Nat := [44, 32]

/-- The pieces between the parentheses. -/
def joinParams : Bool → List (Option Expr × Expr) → List Expr
  | _, [] => []
  | first, (none, p) :: rest =>
    (if first then flatten p else .strLit commaSp :: flatten p) ++ joinParams false rest
  | _, (some c, p) :: rest => .ite c (.cat (.strLit commaSp) p) (.strLit []) :: joinParams false rest

def Shape.callPieces (s : Shape) : List Expr :=
  flatten s.head ++ [.strLit [40]] ++ joinParams true s.params ++ [.strLit [41]]

def Shape.pieces (s : Shape) : List Expr := s.callPieces ++ flatten s.tail

/-- The translator's split is a re-bracketing of `str` (kernel-checked per decoder). -/
def Shape.agrees (s : Shape) (str : Expr) : Bool := mergeLits s.pieces = normalize str

end KdVerif.IR

namespace KdVerif.IR

/-- Evaluate a string-valued expression. -/
def evalS (c : Ctx) (e : Expr) : Except PyErr String :=
  match eval c e with
  | .ok (.str s) => .ok s
  | .ok _ => .error .typeError
  | .error err => .error err

/-- Evaluate pieces left to right and concatenate. -/
def evalPieces (c : Ctx) : List Expr → Except PyErr String
  | [] => .ok ""
  | p :: ps => do
    let s ← evalS c p
    let t ← evalPieces c ps
    pure (s ++ t)

end KdVerif.IR
