"""Translator of the READER code: pykdebugparser/kd_buf_parser.py (pure `ast`, nothing is imported or run)
-> lean/KdVerif/Gen/PyIRRd.lean, one term of the IR of lean/KdVerif/Model/PyIRRd.lean per piece:

    seek_until(reader, data)            -> Proc           (statements over the reader, a `while` loop)
    KdBufParser.set_thread_map          -> List TmStmt    (clear / for thread in …: self.<d>[thread.<k>] = thread.<v>)
    KdBufParser.parse_v2                -> Stmt           (whole generator body)
    KdBufParser.parse_v3                -> Stmt           (whole generator body: header, scans, thread map, chunk loop,
                                                           `reader.seek(-8, 1)`, the additional-data blocks with their
                                                           if/elif dispatch on `block.tag`, the log loop)
    KdBufParser.parse + self.versions   -> Dispatch

Normal form (so that harmless rewrites give the same term):
  * a statement list is a right-nested `seq`; an `if` without `else` has `skip` as its else branch; docstrings, comments,
    `pass` vanish;
  * variables are numbered: parameters (after `self` / `reader`) first, then locals in source order of first binding;
  * a local bound ONCE to a pure integer expression (`n = len(data)`, `count = size // KEVENT_SIZE`) whose variables are not
    rebound is inlined;
  * module-level constants are referred to by NAME (`BConst` / `IConst`: their values are reflected into Gen/Consts);
    other module-level names bound to a bytes / int literal become literals;
  * `not (a == b)` is `a != b` and vice versa; `while True` / `while 1` is `tt`; `len(x) == 0` stays what it is;
  * a `reader.read(n)` inside an `if` condition is hoisted into a fresh temporary just before the `if`;
  * in `a == b` / `a != b` with a constant on exactly one side the constant is written second (`X == block.tag` is
    `block.tag == X`); an `elif` chain is nested `if … else` (that is what the `ast` gives);
  * `if self.<attr>: A else: B` is `if not self.<attr>: B else: A`;
  * a run of consecutive attribute resets (`self.<attr> = '' | {} | {'Binaries': []}`) of pairwise different attributes
    is written in the order trace_codes, kernel_extensions, dyld_modules, images, processes (they commute);
  * `v += <list>` on a list local is `v.extend(<list>)`; `self.a = self.a + e` is `self.a += e`; `.decode()`,
    `.decode('utf-8')`, `.decode('utf8')` are the same call.
A `for x in v` loop whose body rebinds or extends `v` is outside the subset (the interpreter goes through the list as it
is at the loop's entry).
Everything else becomes an explicit `.unsupported "<source text>"` node: never a guess."""
import ast
import os

BCONST = {'RAW_VERSION2_BYTES': '.v2', 'RAW_VERSION3_BYTES': '.v3', 'TRACEV3_STACKSHOT_END': '.stackshotEnd',
          'TRACEV3_THREADMAP_TAG': '.threadmapTag', 'TRACEV3_EVENTS_TAG': '.eventsTag',
          'TRACEV3_MORE_EVENTS': '.moreEvents', 'TRACEV3_DYLD_MODULES': '.dyldModules',
          'TRACEV3_TRACE_CODES': '.traceCodes', 'TRACEV3_PROCESSES': '.processes',
          'TRACEV3_KERNEL_EXTENSIONS': '.kernelExtensions', 'TRACEV3_IMAGES': '.images',
          'TRACEV3_LOG_EVENTS': '.logEvents', 'TRACEV3_LOG_STRINGS': '.logStrings'}
ICONST = {'KEVENT_SIZE': '.keventSize', 'RAW_VERSION_SIZE': '.rawVersionSize'}
DICTS = {'threads_pids': '.threadsPids', 'pids_names': '.pidsNames'}
FIELDS = {'tid': '.tid', 'pid': '.pid', 'process': '.process'}
METHODS = {'parse_v2': '.parseV2', 'parse_v3': '.parseV3'}
ATTRS = {'trace_codes': '.traceCodes', 'kernel_extensions': '.kernelExtensions', 'dyld_modules': '.dyldModules',
         'images': '.images', 'processes': '.processes'}
ATTR_ORDER = ['.traceCodes', '.kernelExtensions', '.dyldModules', '.images', '.processes']
LOG_FIELDS = {'thread_identifier': '.tid', 'process_identifier': '.pid', 'process': '.process'}


def src(node):
    try:
        return ast.unparse(node)
    except Exception:
        return '<?>'


class Unsupported(Exception):
    pass


class Tr:
    """One function body -> Stmt (python tuples)."""

    def __init__(self, module_consts, reader='reader', params=()):
        self.consts = module_consts          # name -> ('bytes', b) | ('int', n)
        self.reader = reader
        self.vars = {}                       # name -> index
        self.kinds = {}                      # name -> 'bytes' | 'int' | 'hdr2' | 'tmap'
        self.inline = {}                     # name -> IE tuple (pure int alias)
        for p in params:
            self.bind(p, 'bytes')

    def bind(self, name, kind):
        if name not in self.vars:
            self.vars[name] = len(self.vars)
        self.kinds[name] = kind
        return self.vars[name]

    def fresh(self):
        name = '<tmp%d>' % len(self.vars)
        return self.bind(name, 'bytes')

    # ---- expressions ---------------------------------------------------------------------------------------
    def is_reader_read(self, e):
        return (isinstance(e, ast.Call) and isinstance(e.func, ast.Attribute) and e.func.attr == 'read'
                and isinstance(e.func.value, ast.Name) and e.func.value.id == self.reader and len(e.args) == 1
                and not e.keywords)

    def be(self, e):
        if isinstance(e, ast.Name):
            if e.id in self.vars and self.kinds.get(e.id) == 'bytes':
                return ('var', self.vars[e.id])
            if e.id in BCONST and e.id not in self.vars:
                return ('bconst', BCONST[e.id])
            c = self.consts.get(e.id)
            if c and c[0] == 'bytes' and e.id not in self.vars:
                return ('blit', c[1])
            return ('unsupported', src(e))
        if isinstance(e, ast.Constant) and isinstance(e.value, bytes):
            return ('blit', e.value)
        if isinstance(e, ast.Attribute) and isinstance(e.value, ast.Name) and self.kinds.get(e.value.id) == 'block' \
                and e.attr in ('tag', 'data'):
            return ('blockTag' if e.attr == 'tag' else 'blockData', self.vars[e.value.id])
        if isinstance(e, ast.Subscript) and isinstance(e.slice, ast.Slice):
            s = e.slice
            if s.upper is None and s.step is None and isinstance(s.lower, ast.Constant) and isinstance(s.lower.value, int) \
                    and s.lower.value >= 0:
                return ('dropFrom', self.be(e.value), s.lower.value)
            return ('unsupported', src(e))
        if isinstance(e, ast.BinOp) and isinstance(e.op, ast.Add):
            return ('cat', self.be(e.left), self.be(e.right))
        return ('unsupported', src(e))

    def ie(self, e):
        if isinstance(e, ast.Constant) and isinstance(e.value, int) and not isinstance(e.value, bool) and e.value >= 0:
            return ('ilit', e.value)
        if isinstance(e, ast.Name):
            if e.id in self.inline:
                return self.inline[e.id]
            if e.id in self.vars and self.kinds.get(e.id) == 'int':
                return ('ivar', self.vars[e.id])
            if e.id in ICONST and e.id not in self.vars:
                return ('iconst', ICONST[e.id])
            c = self.consts.get(e.id)
            if c and c[0] == 'int' and e.id not in self.vars:
                return ('ilit', c[1])
            return ('iunsupported', src(e))
        if isinstance(e, ast.Call) and isinstance(e.func, ast.Name) and e.func.id == 'len' and len(e.args) == 1 \
                and not e.keywords:
            return ('len', self.be(e.args[0]))
        if isinstance(e, ast.BinOp) and isinstance(e.op, ast.Sub):
            return ('sub', self.ie(e.left), self.ie(e.right))
        if isinstance(e, ast.BinOp) and isinstance(e.op, ast.FloorDiv):
            return ('div', self.ie(e.left), self.ie(e.right))
        return ('iunsupported', src(e))

    def self_attr(self, e):
        """`self.<attr>` for one of the five attributes rebuilt from the additional data -> Attr, else None"""
        if isinstance(e, ast.Attribute) and isinstance(e.value, ast.Name) and e.value.id == 'self' and e.attr in ATTRS:
            return ATTRS[e.attr]
        return None

    def pe(self, e):
        """loaded plist: a local bound to one, or `plistlib.loads(<bytes>)`"""
        if isinstance(e, ast.Name) and self.kinds.get(e.id) == 'plist':
            return ('pvar', self.vars[e.id])
        if isinstance(e, ast.Call) and isinstance(e.func, ast.Attribute) and e.func.attr == 'loads' \
                and isinstance(e.func.value, ast.Name) and e.func.value.id == 'plistlib' and 'plistlib' not in self.vars \
                and len(e.args) == 1 and not e.keywords:
            return ('loads', self.be(e.args[0]))
        return None

    def keyed(self, e, key):
        """`<plist>['key']` -> PE, else None"""
        if isinstance(e, ast.Subscript) and isinstance(e.slice, ast.Constant) and e.slice.value == key:
            return self.pe(e.value)
        return None

    def log_field(self, e):
        """`<log event>.<field>` -> (var, Field), else None"""
        if isinstance(e, ast.Attribute) and isinstance(e.value, ast.Name) and self.kinds.get(e.value.id) == 'logout' \
                and e.attr in LOG_FIELDS:
            return self.vars[e.value.id], LOG_FIELDS[e.attr]
        return None

    @staticmethod
    def is_const(t):
        return t[0] in ('bconst', 'blit')

    def cond(self, e, pre):
        """condition; reads found inside are hoisted into `pre` (list of statements) when `pre` is not None"""
        if isinstance(e, ast.Constant) and (e.value is True or e.value == 1):
            return ('tt',)
        if isinstance(e, ast.BoolOp) and isinstance(e.op, ast.And) and len(e.values) >= 2:
            cs = [self.cond(v, None) for v in e.values]          # no hoisting out of a short-circuit operand
            out = cs[-1]
            for c in reversed(cs[:-1]):
                out = ('and', c, out)
            return out
        lf = self.log_field(e)
        if lf is not None:
            return ('fieldTruthy', lf[0], lf[1])
        if isinstance(e, ast.UnaryOp) and isinstance(e.op, ast.Not):
            inner = e.operand
            if isinstance(inner, ast.Compare) and len(inner.ops) == 1:
                c = self.cond(inner, pre)
                if c[0] == 'ne':
                    return ('eq', c[1], c[2])
                if c[0] == 'eq':
                    return ('ne', c[1], c[2])
                return ('cunsupported', src(e))
            return ('isEmpty', self.operand(inner, pre))
        if isinstance(e, ast.Compare) and len(e.ops) == 1 and isinstance(e.ops[0], (ast.Eq, ast.NotEq)):
            a = self.operand(e.left, pre)
            b = self.operand(e.comparators[0], pre)
            if self.is_const(a) and not self.is_const(b):
                a, b = b, a                                      # the constant second (it has no effect to order)
            return ('ne' if isinstance(e.ops[0], ast.NotEq) else 'eq', a, b)
        if isinstance(e, (ast.Name, ast.Call, ast.Subscript, ast.BinOp)) or \
                (isinstance(e, ast.Attribute) and self.be(e)[0] != 'unsupported'):
            return ('nonEmpty', self.operand(e, pre))
        return ('cunsupported', src(e))

    def operand(self, e, pre):
        if self.is_reader_read(e):
            if pre is None:
                return ('unsupported', src(e))
            n = self.ie(e.args[0])                      # evaluated before the temporary is numbered, like Python does
            v = self.fresh()
            pre.append(('read', v, n))
            return ('var', v)
        return self.be(e)

    # ---- statements ----------------------------------------------------------------------------------------
    def block(self, stmts):
        out = []
        for s in stmts:
            out += self.stmt(s)
        # a run of attribute resets of pairwise different attributes: canonical order (they commute)
        i = 0
        while i < len(out):
            j = i
            while j < len(out) and out[j][0] == 'setAttrInit':
                j += 1
            run = out[i:j]
            if len(run) > 1 and len({r[1] for r in run}) == len(run):
                out[i:j] = sorted(run, key=lambda r: ATTR_ORDER.index(r[1]))
            i = max(j, i + 1)
        return out

    def init_val(self, v):
        """`''` | `{}` | `{'Binaries': []}` -> InitVal, else None"""
        if isinstance(v, ast.Constant) and v.value == '' and isinstance(v.value, str):
            return '.emptyStr'
        if isinstance(v, ast.Dict) and not v.keys:
            return '.emptyDict'
        if isinstance(v, ast.Dict) and len(v.keys) == 1 and isinstance(v.keys[0], ast.Constant) \
                and v.keys[0].value == 'Binaries' and isinstance(v.values[0], ast.List) and not v.values[0].elts:
            return '.binariesDict'
        return None

    def decoded(self, e):
        """`<bytes>.decode()` -> BE, else None"""
        if isinstance(e, ast.Call) and isinstance(e.func, ast.Attribute) and e.func.attr == 'decode' and not e.keywords \
                and (not e.args or (len(e.args) == 1 and isinstance(e.args[0], ast.Constant)
                                    and e.args[0].value in ('utf-8', 'utf8'))):
            b = self.be(e.func.value)
            if b[0] != 'unsupported':
                return b
        return None

    def is_seek_cur(self, e):
        return (isinstance(e, ast.Constant) and e.value == 1 and not isinstance(e.value, bool)) or \
            (isinstance(e, ast.Attribute) and e.attr == 'SEEK_CUR' and isinstance(e.value, ast.Name)
             and e.value.id in ('io', 'os') and e.value.id not in self.vars)

    def inverted_index(self, v):
        """`{b: a for a, b in <plist>['StringIndex'].items()}` -> PE, else None"""
        if not (isinstance(v, ast.DictComp) and len(v.generators) == 1):
            return None
        g = v.generators[0]
        if g.ifs or g.is_async or not (isinstance(g.target, ast.Tuple) and len(g.target.elts) == 2
                                       and all(isinstance(x, ast.Name) for x in g.target.elts)):
            return None
        a, b = g.target.elts[0].id, g.target.elts[1].id
        if a == b or not (isinstance(v.key, ast.Name) and v.key.id == b and isinstance(v.value, ast.Name) and v.value.id == a):
            return None
        it = g.iter
        if not (isinstance(it, ast.Call) and isinstance(it.func, ast.Attribute) and it.func.attr == 'items' and not it.args
                and not it.keywords):
            return None
        return self.keyed(it.func.value, 'StringIndex')

    def prim_of(self, call):
        """`<construct>.parse_stream(reader)` -> primitive name"""
        if not (isinstance(call, ast.Call) and isinstance(call.func, ast.Attribute) and call.func.attr == 'parse_stream'
                and len(call.args) == 1 and isinstance(call.args[0], ast.Name) and call.args[0].id == self.reader
                and not call.keywords):
            return None
        c = call.func.value
        if isinstance(c, ast.Name) and c.id == 'kd_header_v2':
            return '.headerV2'
        if isinstance(c, ast.Name) and c.id == 'Int64ul':
            return '.int64ul'
        if isinstance(c, ast.Name) and c.id == 'kd_v3_threadmap':
            return '.threadmapV3struct'
        if isinstance(c, ast.Name) and c.id == 'kd_v3_additional_data':
            return '.additionalData'
        if isinstance(c, ast.Call) and isinstance(c.func, ast.Name) and c.func.id == 'Aligned' and len(c.args) == 2 \
                and isinstance(c.args[0], ast.Constant) and c.args[0].value == 8 and isinstance(c.args[1], ast.Name) \
                and c.args[1].id == 'kd_header_v3' and not c.keywords:
            return '.headerV3'
        return None

    def stmt(self, s):
        if isinstance(s, ast.Pass):
            return []
        if isinstance(s, ast.Expr) and isinstance(s.value, ast.Constant) and isinstance(s.value.value, str):
            return []                                              # docstring
        if isinstance(s, ast.Break):
            return [('brk',)]
        if isinstance(s, ast.Raise) and s.cause is None and s.exc is not None:
            exc = s.exc.func if isinstance(s.exc, ast.Call) else s.exc
            if isinstance(exc, ast.Name) and exc.id == 'EOFError':
                return [('raiseEof',)]
            return [('unsupported', src(s))]
        if isinstance(s, ast.Expr):
            v = s.value
            if self.is_reader_read(v):
                return [('readDrop', self.ie(v.args[0]))]
            if isinstance(v, ast.Yield) and isinstance(v.value, ast.Call) and isinstance(v.value.func, ast.Name) \
                    and v.value.func.id == 'from_kd_buf' and len(v.value.args) == 1 and not v.value.keywords:
                return [('yieldKd', self.be(v.value.args[0]))]
            if isinstance(v, ast.Call) and isinstance(v.func, ast.Name) and v.func.id == 'seek_until' and len(v.args) == 2 \
                    and isinstance(v.args[0], ast.Name) and v.args[0].id == self.reader and not v.keywords:
                return [('callSeek', self.be(v.args[1]))]
            if isinstance(v, ast.Call) and isinstance(v.func, ast.Attribute) and v.func.attr == 'seek' \
                    and isinstance(v.func.value, ast.Name) and v.func.value.id == self.reader and len(v.args) == 2 \
                    and not v.keywords and self.is_seek_cur(v.args[1]):
                k = v.args[0]
                if isinstance(k, ast.UnaryOp) and isinstance(k.op, ast.USub) and isinstance(k.operand, ast.Constant) \
                        and isinstance(k.operand.value, int) and not isinstance(k.operand.value, bool) and k.operand.value >= 0:
                    return [('seekRel', k.operand.value)]
            if isinstance(v, ast.Yield) and isinstance(v.value, ast.Name) and self.kinds.get(v.value.id) == 'logout':
                return [('yieldVar', self.vars[v.value.id])]
            if isinstance(v, ast.Call) and isinstance(v.func, ast.Attribute) and len(v.args) == 1 and not v.keywords:
                tgt, meth, arg = v.func.value, v.func.attr, v.args[0]
                a = self.self_attr(tgt)
                if meth == 'update' and a is not None:
                    p = self.pe(arg)
                    if p is not None:
                        return [('attrUpdate', a, p)]
                if meth == 'extend' and isinstance(tgt, ast.Subscript) and isinstance(tgt.slice, ast.Constant) \
                        and tgt.slice.value == 'Binaries' and self.self_attr(tgt.value) is not None:
                    p = self.keyed(arg, 'Binaries')
                    if p is not None:
                        return [('binExtend', self.self_attr(tgt.value), p)]
                if meth == 'extend' and isinstance(tgt, ast.Name) and self.kinds.get(tgt.id) == 'events':
                    p = self.keyed(arg, 'Events')
                    if p is not None:
                        return [('eventsExtend', self.vars[tgt.id], p)]
            if isinstance(v, ast.Call) and isinstance(v.func, ast.Attribute) and v.func.attr == 'set_thread_map' \
                    and isinstance(v.func.value, ast.Name) and v.func.value.id == 'self' and len(v.args) == 1 \
                    and not v.keywords:
                a = v.args[0]
                if isinstance(a, ast.Attribute) and a.attr == 'threadmap' and isinstance(a.value, ast.Name) \
                        and self.kinds.get(a.value.id) == 'hdr2':
                    return [('setThreadMap', self.vars[a.value.id])]
                if isinstance(a, ast.Name) and self.kinds.get(a.id) == 'tmap':
                    return [('setThreadMap', self.vars[a.id])]
            return [('unsupported', src(s))]
        if isinstance(s, ast.Assign) and len(s.targets) == 1:
            t, v = s.targets[0], s.value
            if isinstance(t, ast.Attribute) and isinstance(t.value, ast.Name) and t.value.id == 'self' \
                    and t.attr == 'v3_header' and self.prim_of(v) == '.headerV3':
                return [('prim', '.headerV3', 0)]
            a = self.self_attr(t)
            if a is not None:
                iv = self.init_val(v)
                if iv is not None:
                    return [('setAttrInit', a, iv)]
                p = self.pe(v)
                if p is not None:
                    return [('setAttrP', a, p)]
                if isinstance(v, ast.BinOp) and isinstance(v.op, ast.Add) and self.self_attr(v.left) == a:
                    d = self.decoded(v.right)
                    if d is not None:
                        return [('strAppendDecoded', a, d)]
            if isinstance(t, ast.Subscript) and isinstance(t.value, ast.Attribute) and isinstance(t.value.value, ast.Name) \
                    and t.value.value.id == 'self' and t.value.attr in DICTS:
                k, w = self.log_field(t.slice), self.log_field(v)
                if k is not None and w is not None and k[0] == w[0]:
                    return [('storeLog', DICTS[t.value.attr], k[1], w[1], k[0])]
            if isinstance(t, ast.Name):
                if self.is_reader_read(v):
                    n = self.ie(v.args[0])
                    return [('read', self.bind(t.id, 'bytes'), n)]
                if isinstance(v, ast.List) and not v.elts:
                    return [('newList', self.bind(t.id, 'events'))]
                if isinstance(v, ast.Dict) and not v.keys:
                    return [('newDict', self.bind(t.id, 'strings'))]
                pl = self.pe(v)
                if pl is not None and pl[0] == 'loads':
                    return [('assignP', self.bind(t.id, 'plist'), pl)]
                inv = self.inverted_index(v)
                if inv is not None:
                    return [('assignInvIndex', self.bind(t.id, 'strings'), inv)]
                if isinstance(v, ast.Call) and isinstance(v.func, ast.Attribute) and v.func.attr == 'from_raw_log_event' \
                        and isinstance(v.func.value, ast.Name) and v.func.value.id == 'OsLogEvent' \
                        and 'OsLogEvent' not in self.vars and len(v.args) == 2 and not v.keywords \
                        and all(isinstance(x, ast.Name) for x in v.args) and self.kinds.get(v.args[0].id) == 'rawlog' \
                        and self.kinds.get(v.args[1].id) == 'strings':
                    ev, st = self.vars[v.args[0].id], self.vars[v.args[1].id]
                    return [('fromRawLog', self.bind(t.id, 'logout'), ev, st)]
                p = self.prim_of(v)
                if p == '.additionalData':
                    return [('prim', p, self.bind(t.id, 'blocks'))]
                if p == '.headerV2':
                    return [('prim', p, self.bind(t.id, 'hdr2'))]
                if p == '.int64ul':
                    return [('prim', p, self.bind(t.id, 'int'))]
                if isinstance(v, ast.Attribute) and v.attr == 'threadmap' and self.prim_of(v.value) == '.threadmapV3struct':
                    return [('prim', '.threadmapV3', self.bind(t.id, 'tmap'))]
                if t.id in self.pure_int_aliases:
                    self.inline[t.id] = self.ie(v)
                    return []
                b = self.be(v)
                if b[0] != 'unsupported':
                    return [('assign', self.bind(t.id, 'bytes'), b)]
            return [('unsupported', src(s))]
        if isinstance(s, ast.AugAssign) and isinstance(s.target, ast.Name) and isinstance(s.op, ast.Add) \
                and self.kinds.get(s.target.id) == 'bytes':
            return [('assign', self.vars[s.target.id], ('cat', ('var', self.vars[s.target.id]), self.be(s.value)))]
        if isinstance(s, ast.AugAssign) and isinstance(s.op, ast.Add) and self.self_attr(s.target) is not None:
            d = self.decoded(s.value)
            if d is not None:
                return [('strAppendDecoded', self.self_attr(s.target), d)]
            return [('unsupported', src(s))]
        if isinstance(s, ast.AugAssign) and isinstance(s.op, ast.Add) and isinstance(s.target, ast.Name) \
                and self.kinds.get(s.target.id) == 'events':
            p = self.keyed(s.value, 'Events')
            if p is not None:
                return [('eventsExtend', self.vars[s.target.id], p)]
            return [('unsupported', src(s))]
        if isinstance(s, ast.If):
            neg = isinstance(s.test, ast.UnaryOp) and isinstance(s.test.op, ast.Not)
            a = self.self_attr(s.test.operand if neg else s.test)
            if a is not None:
                t, e = self.seq(self.block(s.body)), self.seq(self.block(s.orelse))
                return [('iteAttrEmpty', a, t, e) if neg else ('iteAttrEmpty', a, e, t)]
            pre = []
            c = self.cond(s.test, pre)
            return pre + [('ite', c, self.seq(self.block(s.body)), self.seq(self.block(s.orelse)))]
        if isinstance(s, ast.While) and not s.orelse:
            c = self.cond(s.test, None)
            return [('while', c, self.seq(self.block(s.body)))]
        if isinstance(s, ast.For) and not s.orelse and isinstance(s.target, ast.Name) and isinstance(s.iter, ast.Call) \
                and isinstance(s.iter.func, ast.Name) and s.iter.func.id == 'range' and len(s.iter.args) == 1 \
                and not s.iter.keywords:
            used = {n.id for b in s.body for n in ast.walk(b) if isinstance(n, ast.Name)}
            if s.target.id not in used:
                n = self.ie(s.iter.args[0])
                return [('forRange', n, self.seq(self.block(s.body)))]
        if isinstance(s, ast.For) and not s.orelse and isinstance(s.target, ast.Name) and isinstance(s.iter, ast.Name) \
                and self.kinds.get(s.iter.id) in ('blocks', 'events') and s.target.id != s.iter.id:
            used = {n.id for b in s.body for n in ast.walk(b) if isinstance(n, ast.Name)}
            if s.iter.id not in used:                              # the body leaves the list it goes through alone
                c = self.vars[s.iter.id]
                x = self.bind(s.target.id, 'block' if self.kinds[s.iter.id] == 'blocks' else 'rawlog')
                return [('forIn', x, c, self.seq(self.block(s.body)))]
        return [('unsupported', src(s))]

    @staticmethod
    def seq(stmts):
        if not stmts:
            return ('skip',)
        if len(stmts) == 1:
            return stmts[0]
        return ('seq', stmts[0], Tr.seq(stmts[1:]))

    def function(self, fn):
        body = list(fn.body)
        # locals bound exactly once, at top level or anywhere, to a reader-free integer expression
        counts = {}
        for n in ast.walk(fn):
            if isinstance(n, (ast.Assign, ast.AugAssign, ast.For, ast.AnnAssign, ast.NamedExpr, ast.With)):
                for t in ast.walk(n.targets[0] if isinstance(n, ast.Assign) else getattr(n, 'target', n)):
                    if isinstance(t, ast.Name) and isinstance(t.ctx, ast.Store):
                        counts[t.id] = counts.get(t.id, 0) + 1
        self.pure_int_aliases = set()
        for n in ast.walk(fn):
            if isinstance(n, ast.Assign) and len(n.targets) == 1 and isinstance(n.targets[0], ast.Name) \
                    and counts.get(n.targets[0].id) == 1 and self._pure_int(n.value, counts):
                self.pure_int_aliases.add(n.targets[0].id)
        return self.seq(self.block(body))

    def _pure_int(self, e, counts):
        if isinstance(e, ast.Constant):
            return isinstance(e.value, int) and not isinstance(e.value, bool)
        if isinstance(e, ast.Name):
            return e.id in ICONST or (self.consts.get(e.id) or ('',))[0] == 'int'
        if isinstance(e, ast.Call) and isinstance(e.func, ast.Name) and e.func.id == 'len' and len(e.args) == 1:
            a = e.args[0]
            # len of a parameter / module constant that is never rebound
            return isinstance(a, ast.Name) and counts.get(a.id, 0) == 0
        if isinstance(e, ast.BinOp) and isinstance(e.op, (ast.Sub, ast.FloorDiv)):
            return self._pure_int(e.left, counts) and self._pure_int(e.right, counts)
        return False


# ----------------------------------------------------------------------------------------------------------------
# Lean rendering
# ----------------------------------------------------------------------------------------------------------------

def lean_bytes(b):
    return '[' + ', '.join(str(x) for x in b) + ']'


def lean(t, lean_str):
    k = t[0]
    L = lambda x: lean(x, lean_str)  # noqa: E731
    if k == 'var':
        return '(.var %d)' % t[1]
    if k == 'bconst':
        return '(.const %s)' % t[1]
    if k == 'blit':
        return '(.lit %s)' % lean_bytes(t[1])
    if k == 'dropFrom':
        return '(.dropFrom %s %d)' % (L(t[1]), t[2])
    if k == 'cat':
        return '(.cat %s %s)' % (L(t[1]), L(t[2]))
    if k in ('blockTag', 'blockData'):
        return '(.%s %d)' % (k, t[1])
    if k == 'pvar':
        return '(.var %d)' % t[1]
    if k == 'loads':
        return '(.loads %s)' % L(t[1])
    if k == 'unsupported':
        return '(.unsupported %s)' % lean_str(t[1])
    if k == 'ilit':
        return '(.lit %d)' % t[1]
    if k == 'iconst':
        return '(.const %s)' % t[1]
    if k == 'ivar':
        return '(.var %d)' % t[1]
    if k == 'len':
        return '(.len %s)' % L(t[1])
    if k in ('sub', 'div'):
        return '(.%s %s %s)' % (k, L(t[1]), L(t[2]))
    if k == 'iunsupported':
        return '(.unsupported %s)' % lean_str(t[1])
    if k == 'tt':
        return '.tt'
    if k in ('ne', 'eq'):
        return '(.%s %s %s)' % (k, L(t[1]), L(t[2]))
    if k in ('isEmpty', 'nonEmpty'):
        return '(.%s %s)' % (k, L(t[1]))
    if k == 'and':
        return '(.and %s %s)' % (L(t[1]), L(t[2]))
    if k == 'fieldTruthy':
        return '(.fieldTruthy %d %s)' % (t[1], t[2])
    if k == 'cunsupported':
        return '(.unsupported %s)' % lean_str(t[1])
    if k == 'skip':
        return '.skip'
    if k == 'seq':
        return '(.seq %s %s)' % (L(t[1]), L(t[2]))
    if k == 'read':
        return '(.read %d %s)' % (t[1], L(t[2]))
    if k == 'readDrop':
        return '(.readDrop %s)' % L(t[1])
    if k == 'assign':
        return '(.assign %d %s)' % (t[1], L(t[2]))
    if k == 'ite':
        return '(.ite %s %s %s)' % (L(t[1]), L(t[2]), L(t[3]))
    if k == 'while':
        return '(.while %s %s)' % (L(t[1]), L(t[2]))
    if k == 'forRange':
        return '(.forRange %s %s)' % (L(t[1]), L(t[2]))
    if k == 'brk':
        return '.brk'
    if k == 'raiseEof':
        return '.raiseEof'
    if k == 'yieldKd':
        return '(.yieldKd %s)' % L(t[1])
    if k == 'callSeek':
        return '(.callSeek %s)' % L(t[1])
    if k == 'prim':
        return '(.prim %s %d)' % (t[1], t[2])
    if k == 'setThreadMap':
        return '(.setThreadMap %d)' % t[1]
    if k == 'seekRel':
        return '(.seekRel %d)' % t[1]
    if k == 'setAttrInit':
        return '(.setAttrInit %s %s)' % (t[1], t[2])
    if k in ('newList', 'newDict', 'yieldVar'):
        return '(.%s %d)' % (k, t[1])
    if k == 'forIn':
        return '(.forIn %d %d %s)' % (t[1], t[2], L(t[3]))
    if k in ('assignP', 'eventsExtend', 'assignInvIndex'):
        return '(.%s %d %s)' % (k, t[1], L(t[2]))
    if k == 'iteAttrEmpty':
        return '(.iteAttrEmpty %s %s %s)' % (t[1], L(t[2]), L(t[3]))
    if k in ('attrUpdate', 'binExtend', 'strAppendDecoded', 'setAttrP'):
        return '(.%s %s %s)' % (k, t[1], L(t[2]))
    if k == 'fromRawLog':
        return '(.fromRawLog %d %d %d)' % (t[1], t[2], t[3])
    if k == 'storeLog':
        return '(.storeLog %s %s %s %d)' % (t[1], t[2], t[3], t[4])
    raise ValueError(k)


# ----------------------------------------------------------------------------------------------------------------
# the pieces
# ----------------------------------------------------------------------------------------------------------------

def module_consts(tree):
    out = {}
    for s in tree.body:
        if isinstance(s, ast.Assign) and len(s.targets) == 1 and isinstance(s.targets[0], ast.Name):
            try:
                v = ast.literal_eval(s.value)
            except Exception:
                continue
            if isinstance(v, bytes):
                out[s.targets[0].id] = ('bytes', v)
            elif isinstance(v, int) and not isinstance(v, bool):
                out[s.targets[0].id] = ('int', v)
    return out


def translate_set_thread_map(fn, notes):
    args = [a.arg for a in fn.args.args]
    if len(args) != 2 or args[0] != 'self':
        return [('unsupported', 'signature of set_thread_map')]
    param = args[1]
    out = []
    for s in fn.body:
        if isinstance(s, ast.Expr) and isinstance(s.value, ast.Constant) and isinstance(s.value.value, str):
            continue
        if isinstance(s, ast.Expr) and isinstance(s.value, ast.Call) and isinstance(s.value.func, ast.Attribute) \
                and s.value.func.attr == 'clear' and not s.value.args and not s.value.keywords:
            d = s.value.func.value
            if isinstance(d, ast.Attribute) and isinstance(d.value, ast.Name) and d.value.id == 'self' and d.attr in DICTS:
                out.append(('clear', DICTS[d.attr]))
                continue
        if isinstance(s, ast.For) and not s.orelse and isinstance(s.target, ast.Name) and isinstance(s.iter, ast.Name) \
                and s.iter.id == param:
            th = s.target.id
            body = []
            ok = True
            for b in s.body:
                m = None
                if isinstance(b, ast.Assign) and len(b.targets) == 1 and isinstance(b.targets[0], ast.Subscript):
                    t = b.targets[0]
                    d, k, v = t.value, t.slice, b.value
                    if isinstance(d, ast.Attribute) and isinstance(d.value, ast.Name) and d.value.id == 'self' \
                            and d.attr in DICTS and isinstance(k, ast.Attribute) and isinstance(k.value, ast.Name) \
                            and k.value.id == th and k.attr in FIELDS and isinstance(v, ast.Attribute) \
                            and isinstance(v.value, ast.Name) and v.value.id == th and v.attr in FIELDS:
                        m = (DICTS[d.attr], FIELDS[k.attr], FIELDS[v.attr])
                if m is None:
                    ok = False
                    break
                body.append(m)
            if ok:
                out.append(('forThreads', body))
                continue
        out.append(('unsupported', src(s)))
    return out


def lean_tm(s, lean_str):
    if s[0] == 'clear':
        return '.clear %s' % s[1]
    if s[0] == 'forThreads':
        return '.forThreads [' + ', '.join('(%s, %s, %s)' % m for m in s[1]) + ']'
    return '.unsupported %s' % lean_str(s[1])


def translate_dispatch(cls, consts, notes):
    """`parse` and the `self.versions` dict display of `__init__`"""
    read_len, versions = ('iunsupported', 'parse'), []
    fns = {n.name: n for n in cls.body if isinstance(n, ast.FunctionDef)}
    p = fns.get('parse')
    ok = False
    if p is not None and [a.arg for a in p.args.args] == ['self', 'reader']:
        body = [s for s in p.body if not (isinstance(s, ast.Expr) and isinstance(s.value, ast.Constant))]
        tr = Tr(consts)
        if len(body) == 2 and isinstance(body[0], ast.Assign) and len(body[0].targets) == 1 \
                and isinstance(body[0].targets[0], ast.Name) and tr.is_reader_read(body[0].value) \
                and isinstance(body[1], ast.Return):
            v = body[0].targets[0].id
            r = body[1].value
            if isinstance(r, ast.Call) and len(r.args) == 1 and isinstance(r.args[0], ast.Name) and r.args[0].id == 'reader' \
                    and not r.keywords and isinstance(r.func, ast.Subscript) and isinstance(r.func.slice, ast.Name) \
                    and r.func.slice.id == v and isinstance(r.func.value, ast.Attribute) \
                    and isinstance(r.func.value.value, ast.Name) and r.func.value.value.id == 'self' \
                    and r.func.value.attr == 'versions':
                read_len = tr.ie(body[0].value.args[0])
                ok = True
    if not ok:
        notes.append('parse: body is not `version = reader.read(n); return self.versions[version](reader)`')
    init = fns.get('__init__')
    found = False
    if init is not None:
        for s in ast.walk(init):
            if isinstance(s, ast.Assign) and len(s.targets) == 1 and isinstance(s.targets[0], ast.Attribute) \
                    and isinstance(s.targets[0].value, ast.Name) and s.targets[0].value.id == 'self' \
                    and s.targets[0].attr == 'versions' and isinstance(s.value, ast.Dict):
                found = True
                for k, v in zip(s.value.keys, s.value.values):
                    if isinstance(k, ast.Name) and k.id in BCONST and isinstance(v, ast.Attribute) \
                            and isinstance(v.value, ast.Name) and v.value.id == 'self' and v.attr in METHODS:
                        versions.append((BCONST[k.id], METHODS[v.attr]))
                    else:
                        notes.append('self.versions entry %s: %s' % (src(k), src(v)))
    if not found:
        notes.append('self.versions is not a dict display in __init__')
    # any other store into self.versions anywhere in the class
    for n in ast.walk(cls):
        if isinstance(n, ast.Attribute) and n.attr == 'versions' and isinstance(n.ctx, ast.Store) \
                and not (init is not None and any(n is t for s in ast.walk(init) if isinstance(s, ast.Assign)
                                                  for t in s.targets)):
            notes.append('self.versions stored outside __init__')
        if isinstance(n, ast.Subscript) and isinstance(n.ctx, ast.Store) and isinstance(n.value, ast.Attribute) \
                and n.value.attr == 'versions':
            notes.append('self.versions[...] stored')
    return read_len, versions


CTOR_ATTRS = ['threads_pids', 'pids_names', 'trace_codes', 'kernel_extensions', 'dyld_modules', 'images', 'processes',
              'v3_header']                                     # the order of the normal form
CTOR_TAG = {'threads_pids': '.threadsPids', 'pids_names': '.pidsNames', 'v3_header': '.v3Header'}
CTOR_TAG.update({a: '(.md %s)' % t for a, t in ATTRS.items()})


def translate_ctor(cls, notes):
    """`KdBufParser.__init__` -> (params, [default values], [(attribute tag, value)] sorted by attribute); value:
    ('paramOrEmpty', k) | ('display', InitVal) | ('none',) | ('unsupported', text).  The initialisers do not depend on each
    other (every value is a display, None or `{} if p is None else p` over a parameter that is never rebound), so their
    order is not part of the term; `dict()` is `{}`; `p if p is not None else {}` is `{} if p is None else p`."""
    fns = {n.name: n for n in cls.body if isinstance(n, ast.FunctionDef)}
    fn = fns.get('__init__')
    if fn is None:
        notes.append('KdBufParser.__init__ not found')
        return 0, [], []
    a = fn.args
    if fn.decorator_list or a.vararg or a.kwarg or a.kwonlyargs or a.posonlyargs or not a.args or a.args[0].arg != 'self':
        notes.append('signature of KdBufParser.__init__')
        return 0, [], []
    params = [x.arg for x in a.args[1:]]

    def is_none(e):
        return isinstance(e, ast.Constant) and e.value is None

    def empty_dict(e):
        return (isinstance(e, ast.Dict) and not e.keys) or (
            isinstance(e, ast.Call) and isinstance(e.func, ast.Name) and e.func.id == 'dict' and not e.args
            and not e.keywords and 'dict' not in params)

    def param_of(e):
        return params.index(e.id) if isinstance(e, ast.Name) and e.id in params else None

    def value(v):
        if is_none(v):
            return ('none',)
        if isinstance(v, ast.IfExp) and isinstance(v.test, ast.Compare) and len(v.test.ops) == 1 \
                and is_none(v.test.comparators[0]) and param_of(v.test.left) is not None:
            k = param_of(v.test.left)
            if isinstance(v.test.ops[0], ast.Is) and empty_dict(v.body) and param_of(v.orelse) == k:
                return ('paramOrEmpty', k)
            if isinstance(v.test.ops[0], ast.IsNot) and empty_dict(v.orelse) and param_of(v.body) == k:
                return ('paramOrEmpty', k)
        if empty_dict(v):
            return ('display', '.emptyDict')
        d = Tr({}).init_val(v)
        if d is not None:
            return ('display', d)
        return ('unsupported', src(v))
    defaults = [('none',) if is_none(d) else ('unsupported', src(d)) for d in a.defaults]
    sets = []
    for st in fn.body:
        if isinstance(st, ast.Expr) and isinstance(st.value, ast.Constant) and isinstance(st.value.value, str):
            continue
        if isinstance(st, ast.Pass):
            continue
        if isinstance(st, ast.Assign) and len(st.targets) == 1 and isinstance(st.targets[0], ast.Attribute) \
                and isinstance(st.targets[0].value, ast.Name) and st.targets[0].value.id == 'self':
            attr = st.targets[0].attr
            if attr == 'versions':
                continue                                   # the dict display: `parse.versions`
            if attr in CTOR_ATTRS:
                if any(x[0] == attr for x in sets):
                    notes.append('__init__: self.%s is assigned twice' % attr)
                sets.append((attr, value(st.value)))
                continue
        notes.append('__init__: ' + src(st)[:200])
    for n in ast.walk(fn):
        if isinstance(n, ast.Name) and isinstance(n.ctx, (ast.Store, ast.Del)) and n.id in params + ['self']:
            notes.append('__init__: parameter %s is rebound' % n.id)
    sets.sort(key=lambda x: CTOR_ATTRS.index(x[0]))
    # the attributes are bound by the constructor and by parse_v3 only (parse_v3 is translated)
    for n in ast.walk(cls):
        if isinstance(n, ast.Attribute) and isinstance(n.ctx, (ast.Store, ast.Del)) and isinstance(n.value, ast.Name) \
                and n.value.id == 'self' and n.attr in ('threads_pids', 'pids_names'):
            if not any(n is x for x in ast.walk(fn)):
                notes.append('self.%s is rebound outside __init__ (line %d)' % (n.attr, n.lineno))
    return len(params), defaults, [(CTOR_TAG[a_], v) for a_, v in sets]


def lean_ctor(ctor, lean_str):
    params, defaults, sets = ctor

    def val(v):
        if v[0] == 'paramOrEmpty':
            return '.paramOrEmpty %d' % v[1]
        if v[0] == 'display':
            return '.display %s' % v[1]
        if v[0] == 'none':
            return '.none'
        return '.unsupported %s' % lean_str(v[1])
    return ('{ params := %d, defaults := [%s],\n    sets := [%s] }'
            % (params, ', '.join(val(d) for d in defaults), ', '.join('(%s, %s)' % (a, val(v)) for a, v in sets)))


def translate(repo):
    path = os.path.join(repo, 'pykdebugparser', 'kd_buf_parser.py')
    with open(path) as fd:
        tree = ast.parse(fd.read())
    consts = module_consts(tree)
    notes = []
    out = {}
    seek = next((n for n in tree.body if isinstance(n, ast.FunctionDef) and n.name == 'seek_until'), None)
    if seek is None or [a.arg for a in seek.args.args][:1] != ['reader'] or len(seek.args.args) != 2:
        out['seekUntil'] = (1, ('unsupported', 'seek_until(reader, data) not found'))
    else:
        tr = Tr(consts, reader=seek.args.args[0].arg, params=[seek.args.args[1].arg])
        out['seekUntil'] = (1, tr.function(seek))
    cls = next((n for n in tree.body if isinstance(n, ast.ClassDef) and n.name == 'KdBufParser'), None)
    fns = {n.name: n for n in cls.body if isinstance(n, ast.FunctionDef)} if cls else {}
    for py, field in (('parse_v2', 'parseV2'), ('parse_v3', 'parseV3')):
        fn = fns.get(py)
        if fn is None or [a.arg for a in fn.args.args] != ['self', 'reader']:
            out[field] = ('unsupported', py + '(self, reader) not found')
        else:
            out[field] = Tr(consts).function(fn)
    stm = fns.get('set_thread_map')
    out['setThreadMap'] = translate_set_thread_map(stm, notes) if stm else [('unsupported', 'set_thread_map not found')]
    out['parse'] = translate_dispatch(cls, consts, notes) if cls else (('iunsupported', 'KdBufParser'), [])
    out['init'] = translate_ctor(cls, notes) if cls else (0, [], [])
    # the callee names must mean the module-level function / the methods translated here
    for name in ('seek_until', 'from_kd_buf', 'plistlib', 'OsLogEvent'):
        stores = [n for n in ast.walk(tree) if isinstance(n, ast.Name) and n.id == name and isinstance(n.ctx, ast.Store)]
        if stores:
            notes.append('%s is rebound at line %d' % (name, stores[0].lineno))
    stores = [n for n in ast.walk(tree) if isinstance(n, ast.Name) and n.id == 'kd_v3_additional_data'
              and isinstance(n.ctx, ast.Store)]
    if len(stores) > 1:
        notes.append('kd_v3_additional_data is rebound at line %d' % stores[1].lineno)
    return out, notes


def generate(repo, write_if_changed, lean_str):
    out, notes = translate(repo)
    L = ['import KdVerif.Model.PyIRRd', 'namespace KdVerif.Gen.PyIRRd', 'open KdVerif.PyIRRd', '',
         '/-! The reader code of pykdebugparser/kd_buf_parser.py (`seek_until`, `set_thread_map`, `parse_v2`, the whole of',
         '    `parse_v3`, `parse` + `self.versions`, `KdBufParser.__init__`), translated from the source text into the IR of',
         '    `Model/PyIRRd` (tools/gen_pyir_rd.py). -/', '']
    params, body = out['seekUntil']
    L.append('def seekUntil : Proc := { params := %d, body :=\n  %s }\n' % (params, lean(body, lean_str)))
    L.append('def setThreadMap : List TmStmt := [' + ', '.join(lean_tm(s, lean_str) for s in out['setThreadMap']) + ']\n')
    L.append('def parseV2 : Stmt :=\n  %s\n' % lean(out['parseV2'], lean_str))
    L.append('def parseV3 : Stmt :=\n  %s\n' % lean(out['parseV3'], lean_str))
    read_len, versions = out['parse']
    L.append('def parse : Dispatch := { readLen := %s, versions := [%s] }\n'
             % (lean(read_len, lean_str), ', '.join('(%s, %s)' % kv for kv in versions)))
    L.append('/-- `KdBufParser.__init__`: the attribute initialisers sorted by attribute. -/')
    L.append('def init : CtorDef :=\n  %s\n' % lean_ctor(out['init'], lean_str))
    L.append('def prog : Program :=\n  { seekUntil := seekUntil, setThreadMap := setThreadMap, parseV2 := parseV2, '
             'parseV3 := parseV3, parse := parse, init := init }\n')
    L.append('/-- What the translator could not express outside the bodies (must be empty). -/')
    L.append('def notes : List String := [' + ', '.join(lean_str(n) for n in notes) + ']\n')
    L += ['end KdVerif.Gen.PyIRRd', '']
    return write_if_changed('PyIRRd.lean', '\n'.join(L))
