"""C04 — START/END pairing delivers exactly each operation's per-thread event window."""
import json

from .. import core
from .. import pairing as P
from .. import tpir
from ..core import run_section

MODULE = 'KdVerif.Props.C04'
NAMESPACE = 'KdVerif.C04'
TRUSTED = ['Model/Pairing.step is a hand model of TracesParser.feed/_feed_start_event/_feed_end_event/'
           '_feed_single_event (two dicts tid -> eventid -> list merged into one function of (domain, tid, eid)); '
           'tied to the code (a) by TRANSLATION: tools/gen_pyir.py turns the source text of the five methods and of '
           'the qualifiers_actions dict into the Python-subset IR of Model/PyIR on every run, source_is_expected_ir '
           'says it is the program of Spec/PyIRExpected, run_ir_eq_run_model / expected_ir_refines_model say that '
           'program run by the interpreter PyIR.exec IS step/run on the abstraction of the heap; and (b) by the '
           'correspondence sections `pairing` (recording stub handlers, public feed() return values and, separately '
           'observed, the lists handed to parse_event_list), `pairing-ir` (the generated IR through the interpreter '
           'against the real parser) and `real` (real handlers, trace.ktraces)',
           'Model/Pairing.gate is a hand model of parse_event_list up to the handler call (translation tie: '
           'parse_event_list_ir_eq_gate)',
           'the translation tie trusts: tools/gen_pyir.py (pure ast; local aliases inlined under checked side '
           'conditions, not/or/and resolved into nested ifs, everything else an explicit .unsupported node) and the '
           'interpreter Model/PyIR as a semantics of that Python subset (insertion-ordered dicts as association '
           'lists, KeyError/IndexError, Python evaluation order; paths instead of object references, never stored in '
           'a local) — the section `pairing-ir` tests exactly these two against CPython',
           'the handler call itself is abstract here (a handler may still return None for a continuation '
           'fragment: C08)',
           'the generator wrapper and the constructor are no longer hand-modelled: ' + tpir.TRUSTED]
ASSUMPTIONS = ['event.func_qualifier is debugid & 3 (C01), so the qualifiers_actions lookup cannot raise KeyError; '
               'the model treats every qualifier other than 1 and 2 like NONE/ALL',
               'handlers do not touch on_going_events / on_going_traces and do not mutate the list they are given '
               '(true of all registered handlers; grep: no handler references these tables)']

def gen_real_case(rng, codes):
    """Histories over a few really decodable codes with in-domain argument words, so that the real decoders run."""
    eids = [c[0] for c in codes]
    ntids = rng.randint(1, 3)
    tids = P.pick_tids(rng, ntids)
    style = rng.choice(['random', 'nested', 'crossing'])
    n = rng.randint(0, 30)
    progs = {t: P.gen_program(rng, eids, n, style) for t in tids}
    pos = {t: 0 for t in tids}
    events = []
    for i in range(n):
        t = rng.choice(tids)
        e, q = progs[t][pos[t]]
        pos[t] += 1
        args = P.real_args(rng)
        strings = {c[0] for c in codes if c[1] and c[1].startswith('TRACE_STRING')}   # their words are text: bytes < 0x80
        if e not in strings and rng.random() < 0.3:    # a word that NAMES a thread of the stream (thread-terminate reads it)
            args[rng.choice([0, 0, 1])] = rng.choice(tids)
        events.append([i, t, e, q, args])
    return {'codes': codes, 'events': events, 'style': 'real-' + style}


MODEL_MAX_LONG = 8200        # the Lean model appends to association lists: quadratic in the window length


def long_lengths(tier):
    """(lengths compared with the Lean model, lengths run on the implementation + declarative oracle only)."""
    from .. import mined
    changed = mined.changed_files()
    every = mined.window_lengths(tier, changed)
    wide = tier != 'quick' or bool(changed)
    small = [n for n in every if n <= MODEL_MAX_LONG]
    big = [n for n in every if n > MODEL_MAX_LONG]
    # budgets: the defaults always fit; cost of the model ~ n^2 (4098^2 ~ 0.2 s per command), of the real code ~ n
    small, _ = mined.take_within(small, (400 if wide else 12) * 4098 ** 2, cost=lambda n: n * n)
    big, _ = mined.take_within(big, 1500000 if wide else 0)
    return small, big


def fixed_cases(lengths=(1022, 1023, 1024, 1025, 2500)):
    """Hand-written shapes named in the property text (tests never feed them): crossing, nested, re-opened
    START, stray END, END twice, qualifier 3, two threads with the same code, the two domains on one thread;
    long windows of `lengths` records (mined.window_lengths: around 1024 and 4096, and — on a changed source or in the
    thorough tier — around every number the pairing / reader / changed files mention and the powers of two up to 2^16)."""
    tn = P.trace_domain_names()
    codes = [[0x40c000c, 'BSC_read', True], [0x40c0010, 'BSC_write', True], [0x7000008, tn[0], True],
             [0x7010008, tn[1], False], [0x1020004, 'KTrap_Debug', False], [0x5550000, None, False]]
    A, B, T, TN, U, X = [c[0] for c in codes]
    z = [0, 0, 0, 0]
    hs = {
        'crossing': [(1, A, 1), (1, B, 1), (1, A, 2), (1, B, 2)],
        'nested': [(1, A, 1), (1, B, 1), (1, B, 2), (1, A, 2)],
        'reopen': [(1, A, 1), (1, B, 0), (1, A, 1), (1, B, 3), (1, A, 2), (1, A, 2)],
        'stray': [(1, A, 2), (1, A, 1), (1, B, 2), (1, A, 2)],
        'two-threads': [(1, A, 1), (2, A, 1), (2, B, 0), (1, A, 2), (2, A, 2)],
        'domains': [(1, A, 1), (1, T, 1), (1, B, 0), (1, TN, 3), (1, T, 2), (1, A, 2)],
        'undecodable': [(1, U, 1), (1, A, 0), (1, U, 2), (1, X, 1), (1, X, 2), (1, X, 0), (1, TN, 0)],
        'stray-in-window': [(1, A, 1), (1, B, 2), (1, U, 2), (1, A, 2)],
        'matched-in-window': [(1, A, 1), (1, B, 1), (1, B, 2), (1, B, 2), (1, A, 2)],
        'same-eid-other-thread-end': [(1, A, 1), (2, A, 2), (1, A, 2)],
        'empty': [],
    }
    # long windows (a call that encloses thousands of records of its thread): nothing may be dropped
    for n in lengths:
        hs['long-%d' % n] = long_history(codes, n)
    hs['long-nested'] = [(1, A, 1), (1, B, 1)] + [(1, U, 0)] * 1100 + [(1, B, 2), (1, A, 2)]
    hs['long-nested-4096'] = [(1, A, 1), (1, B, 1)] + [(1, U, 0)] * 4096 + [(1, B, 2), (1, A, 2)]
    out = []
    for nm, h in hs.items():
        out.append({'codes': codes, 'events': [[i, t, e, q, z] for i, (t, e, q) in enumerate(h)],
                    'style': 'fixed-' + nm})
    return out


def long_history(codes, n):
    A, B = codes[0][0], codes[1][0]
    return [(1, A, 1)] + [(1, B, 0)] * n + [(1, A, 2)]


def expand(case):
    """A long case is recorded compactly ({'long': n}); its event list is rebuilt here."""
    if 'events' in case or 'long' not in case:
        return case
    c = dict(case)
    c['events'] = [[i, t, e, q, [0, 0, 0, 0]] for i, (t, e, q) in enumerate(long_history(case['codes'], case['long']))]
    return c


def long_section(rep, lengths):
    """Windows too long for the Lean model's quadratic lists: the real parser (recording stub handlers) and the declarative
    oracle only — a failing-input search, no model comparison."""
    sec = rep.section('pairing-long')
    sec['rule'] = ('code-only: one START, n NONE-qualified records of another code on the same thread, the END, for window '
                   'lengths n > %d of mined.window_lengths (numbers mentioned by the pairing / reader / changed source files '
                   '+-1, powers of two up to 2^16 +-1); real TracesParser with recording stubs against the declarative oracle'
                   % MODEL_MAX_LONG)
    codes = fixed_cases(())[0]['codes']
    for n in lengths:
        compact = {'codes': codes, 'long': n, 'style': 'long-%d' % n}
        case = expand(compact)
        sec['cases'] += 1
        try:
            got = impl_stub(case)
        except Exception as e:
            got = 'err ' + core.err_name(e)
        r = P.oracle_per_event(case, got)
        if r:
            rep.add_failure(r[0], r[1], {'section': 'pairing-long', 'case': compact, 'impl': got[-300:]})
        else:
            sec['distinct_nontrivial'] += 1
    sec['dist'] = {'lengths': len(lengths), 'longest': max(lengths) if lengths else 0}


def impl_stub(case):
    return P.show_per_event(lambda: P.stub_parser(case), case)


def impl_real(case):
    return P.show_per_event(lambda: P.real_parser(case), case)


def impl_pregate(case):
    """Only the lists handed to parse_event_list (what `pair` prints)."""
    evs = P.kevents(case)
    obs = P.feed_all(P.stub_parser(case), evs, True)
    parts = []
    for o in obs:
        if o is None:
            parts.append('-')
        elif o[0] in ('multi', 'unseen'):
            return 'err parse_event_list-' + o[0]
        else:
            parts.append(o[0])
    return 'ok ' + ';'.join(parts)


def oracle_pregate(case, got):
    r = P.oracle_per_event(case, got if not got.startswith('ok') else
                           'ok ' + ';'.join(_mark(case, p) for p in (got[3:].split(';') if got[3:] else [])))
    return r


def _mark(case, part):
    """Re-attach the gate mark the spec predicts, so that the same comparison can be used pre-gate."""
    if part == '-':
        return part
    dec = {c[0]: (c[1] is not None and bool(c[2])) for c in case['codes']}
    by = {e[0]: e for e in case['events']}
    try:
        first = by[int(part.split(',')[0])]
    except (ValueError, KeyError):
        return part
    return part if dec.get(first[2], False) else part + '*'


def line_pyir(case):
    """`pyir <codes> <records>`: codes = `eid:name number:in trace_handlers:has handler` for every id trace_codes knows."""
    tn = set(P.trace_domain_names())
    num = {n: i + 1 for i, n in enumerate(sorted({c[1] for c in case['codes'] if c[1] is not None}))}
    ents = ['%d:%d:%d:%d' % (c[0], num[c[1]], c[1] in tn, bool(c[2])) for c in case['codes'] if c[1] is not None]
    return ' '.join(['pyir', ','.join(ents) or '-'] + [P.rec_hex(e) for e in case['events']])


SECTIONS = {
    'pairing': (lambda c: P.line('pairg', c), impl_stub, P.oracle_per_event),
    'pairing-names': (lambda c: P.line('pairg', c), impl_stub, P.oracle_per_event),
    'pairing-long': (lambda c: P.line('pairg', c), impl_stub, P.oracle_per_event),
    'pairing-pregate': (lambda c: P.line('pair', c), impl_pregate, oracle_pregate),
    'pairing-ir': (line_pyir, impl_stub, P.oracle_per_event),
    'real': (lambda c: P.line('pairg', c), impl_real, P.oracle_per_event),
}


def translation_tie(rep):
    """Is the IR translated from traces_parser.py the program the refinement theorems are about?  Returns which of the
    generated terms can be run (no `.unsupported` node): (the five methods, feed_generator, __init__)."""
    ans, parts = tpir.check_parts()
    if ans == 'same':
        rep.notes.append('translation tie: Gen/PyIR (from traces_parser.py) = Spec/PyIRExpected + Spec/PyIRTpExpected '
                         '(five methods, qualifiers_actions, feed_generator, __init__)')
        return True, True, True
    rep.broken.append('theorem source_is_expected_ir: the IR that tools/gen_pyir.py translates from the source text of '
                      'traces_parser.py is not the program of Spec/PyIRExpected / Spec/PyIRTpExpected that '
                      'expected_ir_refines_model / run_ir_eq_run_model / feed_generator_ir_eq_model / init_ir_eq_model are '
                      'proved for (%s)' % ans)
    probe = core.drive(['pyir -', 'pyirgen - - 0', 'pyirinit 3'])
    return tuple(p != 'unsupported' for p in probe)


RULE_NAMES = ('every name N of: the registered handler names, every string literal of the package source that is or looks like '
              'a trace name (tools/kdv/mined.py; names mentioned by changed files first), names of the bundled table without '
              'decoder (a spread on the quick tier of an unchanged tree, all of them otherwise) — in every role of scripted '
              'histories with a generic decodable code A and a NONE-qualified filler r: [S A, r, S N, r, E A, E N], '
              '[S N, S A, r, E N, E A], [S A, S N, E N, r, E A], [S A, N(q=0), r, E A], [S A, N(q=3), r, E A], '
              '[S N, r, S N, r, E N], two threads [S A t1, S N t2, r t1, r t2, E A t1, E N t2], and N never closed; N with '
              'its real id where the table knows it; trace-domain N also with a trace-domain partner; real TracesParser with '
              'recording stubs, declarative oracle, Lean model `pairg`')
RULE_PAIRING = ('11 hand-written shapes + long windows + seeded histories (0..40 events, thorough also 0..120) over 1-4 thread '
                'ids x a 12-code alphabet (4 decodable, 3 trace-domain, 1 trace-domain without handler, 2 '
                'known-but-undecoded, 2 unknown ids) x qualifiers 0..3, styles random/nested/crossing/'
                'start-heavy/end-heavy with re-opened STARTs, duplicated and stray ENDs; real TracesParser with '
                'recording stub handlers; one or two names of each alphabet are real names (handler names, names the source '
                'mentions, names of the bundled table); compared per event: nothing / window timestamps / window dropped by '
                'the gate; non-trivial = histories that deliver at least one multi-event window')


def window_table_references():
    """The model's decoders cannot touch the window tables; the code's must not either: every mention of
    on_going_events / on_going_traces outside traces_parser.py."""
    import ast
    import os
    from .. import core
    hits = []
    root = os.path.join(core.REPO, 'pykdebugparser')
    for dp, _dn, fns in os.walk(root):
        for fn in fns:
            if not fn.endswith('.py') or fn == 'traces_parser.py':
                continue
            path = os.path.join(dp, fn)
            with open(path) as fd:
                tree = ast.parse(fd.read())
            for node in ast.walk(tree):
                if isinstance(node, ast.Attribute) and node.attr in ('on_going_events', 'on_going_traces'):
                    hits.append('%s:%d .%s' % (os.path.relpath(path, core.REPO), node.lineno, node.attr))
                elif isinstance(node, ast.Constant) and node.value in ('on_going_events', 'on_going_traces'):
                    hits.append('%s:%d %r' % (os.path.relpath(path, core.REPO), node.lineno, node.value))
    return hits


def value_equal_section(rep, rng, tier):
    """Pairing works on (thread, code, qualifier) and on the ORDER of the records: it may not look at what else a record
    holds.  Each history is fed once as generated (distinct timestamps, random words) and once with every record stamped
    with the same tick and all-zero words — records of one (thread, code, qualifier) are then equal as VALUES (Kevent is
    a tuple), which the kernel does produce for back-to-back identical calls on one tick — and the delivered windows are
    compared record by record through object identity."""
    from pykdebugparser.kevent import from_kd_buf
    from ..impl import record_args
    sec = rep.section('pairing-value-equal')
    sec['rule'] = ('seeded histories of section `pairing` fed a second time with all timestamps and argument words equal '
                   '(value-equal records); windows identified by object identity must be those of the first run')
    n = 400 if tier == 'quick' else 1 if tier == 'replay-one' else 12000
    for _ in range(n):
        case = P.gen_history_case(rng, maxlen=24)
        sec['cases'] += 1
        try:
            first = P.feed_all(P.stub_parser(case), P.kevents(case), False)
            want = ['-' if o is None else o[0] for o in first]
            evs = [from_kd_buf(record_args(7, [0, 0, 0, 0], e[1], e[2] | e[3])) for e in case['events']]
            stamp = {id(k): str(e[0]) for k, e in zip(evs, case['events'])}
            parser = P.stub_parser(case)
            have = []
            for k in evs:
                r = parser.feed(k)
                have.append('-' if r is None else ','.join(stamp.get(id(x), '?') for x in r.ktraces))
        except Exception as e:
            rep.add_failure('pairing:raises', 'feeding value-equal records raised ' + core.err_name(e),
                            {'section': 'pairing-value-equal', 'case': case})
            continue
        if have != want:
            i = next(k for k, (a, b) in enumerate(zip(have, want)) if a != b)
            rep.add_failure('pairing:depends-on-record-values',
                            'event %d of the history delivers the window %s when the records carry distinct timestamps and '
                            'words, and %s when all records of a (thread, code, qualifier) are equal values'
                            % (i, want[i], have[i]), {'section': 'pairing-value-equal', 'case': case})
        elif any(',' in w for w in want):
            sec['distinct_nontrivial'] += 1


def correspondence(rep, rng, tier):
    hits = window_table_references()
    rep.notes.append('window tables are referenced only in traces_parser.py: %s' % (not hits))
    if hits:
        rep.broken.append('assumption: code outside traces_parser.py references the window tables (%s); the model\'s decoders '
                          'cannot' % '; '.join(hits[:4]))
    runnable, runnable_gen, runnable_init = translation_tie(rep)
    if not runnable:
        rep.notes.append('section pairing-ir skipped: the translation contains .unsupported nodes')
    tpir.init_section(rep, runnable_init)
    kind = lambda c, got: c['style']  # noqa: E731
    nontriv = lambda c, got: got.startswith('ok') and P.has_multi_window(got)  # noqa: E731
    chunks = [(6000, 40)] if tier == 'quick' else [(10000, 40)] * 9 + [(3000, 120)]
    from .. import mined
    pool = P.name_pool(tier)
    small, big = long_lengths(tier)
    fixed = fixed_cases(small)
    rep.notes.append('mined: %d names in every role (%d handler names, %d name literals of the source, %d table names without '
                     'decoder); window lengths %d..%d (%d compared with the model, %d on the code only); changed files: %s'
                     % (len(pool['all']), len(pool['handlers']), len(pool['mined']), len(pool['table']),
                        min(small + big), max(small + big), len(small), len(big), mined.changed_files() or 'none'))
    first = True
    for n, maxlen in chunks:                       # chunked: bounded memory in the thorough tier
        cases = (fixed if first else []) + [P.gen_history_case(rng, maxlen=maxlen, pool=pool) for _ in range(n)]
        run_section(rep, 'pairing', cases,
                    line_fn=lambda c: P.line('pairg', c), impl_fn=impl_stub, oracle_fn=P.oracle_per_event,
                    nontrivial_fn=nontriv, kind_fn=kind, rule=RULE_PAIRING)
        sub = (cases[:len(fixed)] if first else []) + cases[len(fixed) if first else 0::3]
        run_section(rep, 'pairing-pregate', sub,
                    line_fn=lambda c: P.line('pair', c), impl_fn=impl_pregate, oracle_fn=oracle_pregate,
                    nontrivial_fn=nontriv, kind_fn=kind,
                    rule='every third case of `pairing`: only the lists handed to parse_event_list (all codes, also '
                         'undecodable ones), against the ungated `pair` command')
        if runnable:
            run_section(rep, 'pairing-ir', sub,
                        line_fn=line_pyir, impl_fn=impl_stub, oracle_fn=P.oracle_per_event,
                        nontrivial_fn=nontriv, kind_fn=kind, skip_fn=lambda m: m == 'unsupported',
                        rule='the cases of `pairing-pregate`: the program GENERATED from traces_parser.py (Gen/PyIR) run by '
                             'the interpreter of Model/PyIR (`pyir`: per event the list handed to parse_event_list and '
                             'whether a handler result came back) against the real TracesParser with recording stub '
                             'handlers — tests the translator and the interpreter, not the hand model')
        tpir.feed_generator_section(rep, sub, runnable_gen)
        first = False
    names = pool['all']
    for i in range(0, len(names), 400):             # chunked like `pairing`
        run_section(rep, 'pairing-names', P.name_role_cases(names[i:i + 400], pool['handlers']),
                    line_fn=lambda c: P.line('pairg', c), impl_fn=impl_stub, oracle_fn=P.oracle_per_event,
                    nontrivial_fn=nontriv, kind_fn=kind, rule=RULE_NAMES)
    long_section(rep, big)
    P.shrink_failures(rep, 'pairing-names', impl_stub, P.oracle_per_event, lambda c: P.line('pairg', c))
    P.shrink_failures(rep, 'pairing-long', impl_stub, P.oracle_per_event, lambda c: P.line('pairg', c)[:4000], expand=expand)
    P.shrink_failures(rep, 'pairing', impl_stub, P.oracle_per_event, lambda c: P.line('pairg', c))
    P.shrink_failures(rep, 'pairing-pregate', impl_pregate, oracle_pregate, lambda c: P.line('pair', c))
    P.shrink_failures(rep, 'feed-generator-ir', tpir.impl_gen, tpir.oracle_gen, tpir.line_gen, seconds=15.0,
                      expand=tpir.freeze)
    value_equal_section(rep, rng, tier)
    codes = P.real_alphabet()
    m = 1500 if tier == 'quick' else 20000
    rcases = [gen_real_case(rng, codes) for _ in range(m)]
    run_section(rep, 'real', rcases,
                line_fn=lambda c: P.line('pairg', c), impl_fn=impl_real, oracle_fn=P.oracle_per_event,
                nontrivial_fn=nontriv, kind_fn=kind,
                rule='real handlers (BSC_read, BSC_write, BSC_getpid, MACH_SCHED, TRACE_DATA_EXEC, '
                     'TRACE_STRING_PROC_EXIT, TRACE_DATA_THREAD_TERMINATE looked up by name in default_trace_codes(), plus KTrap_Debug = known '
                     'but undecoded and one unknown id) on in-domain argument words, three in ten records with a word '
                     'equal to a thread id of the stream; compared: trace.ktraces '
                     'timestamps per event')
    P.shrink_failures(rep, 'real', impl_real, P.oracle_per_event, lambda c: P.line('pairg', c))


def replay(path):
    with open(path) as fd:
        r = json.load(fd)
    rp = r.get('replay') or {}
    if 'case' not in rp:
        print('nothing to replay (no failing input was recorded):', r.get('no_longer_checks'))
        return 1
    case, sec = rp['case'], rp.get('section', 'pairing')
    if sec in ('feed-generator-ir', 'init-ir'):
        if sec == 'init-ir':
            got = tpir._safe(tpir.impl_init, case)
            print('impl :', got)
            try:
                print('model:', core.drive(['pyirinit %d' % case.get('nargs', 3)])[0])
            except core.Infra as e:
                print('model: <driver unavailable: %s>' % e)
            res = tpir.oracle_init(case, got)
        else:
            print('codes (id name decodable):', case['codes'])
            for e in case['events'][:80]:
                print('   %d tid=%d code=%#x q=%d' % (e[0], e[1], e[2], e[3]))
            res = tpir.replay_gen(case)
        if res:
            print('oracle:', res[0], '-', res[1])
            print(f'VIOLATION property=C04 replay={path}')
            return 1
        print('oracle: property holds on this input')
        return 0
    if sec == 'pairing-value-equal':
        class _R:                                    # re-run the one case through the section itself
            def __init__(self):
                self.failures, self.secs = [], {}
            def section(self, n):
                return self.secs.setdefault(n, {'cases': 0, 'distinct_nontrivial': 0})
            def add_failure(self, sig, what, rp_):
                self.failures.append((sig, what))
        import random as _random
        rr = _R()
        orig = P.gen_history_case
        P.gen_history_case = lambda rng, maxlen=24: case
        try:
            _n = value_equal_section.__code__
            value_equal_section(rr, _random.Random(0), 'replay-one')
        finally:
            P.gen_history_case = orig
        for sig, what in rr.failures[:1]:
            print('oracle:', sig, '-', what)
            print(f'VIOLATION property=C04 replay={path}')
            return 1
        print('oracle: property holds on this input')
        return 0
    line_fn, impl_fn, oracle = SECTIONS[sec]
    case = expand(case)
    if rp.get('case', {}).get('name'):
        print('name in every role:', rp['case']['name'], '(%s)' % case.get('style'))
    if len(case['events']) > MODEL_MAX_LONG:        # beyond the model's reach: implementation and oracle only
        line_fn = None
    try:
        got = impl_fn(case)
    except Exception as e:
        got = 'err ' + core.err_name(e)
    model = core.drive([line_fn(case)])[0] if line_fn else '(not run: window too long for the model)'
    print('codes (id name decodable):', case['codes'])
    print('history (timestamp tid code qualifier):')
    evs = case['events']
    for e in (evs if len(evs) <= 60 else evs[:20]):
        print('   %d tid=%d code=%#x q=%d' % (e[0], e[1], e[2], e[3]))
    if len(evs) > 60:
        print('   ... %d records ...' % (len(evs) - 40))
        for e in evs[-20:]:
            print('   %d tid=%d code=%#x q=%d' % (e[0], e[1], e[2], e[3]))
    print('impl :', got if len(got) < 4000 else got[:1500] + ' ... ' + got[-1500:])
    print('model:', model if len(model) < 4000 else model[:1500] + ' ... ' + model[-1500:])
    res = oracle(case, got)
    if res:
        print('oracle:', res[0], '-', res[1])
        print(f'VIOLATION property=C04 replay={path}')
        return 1
    print('oracle: property holds on this input')
    return 0


LEVEL_TEXT = ('Lean theorems for ALL histories: the pairing state machine (model of feed/_feed_*_event) refines a '
              'declarative history-based specification (state_eq, by induction on the history); from it: '
              'end_emits_window, stray_end_noop, single_emits_self, start_emits_nothing, no_other_output, '
              'run_is_declarative, window_head_is_last_start, window_last_is_end, window_sandwich (Sublist bounds), '
              'matched_end_included, trace_iff_decodable.  TRANSLATION TIE: the source text of feed / '
              'parse_event_list / _feed_start_event / _feed_end_event / _feed_single_event and the qualifiers_actions '
              'dict is translated on every run (tools/gen_pyir.py, pure ast) into a deep embedding of the Python '
              'subset they use (Model/PyIR: expressions, if/return/for/append/pop/dict stores, calls; a big-step '
              'interpreter over a heap of insertion-ordered dicts of dicts of lists with KeyError/IndexError); '
              'source_is_expected_ir: the generated program is the one of Spec/PyIRExpected; '
              'expected_ir_refines_model: for EVERY well-formed heap and event, interpreting feed gives the heap that '
              'abstracts to Pairing.step, calls parse_event_list with exactly the emitted list and returns the gated '
              'result, and keeps the heap well-formed; run_ir_eq_run_model: for every history from the empty tables '
              'the generated program yields Pairing.outputs / run / stateAfter; parse_event_list_ir_eq_gate: '
              'parse_event_list is Pairing.gate (IndexError on []).  The tie now covers the WHOLE class but its handlers: '
              'feed_generator (feed_generator_ir_eq_model: for every event list, every exception the event generator ends with '
              'and every heap, the interpreted `for event in generator: ret = self.feed(event); if ret is not None: yield ret` '
              'IS Pipeline.feedGen over the interpreted feed — same traces in order, an exception of feed ends the stream after '
              'the traces already delivered, same final state; feed_generator_ir_eq_pairing_model: from a fresh parser it yields '
              'the non-None answers of Pairing.outputs through the gate) and __init__ (init_ir_eq_model: all ten attributes '
              'bound, trace_codes / threads_pids / pids_names ARE the caller\'s arguments — shared, not copied —, the two window '
              'tables are two different new empty dicts = PyIR.World.empty = Pairing.PState.empty, seven pairwise different new '
              'dicts in all, whole-parser state { pairing := empty, tabs := the caller\'s two tables, the other four empty }; '
              'init_state_is_model_start: that is TracePipeline.startState; the handler registry: C17 registry_ir_eq_model).  '
              'Model and generated IR are also run differentially against the real TracesParser (sections pairing-ir, '
              'feed-generator-ir, init-ir).')
LEVEL_NOTE = ('Trusted: Lean kernel; the translator tools/gen_pyir.py and the interpreter Model/PyIR as the semantics of '
              'the Python subset, with Model/PyIRTp for the generator wrapper and the constructor (all tested against CPython '
              'by the sections pairing-ir, feed-generator-ir, init-ir); the hand model of feed '
              '(Model/Pairing) is no longer trusted by itself — it is proved equal to the interpreted source; the '
              'handler call after the gate is abstract (continuation fragments swallowed by handlers: C08).')
TECHNIQUE = ('Lean 4 refinement proofs (interpreted source IR vs. state machine vs. declarative spec) + translation '
             'validation + differential correspondence')
