import KdVerif.Proofs.ContainerV2
import KdVerif.Proofs.Final
import KdVerif.Spec.ContainerV3
/-
  Round trip of the v3 reader on `Spec.encodeV3`: tag scanner, header, thread-map chunk, event chunks,
  additional-data blocks.
-/
namespace KdVerif
open Reader Spec

/-! ### seek_until finds the FIRST occurrence -/

theorem noEarlier_tail {tag : Bytes} {a : Nat} {pre : Bytes} (h : NoEarlier tag (a :: pre)) : NoEarlier tag pre := by
  intro i hi
  have := h (i + 1) (by simp; omega)
  simpa using this

theorem seekAux_first (tag : Bytes) (hL : tag ≠ []) : ∀ (pre found rest : Bytes) (n : Nat) (post : Bytes),
    found.length = tag.length → found ++ rest = pre ++ (tag ++ post) → NoEarlier tag pre →
    seekAux tag rest found n = (true, n + pre.length) ∧ rest.drop pre.length = post := by
  intro pre
  induction pre with
  | nil =>
    intro found rest n post hl he _
    simp only [List.nil_append] at he
    obtain ⟨h1, h2⟩ := List.append_inj he hl
    subst h1 h2
    cases rest with
    | nil => simp [seekAux]
    | cons b t => simp [seekAux]
  | cons a pre ih =>
    intro found rest n post hl he hno
    have hLpos : 0 < tag.length := List.length_pos_iff.mpr hL
    have hne : found ≠ tag := by
      intro e
      have h0 := hno 0 (by simp)
      apply h0
      have : found = ((a :: pre) ++ (tag ++ post)).take tag.length := by
        rw [← he, ← hl]; simp
      rw [List.drop_zero]
      rw [e] at this
      have h2 : ((a :: pre) ++ (tag ++ post)).take tag.length = ((a :: pre) ++ tag).take tag.length := by
        rw [← List.append_assoc, List.take_append_of_le_length]
        simp; omega
      rw [h2] at this
      exact this.symm
    have hlen := congrArg List.length he
    simp only [List.length_append, List.length_cons] at hlen
    cases rest with
    | nil => simp at hlen; omega
    | cons b t =>
      simp only [seekAux, hne, if_false]
      obtain ⟨f0, ft, rfl⟩ : ∃ f0 ft, found = f0 :: ft := by
        cases found with
        | nil => simp at hl; omega
        | cons f0 ft => exact ⟨f0, ft, rfl⟩
      have he' : (ft ++ [b]) ++ t = pre ++ (tag ++ post) := by
        have := congrArg (List.drop 1) he
        simpa using this
      have hl' : (ft ++ [b]).length = tag.length := by simp at hl ⊢; omega
      obtain ⟨i1, i2⟩ := ih (ft ++ [b]) t (n + 1) post hl' he' (noEarlier_tail hno)
      simp only [List.drop_succ_cons, List.drop_zero, List.length_cons]
      exact ⟨by rw [i1]; congr 1; omega, i2⟩

/-- **seek_until stops behind the FIRST occurrence of the tag.** -/
theorem seekUntil_cont {r : Reader} {tag pre post : Bytes} (hL : tag ≠ [])
    (h : r.rest = pre ++ (tag ++ post)) (hno : NoEarlier tag pre) :
    ∃ r', seekUntil tag r = (.ok (), r') ∧ Cont r r' post := by
  have hlen : tag.length ≤ r.rest.length := by rw [h]; simp; omega
  have hf : (r.read tag.length).1.length = tag.length := by simp [List.length_take]; omega
  have hsplit : (r.read tag.length).1 ++ (r.read tag.length).2.rest = pre ++ (tag ++ post) := by
    rw [read_fst, read_rest, List.take_append_drop, h]
  obtain ⟨s1, s2⟩ := seekAux_first tag hL pre _ _ 0 post hf hsplit hno
  rw [seekUntil_eq, s1]
  refine ⟨_, rfl, ?_, rfl⟩
  simp only [Reader.rest, stepBytes_data, stepBytes_pos, Nat.zero_add] at s2 ⊢
  rw [← List.drop_drop]; exact s2

/-! ### header pieces -/

theorem readFields_cont : ∀ (sizes vals : List Nat) {r : Reader} {s : Bytes},
    r.rest = encodeFields sizes vals ++ s → sizes.length = vals.length →
    (∀ i (h1 : i < sizes.length) (h2 : i < vals.length), vals[i] < 256 ^ sizes[i] ∧ sizes[i] < 16) →
    ∃ r', readFields sizes r = (.ok vals, r') ∧ Cont r r' s
  | [], [], r, s, h, _, _ => ⟨r, rfl, by simpa [encodeFields] using h, rfl⟩
  | [], _ :: _, _, _, _, hl, _ => by simp at hl
  | _ :: _, [], _, _, _, hl, _ => by simp at hl
  | n :: ns, v :: vs, r, s, h, hl, hb => by
    simp only [encodeFields, List.append_assoc] at h
    obtain ⟨hv, hn⟩ := hb 0 (by simp) (by simp)
    simp only [List.getElem_cons_zero] at hv hn
    obtain ⟨r1, e1, c1⟩ := readExact_cont h (toLE_length n v) (by unfold ssizeLimit; omega)
    obtain ⟨r2, e2, c2⟩ := readFields_cont ns vs c1.1 (by simpa using hl)
      (fun i h1 h2 => by have := hb (i + 1) (by simp; omega) (by simp; omega); simpa using this)
    refine ⟨r2, ?_, c2.1, c2.2.trans c1.2⟩
    simp only [readFields]
    rw [RM.bind_ok e1, RM.bind_ok e2, RM.pure_apply, leNat_toLE, Nat.mod_eq_of_lt hv]

theorem prefixedBytes_cont {r : Reader} {p s : Bytes} (h : r.rest = toLE 8 p.length ++ (p ++ s))
    (hp : p.length < ssizeLimit) : ∃ r', prefixedBytes r = (.ok p, r') ∧ Cont r r' s := by
  obtain ⟨r1, e1, c1⟩ := int64ul_cont h (by unfold ssizeLimit at hp; omega)
  obtain ⟨r2, e2, c2⟩ := readExact_cont c1.1 rfl hp
  exact ⟨r2, by unfold prefixedBytes; rw [RM.bind_ok e1, e2], c2.1, c2.2.trans c1.2⟩

/-- position bookkeeping: on the same data, the bytes consumed are the difference of the unread lengths. -/
theorem cont_pos {r r' : Reader} {s : Bytes} (c : Cont r r' s) (g : Good r) (g' : Good r') (hm : r.pos ≤ r'.pos) :
    r'.pos = r.pos + (r.rest.length - s.length) := by
  have h1 : r.rest.length = r.data.length - r.pos := rest_length r
  have h2 : s.length = r'.data.length - r'.pos := by rw [← c.1]; exact rest_length r'
  rw [c.2] at h2
  have g1 : r.pos ≤ r.data.length := g
  have g2 : r'.pos ≤ r'.data.length := g'
  rw [c.2] at g2
  omega

theorem padTo_eq_pad8 (n : Nat) : padTo 8 n = pad8 n := rfl

/-! ### the thread-map chunk -/

theorem threadEntryOf_encode (t : V2Thread) (wf : t.WF) : threadEntryOf (encodeThread t) = some (toEntry t) := by
  obtain ⟨h1, h2, h3, h4, h5⟩ := wf
  have e1 : (encodeThread t).take 8 = toLE 8 t.tid := by
    simp [encodeThread, List.take_append_of_le_length, toLE_length]
  have e2 : ((encodeThread t).drop 8).take 4 = toLE 4 t.pid := by
    have : (encodeThread t).drop 8 = toLE 4 t.pid ++ (t.name ++ t.fieldTail) := by
      unfold encodeThread; rw [List.drop_left' (toLE_length 8 _)]
    rw [this, List.take_left' (toLE_length 4 _)]
  have e3 : ((encodeThread t).drop 12).take 20 = t.name ++ t.fieldTail := by
    have : (encodeThread t).drop 12 = t.name ++ t.fieldTail := by
      unfold encodeThread
      rw [show (12 : Nat) = 8 + 4 from rfl, ← List.drop_drop, List.drop_left' (toLE_length 8 _),
        List.drop_left' (toLE_length 4 _)]
    rw [this, List.take_of_length_le (by rw [field_length t h4]; omega)]
  unfold threadEntryOf
  rw [e3, show t.name ++ t.fieldTail = t.name ++ 0 :: (t.junk ++ zeros (19 - t.name.length - t.junk.length)) from rfl,
    cstringOf_name _ _ h3 h5, e1, e2, leNat_toLE, leNat_toLE,
    Nat.mod_eq_of_lt (by omega : t.tid < 256 ^ 8), Nat.mod_eq_of_lt (by omega : t.pid < 256 ^ 4)]
  rfl

theorem greedyEntriesAux_encode : ∀ (ts : List V2Thread) (trail : Bytes) (n : Nat),
    (∀ t ∈ ts, t.WF) → trail.length < 32 → ts.length + 1 ≤ n →
    greedyEntriesAux n ((ts.map encodeThread).flatten ++ trail) = ts.map toEntry
  | [], trail, n, _, ht, hn => by
    obtain ⟨n, rfl⟩ : ∃ k, n = k + 1 := ⟨n - 1, by omega⟩
    simp [greedyEntriesAux, ht]
  | t :: ts, trail, n, wf, ht, hn => by
    obtain ⟨n, rfl⟩ : ∃ k, n = k + 1 := ⟨n - 1, by simp at hn; omega⟩
    have hl := encodeThread_length t (wf t (by simp)).2.2.2.1
    simp only [List.map_cons, List.flatten_cons, List.append_assoc, greedyEntriesAux]
    have h1 : ¬ (encodeThread t ++ ((ts.map encodeThread).flatten ++ trail)).length < 32 := by simp; omega
    rw [if_neg h1, List.take_left' hl, threadEntryOf_encode t (wf t (by simp)), List.drop_left' hl]
    simp only
    rw [greedyEntriesAux_encode ts trail n (fun x hx => wf x (by simp [hx])) ht (by simp at hn; omega)]

theorem threads_bytes_length (ts : List V2Thread) (wf : ∀ t ∈ ts, t.WF) :
    (ts.map encodeThread).flatten.length = 32 * ts.length := by
  induction ts with
  | nil => rfl
  | cons t ts ih =>
    have := ih (fun x hx => wf x (by simp [hx]))
    have hl := encodeThread_length t (wf t (by simp)).2.2.2.1
    simp only [List.map_cons, List.flatten_cons, List.length_append, List.length_cons, this, hl]; omega

theorem greedyEntries_encode (ts : List V2Thread) (trail : Bytes) (wf : ∀ t ∈ ts, t.WF) (ht : trail.length < 32) :
    greedyEntries ((ts.map encodeThread).flatten ++ trail) = ts.map toEntry := by
  unfold greedyEntries
  apply greedyEntriesAux_encode ts trail _ wf ht
  rw [List.length_append, threads_bytes_length ts wf]; omega

end KdVerif

namespace KdVerif
open Reader Spec

theorem encodeFields_length : ∀ (sizes vals : List Nat), sizes.length = vals.length →
    (encodeFields sizes vals).length = sizes.sum
  | [], [], _ => rfl
  | [], _ :: _, h => by simp at h
  | _ :: _, [], h => by simp at h
  | n :: ns, v :: vs, h => by
    simp only [encodeFields, List.length_append, toLE_length, List.sum_cons,
      encodeFields_length ns vs (by simpa using h)]

theorem linA_headerInner (plist : Bytes → Option PView) : LinA 1 14 8 (headerV3Inner plist) := by
  have inner : LinA 1 (12 + (2 + 0)) (0 + (8 + 0)) (headerV3Inner plist) := by
    unfold headerV3Inner
    exact linA_bind (linA_readFields v3FieldSizes) fun fs => linA_bind linA_prefixedBytes fun p => by
      cases plist p with
      | none => exact linA_throw _ 1 0
      | some _ => exact linA_pure _ 1
  exact inner

theorem headerV3_cont (plist : Bytes → Option PView) {r : Reader} (g : Good r) {hdr : List Nat} {cpu s : Bytes}
    (h : r.rest = encodeFields v3FieldSizes hdr ++ (toLE 8 cpu.length ++ (cpu ++ (zeros (pad8 (68 + cpu.length)) ++ s))))
    (hl : hdr.length = 12)
    (hb : ∀ i (h1 : i < v3FieldSizes.length) (h2 : i < hdr.length), hdr[i] < 256 ^ v3FieldSizes[i])
    (hc : cpu.length < 2 ^ 63) (hp : plist cpu ≠ none) :
    ∃ r', headerV3 plist r = (.ok (hdr, cpu), r') ∧ Cont r r' s ∧ Good r' := by
  obtain ⟨r1, e1, c1⟩ := readFields_cont v3FieldSizes hdr h (by rw [hl]; rfl) (fun i h1 h2 => ⟨hb i h1 h2, by
    have : ∀ j (hj : j < v3FieldSizes.length), v3FieldSizes[j] < 16 := by decide
    exact this i h1⟩)
  obtain ⟨r2, e2, c2⟩ := prefixedBytes_cont c1.1 (by unfold ssizeLimit; omega)
  obtain ⟨v, hv⟩ := Option.ne_none_iff_exists'.mp hp
  have einner : headerV3Inner plist r = (.ok (hdr, cpu), r2) := by
    unfold headerV3Inner
    rw [RM.bind_ok e1, RM.bind_ok e2, hv]; rfl
  obtain ⟨st, _⟩ := linA_headerInner plist r g
  rw [einner] at st
  dsimp only at st
  have hpos := cont_pos (⟨c2.1, c2.2.trans c1.2⟩ : Cont r r2 _) g st.good st.mono
  have hlen : r.rest.length - (zeros (pad8 (68 + cpu.length)) ++ s).length = 68 + cpu.length := by
    rw [h]
    simp only [List.length_append, encodeFields_length v3FieldSizes hdr (by rw [hl]; rfl), toLE_length]
    have : v3FieldSizes.sum = 60 := by decide
    omega
  rw [hlen] at hpos
  have hpad : padTo 8 (r2.pos - r.pos) = pad8 (68 + cpu.length) := by
    rw [hpos, padTo_eq_pad8]; congr 1; omega
  have hz : (zeros (pad8 (68 + cpu.length))).length = pad8 (68 + cpu.length) := by simp [zeros]
  obtain ⟨r3, e3, c3⟩ := readExact_cont c2.1 hz (by unfold ssizeLimit pad8; omega)
  obtain ⟨st3, _⟩ := linA_readExact (pad8 (68 + cpu.length)) r2 st.good
  rw [e3] at st3
  refine ⟨r3, ?_, ⟨c3.1, c3.2.trans (c2.2.trans c1.2)⟩, st3.good⟩
  unfold headerV3
  rw [aligned_eq, einner]
  simp only [hpad, e3]

end KdVerif

namespace KdVerif
open Reader Spec

theorem tags_eq : Gen.Consts.TRACEV3_STACKSHOT_END = tagStackshotEnd ∧ Gen.Consts.TRACEV3_THREADMAP_TAG = tagThreadmap ∧
    Gen.Consts.TRACEV3_EVENTS_TAG = tagEvents ∧ Gen.Consts.TRACEV3_MORE_EVENTS = tagMore ∧
    Gen.Consts.RAW_VERSION3_BYTES = v3Magic := by decide

theorem readPlain_cont {r : Reader} {x s : Bytes} (h : r.rest = x ++ s) :
    ∃ r', readPlain x.length r = (.ok x, r') ∧ Cont r r' s := by
  obtain ⟨h1, h2⟩ := read_cont h
  exact ⟨_, by unfold readPlain; simp only [h1], h2⟩

theorem threadmapV3_cont {r : Reader} {four filler gap1 trail s : Bytes} {ts : List V2Thread}
    (h : r.rest = four ++ (filler ++ (tagStackshotEnd ++ (gap1 ++ (tagThreadmap ++
      (toLE 8 ((ts.map encodeThread).flatten ++ trail).length ++ (((ts.map encodeThread).flatten ++ trail) ++ s)))))))
    (h4 : four.length = 4) (hf : NoEarlier tagStackshotEnd filler) (hg : NoEarlier tagThreadmap gap1)
    (wts : ∀ t ∈ ts, t.WF) (htr : trail.length < 32) (hlen : ((ts.map encodeThread).flatten ++ trail).length < 2 ^ 63) :
    ∃ r', threadmapV3 r = (.ok (ts.map toEntry), r') ∧ Cont r r' s := by
  obtain ⟨r1, e1, c1⟩ := readPlain_cont h
  obtain ⟨r2, e2, c2⟩ := seekUntil_cont (tag := tagStackshotEnd) (by decide) c1.1 hf
  obtain ⟨r3, e3, c3⟩ := seekUntil_cont (tag := tagThreadmap) (by decide) c2.1 hg
  obtain ⟨r4, e4, c4⟩ := prefixedBytes_cont c3.1 (by unfold ssizeLimit; omega)
  refine ⟨r4, ?_, c4.1, c4.2.trans (c3.2.trans (c2.2.trans c1.2))⟩
  unfold threadmapV3
  rw [h4] at e1
  have e1' : readPlain (8 - Gen.Consts.RAW_VERSION_SIZE) r = (.ok four, r1) := e1
  rw [RM.bind_ok e1', tags_eq.1, RM.bind_ok e2, tags_eq.2.1, RM.bind_ok e3, RM.bind_ok e4, RM.pure_apply,
    greedyEntries_encode ts trail wts htr]

theorem recordsN_cont {ε : Type} (dec : Bytes → Except PyErr ε) (spec : Bytes → ε) :
    ∀ (recs : List Bytes) {r : Reader} {s : Bytes}, r.rest = recs.flatten ++ s →
      (∀ x ∈ recs, x.length = 64 ∧ dec x = .ok (spec x)) →
      (recordsN dec recs.length r).1 = recs.map spec ∧ (recordsN dec recs.length r).2.1 = none ∧
        Cont r (recordsN dec recs.length r).2.2 s
  | [], r, s, h, _ => ⟨rfl, rfl, (by simpa using h : r.rest = s), rfl⟩
  | x :: xs, r, s, h, hd => by
    obtain ⟨hx, hdx⟩ := hd x (by simp)
    have h' : r.rest = x ++ (xs.flatten ++ s) := by simpa using h
    obtain ⟨h1, c1⟩ := read_cont h'
    rw [hx] at h1 c1
    obtain ⟨i1, i2, i3⟩ := recordsN_cont dec spec xs c1.1 (fun y hy => hd y (by simp [hy]))
    simp only [List.length_cons, recordsN, Gen.Consts.keventSize, h1, hdx, List.map_cons, i1, i2]
    exact ⟨trivial, trivial, i3.1, i3.2.trans c1.2⟩

/-- one events chunk, up to and excluding the read of the MORE tag. -/
theorem chunkBody_cont {ε : Type} (dec : Bytes → Except PyErr ε) (spec : Bytes → ε) (c : V3Chunk)
    (wf : c.WF) (hd : ∀ x ∈ c.recs, dec x = .ok (spec x)) {r : Reader} {s : Bytes}
    (h : r.rest = encodeChunk c ++ s) :
    ∃ r1 r2, seekUntil Gen.Consts.TRACEV3_EVENTS_TAG r = (.ok (), r1) ∧
      int64ul r1 = (.ok (64 * c.recs.length + c.extra), r2) ∧
      (recordsN dec ((64 * c.recs.length + c.extra) / Gen.Consts.keventSize) (r2.read 8).2).1 = c.recs.map spec ∧
      (recordsN dec ((64 * c.recs.length + c.extra) / Gen.Consts.keventSize) (r2.read 8).2).2.1 = none ∧
      Cont r (recordsN dec ((64 * c.recs.length + c.extra) / Gen.Consts.keventSize) (r2.read 8).2).2.2 s := by
  obtain ⟨w1, w2, w3, w4, w5⟩ := wf
  simp only [encodeChunk, List.append_assoc] at h
  obtain ⟨r1, e1, c1⟩ := seekUntil_cont (tag := tagEvents) (by decide) h w1
  obtain ⟨r2, e2, c2⟩ := int64ul_cont c1.1 w3
  obtain ⟨h3, c3⟩ := read_cont c2.1
  rw [w4] at h3 c3
  have hn : (64 * c.recs.length + c.extra) / Gen.Consts.keventSize = c.recs.length := by
    unfold Gen.Consts.keventSize; omega
  obtain ⟨i1, i2, i3⟩ := recordsN_cont dec spec c.recs c3.1 (fun x hx => ⟨(w5 x hx).1, hd x hx⟩)
  refine ⟨r1, r2, by rw [tags_eq.2.2.1]; exact e1, e2, ?_, ?_, ?_⟩
  · rw [hn]; exact i1
  · rw [hn]; exact i2
  · rw [hn]; exact ⟨i3.1, i3.2.trans (c3.2.trans (c2.2.trans c1.2))⟩

theorem chunkLoop_cont {ε : Type} (dec : Bytes → Except PyErr ε) (spec : Bytes → ε) :
    ∀ (cs : List V3Chunk) (c : V3Chunk) (fuel : Nat) {r : Reader} {tailb : Bytes},
      r.rest = encodeChunk c ++ ((cs.map (fun c => tagMore ++ encodeChunk c)).flatten ++ tailb) →
      (∀ x ∈ c :: cs, x.WF) → (∀ x ∈ c :: cs, ∀ y ∈ x.recs, dec y = .ok (spec y)) →
      tailb.take 8 ≠ tagMore → cs.length + 1 ≤ fuel →
      ∃ rl : Reader, (chunkLoop dec fuel r).1 = (c :: cs).flatMap (fun c => c.recs.map spec) ∧
        (chunkLoop dec fuel r).2.1 = none ∧ (chunkLoop dec fuel r).2.2 = (rl.read 8).2 ∧
        rl.rest = tailb ∧ rl.data = r.data
  | [], c, fuel, r, tailb, h, wf, hd, ht, hf => by
    obtain ⟨fuel, rfl⟩ : ∃ k, fuel = k + 1 := ⟨fuel - 1, by omega⟩
    simp only [List.map_nil, List.flatten_nil, List.nil_append] at h
    obtain ⟨r1, r2, e1, e2, i1, i2, i3⟩ := chunkBody_cont dec spec c (wf c (by simp)) (hd c (by simp)) h
    refine ⟨_, ?_, ?_, ?_, i3.1, i3.2⟩
    all_goals
      rw [chunkLoop, e1]; dsimp only; rw [e2]; dsimp only; rw [i2]; dsimp only
      have hne : ¬ ((recordsN dec ((64 * c.recs.length + c.extra) / Gen.Consts.keventSize) (r2.read 8).2).2.2.read
          Gen.Consts.TRACEV3_MORE_EVENTS.length).1 = Gen.Consts.TRACEV3_MORE_EVENTS := by
        rw [read_fst, i3.1, tags_eq.2.2.2.1]; exact ht
      rw [if_neg hne]
    · simp [i1]
    · rfl
  | c2 :: cs, c, fuel, r, tailb, h, wf, hd, ht, hf => by
    obtain ⟨fuel, rfl⟩ : ∃ k, fuel = k + 1 := ⟨fuel - 1, by omega⟩
    simp only [List.map_cons, List.flatten_cons, List.append_assoc] at h
    obtain ⟨r1, r2, e1, e2, i1, i2, i3⟩ := chunkBody_cont dec spec c (wf c (by simp)) (hd c (by simp)) h
    obtain ⟨h4, c4⟩ := read_cont i3.1
    have hm : ((recordsN dec ((64 * c.recs.length + c.extra) / Gen.Consts.keventSize) (r2.read 8).2).2.2.read
          Gen.Consts.TRACEV3_MORE_EVENTS.length).1 = Gen.Consts.TRACEV3_MORE_EVENTS := by
      rw [tags_eq.2.2.2.1]; exact h4
    have h4' : ((recordsN dec ((64 * c.recs.length + c.extra) / Gen.Consts.keventSize) (r2.read 8).2).2.2.read
          Gen.Consts.TRACEV3_MORE_EVENTS.length).2 =
        ((recordsN dec ((64 * c.recs.length + c.extra) / Gen.Consts.keventSize) (r2.read 8).2).2.2.read tagMore.length).2 := rfl
    obtain ⟨rl, j1, j2, j3, j4, j5⟩ := chunkLoop_cont dec spec cs c2 fuel (r := _) (tailb := tailb) c4.1
      (fun x hx => wf x (by simp at hx ⊢; exact Or.inr hx)) (fun x hx => hd x (by simp at hx ⊢; exact Or.inr hx)) ht
      (by simp at hf; omega)
    refine ⟨rl, ?_, ?_, ?_, j4, by rw [j5, c4.2, i3.2]⟩
    all_goals
      rw [chunkLoop, e1]; dsimp only; rw [e2]; dsimp only; rw [i2]; dsimp only
      rw [if_pos hm, h4']
    · simp only [j1, i1, List.flatMap_cons]
    · exact j2
    · exact j3

end KdVerif

namespace KdVerif
open Reader Spec

theorem good_of_blockElem {r : Reader} (g : Good r) : Good (blockElem r).2 := by
  obtain ⟨d, gd, _, _⟩ := blockElem_spec r g
  show (blockElem r).2.pos ≤ (blockElem r).2.data.length
  rw [d]; exact gd

theorem select2_ok1 {α : Type} {m1 m2 : RM α} {r r1 : Reader} {a : α} (h : m1 r = (.ok a, r1)) :
    select2 m1 m2 r = (.ok a, r1) := by
  simp only [select2, h]

theorem select2_ok2 {α : Type} {m1 m2 : RM α} {r r1 r2 : Reader} {a : α}
    (h1 : m1 r = (.error .streamError, r1)) (h2 : m2 (r1.seekTo r.pos) = (.ok a, r2)) :
    select2 m1 m2 r = (.ok a, r2) := by
  simp only [select2, h1, h2]

/-- one well-formed block is read back as (tag, payload). -/
theorem blockElem_cont {r : Reader} (g : Good r) {b : V3Block} {s : Bytes} (h : r.rest = encodeBlock b ++ s)
    (wf : b.WF) (hal : (b.padded = true ∨ b.payload.length % 8 = 0) ∨ s = []) :
    ∃ r', blockElem r = (.ok (b.tag, b.payload), r') ∧ Cont r r' s := by
  obtain ⟨w1, w2⟩ := wf
  simp only [encodeBlock, List.append_assoc] at h
  obtain ⟨ra, ea, ca⟩ := readExact_cont h w1
  obtain ⟨sa, _⟩ := linA_readExact 8 r g
  rw [ea] at sa
  dsimp only at sa
  obtain ⟨rp, ep, cp⟩ := prefixedBytes_cont ca.1 (by unfold ssizeLimit; omega)
  obtain ⟨sp, _⟩ := linA_prefixedBytes ra sa.good
  rw [ep] at sp
  dsimp only at sp
  have hpos := cont_pos cp sa.good sp.good sp.mono
  have hlen : ra.rest.length - ((if b.padded = true then zeros (pad8 (8 + b.payload.length)) else []) ++ s).length
      = 8 + b.payload.length := by
    rw [ca.1]; simp only [List.length_append, toLE_length]; omega
  rw [hlen] at hpos
  have hpad : padTo 8 (rp.pos - ra.pos) = pad8 (8 + b.payload.length) := by
    rw [hpos, padTo_eq_pad8]; congr 1; omega
  have hal_ok : ∀ x r2, readExact (pad8 (8 + b.payload.length)) rp = (.ok x, r2) →
      aligned 8 prefixedBytes ra = (.ok b.payload, r2) := by
    intro x r2 hq
    rw [aligned_eq, ep]; dsimp only; rw [hpad, hq]
  have hal_err : ∀ e r2, readExact (pad8 (8 + b.payload.length)) rp = (.error e, r2) →
      aligned 8 prefixedBytes ra = (.error e, r2) := by
    intro e r2 hq
    rw [aligned_eq, ep]; dsimp only; rw [hpad, hq]
  have hsmall : pad8 (8 + b.payload.length) < ssizeLimit := by unfold ssizeLimit pad8; omega
  have finish : ∀ r', select2 (aligned 8 prefixedBytes) prefixedBytes ra = (.ok b.payload, r') →
      blockElem r = (.ok (b.tag, b.payload), r') := by
    intro r' hs
    unfold blockElem
    rw [RM.bind_ok ea, RM.bind_ok hs]; rfl
  by_cases hA : b.padded = true ∨ b.payload.length % 8 = 0
  · -- the aligned alternative succeeds
    have hrest : rp.rest = zeros (pad8 (8 + b.payload.length)) ++ s := by
      rw [cp.1]
      rcases hA with hA | hA
      · simp [hA]
      · have : pad8 (8 + b.payload.length) = 0 := by unfold pad8; omega
        cases hb : b.padded <;> simp [this, zeros]
    obtain ⟨rq, eq, cq⟩ := readExact_cont hrest (by simp [zeros]) hsmall
    refine ⟨rq, finish rq (select2_ok1 (hal_ok _ _ eq)), cq.1, cq.2.trans (cp.2.trans ca.2)⟩
  · -- last block without its padding: the plain alternative
    have hs : s = [] := by rcases hal with h' | h'; exact absurd h' hA; exact h'
    have hnp : b.padded = false := by cases hb : b.padded <;> simp_all
    have hn0 : pad8 (8 + b.payload.length) ≠ 0 := by
      have : ¬ b.payload.length % 8 = 0 := fun e => hA (Or.inr e)
      unfold pad8; omega
    have hrest : rp.rest = [] := by rw [cp.1, hs, hnp]; simp
    have e1 : readExact (pad8 (8 + b.payload.length)) rp =
        (.error .streamError, (rp.read (pad8 (8 + b.payload.length))).2) := by
      rw [readExact_small hsmall]
      have : (rp.read (pad8 (8 + b.payload.length))).1.length ≠ pad8 (8 + b.payload.length) := by
        simp [hrest]; exact fun e => hn0 e.symm
      rw [if_neg this]
    have hal1' : aligned 8 prefixedBytes ra = (.error .streamError, (rp.read (pad8 (8 + b.payload.length))).2) :=
      hal_err _ _ e1
    have hback : ((rp.read (pad8 (8 + b.payload.length))).2.seekTo ra.pos).rest = ra.rest := by
      simp only [Reader.rest, seekTo_data, seekTo_pos, read_data, cp.2]
    have hca : ((rp.read (pad8 (8 + b.payload.length))).2.seekTo ra.pos).rest =
        toLE 8 b.payload.length ++ (b.payload ++ s) := by
      rw [hback, ca.1, hnp, hs]; simp
    obtain ⟨r2, e2, c2⟩ := prefixedBytes_cont hca (by unfold ssizeLimit; omega)
    refine ⟨r2, finish r2 (select2_ok2 hal1' e2), c2.1, ?_⟩
    rw [c2.2, seekTo_data, read_data, cp.2, ca.2]

theorem blockElem_nil {r : Reader} (g : Good r) (h : r.rest.length < 16) :
    ∃ e r', blockElem r = (.error e, r') ∧ e ≠ .hang := by
  obtain ⟨_, _, ok_, er_⟩ := blockElem_spec r g
  cases hb : blockElem r with
  | mk res r1 =>
  rw [hb] at ok_ er_
  cases res with
  | error e => exact ⟨e, r1, rfl, (er_ e rfl).1⟩
  | ok x =>
    obtain ⟨o1, _⟩ := ok_ x rfl
    obtain ⟨_, gd, _, _⟩ := blockElem_spec r g
    rw [hb] at gd
    dsimp only at o1 gd
    rw [rest_length] at h
    omega

theorem greedyBlocks_cont : ∀ (bs : List V3Block) (fuel : Nat) {r : Reader}, Good r →
    r.rest = (bs.map encodeBlock).flatten → (∀ b ∈ bs, b.WF) → blocksAligned bs → bs.length + 1 ≤ fuel →
    ∃ r', greedyRange blockElem fuel r = (.ok (bs.map fun b => (b.tag, b.payload)), r')
  | [], fuel, r, g, h, _, _, hf => by
    obtain ⟨fuel, rfl⟩ : ∃ k, fuel = k + 1 := ⟨fuel - 1, by omega⟩
    obtain ⟨e, r1, he, hne⟩ := blockElem_nil g (by rw [h]; simp)
    refine ⟨r1.seekTo r.pos, ?_⟩
    cases e <;> first | exact absurd rfl hne | simp only [greedyRange, he, List.map_nil]
  | b :: bs, fuel, r, g, h, wf, hal, hf => by
    obtain ⟨fuel, rfl⟩ : ∃ k, fuel = k + 1 := ⟨fuel - 1, by omega⟩
    simp only [List.map_cons, List.flatten_cons] at h
    have hal1 : (b.padded = true ∨ b.payload.length % 8 = 0) ∨ (bs.map encodeBlock).flatten = [] := by
      cases bs with
      | nil => right; rfl
      | cons b' bs' => left; exact hal.1
    have hal2 : blocksAligned bs := by
      cases bs with
      | nil => trivial
      | cons b' bs' => exact hal.2
    obtain ⟨r1, e1, c1⟩ := blockElem_cont g h (wf b (by simp)) hal1
    have g1 : Good r1 := by have := good_of_blockElem g; rw [e1] at this; exact this
    obtain ⟨r2, e2⟩ := greedyBlocks_cont bs fuel g1 c1.1 (fun x hx => wf x (by simp [hx])) hal2 (by simp at hf; omega)
    exact ⟨r2, by simp only [greedyRange, e1, e2, List.map_cons]⟩

end KdVerif

namespace KdVerif
open Reader Spec

theorem blocks_length_ge : ∀ (bs : List V3Block), (∀ b ∈ bs, b.WF) →
    16 * bs.length ≤ ((bs.map encodeBlock).flatten).length
  | [], _ => by simp
  | b :: bs, wf => by
    have := blocks_length_ge bs (fun x hx => wf x (by simp [hx]))
    have hb := (wf b (by simp)).1
    simp only [List.map_cons, List.flatten_cons, List.length_append, List.length_cons, encodeBlock, toLE_length, hb]
    omega

theorem chunks_length_ge : ∀ (cs : List V3Chunk), (∀ c ∈ cs, c.WF) →
    16 * cs.length ≤ ((cs.map (fun c => tagMore ++ encodeChunk c)).flatten).length
  | [], _ => by simp
  | c :: cs, wf => by
    have ih := chunks_length_ge cs (fun x hx => wf x (by simp [hx]))
    have hc : 16 ≤ (tagMore ++ encodeChunk c).length := by
      simp only [encodeChunk, List.length_append, toLE_length]
      have : tagMore.length = 8 := rfl
      have : tagEvents.length = 8 := rfl
      omega
    rw [List.map_cons, List.flatten_cons, List.length_append, List.length_cons]
    omega

/-- the additional-data range behind the last chunk, reached through `seek(-8, 1)`. -/
theorem tail_blocks (bs : List V3Block) (wf : ∀ b ∈ bs, b.WF) (hal : blocksAligned bs) {rl : Reader}
    (g : Good (rl.read 8).2) (h : rl.rest = (bs.map encodeBlock).flatten) :
    ∃ rd, greedyRange blockElem ((((rl.read 8).2.seekTo ((rl.read 8).2.pos - 8)).rest.length) / 16 + 2)
      ((rl.read 8).2.seekTo ((rl.read 8).2.pos - 8)) = (.ok (bs.map fun b => (b.tag, b.payload)), rd) := by
  have gpos : (rl.read 8).2.pos ≤ rl.data.length := g
  rw [read_pos] at gpos
  cases bs with
  | nil =>
    simp only [List.map_nil, List.flatten_nil] at h
    have hlen : rl.data.length ≤ rl.pos := by
      have := congrArg List.length h
      simp only [Reader.rest, List.length_drop, List.length_nil] at this
      omega
    have g1 : Good ((rl.read 8).2.seekTo ((rl.read 8).2.pos - 8)) := by
      show (rl.read 8).2.pos - 8 ≤ rl.data.length
      rw [read_pos]; omega
    have hshort : ((rl.read 8).2.seekTo ((rl.read 8).2.pos - 8)).rest.length < 16 := by
      rw [rest_length]
      simp only [seekTo_data, seekTo_pos, read_data, read_pos, h, List.length_nil]
      omega
    obtain ⟨e, r1, he, hne⟩ := blockElem_nil g1 hshort
    refine ⟨r1.seekTo ((rl.read 8).2.seekTo ((rl.read 8).2.pos - 8)).pos, ?_⟩
    have : ((rl.read 8).2.seekTo ((rl.read 8).2.pos - 8)).rest.length / 16 + 2 = 1 + 1 := by omega
    rw [this]
    cases e <;> first | exact absurd rfl hne | simp only [greedyRange, he, List.map_nil]
  | cons b bs' =>
    have hge := blocks_length_ge (b :: bs') wf
    rw [← h] at hge
    simp only [List.length_cons] at hge
    have hp : (rl.read 8).2.pos - 8 = rl.pos := by rw [read_pos]; omega
    have hrest : ((rl.read 8).2.seekTo ((rl.read 8).2.pos - 8)).rest = rl.rest := by
      simp only [Reader.rest, seekTo_data, seekTo_pos, read_data, hp]
    have g1 : Good ((rl.read 8).2.seekTo ((rl.read 8).2.pos - 8)) := by
      show (rl.read 8).2.pos - 8 ≤ rl.data.length
      rw [hp]; rw [rest_length] at hge; omega
    apply greedyBlocks_cont (b :: bs') _ g1 (by rw [hrest, h]) wf hal
    rw [hrest]; simp only [List.length_cons]; omega

/-- the reader's steps on an encoded file, one by one: magic, header, thread-map chunk, and the whole run. -/
theorem parse_encodeV3_steps {ε : Type} (plist : Bytes → Option PView) (dec : Bytes → Except PyErr ε) (spec : Bytes → ε)
    (hdec : RejectsShort dec) (prior : PState) (f : V3File) (wf : f.WF) (hcpu : plist f.cpu ≠ none)
    (hd : ∀ x ∈ f.recs, dec x = .ok (spec x)) :
    ∃ r2 r3 rd,
      ((Reader.ofBytes (encodeV3 f)).read Gen.Consts.RAW_VERSION_SIZE).1 = Gen.Consts.RAW_VERSION3_BYTES ∧
      headerV3 plist ((Reader.ofBytes (encodeV3 f)).read Gen.Consts.RAW_VERSION_SIZE).2 = (.ok (f.hdr, f.cpu), r2) ∧
      threadmapV3 r2 = (.ok (f.threads.map toEntry), r3) ∧
      parseV3 plist dec prior ((Reader.ofBytes (encodeV3 f)).read Gen.Consts.RAW_VERSION_SIZE).2 =
        tailOfBlocks plist (f.recs.map spec) (setThreadMap prior.tables (f.threads.map toEntry))
          { prior.md with header := some (f.hdr, f.cpu) } (f.blocks.map fun b => (b.tag, b.payload)) rd := by
  obtain ⟨w1, w2, w3, w4, w5, w6, w7, w8, w9, w10, w11, w12, w13⟩ := wf
  -- magic
  have h0 : (Reader.ofBytes (encodeV3 f)).rest = v3Magic ++ (encodeFields v3FieldSizes f.hdr ++ (toLE 8 f.cpu.length ++
      (f.cpu ++ (zeros (pad8 (68 + f.cpu.length)) ++ (f.four ++ (f.filler ++ (tagStackshotEnd ++ (f.gap1 ++
      (tagThreadmap ++ (toLE 8 (threadmapBytes f).length ++ (threadmapBytes f ++ (encodeChunk f.first ++
      ((f.more.map (fun c => tagMore ++ encodeChunk c)).flatten ++ (f.blocks.map encodeBlock).flatten))))))))))))) := by
    have hsz : Spec.v3FieldSizes = KdVerif.v3FieldSizes := rfl
    simp [Reader.rest, Reader.ofBytes, encodeV3, hsz]
  obtain ⟨hm, cm⟩ := read_cont h0
  have g0 : Good (Reader.ofBytes (encodeV3 f)) := Nat.zero_le _
  have s0 := step_read (Reader.ofBytes (encodeV3 f)) v3Magic.length g0
  -- header
  obtain ⟨r2, e2, c2, g2⟩ := headerV3_cont plist s0.good cm.1 w1 w2 w3 hcpu
  -- thread map
  obtain ⟨r3, e3, c3⟩ := threadmapV3_cont (ts := f.threads) (trail := f.tmTrail) c2.1 w4 w5 w6 w7 w8 w9
  obtain ⟨s3, _⟩ := linA_threadmapV3 r2 g2
  rw [e3] at s3
  dsimp only at s3
  -- chunks
  have htail : ((f.blocks.map encodeBlock).flatten).take 8 ≠ tagMore := by
    cases hb : f.blocks with
    | nil => simp [tagMore]
    | cons b bs =>
      have hbw := (w11 b (by simp [hb])).1
      simp only [List.map_cons, List.flatten_cons, encodeBlock, List.append_assoc]
      rw [List.take_left' hbw]
      exact w13 b (by simp [hb])
  have hfuel : f.more.length + 1 ≤ r3.rest.length / 16 + 2 := by
    have := chunks_length_ge f.more (fun c hc => w10 c (by simp [hc]))
    rw [c3.1]
    simp only [List.length_append]
    omega
  obtain ⟨rl, j1, j2, j3, j4, j5⟩ := chunkLoop_cont dec spec f.more f.first (r3.rest.length / 16 + 2) c3.1 w10
    (fun x hx y hy => hd y (by simp only [V3File.recs, List.mem_flatMap]; exact ⟨x, hx, hy⟩)) htail hfuel
  obtain ⟨s4, _⟩ := chunkLoop_spec dec hdec (r3.rest.length / 16 + 2) r3 s3.good
  rw [j3] at s4
  obtain ⟨rd, egr⟩ := tail_blocks f.blocks w11 w12 s4.good j4
  have hmagic : ((Reader.ofBytes (encodeV3 f)).read Gen.Consts.RAW_VERSION_SIZE).1 = Gen.Consts.RAW_VERSION3_BYTES := by
    rw [tags_eq.2.2.2.2]; exact hm
  have e2' : headerV3 plist ((Reader.ofBytes (encodeV3 f)).read Gen.Consts.RAW_VERSION_SIZE).2 = (.ok (f.hdr, f.cpu), r2) := e2
  refine ⟨r2, r3, rd, hmagic, e2', e3, ?_⟩
  unfold parseV3
  rw [e2']
  dsimp only
  rw [e3]
  dsimp only
  rw [j2]
  dsimp only
  rw [j3, j1]
  unfold tailV3
  dsimp only
  rw [egr]
  simp only [V3File.recs, List.map_flatMap]

theorem parse_encodeV3 {ε : Type} (plist : Bytes → Option PView) (dec : Bytes → Except PyErr ε) (spec : Bytes → ε)
    (hdec : RejectsShort dec) (prior : PState) (f : V3File) (wf : f.WF) (hcpu : plist f.cpu ≠ none)
    (hd : ∀ x ∈ f.recs, dec x = .ok (spec x)) :
    ∃ rd, parse plist dec prior (encodeV3 f) =
      tailOfBlocks plist (f.recs.map spec) (setThreadMap prior.tables (f.threads.map toEntry))
        { prior.md with header := some (f.hdr, f.cpu) } (f.blocks.map fun b => (b.tag, b.payload)) rd := by
  obtain ⟨r2, r3, rd, hmagic, _, _, h⟩ := parse_encodeV3_steps plist dec spec hdec prior f wf hcpu hd
  refine ⟨rd, ?_⟩
  have hnot2 : ¬ Gen.Consts.RAW_VERSION3_BYTES = Gen.Consts.RAW_VERSION2_BYTES := by decide
  unfold parse
  simp only [hmagic, hnot2, if_false, if_true]
  exact h

end KdVerif
