import KdVerif.Model.Trace
import KdVerif.Model.IRTyping
/-
  C07: what "an individually well-formed event" means, as executable predicates (the driver evaluates
  them: command `indomain`; the theorems of Props/C07 take them as hypotheses).

  * `wordsOK env e` — the record has four argument words and 32 data bytes (C01) and every *own-field side condition* of the
    decoder registered for its code holds on the record: enum-valued words are members, the ioctl
    direction bits are a key of the table, `chr()` arguments are code points, host-enum words are known
    to the host.  The conditions are those the IR checker collects (`IR.checkDecoder`), evaluated on the
    record alone (`ownWindow`: no lookups, empty context tables) in the role(s) the record can play:
    START conditions unless the record is END-qualified, END conditions unless it is START-qualified.
    For the hand-modelled `MACH_vmfault`: the fault-type word of its END record (only when the result word
    is 0); a `RealFaultAddress*` record must satisfy its decoder's START conditions whatever its qualifier,
    because `handle_mach_vmfault` hands nested records to that decoder as `events[0]`.
  * `textOK env w` — the byte strings the handler of window `w` reassembles and decodes are valid text
    (`Env.dec` succeeds on them).
  * `payloadOK env B e` — per record: the text bytes of a string-carrying record lie in the alphabet `B`.
-/
namespace KdVerif.Trace
open KdVerif.IR

/-- The record seen as a window of its own: its words both as START and as END words, no lookups, no context. -/
def ownWindow (e : Kevent) : Window :=
  { startArgs := e.values, endArgs := e.values, startTid := e.tid, startData := e.data }

def faultTypeOK (env : Env) (x : Nat) : Bool := (enumNameOfValue env "DbgVmFaultType" x).isSome

/-- Own-field conditions of the generated decoder `d` on record `e`, by role. -/
def decoderWordsOK (env : Env) (d : Decoder) (e : Kevent) : Bool :=
  (e.qual == 2 || condsHoldAs .start env.host env.tables d (ownWindow e)) &&
  (e.qual == 1 || condsHoldAs .end_ env.host env.tables d (ownWindow e))

def wordsOKFor (env : Env) (name : String) (e : Kevent) : Bool :=
  if name == "MACH_vmfault" then e.qual == 1 || arg e 2 != 0 || faultTypeOK env (arg e 3)
  else if handNames.contains name then true
  else
    match findDecoder env name with
    | some d => !d.supported || (decoderWordsOK env d e &&
        -- a real-fault record nested in a page-fault window is handed to its decoder as `events[0]` whatever
        -- its qualifier is (`handle_mach_vmfault` -> `parse_event_list(real_events)`)
        (!(realFaultClasses.contains name) || condsHoldAs .start env.host env.tables d (ownWindow e)))
    | none => true

def wordsOK (env : Env) (e : Kevent) : Bool :=
  e.values.length == 4 && e.data.length == 32 &&
  match env.codes e.eventid with
  | none => true
  | some name => wordsOKFor env name e

def decOK (env : Env) (bs : Bytes) : Bool :=
  match env.dec bs with
  | .ok _ => true
  | .error _ => false

def lookupsOK (env : Env) (w : List Kevent) : Bool :=
  match parseVnodes env w with
  | .ok _ => true
  | .error _ => false

def singleStringNames : List String := ["TRACE_STRING_NEWTHREAD", "TRACE_STRING_EXEC", "TRACE_STRING_PROC_EXIT"]
def threadnameNames : List String := ["TRACE_STRING_THREADNAME", "TRACE_STRING_THREADNAME_PREV"]

def textOKFor (env : Env) (name : String) (w : List Kevent) : Bool :=
  if name == "TRACE_STRING_GLOBAL" then
    !hasStart (firstOf w) || decOK env (stripNul (globalLoop (firstOf w).eventid w 0 0 [] []).2.2.1)
  else if singleStringNames.contains name then decOK env (stripNul (firstOf w).data)
  else if threadnameNames.contains name then !hasStart (firstOf w) || decOK env (stripNul (joinData w))
  else if name == "VFS_LOOKUP" then !hasStart (firstOf w) || lookupsOK env w
  else if handNames.contains name then true
  else match findDecoder env name with
    | some d => !usesLookups d || lookupsOK env w
    | none => true

/-- Every byte string the handler of window `w` decodes is valid text. -/
def textOK (env : Env) (w : List Kevent) : Bool :=
  match env.codes (firstOf w).eventid with
  | none => true
  | some name => textOKFor env name w

/-- The text bytes a string-carrying record contributes (`[]` for every other record). -/
def payload (env : Env) (e : Kevent) : Bytes :=
  match env.codes e.eventid with
  | none => []
  | some name =>
    if name == "VFS_LOOKUP" then (if hasStart e then e.data.drop 8 else e.data)
    else if name == "TRACE_STRING_GLOBAL" then (if hasStart e then e.data.drop 16 else e.data)
    else if singleStringNames.contains name || threadnameNames.contains name then e.data
    else []

def payloadOK (env : Env) (B : Nat → Bool) (e : Kevent) : Bool := (payload env e).all B

/-- `MACH_vmfault` hands its nested records with ids 0x1320008..0x1320014 to `parse_event_list` and reads
    `.pid` / `.caller_prot` of the answer: under a code table that names such an id after a handler of
    another kind this raises AttributeError (the bundled `trace.codes` does not). -/
def vmfaultIdOK (env : Env) (eid : Nat) : Bool :=
  match env.codes eid with
  | none => true
  | some n => realFaultClasses.contains n || !isHandled env n

/-- Shape of a `RealFaultAddress*` decoder that `handle_mach_vmfault` relies on (kernel-checked on the generated
    table, `C07.realFault_decoders_shaped`): the dataclass is one of the three, field 5 (`pid`) is an int, field 2
    (`caller_prot`) a member list, no lookup is read, and every side condition reads the START record. -/
def rfShapeOK (d : Decoder) : Bool :=
  realFaultClasses.contains d.cls && !usesLookups d &&
  match checkDecoder d with
  | some k => (k.fieldTys[5]? == some .nat || k.fieldTys[5]? == some .int) && k.fieldTys[2]? == some .members
      && k.conds.all (·.within startSel)
  | none => false

def vmfaultCodesOK (env : Env) : Bool := (List.range' 0x1320008 13).all (vmfaultIdOK env)

end KdVerif.Trace
