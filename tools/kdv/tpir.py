"""Translation tie of `TracesParser.feed_generator` and `TracesParser.__init__` (traces_parser.py -> Gen/PyIR.feedGenerator /
Gen/PyIR.init, tools/gen_pyir.py; IR and interpreter in Model/PyIRTp), shared by C04 (generator wrapper, fresh object) and C17
(handler registry).  Three sections, each with a code-only oracle that states the demand directly on the real objects:

  feed-generator-ir   the GENERATED feed_generator through the interpreter (`pyirgen`) against the real
                      TracesParser.feed_generator on pairing histories: a prefix of the records fed one by one first (so the
                      generator starts from an arbitrary state), the rest through the generator, which may end with an
                      exception of its own; one case in eight with handlers that return a FALSY trace object
  init-ir             the object the GENERATED __init__ builds (`pyirinit`: every attribute = the caller's k-th argument
                      itself / the n-th new empty dict) against a real TracesParser(codes, tp, pn)
  registry-ir         the registry the GENERATED __init__ merges (families in the order written, over the real family dicts)
                      against the real TracesParser(...).handlers: same names, and handlers[name] is <family>_handlers[name]
"""
import importlib
import json
import zlib

from . import core
from . import pairing as P

FAMILIES = ['bsd', 'dyld', 'fsystem', 'mach', 'perf', 'trace', 'turnstile']
# Model/PyIRTp.IAttr, in the order of the normal form
ATTRS = ['trace_codes', 'on_going_events', 'on_going_traces', 'global_strings', 'threads_pids', 'pids_names', 'tids_names',
         'last_data_newthread', 'last_data_exec', 'handlers']
ARG_ATTRS = {'trace_codes': 0, 'threads_pids': 1, 'pids_names': 2}
GEN_ERRORS = {'EOF': EOFError, 'ValueError': ValueError, 'KeyError': KeyError}

TRUSTED = ('TracesParser.feed_generator and TracesParser.__init__ are tied to the SOURCE TEXT by translation: tools/gen_pyir.py '
           '(pure ast) turns `for event in generator: ret = self.feed(event); if ret is not None: yield ret` into the generator '
           'subset of Model/PyIRTp and the constructor into (attribute, parameter k | {}) pairs SORTED by attribute (independent '
           'initialisers: their order is not part of the term; dict() = {}) plus the ORDERED list of families merged by '
           'self.handlers.update(<family>_handlers) (each name checked to be bound by `from pykdebugparser.trace_handlers.<family> '
           'import handlers as <name>`); source_is_expected_ir covers both terms; feed_generator_ir_eq_model: for every event '
           'list, generator exception and heap the interpreted generator IS Pipeline.feedGen over the interpreted feed; '
           'init_ir_eq_model: the interpreted __init__ yields the state the hand models start from (two distinct empty window '
           'tables = PyIR.World.empty / Pairing.PState.empty, four more distinct empty tables, the caller\'s trace_codes / '
           'threads_pids / pids_names THEMSELVES); registry_ir_eq_model (C17): the merged registry is the reflected decoder table, '
           'independent of the order of the updates because no two families share a name.  Trusted: the translator and the '
           'interpreter Model/PyIRTp as semantics of that subset (tested against CPython by the sections feed-generator-ir, '
           'init-ir, registry-ir)')


def check_parts():
    """`pyircheck` -> (answer, set of parts that differ)"""
    ans = core.drive(['pyircheck'])[0]
    if ans == 'same':
        return ans, set()
    parts = ans.split(' ')[1].split(',') if ' ' in ans else []
    return ans, set(parts)


# ---------------------------------------------------------------------------------------------------------------------
# feed_generator
# ---------------------------------------------------------------------------------------------------------------------

class FalsyRec(P.Rec):
    """A trace object that is not None but false (`bool(trace)` is False): feed_generator tests `is not None`."""

    def __bool__(self):
        return False


def variant(case):
    """prefeed / generator exception / falsy handlers, derived from the case itself (the seeded stream of histories is not
    touched)"""
    if 'gen' in case:                   # frozen (a case that is being shrunk): the generator starts at the record stamped `from_ts`
        g = dict(case['gen'])
        if 'from_ts' in g:
            g['prefeed'] = sum(1 for e in case['events'] if e[0] < g['from_ts'])
        return g
    h = zlib.crc32(json.dumps(case['events']).encode())
    n = len(case['events'])
    pre = 0 if h % 3 else (h // 7) % (n + 1)
    err = [None, None, None, 'EOF', 'ValueError', 'KeyError'][(h // 11) % 6]
    return {'prefeed': pre, 'err': err, 'falsy': (h // 13) % 8 == 0}


def freeze(case):
    """the case with its variant written out, so that dropping records does not change it"""
    v = dict(variant(case))
    evs = case['events']
    v['from_ts'] = evs[v['prefeed']][0] if v['prefeed'] < len(evs) else (evs[-1][0] + 1 if evs else 0)
    return dict(case, gen=v)


def stub_parser(case, falsy):
    parser = P.stub_parser(case)
    if falsy:
        def mk(name):
            return lambda p, events: FalsyRec(name, events)
        parser.handlers = {n: mk(n) for n in parser.handlers}
    return parser


def show_tbl(t):
    rows = sorted((tid, eid, evs) for tid, inner in t.items() for eid, evs in inner.items())
    return '/'.join('%d.%d=%s' % (tid, eid, P.ts_list(evs)) for tid, eid, evs in rows) or '-'


def line_gen(case):
    """`pyirgen <codes> <err|-> <k> <records>`; codes as in `pyir`: `eid:name number:in trace_handlers:has handler`"""
    v = variant(case)
    tn = set(P.trace_domain_names())
    num = {n: i + 1 for i, n in enumerate(sorted({c[1] for c in case['codes'] if c[1] is not None}))}
    ents = ['%d:%d:%d:%d' % (c[0], num[c[1]], c[1] in tn, bool(c[2])) for c in case['codes'] if c[1] is not None]
    return ' '.join(['pyirgen', ','.join(ents) or '-', v['err'] or '-', str(v['prefeed'])]
                    + [P.rec_hex(e) for e in case['events']])


def impl_gen(case):
    v = variant(case)
    parser = stub_parser(case, v['falsy'])
    evs = P.kevents(case)
    k = v['prefeed']
    try:
        for e in evs[:k]:
            parser.feed(e)
    except Exception as e:
        return 'err %s before' % core.err_name(e)

    def source():
        for e in evs[k:]:
            yield e
        if v['err']:
            raise GEN_ERRORS[v['err']]('the event generator ends with an exception of its own')
    out = []
    try:
        for r in parser.feed_generator(source()):
            out.append(P.ts_list(r.ktraces))
    except Exception as e:
        return 'err %s after %s' % (core.err_name(e), ';'.join(out) or '-')
    return 'ok %s %s %s' % (';'.join(out) or '-', show_tbl(parser.on_going_events), show_tbl(parser.on_going_traces))


def oracle_gen(case, got):
    """Declarative: the generator yields, in order, the windows the history delivers at the records fed THROUGH it (those
    whose first code is decodable), raises exactly the event generator's own exception after all of them, and leaves
    exactly the open windows of the whole history in the two tables."""
    v = variant(case)
    spec = P.Spec(case)
    exp = [x for x in spec.expected_per_event()[v['prefeed']:] if x != '-' and not x.endswith('*')]
    want_y = ';'.join(exp) or '-'
    if v['err']:
        want = 'err %s after %s' % (v['err'], want_y)
        if got != want:
            return ('feed-generator:stream' + (':falsy-trace-dropped' if v['falsy'] else ''),
                    'feed_generator over %d records (after %d fed one by one) whose source ends with %s: expected %r, got %r'
                    % (len(case['events']) - v['prefeed'], v['prefeed'], v['err'], P.brief(want), P.brief(got)))
        return None
    n = len(spec.h)
    keys = sorted({spec.key(x) for x in spec.h if spec.open_at(spec.h, spec.key(x))})
    tabs = {False: [], True: []}
    for k in keys:
        tabs[k[0]].append('%d.%d=%s' % (k[1], k[2], ','.join(str(x[0]) for x in spec.win(k, n))))
    # a thread that once had an open code keeps an (empty) inner dict: not visible in this rendering
    want = 'ok %s %s %s' % (want_y, '/'.join(sorted(tabs[False], key=_row_key)) or '-',
                            '/'.join(sorted(tabs[True], key=_row_key)) or '-')
    if got != want:
        gy = got.split(' ')[1] if got.startswith('ok ') and len(got.split(' ')) > 1 else None
        if gy is not None and gy != want_y:
            sig = 'feed-generator:stream' + (':falsy-trace-dropped' if v['falsy'] else '')
        elif gy is not None:
            sig = 'feed-generator:final-tables'
        else:
            sig = 'feed-generator:raises'
        return (sig, 'feed_generator over %d records (after %d fed one by one): expected %r, got %r'
                % (len(case['events']) - v['prefeed'], v['prefeed'], P.brief(want), P.brief(got)))
    return None


def _row_key(row):
    a, _ = row.split('=')
    t, e = a.split('.')
    return (int(t), int(e))


RULE_GEN = ('the cases of `pairing-pregate`: the first k records (k = 0 in two cases of three) fed one by one through feed(), '
            'the others through feed_generator() as a generator that, in half of the cases, ends with an exception of its own '
            '(EOFError / ValueError / KeyError); one case in eight with handlers whose trace object is false but not None; real '
            'TracesParser.feed_generator (recording stub handlers) against the GENERATED feed_generator run by the interpreter '
            'of Model/PyIRTp over the generated feed (`pyirgen`): windows yielded in order, exception, the two window tables '
            'afterwards; oracle: the declarative specification (windows delivered at the records behind k whose first code is '
            'decodable; open windows of the whole history)')


def feed_generator_section(rep, cases, runnable):
    nontriv = lambda c, got: got.startswith('ok') and got.split(' ')[1] != '-'  # noqa: E731
    kind = lambda c, got: ('pre' if variant(c)['prefeed'] else 'whole') + ('-' + variant(c)['err'] if variant(c)['err'] else '') \
        + ('-falsy' if variant(c)['falsy'] else '')  # noqa: E731
    if runnable:
        core.run_section(rep, 'feed-generator-ir', cases, line_fn=line_gen, impl_fn=impl_gen, oracle_fn=oracle_gen,
                         nontrivial_fn=nontriv, kind_fn=kind, skip_fn=lambda m: m == 'unsupported', rule=RULE_GEN)
    else:
        core.run_code_section(rep, 'feed-generator-ir', cases,
                              oracle_fn=lambda c: oracle_gen(c, _safe(impl_gen, c)), rule=RULE_GEN + ' (code only: the '
                              'translation of feed_generator left the subset)', kind_fn=lambda c: kind(c, ''))


def _safe(fn, c):
    try:
        return fn(c)
    except Exception as e:
        return 'err ' + core.err_name(e)


def replay_gen(case):
    got = _safe(impl_gen, case)
    print('variant (records fed one by one first / exception of the event generator / falsy trace objects):', variant(case))
    print('impl :', got)
    try:
        print('model:', core.drive([line_gen(case)])[0])
    except core.Infra as e:
        print('model: <driver unavailable: %s>' % e)
    return oracle_gen(case, got)


# ---------------------------------------------------------------------------------------------------------------------
# __init__: the fresh object
# ---------------------------------------------------------------------------------------------------------------------

def family_dicts():
    return {f: importlib.import_module('pykdebugparser.trace_handlers.' + f).handlers for f in FAMILIES}


def describe_object(parser, args):
    """The real object in the words of `pyirinit`: every attribute = arg<k> (IS the k-th argument) / new<n> (an empty dict
    that is no argument; numbered in the order of ATTRS, one number per object) / unbound / other."""
    seen = []
    out = {}
    for a in ATTRS:
        if not hasattr(parser, a):
            out[a] = 'unbound'
            continue
        v = getattr(parser, a)
        hit = [k for k, x in enumerate(args) if x is v]
        if hit:
            out[a] = 'arg%d' % hit[0]
            continue
        if isinstance(v, dict) and (a == 'handlers' or not v):
            n = next((i for i, x in enumerate(seen) if x is v), None)
            if n is None:
                n = len(seen)
                seen.append(v)
            out[a] = 'new%d' % n
        else:
            out[a] = 'other'
    return ','.join('%s=%s' % (a, out[a]) for a in sorted(out))


def family_sequence(parser, fams):
    """The order in which the families reached `parser.handlers`, read off the insertion order of its keys (a key goes to the
    family whose dict holds this very function object under this name); `?name` for an entry no family explains."""
    seq = []
    for name, fn in parser.handlers.items():
        owner = [f for f in FAMILIES if name in fams[f] and fams[f][name] is fn]
        tag = owner[-1] if owner else '?' + name
        if not seq or seq[-1] != tag:
            seq.append(tag)
    return ','.join(seq) or '-'


def fresh_object(tp=None):
    from pykdebugparser.trace_codes import default_trace_codes
    from pykdebugparser.traces_parser import TracesParser
    codes, tp, pn = dict(default_trace_codes()), ({7: 70} if tp is None else tp), {70: 'seventy'}
    return TracesParser(codes, tp, pn), (codes, tp, pn)


def impl_init(case):
    parser, args = fresh_object()
    return 'ok %s %s' % (describe_object(parser, args), family_sequence(parser, family_dicts()))


def oracle_init(case, got):
    """Directly on a real object: the three arguments are kept BY REFERENCE (a write through the caller's table is seen through
    the parser and back), the six other tables are six different empty dicts."""
    from pykdebugparser.kevent import from_kd_buf
    from .impl import record_args
    if not got.startswith('ok'):
        return ('init:raises', 'TracesParser(codes, threads_pids, pids_names) failed: ' + got)
    parser, (codes, tp, pn) = fresh_object()
    for a, x in (('trace_codes', codes), ('threads_pids', tp), ('pids_names', pn)):
        if getattr(parser, a, None) is not x:
            # what the caller loses: the thread map the container parser fills in AFTER construction never reaches the decoders
            tp[4242] = 77
            seen = getattr(parser, a, {}).get(4242) if a == 'threads_pids' else None
            return ('init:%s-not-shared' % a, 'parser.%s is not the object the caller passed%s' % (
                a, ': after `threads_pids[4242] = 77` on the caller\'s table (what set_thread_map does once the first record is '
                'read) parser.threads_pids.get(4242) is %r' % seen if a == 'threads_pids' else ''))
    own = [a for a in ATTRS if a not in ARG_ATTRS and a != 'handlers']
    for a in own:
        v = getattr(parser, a, None)
        if not isinstance(v, dict) or v:
            return ('init:%s-not-empty-dict' % a, 'parser.%s is %r after construction' % (a, v))
    for i, a in enumerate(own):
        for b in own[i + 1:] + ['handlers', 'trace_codes', 'threads_pids', 'pids_names']:
            if getattr(parser, a) is getattr(parser, b, None):
                # one table for both: show it on a record
                return ('init:%s-is-%s' % (a, b), 'parser.%s and parser.%s are ONE dict object' % (a, b))
    # (an attribute the model does not know is not a failure by itself: the translator reports it as a note, which breaks
    #  source_is_expected_ir; what it is USED for shows in the other sections)
    # a declaration made through the parser reaches the caller's table: a TRACE_DATA_NEWTHREAD record
    inv = {v: k for k, v in codes.items()}
    eid = inv.get('TRACE_DATA_NEWTHREAD')
    if eid is not None:
        try:
            parser.feed(from_kd_buf(record_args(5, [0x5151, 0x99, 0, 0], 7, eid)))
        except Exception as e:
            return ('init:raises', 'feeding a TRACE_DATA_NEWTHREAD record to a fresh parser raised ' + core.err_name(e))
        if tp.get(0x5151) != 0x99:
            return ('init:threads_pids-not-shared', 'a TRACE_DATA_NEWTHREAD record (thread 0x5151 of process 0x99) fed to the '
                    'parser does not show in the table the caller passed: %r' % tp)
    return None


RULE_INIT = ('a real TracesParser(dict(default_trace_codes()), {7: 70}, {70: "seventy"}) described attribute by attribute '
             '(IS the k-th argument / the n-th new empty dict / unbound) and the order in which the families reached '
             'parser.handlers (insertion order of its keys), against the object the GENERATED __init__ builds (`pyirinit 3`); '
             'oracle on the real object: the three arguments kept by reference (a later write to the caller\'s table is seen, a '
             'TRACE_DATA_NEWTHREAD record fed to the parser shows in the caller\'s table), six different empty dicts')


def init_section(rep, runnable=True):
    cases = [{'nargs': 3}]
    if runnable:
        core.run_section(rep, 'init-ir', cases, line_fn=lambda c: 'pyirinit %d' % c['nargs'], impl_fn=impl_init,
                         oracle_fn=oracle_init, skip_fn=lambda m: m == 'unsupported', rule=RULE_INIT)
    else:
        core.run_code_section(rep, 'init-ir', cases, oracle_fn=lambda c: oracle_init(c, _safe(impl_init, c)), rule=RULE_INIT)


# ---------------------------------------------------------------------------------------------------------------------
# the registry (C17)
# ---------------------------------------------------------------------------------------------------------------------

RULE_REGISTRY = ('the registry the GENERATED __init__ yields — the real family dicts merged in the order of its update list '
                 '(`pyirinit 3`) — against TracesParser(...).handlers of a real object: the same names, and for every name '
                 'handlers[name] IS <family>_handlers[name] of the family that wins in the generated order; oracle on the real '
                 'object alone: every name of every family is registered with that family\'s own function object, nothing else '
                 'is registered')


def generated_updates():
    ans = core.drive(['pyirinit 3'])[0]
    if not ans.startswith('ok '):
        return None, ans
    fams = ans.split(' ')[2]
    return ([] if fams == '-' else fams.split(',')), ans


def registry_section(rep):
    from pykdebugparser.traces_parser import TracesParser
    sec = rep.section('registry-ir')
    sec['rule'] = RULE_REGISTRY
    fams = family_dicts()
    try:
        real = TracesParser({}, {}, {}).handlers
    except Exception as e:
        rep.add_failure('registry:raises', 'TracesParser({}, {}, {}) raised ' + core.err_name(e), {'section': 'registry-ir'})
        return
    updates, ans = generated_updates()
    if updates is None:
        sec['dist']['generated-init'] = ans
    else:
        want = {}
        for f in updates:
            if f in fams:
                want.update((n, (f, fn)) for n, fn in fams[f].items())
        diffs = [n for n in sorted(set(want) | set(real)) if n not in real or n not in want or real[n] is not want[n][1]]
        sec['cases'] += len(set(want) | set(real))
        sec['distinct_nontrivial'] += len(set(want) | set(real)) - len(diffs)
        sec['dist'] = {'families merged, in order': ','.join(updates), 'names': len(want)}
        if diffs:
            sec['mismatches'] += len(diffs)
            rep.broken.append('correspondence:registry-ir (%d names differ between the registry of the generated __init__ and '
                              'TracesParser(...).handlers, first: %s)' % (len(diffs), diffs[:5]))
            if len(rep.first_diffs) < 10:
                n = diffs[0]
                rep.first_diffs.append({'section': 'registry-ir', 'line': 'pyirinit 3', 'model': '%s from %s' % (
                    n, want[n][0] if n in want else 'no family'), 'impl': 'registered' if n in real else 'not registered'})
    # code-only oracle
    for r in registry_oracle(real, fams):
        rep.add_failure(*r)


def registry_oracle(real, fams):
    out = []
    owner = {}
    for f in FAMILIES:
        for n in fams[f]:
            owner.setdefault(n, []).append(f)
    for n in sorted(owner):
        fs = owner[n]
        if n not in real:
            out.append(('registry:family-entry-not-registered:' + n,
                        'decoder %s of trace_handlers.%s is not in TracesParser(...).handlers: its records are never decoded'
                        % (n, fs[0]), {'section': 'registry-ir', 'name': n, 'family': fs[0]}))
        elif not any(real[n] is fams[f][n] for f in fs):
            out.append(('registry:foreign-function:' + n, 'handlers[%r] is not the function object of %s'
                        % (n, ' / '.join('trace_handlers.' + f for f in fs)),
                        {'section': 'registry-ir', 'name': n, 'family': fs[0]}))
        if len(out) >= 5:
            break
    for n in sorted(set(real) - set(owner))[:3]:
        out.append(('registry:unknown-entry:' + n, 'TracesParser(...).handlers registers %s, which no family module defines' % n,
                    {'section': 'registry-ir', 'name': n}))
    return out


def replay_registry(rp):
    from pykdebugparser.traces_parser import TracesParser
    fams = family_dicts()
    real = TracesParser({}, {}, {}).handlers
    res = registry_oracle(real, fams)
    print('families merged by the generated __init__:', generated_updates()[1])
    print('names per family:', {f: len(fams[f]) for f in FAMILIES}, ' registered:', len(real))
    mine = [r for r in res if r[2].get('name') == rp.get('name')] or res
    return mine[0][:2] if mine else None
