import KdVerif.Model.ContainerV3
/-
  The Python subset of the READER code of `pykdebugparser/kd_buf_parser.py` as a deep embedding with a big-step
  interpreter — the companion of `Model/PyIR` (pairing, C04) and `Model/PyIRCs` (callstacks, C15) for the
  container readers (C02, C03, C06):

    * `seek_until(reader, data)`                                   (a procedure with one bytes parameter)
    * `KdBufParser.parse_v2`                                        (whole generator)
    * `KdBufParser.parse_v3`                                        (whole generator: header, both scans, thread map,
                                                                     chunk loop, `reader.seek(-8, 1)`, the additional-data
                                                                     blocks with their if/elif dispatch, the log loop)
    * `KdBufParser.set_thread_map`                                  (`SetTm`)
    * `KdBufParser.parse` + the `self.versions` dict display        (`Dispatch`)

  `tools/gen_pyir_rd.py` translates the source text into terms of this IR (`Gen/PyIRRd.lean`) on every run;
  `Props/C02|C03|C06` prove that the translated code, run by this interpreter, IS `seekUntil` / `parseV2` /
  `parseV3` / `setThreadMap` / the dispatch of `parse` of the hand model — for every byte string.

  The reader is the model's positional `Reader` (with its read counters, so the interpreted source makes the SAME
  read calls as the model).  The `construct` parsers (`kd_header_v2.parse_stream`, `Int64ul.parse_stream`, …) are
  PRIMITIVES whose meaning is the existing model function (`headerV2`, `int64ul`, …: tied to the library by the
  correspondence sections); `kd_v3_additional_data.parse_stream` is the primitive `greedyRange blockElem …` exactly as
  the model's `tailV3` uses it.  `from_kd_buf` is the parameter `dec`, `plistlib.loads` the parameter `plist` (a loaded
  plist is carried as its payload and the `PView` of it: what the container parser looks at),
  `OsLogEvent.from_raw_log_event` the model's `fromRawLog`.  A `while` loop gets `unread bytes + 2`
  iterations of fuel at its entry: every loop of this code consumes at least one byte per iteration that goes on, a
  loop that does not is reported as `.hang` (that is what the pre-fix `seek_until` did at end of file).
  Outside the modelled behaviour: `.error .unmodelled`.  Core Lean only.
-/
namespace KdVerif.PyIRRd
open Gen.Consts

/-- module-level bytes constants of kd_buf_parser.py (values: `Gen/Consts`, reflected on every run) -/
inductive BConst
  | v2 | v3 | stackshotEnd | threadmapTag | eventsTag | moreEvents
  | dyldModules | traceCodes | processes | kernelExtensions | images | logEvents | logStrings
  deriving DecidableEq, Repr

def BConst.val : BConst → Bytes
  | .v2 => RAW_VERSION2_BYTES
  | .v3 => RAW_VERSION3_BYTES
  | .stackshotEnd => TRACEV3_STACKSHOT_END
  | .threadmapTag => TRACEV3_THREADMAP_TAG
  | .eventsTag => TRACEV3_EVENTS_TAG
  | .moreEvents => TRACEV3_MORE_EVENTS
  | .dyldModules => TRACEV3_DYLD_MODULES
  | .traceCodes => TRACEV3_TRACE_CODES
  | .processes => TRACEV3_PROCESSES
  | .kernelExtensions => TRACEV3_KERNEL_EXTENSIONS
  | .images => TRACEV3_IMAGES
  | .logEvents => TRACEV3_LOG_EVENTS
  | .logStrings => TRACEV3_LOG_STRINGS

/-- module-level int constants -/
inductive IConst
  | keventSize | rawVersionSize
  deriving DecidableEq, Repr

def IConst.val : IConst → Nat
  | .keventSize => Gen.Consts.keventSize
  | .rawVersionSize => Gen.Consts.RAW_VERSION_SIZE

/-- bytes-valued expressions -/
inductive BE
  | var (i : Nat)
  | const (c : BConst)
  | lit (b : Bytes)
  | dropFrom (e : BE) (k : Nat)         -- `e[k:]`
  | cat (a b : BE)                      -- `a + b`
  | blockTag (v : Nat)                  -- `v.tag`  (`v` an element of the additional data)
  | blockData (v : Nat)                 -- `v.data`
  | unsupported (src : String)
  deriving DecidableEq, Repr

/-- loaded plists -/
inductive PE
  | var (i : Nat)
  | loads (e : BE)                      -- `plistlib.loads(e)`
  | unsupported (src : String)
  deriving DecidableEq, Repr

/-- attributes of thread-map entries (`thread.tid` / `.pid` / `.process`) and of log events
    (`log_event.thread_identifier` / `.process_identifier` / `.process`) -/
inductive Field | tid | pid | process
  deriving DecidableEq, Repr

inductive DictId | threadsPids | pidsNames
  deriving DecidableEq, Repr

/-- the parser attributes `parse_v3` rebuilds from the additional data -/
inductive Attr | traceCodes | kernelExtensions | dyldModules | images | processes
  deriving DecidableEq, Repr

/-- the displays those attributes are reset to -/
inductive InitVal
  | emptyStr                            -- `''`
  | emptyDict                           -- `{}`
  | binariesDict                        -- `{'Binaries': []}`
  deriving DecidableEq, Repr

/-- int-valued expressions (all values of this code are non-negative) -/
inductive IE
  | lit (n : Nat)
  | const (c : IConst)
  | var (i : Nat)
  | len (e : BE)                        -- `len(e)`
  | sub (a b : IE)                      -- `a - b` (a negative result is outside the model)
  | div (a b : IE)                      -- `a // b`
  | unsupported (src : String)
  deriving DecidableEq, Repr

inductive Cond
  | tt                                  -- `True`
  | ne (a b : BE)                       -- `a != b`
  | eq (a b : BE)
  | isEmpty (e : BE)                    -- `not e`
  | nonEmpty (e : BE)                   -- `e`
  | and (a b : Cond)                    -- `a and b` (as a condition: short-circuit)
  | fieldTruthy (v : Nat) (f : Field)   -- `v.<f>` as a condition (`v` a log event)
  | unsupported (src : String)
  deriving DecidableEq, Repr

/-- the `construct` parsers the code calls on the reader -/
inductive Prim
  | headerV2                            -- `kd_header_v2.parse_stream(reader)`            → the thread map
  | headerV3                            -- `Aligned(8, kd_header_v3).parse_stream(reader)` → `self.v3_header`
  | threadmapV3                         -- `kd_v3_threadmap.parse_stream(reader).threadmap`
  | int64ul                             -- `Int64ul.parse_stream(reader)`
  | additionalData                      -- `kd_v3_additional_data.parse_stream(reader)`    → the (tag, data) blocks
  deriving DecidableEq, Repr

inductive Stmt
  | skip
  | seq (a b : Stmt)
  | read (v : Nat) (n : IE)             -- `v = reader.read(n)`
  | readDrop (n : IE)                   -- `reader.read(n)`
  | assign (v : Nat) (e : BE)           -- `v = e`
  | ite (c : Cond) (t e : Stmt)
  | while (c : Cond) (body : Stmt)
  | forRange (n : IE) (body : Stmt)     -- `for _ in range(n): body`
  | brk                                 -- `break`
  | raiseEof                            -- `raise EOFError(…)`
  | yieldKd (e : BE)                    -- `yield from_kd_buf(e)`
  | callSeek (e : BE)                   -- `seek_until(reader, e)`
  | prim (p : Prim) (v : Nat)           -- `v = <construct parser>(reader)` (headerV3: `self.v3_header = …`)
  | setThreadMap (v : Nat)              -- `self.set_thread_map(v)` (`v.threadmap` for the v2 header)
  -- the tail of `parse_v3`
  | seekRel (k : Nat)                   -- `reader.seek(-k, 1)`
  | setAttrInit (a : Attr) (v : InitVal)    -- `self.<a> = '' | {} | {'Binaries': []}`
  | newList (v : Nat)                   -- `v = []`
  | newDict (v : Nat)                   -- `v = {}`
  | forIn (x c : Nat) (body : Stmt)     -- `for x in c: body` (`c` a local: the additional data / the raw log events)
  | assignP (v : Nat) (p : PE)          -- `v = plistlib.loads(…)`
  | iteAttrEmpty (a : Attr) (t e : Stmt)    -- `if not self.<a>: t else: e`
  | attrUpdate (a : Attr) (p : PE)      -- `self.<a>.update(p)`
  | binExtend (a : Attr) (p : PE)       -- `self.<a>['Binaries'].extend(p['Binaries'])`
  | strAppendDecoded (a : Attr) (e : BE)    -- `self.<a> += e.decode()`
  | setAttrP (a : Attr) (p : PE)        -- `self.<a> = p`
  | eventsExtend (v : Nat) (p : PE)     -- `v.extend(p['Events'])`
  | assignInvIndex (v : Nat) (p : PE)   -- `v = {v: k for k, v in p['StringIndex'].items()}`
  | fromRawLog (dst ev strs : Nat)      -- `dst = OsLogEvent.from_raw_log_event(ev, strs)`
  | storeLog (d : DictId) (k v : Field) (src : Nat)     -- `self.<d>[src.<k>] = src.<v>` (`src` a log event)
  | yieldVar (v : Nat)                  -- `yield v` (`v` a log event)
  | unsupported (src : String)
  deriving DecidableEq, Repr

inductive Val
  | bytes (b : Bytes)
  | int (n : Nat)
  | tmap (l : List ThreadEntry)
  | blocks (l : List (Bytes × Bytes))   -- the parsed additional data: (tag, data) in file order
  | block (b : Bytes × Bytes)
  | plist (payload : Bytes) (v : PView) -- a loaded plist: the payload it was loaded from and what the parser sees of it
  | events (l : List RawLog)            -- a list of raw log events
  | strings (l : List (Nat × Bytes))    -- the inverted string index
  | rawLog (idx : Nat) (e : RawLog)     -- a raw log event and its position in the list it is taken from
  | logOut (l : LogOut)                 -- an `OsLogEvent`
  deriving Repr

abbrev Env := Nat → Option Val
def Env.empty : Env := fun _ => none
def Env.set (env : Env) (i : Nat) (v : Val) : Env := fun j => if j = i then some v else env j

def evalB (env : Env) : BE → Except PyErr Bytes
  | .var i => match env i with | some (.bytes b) => .ok b | _ => .error .unmodelled
  | .const c => .ok c.val
  | .lit b => .ok b
  | .dropFrom e k => match evalB env e with | .ok b => .ok (b.drop k) | .error x => .error x
  | .cat a b =>
    match evalB env a with
    | .error x => .error x
    | .ok x => match evalB env b with | .ok y => .ok (x ++ y) | .error e => .error e
  | .blockTag v => match env v with | some (.block b) => .ok b.1 | _ => .error .unmodelled
  | .blockData v => match env v with | some (.block b) => .ok b.2 | _ => .error .unmodelled
  | .unsupported _ => .error .unmodelled

/-- a loaded plist: `plistlib.loads` raises (`ValueError`: `InvalidFileException`) where the parameter says so -/
def evalP (plist : Bytes → Option PView) (env : Env) : PE → Except PyErr (Bytes × PView)
  | .var i => match env i with | some (.plist b v) => .ok (b, v) | _ => .error .unmodelled
  | .loads e =>
    match evalB env e with
    | .error x => .error x
    | .ok b => match plist b with | some v => .ok (b, v) | none => .error .valueError
  | .unsupported _ => .error .unmodelled

def evalI (env : Env) : IE → Except PyErr Nat
  | .lit n => .ok n
  | .const c => .ok c.val
  | .var i => match env i with | some (.int n) => .ok n | _ => .error .unmodelled
  | .len e => match evalB env e with | .ok b => .ok b.length | .error x => .error x
  | .sub a b =>
    match evalI env a with
    | .error x => .error x
    | .ok x => match evalI env b with
      | .ok y => if y ≤ x then .ok (x - y) else .error .unmodelled
      | .error e => .error e
  | .div a b =>
    match evalI env a with
    | .error x => .error x
    | .ok x => match evalI env b with
      | .ok y => if y = 0 then .error .unmodelled else .ok (x / y)
      | .error e => .error e
  | .unsupported _ => .error .unmodelled

def evalC (env : Env) : Cond → Except PyErr Bool
  | .tt => .ok true
  | .ne a b =>
    match evalB env a with
    | .error x => .error x
    | .ok x => match evalB env b with | .ok y => .ok (decide (x ≠ y)) | .error e => .error e
  | .eq a b =>
    match evalB env a with
    | .error x => .error x
    | .ok x => match evalB env b with | .ok y => .ok (decide (x = y)) | .error e => .error e
  | .isEmpty e => match evalB env e with | .ok b => .ok (decide (b = [])) | .error x => .error x
  | .nonEmpty e => match evalB env e with | .ok b => .ok (decide (b ≠ [])) | .error x => .error x
  | .and a b =>
    match evalC env a with
    | .error x => .error x
    | .ok false => .ok false
    | .ok true => evalC env b
  | .fieldTruthy v f =>
    match env v with
    | some (.logOut l) =>
      (match f with
       | .tid => .ok (decide (l.tid ≠ 0))
       | .pid => .ok (decide (l.pid ≠ 0))
       | .process => .ok (decide (l.process ≠ [])))
    | _ => .error .unmodelled
  | .unsupported _ => .error .unmodelled

/-- what the interpreted generator has done so far -/
structure St (ε : Type) where
  env : Env
  rd : Reader
  tables : Tables
  tmTables : Tables                     -- the tables as the last `set_thread_map` left them (what the records are delivered under)
  md : V3Meta                           -- `self.v3_header` and the attributes rebuilt from the additional data
  outs : List (Out ε)                   -- the values yielded so far, oldest first

inductive Signal
  | normal
  | brk
  | err (e : PyErr)
  deriving DecidableEq, Repr

/-- the meaning of what the interpreted code calls -/
structure Params (ε : Type) where
  dec : Bytes → Except PyErr ε                    -- `from_kd_buf`
  plist : Bytes → Option PView                    -- `plistlib.loads`
  seek : Bytes → RM Unit                          -- `seek_until(reader, data)`
  setTm : Tables → List ThreadEntry → Tables      -- `self.set_thread_map(threadmap)`

def whileLoop {σ : Type} (cond : σ → Except PyErr Bool) (body : σ → Signal × σ) : Nat → σ → Signal × σ
  | 0, st => (.err .hang, st)
  | fuel + 1, st =>
    match cond st with
    | .error e => (.err e, st)
    | .ok false => (.normal, st)
    | .ok true =>
      match body st with
      | (.normal, st') => whileLoop cond body fuel st'
      | (.brk, st') => (.normal, st')
      | (.err e, st') => (.err e, st')

def forLoop {σ : Type} (body : σ → Signal × σ) : Nat → σ → Signal × σ
  | 0, st => (.normal, st)
  | n + 1, st =>
    match body st with
    | (.normal, st') => forLoop body n st'
    | (.brk, st') => (.normal, st')
    | (.err e, st') => (.err e, st')

/-- `for x in <items>: body` (`body` gets the item) -/
def forEach {σ α : Type} (body : α → σ → Signal × σ) : List α → σ → Signal × σ
  | [], st => (.normal, st)
  | a :: as, st =>
    match body a st with
    | (.normal, st') => forEach body as st'
    | (.brk, st') => (.normal, st')
    | (.err e, st') => (.err e, st')

/-- what a `for x in c` loop goes through (the collection as it is at the loop's entry; the translator refuses a body
    that changes `c`).  A raw log event carries its position, the model's name of the record. -/
def itemsOf : Val → Option (List Val)
  | .blocks l => some (l.map .block)
  | .events l => some (l.zipIdx.map fun p => .rawLog p.2 p.1)
  | _ => none

/-- the fuel a `while` loop gets at its entry -/
def loopFuel {ε : Type} (st : St ε) : Nat := st.rd.rest.length + 2

/-! #### the parser attributes (`V3Meta` of the hand model is the state; see `dispatchBlock`) -/

/-- `self.<a> = <display>`: each attribute with the display of its own type -/
def metaInit (m : V3Meta) : Attr → InitVal → Except PyErr V3Meta
  | .traceCodes, .emptyStr => .ok { m with traceCodes := [] }
  | .kernelExtensions, .binariesDict => .ok { m with kexts := [] }
  | .dyldModules, .emptyDict => .ok { m with dyldBase := none, dyldEmpty := true, dyldBin := none }
  | .images, .emptyDict => .ok { m with images := none }
  | .processes, .emptyDict => .ok { m with processes := none }
  | _, _ => .error .unmodelled

/-- `not self.<a>` -/
def metaIsEmpty (m : V3Meta) : Attr → Except PyErr Bool
  | .dyldModules => .ok m.dyldEmpty
  | _ => .error .unmodelled

/-- `self.<a>.update(p)` (into an EMPTY dict: the result is `p`'s content) -/
def metaUpdate (m : V3Meta) (p : Bytes × PView) : Attr → Except PyErr V3Meta
  | .dyldModules =>
    if m.dyldEmpty then .ok { m with dyldBase := some p.2.others, dyldEmpty := p.2.isEmpty, dyldBin := p.2.binaries }
    else .error .unmodelled
  | _ => .error .unmodelled

/-- `self.<a>['Binaries'].extend(p['Binaries'])`: the subscript on the attribute first, then `p` (it may be a
    `plistlib.loads` call), then its subscript -/
def metaBinExtend (m : V3Meta) (p : Except PyErr (Bytes × PView)) : Attr → Except PyErr V3Meta
  | .dyldModules =>
    match m.dyldBin with
    | none => .error .keyError
    | some l =>
      match p with
      | .error e => .error e
      | .ok q => match q.2.binaries with
        | none => .error .keyError
        | some l2 => .ok { m with dyldBin := some (l ++ l2) }
  | .kernelExtensions =>
    match p with
    | .error e => .error e
    | .ok q => match q.2.binaries with
      | none => .error .keyError
      | some l2 => .ok { m with kexts := m.kexts ++ l2 }
  | _ => .error .unmodelled

/-- `self.<a> += b.decode()` -/
def metaAppendDecoded (m : V3Meta) (b : Bytes) : Attr → Except PyErr V3Meta
  | .traceCodes => if validUtf8 b then .ok { m with traceCodes := m.traceCodes ++ b } else .error .unicodeError
  | _ => .error .unmodelled

/-- `self.<a> = p` (the model keeps the payload) -/
def metaSetP (m : V3Meta) (p : Bytes × PView) : Attr → Except PyErr V3Meta
  | .images => .ok { m with images := some p.1 }
  | .processes => .ok { m with processes := some p.1 }
  | _ => .error .unmodelled

def natField (e : ThreadEntry) : Field → Option Nat
  | .tid => some e.tid
  | .pid => some e.pid
  | .process => none

/-- `self.<d>[x.<k>] = x.<v>` for a thread-map entry / a log event seen as (tid, pid, process) -/
def storeOne (t : Tables) (e : ThreadEntry) : DictId × Field × Field → Except PyErr Tables
  | (.threadsPids, k, v) =>
    match natField e k, natField e v with
    | some kk, some vv => .ok { t with threadsPids := dictSet kk vv t.threadsPids }
    | _, _ => .error .unmodelled
  | (.pidsNames, k, .process) =>
    match natField e k with
    | some kk => .ok { t with pidsNames := dictSet kk e.name t.pidsNames }
    | none => .error .unmodelled
  | (.pidsNames, _, _) => .error .unmodelled

def execPrim {ε : Type} (P : Params ε) (p : Prim) (v : Nat) (st : St ε) : Signal × St ε :=
  match p with
  | .headerV2 =>
    match headerV2 st.rd with
    | (.ok h, r) => (.normal, { st with rd := r, env := st.env.set v (.tmap h.threadmap) })
    | (.error e, r) => (.err e, { st with rd := r })
  | .headerV3 =>
    match headerV3 P.plist st.rd with
    | (.ok h, r) => (.normal, { st with rd := r, md := { st.md with header := some h } })
    | (.error e, r) => (.err e, { st with rd := r })
  | .threadmapV3 =>
    match prefixedBytes st.rd with
    | (.ok payload, r) => (.normal, { st with rd := r, env := st.env.set v (.tmap (greedyEntries payload)) })
    | (.error e, r) => (.err e, { st with rd := r })
  | .int64ul =>
    match int64ul st.rd with
    | (.ok n, r) => (.normal, { st with rd := r, env := st.env.set v (.int n) })
    | (.error e, r) => (.err e, { st with rd := r })
  | .additionalData =>
    match greedyRange blockElem (st.rd.rest.length / 16 + 2) st.rd with
    | (.ok l, r) => (.normal, { st with rd := r, env := st.env.set v (.blocks l) })
    | (.error e, r) => (.err e, { st with rd := r })

/-- a statement that only changes the parser attributes -/
def metaStep {ε : Type} (st : St ε) : Except PyErr V3Meta → Signal × St ε
  | .ok m => (.normal, { st with md := m })
  | .error e => (.err e, st)

def exec {ε : Type} (P : Params ε) : Stmt → St ε → Signal × St ε
  | .skip, st => (.normal, st)
  | .seq a b, st =>
    match exec P a st with
    | (.normal, st') => exec P b st'
    | r => r
  | .read v n, st =>
    match evalI st.env n with
    | .error e => (.err e, st)
    | .ok k => (.normal, { st with rd := (st.rd.read k).2, env := st.env.set v (.bytes (st.rd.read k).1) })
  | .readDrop n, st =>
    match evalI st.env n with
    | .error e => (.err e, st)
    | .ok k => (.normal, { st with rd := (st.rd.read k).2 })
  | .assign v e, st =>
    match evalB st.env e with
    | .error x => (.err x, st)
    | .ok b => (.normal, { st with env := st.env.set v (.bytes b) })
  | .ite c t e, st =>
    match evalC st.env c with
    | .error x => (.err x, st)
    | .ok true => exec P t st
    | .ok false => exec P e st
  | .while c body, st => whileLoop (fun s => evalC s.env c) (fun s => exec P body s) (loopFuel st) st
  | .forRange n body, st =>
    match evalI st.env n with
    | .error e => (.err e, st)
    | .ok k => forLoop (fun s => exec P body s) k st
  | .brk, st => (.brk, st)
  | .raiseEof, st => (.err .eof, st)
  | .yieldKd e, st =>
    match evalB st.env e with
    | .error x => (.err x, st)
    | .ok b =>
      match P.dec b with
      | .error x => (.err x, st)
      | .ok ev => (.normal, { st with outs := st.outs ++ [.ev ev] })
  | .callSeek e, st =>
    match evalB st.env e with
    | .error x => (.err x, st)
    | .ok b =>
      match P.seek b st.rd with
      | (.ok _, r) => (.normal, { st with rd := r })
      | (.error x, r) => (.err x, { st with rd := r })
  | .prim p v, st => execPrim P p v st
  | .setThreadMap v, st =>
    match st.env v with
    | some (.tmap l) => (.normal, { st with tables := P.setTm st.tables l, tmTables := P.setTm st.tables l })
    | _ => (.err .unmodelled, st)
  | .seekRel k, st => (.normal, { st with rd := st.rd.seekTo (st.rd.pos - k) })
  | .setAttrInit a v, st => metaStep st (metaInit st.md a v)
  | .newList v, st => (.normal, { st with env := st.env.set v (.events []) })
  | .newDict v, st => (.normal, { st with env := st.env.set v (.strings []) })
  | .forIn x c body, st =>
    match (st.env c).bind itemsOf with
    | none => (.err .unmodelled, st)
    | some items => forEach (fun a s => exec P body { s with env := s.env.set x a }) items st
  | .assignP v p, st =>
    match evalP P.plist st.env p with
    | .error x => (.err x, st)
    | .ok q => (.normal, { st with env := st.env.set v (.plist q.1 q.2) })
  | .iteAttrEmpty a t e, st =>
    match metaIsEmpty st.md a with
    | .error x => (.err x, st)
    | .ok true => exec P t st
    | .ok false => exec P e st
  | .attrUpdate a p, st =>
    match evalP P.plist st.env p with
    | .error x => (.err x, st)
    | .ok q => metaStep st (metaUpdate st.md q a)
  | .binExtend a p, st => metaStep st (metaBinExtend st.md (evalP P.plist st.env p) a)
  | .strAppendDecoded a e, st =>
    match evalB st.env e with
    | .error x => (.err x, st)
    | .ok b => metaStep st (metaAppendDecoded st.md b a)
  | .setAttrP a p, st =>
    match evalP P.plist st.env p with
    | .error x => (.err x, st)
    | .ok q => metaStep st (metaSetP st.md q a)
  | .eventsExtend v p, st =>
    match st.env v with
    | some (.events l) =>
      (match evalP P.plist st.env p with
       | .error x => (.err x, st)
       | .ok q => match q.2.events with
         | none => (.err .keyError, st)
         | some l2 => (.normal, { st with env := st.env.set v (.events (l ++ l2)) }))
    | _ => (.err .unmodelled, st)
  | .assignInvIndex v p, st =>
    match evalP P.plist st.env p with
    | .error x => (.err x, st)
    | .ok q => match q.2.stringIndex with
      | none => (.err .keyError, st)
      | some items => (.normal, { st with env := st.env.set v (.strings (invertIndex items)) })
  | .fromRawLog dst ev strs, st =>
    match st.env ev, st.env strs with
    | some (.rawLog i e), some (.strings s) =>
      (match KdVerif.fromRawLog s i e with
       | .error x => (.err x, st)
       | .ok lo => (.normal, { st with env := st.env.set dst (.logOut lo) }))
    | _, _ => (.err .unmodelled, st)
  | .storeLog d k v src, st =>
    match st.env src with
    | some (.logOut lo) =>
      (match storeOne st.tables ⟨lo.tid, lo.pid, lo.process⟩ (d, k, v) with
       | .ok t => (.normal, { st with tables := t })
       | .error x => (.err x, st))
    | _ => (.err .unmodelled, st)
  | .yieldVar v, st =>
    match st.env v with
    | some (.logOut lo) => (.normal, { st with outs := st.outs ++ [.log lo] })
    | _ => (.err .unmodelled, st)
  | .unsupported _, st => (.err .unmodelled, st)

/-! ### `seek_until` as a procedure: one bytes parameter (variable 0), no calls, no yields -/

structure Proc where
  params : Nat
  body : Stmt
  deriving DecidableEq, Repr

/-- the callee-less parameters `seek_until` itself runs under -/
def leafParams : Params Unit :=
  { dec := fun _ => .error .unmodelled, plist := fun _ => none,
    seek := fun _ => RM.throw' .unmodelled, setTm := fun t _ => t }

/-- `seek_until(reader, data)` interpreted: an `RM Unit` like the model's. -/
def runSeek (p : Proc) (data : Bytes) : RM Unit := fun r =>
  if p.params ≠ 1 then (.error .unmodelled, r)
  else
    match exec leafParams p.body ⟨Env.empty.set 0 (.bytes data), r, Tables.empty, Tables.empty, {}, []⟩ with
    | (.normal, st) => (.ok (), st.rd)
    | (.brk, st) => (.error .unmodelled, st.rd)
    | (.err e, st) => (.error e, st.rd)

/-! ### `set_thread_map` -/

inductive TmStmt
  | clear (d : DictId)                              -- `self.<d>.clear()`
  | forThreads (body : List (DictId × Field × Field))   -- `for thread in parsed_threadmap: self.<d>[thread.<k>] = thread.<v>`
  | unsupported (src : String)
  deriving DecidableEq, Repr

def storeAll (t : Tables) (e : ThreadEntry) : List (DictId × Field × Field) → Except PyErr Tables
  | [] => .ok t
  | s :: ss => match storeOne t e s with | .ok t' => storeAll t' e ss | .error x => .error x

def forThreads (body : List (DictId × Field × Field)) : Tables → List ThreadEntry → Except PyErr Tables
  | t, [] => .ok t
  | t, e :: es => match storeAll t e body with | .ok t' => forThreads body t' es | .error x => .error x

def execTm (tm : List ThreadEntry) : List TmStmt → Tables → Except PyErr Tables
  | [], t => .ok t
  | .clear .threadsPids :: ss, t => execTm tm ss { t with threadsPids := [] }
  | .clear .pidsNames :: ss, t => execTm tm ss { t with pidsNames := [] }
  | .forThreads body :: ss, t => match forThreads body t tm with | .ok t' => execTm tm ss t' | .error x => .error x
  | .unsupported _ :: _, _ => .error .unmodelled

/-! ### `parse`: `version = reader.read(RAW_VERSION_SIZE); return self.versions[version](reader)` -/

inductive Method | parseV2 | parseV3
  deriving DecidableEq, Repr

structure Dispatch where
  readLen : IE
  versions : List (BConst × Method)     -- the `self.versions` dict display, in source order
  deriving DecidableEq, Repr

/-- which generator `parse` returns for a dump (`none`: the `KeyError` of the dict lookup), and the reader behind the
    magic -/
def runDispatch (d : Dispatch) (data : Bytes) : Except PyErr (Option Method × Reader) :=
  match evalI Env.empty d.readLen with
  | .error e => .error e
  | .ok n =>
    let p := (Reader.ofBytes data).read n
    .ok ((d.versions.find? (fun kv => kv.1.val == p.1)).map (·.2), p.2)

/-! ### `KdBufParser.__init__(self, threads_pids=None, pids_names=None)`

  The attribute initialisers, SORTED by attribute (they do not depend on each other: every value is a display, `None`, or
  `{} if <parameter> is None else <parameter>`); `self.versions` is the dict display of `Dispatch`. -/

/-- the attributes the constructor binds (beside `versions`) -/
inductive CtorAttr
  | threadsPids | pidsNames | md (a : Attr) | v3Header
  deriving DecidableEq, Repr

inductive CtorVal
  | paramOrEmpty (k : Nat)              -- `{} if <parameter k> is None else <parameter k>`: the caller's dict itself, or a new one
  | display (v : InitVal)               -- `''` / `{}` / `{'Binaries': []}`
  | none                                -- `None`
  | unsupported (src : String)
  deriving DecidableEq, Repr

structure CtorDef where
  params : Nat                          -- after `self`
  defaults : List CtorVal               -- the defaults of the LAST parameters
  sets : List (CtorAttr × CtorVal)      -- sorted by attribute
  deriving DecidableEq, Repr

/-- which dict object a table attribute is -/
inductive TableRef
  | arg (k : Nat)                       -- the caller's k-th argument itself (shared, not copied)
  | fresh                               -- a dict made by the constructor; empty
  deriving DecidableEq, Repr

/-- a `KdBufParser` during / after construction (`none`: the attribute is not bound) -/
structure CtorObj where
  threadsPids : Option TableRef := none
  pidsNames : Option TableRef := none
  md : V3Meta
  deriving DecidableEq, Repr

/-- one initialiser; `args[k]` = "a dict (not `None`) arrives as the k-th parameter" -/
def ctorSet (args : List Bool) (o : CtorObj) : CtorAttr × CtorVal → Except PyErr CtorObj
  | (.threadsPids, .paramOrEmpty k) =>
    match args[k]? with
    | some given => .ok { o with threadsPids := some (if given then .arg k else .fresh) }
    | Option.none => .error .unmodelled
  | (.pidsNames, .paramOrEmpty k) =>
    match args[k]? with
    | some given => .ok { o with pidsNames := some (if given then .arg k else .fresh) }
    | Option.none => .error .unmodelled
  | (.v3Header, .none) => .ok { o with md := { o.md with header := Option.none } }
  | (.md a, .display v) =>
    match metaInit o.md a v with
    | .ok m => .ok { o with md := m }
    | .error e => .error e
  | _ => .error .unmodelled

def ctorSets (args : List Bool) : List (CtorAttr × CtorVal) → CtorObj → Except PyErr CtorObj
  | [], o => .ok o
  | s :: rest, o =>
    match ctorSet args o s with
    | .ok o' => ctorSets args rest o'
    | .error e => .error e

/-- `KdBufParser(a0, …)`: `given[k]` says whether the k-th positional argument is a dict (`false`: `None`); parameters
    beyond `given` take their default, which must be `None`.  `m₀` is whatever the metadata attributes "held" before the
    constructor ran (nothing: an initialiser that is missing leaves `m₀` showing). -/
def runCtor (d : CtorDef) (given : List Bool) (m₀ : V3Meta) : Except PyErr CtorObj :=
  if given.length > d.params then .error .typeError
  else if d.params - given.length > d.defaults.length then .error .typeError
  else if (d.defaults.drop (d.defaults.length - (d.params - given.length))).any (· ≠ .none) then .error .unmodelled
  else ctorSets (given ++ List.replicate (d.params - given.length) false) d.sets { md := m₀ }

/-- The parser state of the hand model (`PState`: the two tables + the metadata) the new object is, given the CONTENTS of
    the caller's two dicts: a table attribute that IS the caller's dict has its contents, a new dict is empty. -/
def CtorObj.toPState (o : CtorObj) (given : Tables) : Option PState :=
  match o.threadsPids, o.pidsNames with
  | some a, some b =>
    some ⟨⟨match a with | .arg _ => given.threadsPids | .fresh => [],
           match b with | .arg _ => given.pidsNames | .fresh => []⟩, o.md⟩
  | _, _ => Option.none

/-! ### the whole translated program -/

structure Program where
  seekUntil : Proc
  setThreadMap : List TmStmt
  parseV2 : Stmt
  parseV3 : Stmt
  parse : Dispatch
  init : CtorDef
  deriving DecidableEq, Repr

/-- parameters of the generator bodies: calls resolved to the translated callees -/
def Program.params {ε : Type} (p : Program) (dec : Bytes → Except PyErr ε) (plist : Bytes → Option PView) :
    Params ε :=
  { dec := dec, plist := plist, seek := runSeek p.seekUntil,
    setTm := fun t l => match execTm l p.setThreadMap t with | .ok t' => t' | .error _ => t }

/-- what running a generator body to its end gives: events, final exception, tables, v3 header, reader -/
structure Result (ε : Type) where
  events : List ε
  err : Option PyErr
  tables : Tables
  hdr : Option (List Nat × Bytes)
  rd : Reader

def errOf : Signal → Option PyErr
  | .normal => none
  | .brk => some .unmodelled
  | .err e => some e

/-- a statement run from a state, everything it leaves behind: the values yielded (records and log events in the order
    of the `yield`s), final exception, tables, the tables of the last `set_thread_map`, parser attributes, reader -/
def runFrom {ε : Type} (P : Params ε) (body : Stmt) (st : St ε) : Run3 ε :=
  let x := exec P body st
  ⟨x.2.outs, errOf x.1, x.2.tables, x.2.tmTables, x.2.md, x.2.rd⟩

/-- the state a generator body starts in -/
def St.init {ε : Type} (prior : PState) (r : Reader) : St ε := ⟨Env.empty, r, prior.tables, prior.tables, prior.md, []⟩

/-- a generator body that yields records only (`parse_v2`), run to its end -/
def runGen {ε : Type} (P : Params ε) (body : Stmt) (prior : Tables) (hdr : Option (List Nat × Bytes)) (r : Reader) :
    Result ε :=
  let x := runFrom P body (St.init ⟨prior, { header := hdr }⟩ r)
  ⟨x.events, x.err, x.tables, x.md.header, x.rd⟩

/-! ### the whole `KdBufParser.parse(reader)`, exhausted, through the translated program

  Nothing of `parse_v3` is hand-modelled any more: its tail (`reader.seek(-8, 1)`, the additional-data blocks, the log
  records) is part of the translated generator; what remains primitive is listed at the head of this file. -/

def viaV2 {ε : Type} (p : Program) (plist : Bytes → Option PView) (dec : Bytes → Except PyErr ε) (prior : PState)
    (r : Reader) : Run3 ε :=
  let x := runGen (p.params dec plist) p.parseV2 prior.tables prior.md.header r
  ⟨x.events.map .ev, x.err, x.tables, x.tables, prior.md, x.rd⟩

/-- the WHOLE translated `parse_v3`, run to its end -/
def viaV3 {ε : Type} (p : Program) (plist : Bytes → Option PView) (dec : Bytes → Except PyErr ε) (prior : PState)
    (r : Reader) : Run3 ε :=
  runFrom (p.params dec plist) p.parseV3 (St.init prior r)

def parseVia {ε : Type} (p : Program) (plist : Bytes → Option PView) (dec : Bytes → Except PyErr ε) (prior : PState)
    (data : Bytes) : Run3 ε :=
  match runDispatch p.parse data with
  | .ok (some .parseV2, r) => viaV2 p plist dec prior r
  | .ok (some .parseV3, r) => viaV3 p plist dec prior r
  | .ok (none, r) => ⟨[], some .keyError, prior.tables, prior.tables, prior.md, r⟩
  | .error e => ⟨[], some e, prior.tables, prior.tables, prior.md, Reader.ofBytes data⟩

/-- what follows the first top-level `while` loop of a statement list (of `parse_v3`: everything behind the chunk loop) -/
def Stmt.afterLoop : Stmt → Stmt
  | .seq (.while _ _) k => k
  | .seq _ k => k.afterLoop
  | _ => .skip

/-! ### unsupported nodes -/

def BE.hasUnsupported : BE → Bool
  | .unsupported _ => true
  | .dropFrom e _ => e.hasUnsupported
  | .cat a b => a.hasUnsupported || b.hasUnsupported
  | _ => false

def IE.hasUnsupported : IE → Bool
  | .unsupported _ => true
  | .len e => e.hasUnsupported
  | .sub a b | .div a b => a.hasUnsupported || b.hasUnsupported
  | _ => false

def PE.hasUnsupported : PE → Bool
  | .unsupported _ => true
  | .loads e => e.hasUnsupported
  | .var _ => false

def Cond.hasUnsupported : Cond → Bool
  | .unsupported _ => true
  | .ne a b | .eq a b => a.hasUnsupported || b.hasUnsupported
  | .isEmpty e | .nonEmpty e => e.hasUnsupported
  | .and a b => a.hasUnsupported || b.hasUnsupported
  | .tt | .fieldTruthy _ _ => false

def Stmt.hasUnsupported : Stmt → Bool
  | .unsupported _ => true
  | .seq a b => a.hasUnsupported || b.hasUnsupported
  | .read _ n | .readDrop n => n.hasUnsupported
  | .assign _ e | .yieldKd e | .callSeek e | .strAppendDecoded _ e => e.hasUnsupported
  | .forIn _ _ b => b.hasUnsupported
  | .iteAttrEmpty _ t e => t.hasUnsupported || e.hasUnsupported
  | .assignP _ p | .attrUpdate _ p | .binExtend _ p | .setAttrP _ p | .eventsExtend _ p | .assignInvIndex _ p =>
    p.hasUnsupported
  | .ite c t e => c.hasUnsupported || t.hasUnsupported || e.hasUnsupported
  | .while c b => c.hasUnsupported || b.hasUnsupported
  | .forRange n b => n.hasUnsupported || b.hasUnsupported
  | _ => false

def CtorDef.hasUnsupported (d : CtorDef) : Bool :=
  d.sets.any (fun s => match s.2 with | .unsupported _ => true | _ => false) ||
  d.defaults.any (fun v => match v with | .unsupported _ => true | _ => false)

/-- (the reader code; the constructor is checked apart: `CtorDef.hasUnsupported`) -/
def Program.hasUnsupported (p : Program) : Bool :=
  p.seekUntil.body.hasUnsupported || p.parseV2.hasUnsupported || p.parseV3.hasUnsupported ||
  p.parse.readLen.hasUnsupported ||
  p.setThreadMap.any (fun s => match s with | .unsupported _ => true | _ => false)

end KdVerif.PyIRRd
