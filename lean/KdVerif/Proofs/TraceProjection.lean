import KdVerif.Proofs.TraceWrites
/-
  C05 (names and text half): a `feed` of an event of thread `t` reads, of the context tables, only the pending
  new-thread / exec record of thread `t` (plus, for the excluded handlers, the three cross-thread tables for
  their text), and replaces the pending record of thread `t` only.  Hence the traces and the `pids_names`
  writes of a thread are functions of the thread's own subsequence.  Core Lean only.
-/
set_option linter.unusedSimpArgs false
namespace KdVerif.Trace
open KdVerif.IR

theorem map_fst_bind_pure {α β : Type} (x : Except PyErr α) (f : α → Option TraceOut) (g : α → β) :
    Except.map (fun p : Option TraceOut × β => p.1) (x.bind fun n => Except.ok (f n, g n)) = x.map f := by
  cases x <;> rfl

/-- `handle_mach_vmfault`: when the nested call writes nothing and does not read the tables, neither does the
    page-fault trace. -/
theorem vmfaultCore_out (nested : Nested) (env : Env) (a b : Tabs) (s e : Kevent) (inner : List Kevent)
    (hnw : NW nested inner) (hni : NI nested inner) :
    (vmfaultCore nested env a s e inner).map (·.1) = (vmfaultCore nested env b s e inner).map (·.1) := by
  unfold vmfaultCore
  by_cases hr : arg e 2 ≠ 0
  · simp only [hr, if_true, ne_eq, not_false_eq_true, Except.map]
  · simp only [hr, if_false, ne_eq]
    cases enumNameOfValue env "DbgVmFaultType" (arg e 3) with
    | none => rfl
    | some ft =>
      simp only
      by_cases hi : inner.isEmpty = true
      · simp only [hi, if_true, Except.map]
      · simp only [hi, if_false, Bool.false_eq_true]
        have hab := hni a b
        cases ha : nested a inner with
        | error ea =>
          cases hb : nested b inner with
          | error eb => simp only [ha, hb, Except.map, Except.error.injEq] at hab ⊢; exact hab
          | ok pb => simp [ha, hb, Except.map] at hab
        | ok pa =>
          cases hb : nested b inner with
          | error eb => simp [ha, hb, Except.map] at hab
          | ok pb =>
            rcases pa with ⟨oa, a'⟩
            rcases pb with ⟨ob, b'⟩
            have e1 : a' = a := hnw a oa a' ha
            have e2 : b' = b := hnw b ob b' hb
            subst e1; subst e2
            simp only [ha, hb, Except.map, Except.ok.injEq] at hab
            subst hab
            cases oa with
            | none => rfl
            | some out =>
              simp only [Tabs.same_self, if_true]
              cases pidProtOf out with
              | error err => rfl
              | ok pp =>
                rcases pp with ⟨pid, prot⟩
                cases pid <;> cases prot <;> rfl

theorem hMachVmfault_out (nested : Nested) (env : Env) (a b : Tabs) (w : List Kevent)
    (hnw : NW nested (realEvents w)) (hni : NI nested (realEvents w)) :
    (hMachVmfault nested env a w).map (·.1) = (hMachVmfault nested env b w).map (·.1) := by
  have h := vmfaultCore_out nested env a b (firstOf w) (lastOf w) (realEvents w) hnw hni
  unfold hMachVmfault
  cases ha : vmfaultCore nested env a (firstOf w) (lastOf w) (realEvents w) with
  | error ea =>
    cases hb : vmfaultCore nested env b (firstOf w) (lastOf w) (realEvents w) with
    | error eb => simp only [ha, hb, Except.map, Except.error.injEq] at h ⊢; exact h
    | ok pb => simp [ha, hb, Except.map] at h
  | ok pa =>
    cases hb : vmfaultCore nested env b (firstOf w) (lastOf w) (realEvents w) with
    | error eb => simp [ha, hb, Except.map] at h
    | ok pb =>
      simp only [ha, hb, Except.map, Except.ok.injEq] at h ⊢
      rw [h]

/-- The hand-written handlers other than thread-terminate return a trace that does not depend on the tables. -/
theorem hand_out_indep (nested : Nested) (env : Env) (a b : Tabs) (name : String) (w : List Kevent)
    (hnw : NW nested (realEvents w)) (hni : NI nested (realEvents w))
    (hh : handNames.contains name = true) (hne : name ≠ "TRACE_DATA_THREAD_TERMINATE") :
    handleOutWith nested env a name w = handleOutWith nested env b name w := by
  rcases hand_cases hh with rfl | rfl | rfl | rfl | rfl | rfl | rfl | rfl | rfl | rfl | rfl | rfl | rfl | rfl | rfl
  · simp only [handleOutWith, handleWith, hDataNewthread, Except.map]
  · simp only [handleOutWith, handleWith, hDataExec, Except.map]
  · exact absurd rfl hne
  · simp only [handleOutWith, handleWith, hDataThreadTerminatePid, Except.map]
  · simp only [handleOutWith, handleWith, hStringGlobal]
    split
    · rfl
    · cases env.dec (stripNul (globalLoop (firstOf w).eventid w 0 0 [] []).2.2.1) <;> rfl
  · simp only [handleOutWith, handleWith, hStringNewthread, bind, pure, Except.pure]
    rw [map_fst_bind_pure, map_fst_bind_pure]
  · simp only [handleOutWith, handleWith, hStringExec, bind, pure, Except.pure]
    rw [map_fst_bind_pure, map_fst_bind_pure]
  · simp only [handleOutWith, handleWith, hStringProcExit, bind, pure, Except.pure]
    rw [map_fst_bind_pure, map_fst_bind_pure]
  · simp only [handleOutWith, handleWith, hStringThreadname]
    split
    · rfl
    · simp only [bind, pure, Except.pure]
      rw [map_fst_bind_pure, map_fst_bind_pure]
  · simp only [handleOutWith, handleWith, hStringThreadname]
    split
    · rfl
    · simp only [bind, pure, Except.pure]
      rw [map_fst_bind_pure, map_fst_bind_pure]
  · simp only [handleOutWith, handleWith, hVfsLookup]
    split
    · rfl
    · simp only [bind, pure, Except.pure]
      cases parseVnodes env w <;> rfl
  · simp only [handleOutWith, handleWith, hPerfEvent]
    by_cases hc : (enumNamesOf env "SamplerAction" (arg (firstOf w) 0)).contains "SAMPLER_TH_INFO" = true
    · simp only [hc, if_true]
      cases List.filter (namedIs env "PERF_THD_Data") w <;> rfl
    · simp only [hc]
      rfl
  · simp only [handleOutWith, handleWith, hPerfThdData, Except.map]
  · simp only [handleOutWith, handleWith]
    exact hMachVmfault_out nested env a b w hnw hni
  · simp only [handleOutWith, handleWith, hDyldLaunch, bind, pure, Except.pure]
    rw [map_fst_bind_pure, map_fst_bind_pure]

theorem handleOut_generated (nested : Nested) (env : Env) (t : Tabs) (name : String) (w : List Kevent)
    (h : handNames.contains name = false) :
    handleOutWith nested env t name w =
      match findDecoder env name with
      | some d =>
        if !d.supported then .error .unmodelled
        else (runGeneratedObj env t d w).map fun ft =>
          some { name := name, events := w, text := ft.2, obj := some (d.cls, ft.1) }
      | none => .ok none := by
  rw [handleOutWith, handle_generated nested env t name w h]
  cases findDecoder env name with
  | none => rfl
  | some d =>
    simp only []
    split
    · rfl
    · cases runGeneratedObj env t d w <;> rfl

/-- **Non-excluded handlers return the same trace (or raise the same exception) whatever the tables hold.** -/
theorem handleOutWith_indep (nested : Nested) (env : Env) (a b : Tabs) (name : String) (w : List Kevent)
    (hnw : NW nested (realEvents w)) (hni : NI nested (realEvents w))
    (hex : excluded env name = false) : handleOutWith nested env a name w = handleOutWith nested env b name w := by
  simp only [excluded, Bool.or_eq_false_iff, beq_eq_false_iff_ne, ne_eq, Bool.and_eq_false_iff,
    Bool.not_eq_false'] at hex
  by_cases hh : handNames.contains name = true
  · exact hand_out_indep nested env a b name w hnw hni hh hex.1
  · have hh' : handNames.contains name = false := by simpa using hh
    rw [handleOut_generated nested env a name w hh', handleOut_generated nested env b name w hh']
    cases hd : findDecoder env name with
    | none => rfl
    | some d =>
      have : ownOnly d = true := by
        rcases hex.2 with h | h
        · rw [hh'] at h; cases h
        · simpa [hd] using h
      simp only [runGeneratedObj_congr env a b d w this]

theorem globalLoop_evs (own : Nat) (l : List Kevent) (d s : Nat) (v : Bytes) (acc : List Kevent) :
    ∃ suf, (globalLoop own l d s v acc).2.2.2 = acc ++ suf ∧
      ∀ x, l.head? = some x → x.eventid = own → suf.head? = some x := by
  induction l generalizing d s v acc with
  | nil => exact ⟨[], by simp [globalLoop], by simp⟩
  | cons e rest ih =>
    unfold globalLoop
    by_cases ho : e.eventid = own
    · simp only [ho, ne_eq, not_true_eq_false, if_false]
      by_cases he : hasEnd e = true
      · refine ⟨[e], ?_, by simp⟩
        by_cases hs : hasStart e = true <;> simp [he, hs]
      · by_cases hs : hasStart e = true
        · simp only [hs, he, if_true, if_false, Bool.false_eq_true]
          obtain ⟨suf, h1, _⟩ := ih (arg e 0) (arg e 1) (v ++ e.data.drop 16) (acc ++ [e])
          exact ⟨e :: suf, by rw [h1]; simp, by simp⟩
        · simp only [hs, he, if_false, Bool.false_eq_true]
          obtain ⟨suf, h1, _⟩ := ih d s (v ++ e.data) (acc ++ [e])
          exact ⟨e :: suf, by rw [h1]; simp, by simp⟩
    · simp only [ne_eq, ho, not_false_eq_true, if_true]
      obtain ⟨suf, h1, _⟩ := ih d s v acc
      refine ⟨suf, h1, ?_⟩
      intro x hx hxo
      simp only [List.head?_cons, Option.some.injEq] at hx
      subst hx
      exact absurd hxo ho

theorem firstOf_globalLoop (w : List Kevent) :
    firstOf (globalLoop (firstOf w).eventid w 0 0 [] []).2.2.2 = firstOf w := by
  obtain ⟨suf, h1, h2⟩ := globalLoop_evs (firstOf w).eventid w 0 0 [] []
  rw [h1]
  cases w with
  | nil =>
    have : suf = [] := by
      have := h1
      simp [globalLoop] at this
      exact this
    simp [this]
  | cons x xs =>
    have := h2 x rfl rfl
    simp [firstOf, this]

theorem map_some_eq_some {α β : Type} (x : Except PyErr α) (f : α → β) (o : β)
    (h : x.map (fun a => some (f a)) = .ok (some o)) : ∃ a, x = .ok a ∧ o = f a := by
  cases x with
  | error e => simp [Except.map] at h
  | ok a => simp only [Except.map, Except.ok.injEq, Option.some.injEq] at h; exact ⟨a, rfl, h.symm⟩

/-- Every trace a handler returns carries the handler's name, and its first record is the window's first. -/
theorem handleOutWith_shape (nested : Nested) (env : Env) (a : Tabs) (name : String) (w : List Kevent) (o : TraceOut)
    (h : handleOutWith nested env a name w = .ok (some o)) : o.name = name ∧ firstOf o.events = firstOf w := by
  by_cases hh : handNames.contains name = true
  · rcases hand_cases hh with rfl | rfl | rfl | rfl | rfl | rfl | rfl | rfl | rfl | rfl | rfl | rfl | rfl | rfl | rfl
    · simp only [handleOutWith, handleWith, hDataNewthread, Except.map, Except.ok.injEq, Option.some.injEq] at h
      subst h; exact ⟨rfl, rfl⟩
    · simp only [handleOutWith, handleWith, hDataExec, Except.map, Except.ok.injEq, Option.some.injEq] at h
      subst h; exact ⟨rfl, rfl⟩
    · simp only [handleOutWith, handleWith, hDataThreadTerminate, Except.map, Except.ok.injEq, Option.some.injEq] at h
      subst h; exact ⟨rfl, rfl⟩
    · simp only [handleOutWith, handleWith, hDataThreadTerminatePid, Except.map, Except.ok.injEq, Option.some.injEq] at h
      subst h; exact ⟨rfl, rfl⟩
    · simp only [handleOutWith, handleWith, hStringGlobal] at h
      split at h
      · simp [Except.map] at h
      · cases hd : env.dec (stripNul (globalLoop (firstOf w).eventid w 0 0 [] []).2.2.1) with
        | error e => simp [hd, Except.map] at h
        | ok s =>
          simp only [hd, Except.map, Except.ok.injEq, Option.some.injEq] at h
          subst h; exact ⟨rfl, firstOf_globalLoop w⟩
    · simp only [handleOutWith, handleWith, hStringNewthread, bind, pure, Except.pure] at h
      rw [map_fst_bind_pure] at h
      cases hd : env.dec (stripNul (firstOf w).data) with
      | error e => simp [hd, Except.map] at h
      | ok n => simp only [hd, Except.map, Except.ok.injEq, Option.some.injEq] at h; subst h; exact ⟨rfl, rfl⟩
    · simp only [handleOutWith, handleWith, hStringExec, bind, pure, Except.pure] at h
      rw [map_fst_bind_pure] at h
      cases hd : env.dec (stripNul (firstOf w).data) with
      | error e => simp [hd, Except.map] at h
      | ok n => simp only [hd, Except.map, Except.ok.injEq, Option.some.injEq] at h; subst h; exact ⟨rfl, rfl⟩
    · simp only [handleOutWith, handleWith, hStringProcExit, bind, pure, Except.pure] at h
      rw [map_fst_bind_pure] at h
      cases hd : env.dec (stripNul (firstOf w).data) with
      | error e => simp [hd, Except.map] at h
      | ok n => simp only [hd, Except.map, Except.ok.injEq, Option.some.injEq] at h; subst h; exact ⟨rfl, rfl⟩
    · simp only [handleOutWith, handleWith, hStringThreadname] at h
      split at h
      · simp [Except.map] at h
      · simp only [bind, pure, Except.pure] at h
        rw [map_fst_bind_pure] at h
        cases hd : env.dec (stripNul (joinData w)) with
        | error e => simp [hd, Except.map] at h
        | ok n => simp only [hd, Except.map, Except.ok.injEq, Option.some.injEq] at h; subst h; exact ⟨rfl, rfl⟩
    · simp only [handleOutWith, handleWith, hStringThreadname] at h
      split at h
      · simp [Except.map] at h
      · simp only [bind, pure, Except.pure] at h
        rw [map_fst_bind_pure] at h
        cases hd : env.dec (stripNul (joinData w)) with
        | error e => simp [hd, Except.map] at h
        | ok n => simp only [hd, Except.map, Except.ok.injEq, Option.some.injEq] at h; subst h; exact ⟨rfl, rfl⟩
    · simp only [handleOutWith, handleWith, hVfsLookup] at h
      split at h
      · simp [Except.map] at h
      · simp only [bind, pure, Except.pure] at h
        cases hd : parseVnodes env w with
        | error e => simp [hd, Except.bind, Except.map] at h
        | ok vs =>
          simp only [hd, Except.bind, Except.map] at h
          split at h <;>
            (simp only [Except.ok.injEq, Option.some.injEq] at h; subst h; exact ⟨rfl, rfl⟩)
    · simp only [handleOutWith, handleWith, hPerfEvent, Except.map, Except.ok.injEq, Option.some.injEq] at h
      subst h; exact ⟨rfl, rfl⟩
    · simp only [handleOutWith, handleWith, hPerfThdData, Except.map, Except.ok.injEq, Option.some.injEq] at h
      subst h; exact ⟨rfl, rfl⟩
    · simp only [handleOutWith, handleWith, hMachVmfault] at h
      cases hc : vmfaultCore nested env a (firstOf w) (lastOf w) (realEvents w) with
      | error e => simp [hc, Except.map] at h
      | ok r =>
        simp only [hc, Except.map, Except.ok.injEq, Option.some.injEq] at h
        subst h; exact ⟨rfl, rfl⟩
    · simp only [handleOutWith, handleWith, hDyldLaunch, bind, pure, Except.pure] at h
      rw [map_fst_bind_pure] at h
      obtain ⟨imgs, _, rfl⟩ := map_some_eq_some _ _ _ h
      exact ⟨rfl, rfl⟩
  · have hh' : handNames.contains name = false := by simpa using hh
    rw [handleOut_generated nested env a name w hh'] at h
    cases hd : findDecoder env name with
    | none => simp [hd] at h
    | some d =>
      simp only [hd] at h
      split at h
      · cases h
      · cases hr : runGeneratedObj env a d w with
        | error e => simp [hr, Except.map] at h
        | ok txt =>
          simp only [hr, Except.map, Except.ok.injEq, Option.some.injEq] at h
          subst h; exact ⟨rfl, rfl⟩

/-- Whatever the tables hold, two successful calls of one handler on one window return traces that differ at
    most in the text of an excluded handler. -/
theorem handleOutWith_masked (nested : Nested) (env : Env) (a b : Tabs) (name : String) (w : List Kevent)
    (ra rb : Option TraceOut) (hnw : NW nested (realEvents w)) (hni : NI nested (realEvents w))
    (ha : handleOutWith nested env a name w = .ok ra) (hb : handleOutWith nested env b name w = .ok rb) :
    ra.map (TraceOut.masked env) = rb.map (TraceOut.masked env) := by
  cases hex : excluded env name with
  | false =>
    rw [handleOutWith_indep nested env a b name w hnw hni hex, hb] at ha
    cases ha; rfl
  | true =>
    by_cases hh : handNames.contains name = true
    · have : name = "TRACE_DATA_THREAD_TERMINATE" := by
        simp only [excluded, Bool.or_eq_true, beq_iff_eq, Bool.and_eq_true, Bool.not_eq_true'] at hex
        rcases hex with h | h
        · exact h
        · rw [hh] at h; cases h.1
      subst this
      simp only [handleOutWith, handleWith, hDataThreadTerminate, Except.map, Except.ok.injEq] at ha hb
      subst ha; subst hb
      simp [TraceOut.masked, mk, hex]
    · have hh' : handNames.contains name = false := by simpa using hh
      rw [handleOut_generated nested env a name w hh'] at ha
      rw [handleOut_generated nested env b name w hh'] at hb
      cases hd : findDecoder env name with
      | none =>
        simp only [hd, Except.ok.injEq] at ha hb
        subst ha; subst hb; rfl
      | some d =>
        simp only [hd] at ha hb
        by_cases hs : (!d.supported) = true
        · simp [hs] at ha
        · simp only [hs, if_false, Bool.false_eq_true] at ha hb
          cases hra : runGeneratedObj env a d w with
          | error e => simp [hra, Except.map] at ha
          | ok ta =>
            cases hrb : runGeneratedObj env b d w with
            | error e => simp [hrb, Except.map] at hb
            | ok tb =>
              simp only [hra, hrb, Except.map, Except.ok.injEq] at ha hb
              subst ha; subst hb
              simp [TraceOut.masked, hex]

/-! ### the nested `parse_event_list` of the page-fault handler under a benign code table -/

theorem realEvents_range (w : List Kevent) : ∀ x ∈ realEvents w, vmfaultRange x.eventid = true := by
  intro x hx
  simp only [realEvents, List.mem_filter] at hx
  exact hx.2

theorem writer_has_no_writes (env : Env) (t : Tabs) (name : String) (w : List Kevent)
    (h : writerNames.contains name = false) : handleWrites env t name w = [] := by
  simp only [writerNames, List.contains_cons, List.contains_nil, Bool.or_false, Bool.or_eq_false_iff,
    beq_eq_false_iff_ne, ne_eq] at h
  obtain ⟨h1, h2, h3, h4, h5, h6, h7, h8, h9, h10⟩ := h
  unfold handleWrites
  split <;> first | (exfalso; simp_all; done) | rfl

/-- Under a benign code table the nested call of the page-fault handler (on event lists of the page-fault sub-record
    ids) writes no table and does not read one — for every recursion depth. -/
theorem parseFuel_benign (env : Env) (hbn : BenignNested env) :
    ∀ (fuel : Nat) (evs : List Kevent), (∀ x ∈ evs, vmfaultRange x.eventid = true) →
      NW (parseFuel fuel env) evs ∧ NI (parseFuel fuel env) evs := by
  intro fuel
  induction fuel with
  | zero => intro evs _; exact ⟨fun a r a' h => by simp [parseFuel] at h, fun a b => rfl⟩
  | succ fuel ih =>
    intro evs hr
    cases evs with
    | nil => exact ⟨fun a r a' h => by simp [parseFuel, parseEventListWith] at h, fun a b => rfl⟩
    | cons x xs =>
      have hinner := ih (realEvents (x :: xs)) (realEvents_range _)
      cases hc : env.codes x.eventid with
      | none =>
        refine ⟨fun a r a' h => ?_, fun a b => ?_⟩
        · simp only [parseFuel, parseEventListWith, hc, Except.ok.injEq, Prod.mk.injEq] at h; exact h.2.symm
        · simp only [parseFuel, parseEventListWith, hc, Except.map]
      | some n =>
        obtain ⟨hw, hex⟩ := hbn x.eventid n (hr x (by simp)) hc
        by_cases hh : isHandled env n = true
        · refine ⟨fun a r a' h => ?_, fun a b => ?_⟩
          · simp only [parseFuel, parseEventListWith, hc, hh, if_true] at h
            have := handleWith_tabs (parseFuel fuel env) env a n (x :: xs) r a' hinner.1 h
            rw [this, writer_has_no_writes env a n _ hw, applyWrites_nil]
          · simp only [parseFuel, parseEventListWith, hc, hh, if_true]
            exact handleOutWith_indep (parseFuel fuel env) env a b n (x :: xs) hinner.1 hinner.2 hex
        · refine ⟨fun a r a' h => ?_, fun a b => ?_⟩
          · simp only [parseFuel, parseEventListWith, hc, hh, if_false, Bool.false_eq_true, Except.ok.injEq,
              Prod.mk.injEq] at h
            exact h.2.symm
          · simp only [parseFuel, parseEventListWith, hc, hh, if_false, Bool.false_eq_true, Except.map]

/-! ### the same for `handle` (= `handleWith` around the fuelled nested call) under a benign code table -/

theorem handle_tabs (env : Env) (hbn : BenignNested env) (t : Tabs) (name : String) (events : List Kevent)
    (r : Option TraceOut) (t' : Tabs) (h : handle env t name events = .ok (r, t')) :
    t' = applyWrites t (handleWrites env t name events) :=
  handleWith_tabs _ env t name events r t' (parseFuel_benign env hbn _ _ (realEvents_range events)).1 h

theorem handleOut_indep (env : Env) (hbn : BenignNested env) (a b : Tabs) (name : String) (w : List Kevent)
    (hex : excluded env name = false) : handleOut env a name w = handleOut env b name w :=
  handleOutWith_indep _ env a b name w (parseFuel_benign env hbn _ _ (realEvents_range w)).1
    (parseFuel_benign env hbn _ _ (realEvents_range w)).2 hex

theorem handleOut_shape (env : Env) (a : Tabs) (name : String) (w : List Kevent) (o : TraceOut)
    (h : handleOut env a name w = .ok (some o)) : o.name = name ∧ firstOf o.events = firstOf w :=
  handleOutWith_shape _ env a name w o h

theorem handleOut_masked (env : Env) (hbn : BenignNested env) (a b : Tabs) (name : String) (w : List Kevent)
    (ra rb : Option TraceOut) (ha : handleOut env a name w = .ok ra) (hb : handleOut env b name w = .ok rb) :
    ra.map (TraceOut.masked env) = rb.map (TraceOut.masked env) :=
  handleOutWith_masked _ env a b name w ra rb (parseFuel_benign env hbn _ _ (realEvents_range w)).1
    (parseFuel_benign env hbn _ _ (realEvents_range w)).2 ha hb

/-! ### one `feed` -/

/-- The handler a delivered window is dispatched to (`parse_event_list` up to the call). -/
def handlerOf (env : Env) (w : List Kevent) : Option String :=
  match w with
  | [] => none
  | x :: _ =>
    match env.codes x.eventid with
    | some n => if isHandled env n then some n else none
    | none => none

theorem parseEventList_eq (env : Env) (t : Tabs) (x : Kevent) (xs : List Kevent) :
    parseEventList env t (x :: xs) =
      match handlerOf env (x :: xs) with
      | some n => handle env t n (x :: xs)
      | none => .ok (none, t) := by
  show parseEventListWith (parseFuel (x :: xs).length env) env t (x :: xs) = _
  simp only [parseEventListWith, handlerOf]
  cases env.codes x.eventid with
  | none => rfl
  | some n =>
    by_cases h : isHandled env n = true
    · simp only [h, if_true]; rfl
    · simp only [h, if_false, Bool.false_eq_true]

theorem feedWrites_eq (env : Env) (s : PState) (e : Kevent) :
    feedWrites env s e =
      match (Pairing.step env.domOf s.pairing e).2 with
      | none => []
      | some w =>
        match handlerOf env w with
        | some n => handleWrites env s.tabs n w
        | none => [] := by
  unfold feedWrites handlerOf
  cases (Pairing.step env.domOf s.pairing e).2 with
  | none => rfl
  | some w =>
    cases w with
    | nil => rfl
    | cons x xs =>
      simp only []
      cases env.codes x.eventid with
      | none => rfl
      | some n => by_cases h : isHandled env n = true <;> simp [h]

/-- What a successful `feed` did, in terms of the pairing step and the handler. -/
theorem feed_ok (env : Env) (s s' : PState) (e : Kevent) (r : Option TraceOut)
    (h : feed env s e = .ok (r, s')) :
    s'.pairing = (Pairing.step env.domOf s.pairing e).1 ∧
    ((Pairing.step env.domOf s.pairing e).2 = none → r = none ∧ s'.tabs = s.tabs) ∧
    (∀ w, (Pairing.step env.domOf s.pairing e).2 = some w → w ≠ [] →
      match handlerOf env w with
      | some n => handle env s.tabs n w = .ok (r, s'.tabs)
      | none => r = none ∧ s'.tabs = s.tabs) := by
  unfold feed at h
  generalize Pairing.step env.domOf s.pairing e = ps at h ⊢
  rcases ps with ⟨p', o⟩
  cases o with
  | none =>
    simp only [Except.ok.injEq, Prod.mk.injEq] at h
    obtain ⟨h1, h2⟩ := h
    subst h1; subst h2
    exact ⟨rfl, fun _ => ⟨rfl, rfl⟩, fun w hw => by cases hw⟩
  | some w =>
    simp only [bind, Except.bind, pure, Except.pure] at h
    cases hp : parseEventList env s.tabs w with
    | error err => simp [hp] at h
    | ok rt =>
      rcases rt with ⟨r0, t0⟩
      simp only [hp, Except.ok.injEq, Prod.mk.injEq] at h
      obtain ⟨h1, h2⟩ := h
      subst h1; subst h2
      refine ⟨rfl, fun hn => (by cases hn), ?_⟩
      intro w' hw' hne
      simp only [Option.some.injEq] at hw'
      subst hw'
      cases w with
      | nil => exact absurd rfl hne
      | cons x xs =>
        rw [parseEventList_eq] at hp
        cases hh : handlerOf env (x :: xs) with
        | none =>
          simp only [hh, Except.ok.injEq, Prod.mk.injEq] at hp
          exact ⟨hp.1.symm, hp.2.symm⟩
        | some n => simpa [hh] using hp


/-- The merged run (`s₁`) and thread `t`'s own run (`s₂`) as seen from thread `t`. -/
structure Sim (t : Nat) (s₁ s₂ : PState) : Prop where
  inv : Pairing.TidInv s₁.pairing
  pair : Pairing.Agree t s₁.pairing s₂.pairing
  tabs : AgreeT t s₁.tabs s₂.tabs

theorem firstOf_tid_of_all (w : List Kevent) (t : Nat) (hne : w ≠ []) (h : ∀ x ∈ w, x.tid = t) :
    (firstOf w).tid = t := by
  cases w with
  | nil => exact absurd rfl hne
  | cons x xs => exact h x (by simp)

theorem handle_to_out {env : Env} {a : Tabs} {n : String} {w : List Kevent} {r : Option TraceOut} {a' : Tabs}
    (h : handle env a n w = .ok (r, a')) : handleOut env a n w = .ok r := by
  simp [handleOut, h, Except.map]

/-- OWN THREAD.  From two states that agree on thread `t`, a successful `feed` of an event of thread `t`
    yields the same trace (up to the text of an excluded handler), performs the same table writes and leads to
    states that still agree on `t`. -/
theorem feed_own (env : Env) (hbn : BenignNested env) (t : Nat) (s₁ s₂ s₁' s₂' : PState) (e : Kevent)
    (r₁ r₂ : Option TraceOut) (he : e.tid = t) (hs : Sim t s₁ s₂)
    (h₁ : feed env s₁ e = .ok (r₁, s₁')) (h₂ : feed env s₂ e = .ok (r₂, s₂')) :
    Sim t s₁' s₂' ∧ r₁.map (TraceOut.masked env) = r₂.map (TraceOut.masked env) ∧
    feedWrites env s₁ e = feedWrites env s₂ e ∧ (∀ o, r₁ = some o → o.tid = t) := by
  obtain ⟨hp₁, hn₁, hw₁⟩ := feed_ok env s₁ s₁' e r₁ h₁
  obtain ⟨hp₂, hn₂, hw₂⟩ := feed_ok env s₂ s₂' e r₂ h₂
  obtain ⟨hag, ho⟩ := Pairing.step_agree env.domOf t s₁.pairing s₂.pairing e he hs.pair
  have hinv' : Pairing.TidInv s₁'.pairing := by rw [hp₁]; exact Pairing.step_tidInv env.domOf _ _ hs.inv
  have hpair' : Pairing.Agree t s₁'.pairing s₂'.pairing := by rw [hp₁, hp₂]; exact hag
  rw [feedWrites_eq, feedWrites_eq, ← ho]
  cases hst : (Pairing.step env.domOf s₁.pairing e).2 with
  | none =>
    obtain ⟨hr₁, ht₁⟩ := hn₁ hst
    obtain ⟨hr₂, ht₂⟩ := hn₂ (ho ▸ hst)
    refine ⟨⟨hinv', hpair', by rw [ht₁, ht₂]; exact hs.tabs⟩, by rw [hr₁, hr₂], rfl, ?_⟩
    intro o ho'; rw [hr₁] at ho'; cases ho'
  | some w =>
    obtain ⟨⟨b, hb⟩, hall⟩ := Pairing.step_output env.domOf s₁.pairing e hs.inv w hst
    have hne : w ≠ [] := by rw [hb]; simp
    have hft : (firstOf w).tid = t := firstOf_tid_of_all w t hne (fun x hx => (hall x hx).trans he)
    have h1 := hw₁ w hst hne
    have h2 := hw₂ w (ho ▸ hst) hne
    cases hh : handlerOf env w with
    | none =>
      simp only [hh] at h1 h2
      refine ⟨⟨hinv', hpair', by rw [h1.2, h2.2]; exact hs.tabs⟩, by rw [h1.1, h2.1], by simp only [hh], ?_⟩
      intro o ho'; rw [h1.1] at ho'; cases ho'
    | some n =>
      simp only [hh] at h1 h2
      have hwr : handleWrites env s₁.tabs n w = handleWrites env s₂.tabs n w :=
        handleWrites_congr env _ _ n w (hft ▸ hs.tabs)
      have ht₁ := handle_tabs env hbn _ n w _ _ h1
      have ht₂ := handle_tabs env hbn _ n w _ _ h2
      refine ⟨⟨hinv', hpair', ?_⟩, handleOut_masked env hbn _ _ n w _ _ (handle_to_out h1) (handle_to_out h2),
        by simp only [hh, hwr], ?_⟩
      · rw [ht₁, ht₂, hwr]; exact applyWrites_agreeT t _ _ _ hs.tabs
      · intro o ho'
        subst ho'
        have := (handleOut_shape env _ n w o (handle_to_out h1)).2
        simp only [TraceOut.tid, this, hft]

/-- OTHER THREADS.  A successful `feed` of an event of another thread leaves thread `t`'s view of the state
    unchanged, and what it yields is attributed to the other thread. -/
theorem feed_other (env : Env) (hbn : BenignNested env) (t : Nat) (s s' : PState) (e : Kevent) (r : Option TraceOut)
    (he : e.tid ≠ t) (hinv : Pairing.TidInv s.pairing) (h : feed env s e = .ok (r, s')) :
    Pairing.TidInv s'.pairing ∧ (∀ k, k.tid = t → s'.pairing k = s.pairing k) ∧ AgreeT t s'.tabs s.tabs ∧
    (∀ o, r = some o → o.tid = e.tid) := by
  obtain ⟨hp, hn, hw⟩ := feed_ok env s s' e r h
  have hinv' : Pairing.TidInv s'.pairing := by rw [hp]; exact Pairing.step_tidInv env.domOf _ _ hinv
  have hframe : ∀ k, k.tid = t → s'.pairing k = s.pairing k := by
    intro k hk
    rw [hp]
    exact (Pairing.step_other_thread_frame env.domOf s.pairing e).1 k (by rw [hk]; exact fun h => he h.symm)
  cases hst : (Pairing.step env.domOf s.pairing e).2 with
  | none =>
    obtain ⟨hr, ht⟩ := hn hst
    refine ⟨hinv', hframe, by rw [ht]; exact AgreeT.refl _ _, ?_⟩
    intro o ho; rw [hr] at ho; cases ho
  | some w =>
    obtain ⟨⟨b, hb⟩, hall⟩ := Pairing.step_output env.domOf s.pairing e hinv w hst
    have hne : w ≠ [] := by rw [hb]; simp
    have hft : (firstOf w).tid = e.tid := firstOf_tid_of_all w e.tid hne hall
    have h1 := hw w hst hne
    cases hh : handlerOf env w with
    | none =>
      simp only [hh] at h1
      refine ⟨hinv', hframe, by rw [h1.2]; exact AgreeT.refl _ _, ?_⟩
      intro o ho; rw [h1.1] at ho; cases ho
    | some n =>
      simp only [hh] at h1
      refine ⟨hinv', hframe, ?_, ?_⟩
      · rw [handle_tabs env hbn _ n w _ _ h1]
        exact applyWrites_agreeT_other t e.tid _ _ he (hft ▸ handleWrites_pendingKey env s.tabs n w)
      · intro o ho
        subst ho
        have := (handleOut_shape env _ n w o (handle_to_out h1)).2
        simp only [TraceOut.tid, this, hft]

/-! ### whole runs -/

theorem run_nil (env : Env) (s : PState) : run env s [] = ([], none, s) := rfl

theorem run_cons_error (env : Env) (s : PState) (e : Kevent) (es : List Kevent) (err : PyErr)
    (h : feed env s e = .error err) : run env s (e :: es) = ([], some err, s) := by
  simp [run, h]

theorem run_cons_ok (env : Env) (s s' : PState) (e : Kevent) (es : List Kevent) (r : Option TraceOut)
    (h : feed env s e = .ok (r, s')) :
    run env s (e :: es) =
      ((match r with | some t => [t] | none => []) ++ (run env s' es).1, (run env s' es).2.1, (run env s' es).2.2) := by
  simp only [run, h]
  cases r <;> rfl

theorem tableWrites_cons_ok (env : Env) (s s' : PState) (e : Kevent) (es : List Kevent) (r : Option TraceOut)
    (h : feed env s e = .ok (r, s')) :
    tableWrites env s (e :: es) = (feedWrites env s e).map (fun w => (e.tid, w)) ++ tableWrites env s' es := by
  simp [tableWrites, h]

/-- A run that raises no exception fed every event successfully. -/
theorem feed_ok_of_run (env : Env) (s : PState) (e : Kevent) (es : List Kevent)
    (h : (run env s (e :: es)).2.1 = none) :
    ∃ r s', feed env s e = .ok (r, s') ∧ (run env s' es).2.1 = none := by
  cases hf : feed env s e with
  | error err => rw [run_cons_error env s e es err hf] at h; cases h
  | ok p =>
    rcases p with ⟨r, s'⟩
    rw [run_cons_ok env s s' e es r hf] at h
    exact ⟨r, s', rfl, h⟩

/-- PROJECTION of traces and table writes, from any two states that agree on thread `t`. -/
theorem projection_run (env : Env) (hbn : BenignNested env) (t : Nat) (m : List Kevent) (s₁ s₂ : PState)
    (hs : Sim t s₁ s₂)
    (h₁ : (run env s₁ m).2.1 = none) (h₂ : (run env s₂ (m.filter fun e => e.tid == t)).2.1 = none) :
    (((run env s₁ m).1.filter fun o => o.tid == t).map (TraceOut.masked env)
        = (run env s₂ (m.filter fun e => e.tid == t)).1.map (TraceOut.masked env)) ∧
    ((tableWrites env s₁ m).filter (fun p => p.1 == t) = tableWrites env s₂ (m.filter fun e => e.tid == t)) := by
  induction m generalizing s₁ s₂ with
  | nil => exact ⟨rfl, rfl⟩
  | cons e es ih =>
    obtain ⟨r₁, s₁', hf₁, hrest₁⟩ := feed_ok_of_run env s₁ e es h₁
    rw [run_cons_ok env s₁ s₁' e es r₁ hf₁, tableWrites_cons_ok env s₁ s₁' e es r₁ hf₁]
    by_cases he : e.tid = t
    · have hfil : (e :: es).filter (fun e => e.tid == t) = e :: es.filter (fun e => e.tid == t) := by simp [he]
      rw [hfil] at h₂ ⊢
      obtain ⟨r₂, s₂', hf₂, hrest₂⟩ := feed_ok_of_run env s₂ e _ h₂
      rw [run_cons_ok env s₂ s₂' e _ r₂ hf₂, tableWrites_cons_ok env s₂ s₂' e _ r₂ hf₂]
      obtain ⟨hs', hr, hw, htid⟩ := feed_own env hbn t s₁ s₂ s₁' s₂' e r₁ r₂ he hs hf₁ hf₂
      obtain ⟨ih1, ih2⟩ := ih s₁' s₂' hs' hrest₁ hrest₂
      constructor
      · simp only [List.filter_append, List.map_append, ih1]
        congr 1
        cases r₁ with
        | none => cases r₂ with
          | none => rfl
          | some o₂ => simp at hr
        | some o₁ => cases r₂ with
          | none => simp at hr
          | some o₂ =>
            have := htid o₁ rfl
            simp only [Option.map_some, Option.some.injEq] at hr
            simp [this, hr]
      · simp only [List.filter_append, ih2, hw]
        congr 1
        rw [List.filter_eq_self.2]
        intro p hp
        simp only [List.mem_map] at hp
        obtain ⟨_, _, rfl⟩ := hp
        simp [he]
    · have hfil : (e :: es).filter (fun e => e.tid == t) = es.filter (fun e => e.tid == t) := by simp [he]
      rw [hfil] at h₂ ⊢
      obtain ⟨hinv', hframe, htabs, htid⟩ := feed_other env hbn t s₁ s₁' e r₁ he hs.inv hf₁
      have hs' : Sim t s₁' s₂ :=
        ⟨hinv', fun k hk => (hframe k hk).trans (hs.pair k hk),
          ⟨htabs.1.trans hs.tabs.1, htabs.2.trans hs.tabs.2⟩⟩
      obtain ⟨ih1, ih2⟩ := ih s₁' s₂ hs' hrest₁ h₂
      constructor
      · simp only [List.filter_append, List.map_append, ih1]
        cases r₁ with
        | none => rfl
        | some o₁ =>
          have := htid o₁ rfl
          simp [this, he]
      · simp only [List.filter_append, ih2]
        rw [List.filter_eq_nil_iff.2]
        · rfl
        · intro p hp
          simp only [List.mem_map] at hp
          obtain ⟨_, _, rfl⟩ := hp
          simp [he]


/-! ### the tables after a run are the initial tables with the run's writes applied -/

theorem feed_tabs (env : Env) (hbn : BenignNested env) (s s' : PState) (e : Kevent) (r : Option TraceOut)
    (h : feed env s e = .ok (r, s')) : s'.tabs = applyWrites s.tabs (feedWrites env s e) := by
  obtain ⟨_, hn, hw⟩ := feed_ok env s s' e r h
  rw [feedWrites_eq]
  cases hst : (Pairing.step env.domOf s.pairing e).2 with
  | none => exact (hn hst).2
  | some w =>
    cases w with
    | nil => 
      -- an empty window is never delivered; `parseEventList []` raises
      exfalso
      unfold feed at h
      generalize Pairing.step env.domOf s.pairing e = ps at h hst
      rcases ps with ⟨p', o⟩
      simp only at hst
      subst hst
      simp [parseEventList, parseFuel, parseEventListWith, bind, Except.bind] at h
    | cons x xs =>
      have h1 := hw (x :: xs) hst (by simp)
      cases hh : handlerOf env (x :: xs) with
      | none => simp only [hh] at h1 ⊢; exact h1.2
      | some n => simp only [hh] at h1 ⊢; exact handle_tabs env hbn _ n _ _ _ h1

/-- **table_writes_sound.**  The tables after a run are the tables before it with the run's writes applied in
    order. -/
theorem run_tabs (env : Env) (hbn : BenignNested env) (s : PState) (m : List Kevent) :
    (run env s m).2.2.tabs = applyWrites s.tabs ((tableWrites env s m).map (·.2)) := by
  induction m generalizing s with
  | nil => rfl
  | cons e es ih =>
    cases hf : feed env s e with
    | error err => rw [run_cons_error env s e es err hf]; simp [tableWrites, hf, applyWrites]
    | ok p =>
      rcases p with ⟨r, s'⟩
      rw [run_cons_ok env s s' e es r hf, tableWrites_cons_ok env s s' e es r hf]
      have hmap : ∀ l : List Write, (l.map fun w => (e.tid, w)).map (·.2) = l := by
        intro l; induction l with
        | nil => rfl
        | cons x xs ih => simp only [List.map_cons, ih]
      rw [List.map_append, hmap, applyWrites_append, ih s', feed_tabs env hbn s s' e r hf]

theorem applyWrites_pidsNames (t : Tabs) (ws : List Write) :
    (applyWrites t ws).pidsNames = (ws.filterMap Write.asName).reverse ++ t.pidsNames := by
  induction ws generalizing t with
  | nil => rfl
  | cons x xs ih =>
    simp only [applyWrites, List.foldl_cons] at ih ⊢
    rw [ih]
    cases x <;> simp [Write.apply, Write.asName, Dict.set, List.filterMap_cons]

theorem taught_map_snd (ws : List (Nat × Write)) :
    (taught ws).map (·.2) = (ws.map (·.2)).filterMap Write.asName := by
  induction ws with
  | nil => rfl
  | cons p ps ih =>
    simp only [taught, List.filterMap_cons, List.map_cons] at ih ⊢
    cases h : p.2.asName <;> simp [ih, h]

theorem taught_filter (t : Nat) (ws : List (Nat × Write)) :
    (taught ws).filter (fun p => p.1 == t) = taught (ws.filter fun p => p.1 == t) := by
  induction ws with
  | nil => rfl
  | cons p ps ih =>
    simp only [taught, List.filterMap_cons, List.filter_cons] at ih ⊢
    by_cases hp : (p.1 == t) = true
    · cases h : p.2.asName <;> simp [hp, ih, h, List.filterMap_cons]
    · cases h : p.2.asName <;> simp [hp, ih, h, List.filterMap_cons]

/-- `dict.get` after a sequence of assignments: the last assignment to the key, else the old binding. -/
theorem lookup_reverse_append {α : Type} (l T : List (Nat × α)) (k : Nat) :
    List.lookup k (l.reverse ++ T)
      = (((l.filter fun p => p.1 == k).getLast?).map (·.2)).or (List.lookup k T) := by
  induction l generalizing T with
  | nil => simp
  | cons x xs ih =>
    rcases x with ⟨xk, xv⟩
    rw [List.reverse_cons, List.append_assoc, ih]
    simp only [List.singleton_append, List.lookup_cons, List.filter_cons]
    by_cases hx : xk = k
    · have h1 : (xk == k) = true := by rw [beq_iff_eq]; exact hx
      have h2 : (k == xk) = true := by rw [beq_iff_eq]; exact hx.symm
      simp only [h1, h2, if_true]
      cases hf : xs.filter (fun p => p.1 == k) with
      | nil => simp
      | cons y ys =>
        cases hl : (y :: ys).getLast? with
        | none => simp at hl
        | some z => simp [List.getLast?_cons_cons, hl]
    · have h1 : (xk == k) = false := by rw [beq_eq_false_iff_ne]; exact hx
      have h2 : (k == xk) = false := by rw [beq_eq_false_iff_ne]; exact fun h => hx h.symm
      simp only [h1, h2, Bool.false_eq_true, if_false]

/-- When every assignment to key `k` is tagged `t`, the assignments to `k` are those of the `t`-tagged part. -/
theorem filter_key_of_single_teacher (L : List (Nat × Nat × String)) (k t : Nat)
    (h : ∀ p ∈ L, p.2.1 = k → p.1 = t) :
    (L.map (·.2)).filter (fun q => q.1 == k) = ((L.filter fun p => p.1 == t).map (·.2)).filter (fun q => q.1 == k) := by
  induction L with
  | nil => rfl
  | cons p ps ih =>
    have ih' := ih (fun q hq => h q (List.mem_cons_of_mem _ hq))
    simp only [List.map_cons, List.filter_cons]
    by_cases hk : (p.2.1 == k) = true
    · have : p.1 = t := h p (by simp) (by simpa using hk)
      simp [hk, this, ih']
    · by_cases ht : (p.1 == t) = true <;> simp [hk, ht, ih']

theorem perm_of_filter_eq (L₁ L₂ : List (Nat × Nat × String))
    (h : ∀ t, L₁.filter (fun p => p.1 == t) = L₂.filter (fun p => p.1 == t)) : L₁.Perm L₂ := by
  rw [List.perm_iff_count]
  intro a
  have e1 : List.count a (L₁.filter fun p => p.1 == a.1) = List.count a L₁ := List.count_filter (by simp)
  have e2 : List.count a (L₂.filter fun p => p.1 == a.1) = List.count a L₂ := List.count_filter (by simp)
  rw [← e1, ← e2, h a.1]

end KdVerif.Trace
