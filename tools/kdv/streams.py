"""Builders for whole kdebug dumps (written independently of the repository's construct layouts) and a
stream stub, shared by the C12 / C14 check modules."""
import contextlib
import plistlib
import struct

from . import impl  # noqa: F401  (puts REPO_DIR first on sys.path and verifies the import origin)


def v2_file(threadmap, records, is64=1, tick=24000000):
    """threadmap: [(tid, pid, name)], name at most 19 UTF-8 bytes; records: 64-byte kd_buf records, the first
    one starting with a non-zero byte (a leading zero byte is eaten by the v2 zero-padding skipper: K1)."""
    out = [b'\x00\x02\xaa\x55', struct.pack('<I', len(threadmap)), b'\x00' * 12, struct.pack('<I', is64),
           struct.pack('<Q', tick), b'\x00' * 0x100]
    for tid, pid, name in threadmap:
        nb = name.encode('utf-8')
        assert len(nb) <= 19
        out.append(struct.pack('<QI', tid, pid) + nb.ljust(20, b'\x00'))
    assert not records or records[0][0] != 0
    out += list(records)
    return b''.join(out)


def _block(tag, payload):
    data = tag + struct.pack('<Q', len(payload)) + payload
    return data + b'\x00' * (-len(payload) % 8)


V3_HEADER = (0x00001900, 0, 0, 125, 3, 0, 1700000000, 5, 0, 0, 0, 0)


def v3_file(threadmap, records, log_events=None, log_strings=None, header_fields=V3_HEADER):
    """A minimal version-3 dump: header, stackshot end marker, thread map, one events chunk, then (optional)
    the log-events and log-strings property lists.  log_events: list of raw dicts; log_strings: list of str."""
    cpu_info = plistlib.dumps({'cpus': 1}, fmt=plistlib.FMT_BINARY)
    header = struct.pack('<IIQIIQQIIIII', *header_fields) \
        + struct.pack('<Q', len(cpu_info)) + cpu_info
    header += b'\x00' * (-len(header) % 8)
    out = [b'\x00\x03\xaa\x55', header, b'\x00' * 4, b'stackshot_out_fl']
    tm = b''
    for tid, pid, name in threadmap:
        nb = name.encode('utf-8')
        assert len(nb) <= 19
        tm += struct.pack('<QI', tid, pid) + nb.ljust(20, b'\x00')
    out += [b'\x00\x1d\x00\x00\x00\x00\x00\x00', struct.pack('<Q', len(tm)), tm]
    ev = b''.join(records)
    out += [b'\x00\x1e\x00\x00\x00\x00\x00\x00', struct.pack('<Q', len(ev)), b'\x00' * 8, ev]
    if log_events is not None:
        index = {s: i for i, s in enumerate(log_strings)}
        out.append(_block(b'\x12\x80\x00\x00\x00\x00\x00\x00',
                          plistlib.dumps({'StringIndex': index}, fmt=plistlib.FMT_BINARY)))
        out.append(_block(b'\x11\x80\x00\x00\x00\x00\x00\x00',
                          plistlib.dumps({'Events': log_events}, fmt=plistlib.FMT_BINARY)))
    return b''.join(out)


def raw_log_event(strings, message, tid, process=None, pid=None, sec=1700000000, usec=0):
    """A raw log-event dict (the mandatory keys plus optional process / pid); `strings` collects the texts."""
    def idx(s):
        if s not in strings:
            strings.append(s)
        return strings.index(s)
    ev = {'cm': idx(message), 't': 'logEvent', 's': 10, 'tid': tid, 'ns': 1, 'mct': 2, 'b': b'\x01' * 16,
          'piu': b'\x02' * 16, 'ud': {'sec': sec, 'usec': usec}, 'utz': {'mw': 0, 'dt': 0}}
    if process is not None:
        ev['p'] = idx(process)
    if pid is not None:
        ev['pid'] = pid
    return ev


@contextlib.contextmanager
def stub_stream(items):
    """Replace the container parser used by `PyKdebugParser` by one that yields `items` (Kevent tuples and
    OsLogEvent objects in any interleaving) — the name `KdBufParser` in the module namespace is rebound for
    the duration of the block only."""
    import pykdebugparser.pykdebugparser as mod

    class Stub:
        def __init__(self, threads_pids=None, pids_names=None):
            pass

        def parse(self, reader):
            return iter(list(items))

    orig = mod.KdBufParser
    mod.KdBufParser = Stub
    try:
        yield
    finally:
        mod.KdBufParser = orig


def make_log(message, tid, process='', pid=0, sec=1700000000, usec=0):
    from datetime import datetime, timezone
    from pykdebugparser.os_log_event import OsLogEvent
    return OsLogEvent(message, 'logEvent', 10, tid, 1, 2, b'\x01' * 16, b'\x02' * 16,
                      datetime.fromtimestamp(sec, tz=timezone.utc).replace(microsecond=usec), {'minutes_west': 0, 'dst_time': 0},
                      process=process, process_identifier=pid)
