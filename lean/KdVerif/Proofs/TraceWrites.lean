import KdVerif.Model.TraceWrites
import KdVerif.Proofs.IR
import KdVerif.Proofs.Projection
/-
  The tables returned by every handler are the old tables with `handleWrites` applied (`handle_eq`), hence the
  tables after a run are the initial tables with `tableWrites` applied (`run_tabs`).  Core Lean only.
-/
set_option linter.unusedSimpArgs false
namespace KdVerif.Trace
open KdVerif.IR

/-- The meaning of the recursive `parse_event_list` call inside `handle_mach_vmfault`. -/
abbrev Nested := Tabs → List Kevent → Except PyErr (Option TraceOut × Tabs)

/-- What the handler returns, without the tables. -/
def handleOutWith (nested : Nested) (env : Env) (t : Tabs) (name : String) (events : List Kevent) :
    Except PyErr (Option TraceOut) :=
  (handleWith nested env t name events).map (·.1)

def handleOut (env : Env) (t : Tabs) (name : String) (events : List Kevent) : Except PyErr (Option TraceOut) :=
  (handle env t name events).map (·.1)

/-- The nested call writes no table (on the event list `evs`). -/
def NW (nested : Nested) (evs : List Kevent) : Prop := ∀ a r a', nested a evs = .ok (r, a') → a' = a

/-- The nested call's result does not depend on the tables (on the event list `evs`). -/
def NI (nested : Nested) (evs : List Kevent) : Prop := ∀ a b, (nested a evs).map (·.1) = (nested b evs).map (·.1)

theorem not_hand_of_contains_false {name : String} (h : handNames.contains name = false) :
    name ≠ "TRACE_DATA_NEWTHREAD" ∧ name ≠ "TRACE_DATA_EXEC" ∧ name ≠ "TRACE_DATA_THREAD_TERMINATE" ∧
    name ≠ "TRACE_DATA_THREAD_TERMINATE_PID" ∧ name ≠ "TRACE_STRING_GLOBAL" ∧ name ≠ "TRACE_STRING_NEWTHREAD" ∧
    name ≠ "TRACE_STRING_EXEC" ∧ name ≠ "TRACE_STRING_PROC_EXIT" ∧ name ≠ "TRACE_STRING_THREADNAME" ∧
    name ≠ "TRACE_STRING_THREADNAME_PREV" ∧ name ≠ "VFS_LOOKUP" ∧ name ≠ "PERF_Event" ∧ name ≠ "PERF_THD_Data" ∧
    name ≠ "MACH_vmfault" ∧ name ≠ "DBG_DYLD_TIMING_LAUNCH_EXECUTABLE" := by
  simp only [handNames, traceDomainNames, List.cons_append, List.nil_append, List.contains_cons,
    List.contains_nil, Bool.or_false, Bool.or_eq_false_iff, beq_eq_false_iff_ne, ne_eq] at h
  simp only [ne_eq]
  exact h

/-- A name outside the hand-written set is dispatched to the generated decoder table. -/
theorem handle_generated (nested : Nested) (env : Env) (t : Tabs) (name : String) (events : List Kevent)
    (h : handNames.contains name = false) :
    handleWith nested env t name events =
      match findDecoder env name with
      | some d =>
        if !d.supported then .error .unmodelled else do
        let (fs, text) ← runGeneratedObj env t d events
        pure (some { name := name, events := events, text := text, obj := some (d.cls, fs) }, t)
      | none => .ok (none, t) := by
  obtain ⟨h1, h2, h3, h4, h5, h6, h7, h8, h9, h10, h11, h12, h13, h14, h15⟩ := not_hand_of_contains_false h
  unfold handleWith
  split <;> first | (exfalso; simp_all; done) | rfl

theorem handleWrites_generated (env : Env) (t : Tabs) (name : String) (events : List Kevent)
    (h : handNames.contains name = false) : handleWrites env t name events = [] := by
  obtain ⟨h1, h2, h3, h4, h5, h6, h7, h8, h9, h10, h11, h12, h13, h14, h15⟩ := not_hand_of_contains_false h
  unfold handleWrites
  split <;> first | (exfalso; simp_all; done) | rfl

/-- A name of the hand-written set is one of the fifteen literals. -/
theorem hand_cases {name : String} (h : handNames.contains name = true) :
    name = "TRACE_DATA_NEWTHREAD" ∨ name = "TRACE_DATA_EXEC" ∨ name = "TRACE_DATA_THREAD_TERMINATE" ∨
    name = "TRACE_DATA_THREAD_TERMINATE_PID" ∨ name = "TRACE_STRING_GLOBAL" ∨ name = "TRACE_STRING_NEWTHREAD" ∨
    name = "TRACE_STRING_EXEC" ∨ name = "TRACE_STRING_PROC_EXIT" ∨ name = "TRACE_STRING_THREADNAME" ∨
    name = "TRACE_STRING_THREADNAME_PREV" ∨ name = "VFS_LOOKUP" ∨ name = "PERF_Event" ∨ name = "PERF_THD_Data" ∨
    name = "MACH_vmfault" ∨ name = "DBG_DYLD_TIMING_LAUNCH_EXECUTABLE" := by
  simpa [handNames, traceDomainNames] using h


theorem applyWrites_nil (t : Tabs) : applyWrites t [] = t := rfl

theorem applyWrites_append (t : Tabs) (a b : List Write) :
    applyWrites t (a ++ b) = applyWrites (applyWrites t a) b := by
  simp [applyWrites, List.foldl_append]

theorem bind_pure_snd {α β γ : Type} (X : Except PyErr α) (f : α → β) (t : γ) (x : β × γ)
    (h : (X.bind fun a => Except.ok (f a, t)) = .ok x) : x.2 = t := by
  cases X with
  | error e => simp [Except.bind] at h
  | ok a => simp only [Except.bind, Except.ok.injEq] at h; rw [← h]

theorem Dict.same_self {α : Type} [BEq α] [LawfulBEq α] (a : Dict α) : a.same a = true := by
  simp [Dict.same]

theorem Tabs.same_self (t : Tabs) : t.same t = true := by
  simp [Tabs.same, Dict.same_self]

/-- `handle_mach_vmfault` changes the tables only through its nested `parse_event_list` call. -/
theorem hMachVmfault_tabs (nested : Nested) (env : Env) (t : Tabs) (events : List Kevent)
    (hnw : NW nested (realEvents events)) (x : Option TraceOut × Tabs)
    (hx : hMachVmfault nested env t events = .ok x) : x.2 = t := by
  unfold hMachVmfault at hx
  cases hc : vmfaultCore nested env t (firstOf events) (lastOf events) (realEvents events) with
  | error e => simp [hc, Except.map] at hx
  | ok r =>
    simp only [hc, Except.map, Except.ok.injEq] at hx
    subst hx
    simp only
    unfold vmfaultCore at hc
    by_cases hr : arg (lastOf events) 2 ≠ 0
    · simp only [hr, if_true, ne_eq, not_false_eq_true, Except.ok.injEq] at hc
      rw [← hc]
    · simp only [hr, if_false, ne_eq] at hc
      cases hf : enumNameOfValue env "DbgVmFaultType" (arg (lastOf events) 3) with
      | none => simp [hf] at hc
      | some ft =>
        simp only [hf] at hc
        by_cases hi : (realEvents events).isEmpty = true
        · simp only [hi, if_true, Except.ok.injEq] at hc
          rw [← hc]
        · simp only [hi, if_false, Bool.false_eq_true] at hc
          cases hn : nested t (realEvents events) with
          | error err => simp [hn] at hc
          | ok p =>
            rcases p with ⟨o, t'⟩
            have ht' : t' = t := hnw t o t' hn
            subst ht'
            simp only [hn] at hc
            cases o with
            | none =>
              simp only [Except.ok.injEq] at hc
              rw [← hc]
            | some out =>
              simp only at hc
              cases hp : pidProtOf out with
              | error err => simp [hp] at hc; split at hc <;> cases hc
              | ok pp =>
                rcases pp with ⟨pid, prot⟩
                simp only [hp] at hc
                cases pid <;> cases prot <;> simp only [Except.ok.injEq] at hc <;> rw [← hc]

/-- **The tables a handler returns are the old tables with its `handleWrites` applied** (the nested call of the
    page-fault handler writing nothing). -/
theorem handleWith_tabs (nested : Nested) (env : Env) (t : Tabs) (name : String) (events : List Kevent)
    (r : Option TraceOut) (t' : Tabs) (hnw : NW nested (realEvents events))
    (h : handleWith nested env t name events = .ok (r, t')) :
    t' = applyWrites t (handleWrites env t name events) := by
  by_cases hh : handNames.contains name = true
  · rcases hand_cases hh with rfl | rfl | rfl | rfl | rfl | rfl | rfl | rfl | rfl | rfl | rfl | rfl | rfl | rfl | rfl
    · simp only [handleWith, hDataNewthread, Except.ok.injEq, Prod.mk.injEq] at h
      simp [handleWrites, applyWrites, Write.apply, ← h.2]
    · simp only [handleWith, hDataExec, Except.ok.injEq, Prod.mk.injEq] at h
      simp [handleWrites, applyWrites, Write.apply, ← h.2]
    · simp only [handleWith, hDataThreadTerminate, Except.ok.injEq, Prod.mk.injEq] at h
      simp [handleWrites, applyWrites, ← h.2]
    · simp only [handleWith, hDataThreadTerminatePid, Except.ok.injEq, Prod.mk.injEq] at h
      simp [handleWrites, applyWrites, Write.apply, ← h.2]
    · simp only [handleWith, hStringGlobal] at h
      simp only [handleWrites]
      split at h
      · rename_i hs
        simp only [Except.ok.injEq, Prod.mk.injEq] at h
        simp only [hs, if_true]
        simp [applyWrites, ← h.2]
      · rename_i hs
        simp only [hs]
        cases hd : env.dec (stripNul (globalLoop (firstOf events).eventid events 0 0 [] []).2.2.1) with
        | error e => simp [hd] at h
        | ok s =>
          simp only [hd, Except.ok.injEq, Prod.mk.injEq] at h
          by_cases hne : s = "" <;> simp [hne, applyWrites, Write.apply, ← h.2]
    · simp only [handleWith, hStringNewthread] at h
      simp only [handleWrites]
      cases hd : env.dec (stripNul (firstOf events).data) with
      | error e => simp [hd, bind, Except.bind] at h
      | ok n =>
        simp only [hd, bind, Except.bind, pure, Except.pure, Except.ok.injEq, Prod.mk.injEq] at h
        cases hp : t.pendingNewthread.get (firstOf events).tid <;>
          simp [hp, applyWrites, Write.apply, ← h.2]
    · simp only [handleWith, hStringExec] at h
      simp only [handleWrites]
      cases hd : env.dec (stripNul (firstOf events).data) with
      | error e => simp [hd, bind, Except.bind] at h
      | ok n =>
        simp only [hd, bind, Except.bind, pure, Except.pure, Except.ok.injEq, Prod.mk.injEq] at h
        cases hp : t.pendingExec.get (firstOf events).tid <;>
          simp [hp, applyWrites, Write.apply, ← h.2]
    · simp only [handleWith, hStringProcExit] at h
      cases hd : env.dec (stripNul (firstOf events).data) with
      | error e => simp [hd, bind, Except.bind] at h
      | ok n =>
        simp only [hd, bind, Except.bind, pure, Except.pure, Except.ok.injEq, Prod.mk.injEq] at h
        simp [handleWrites, applyWrites, ← h.2]
    · simp only [handleWith, hStringThreadname] at h
      simp only [handleWrites]
      split at h
      · rename_i hs
        simp only [Except.ok.injEq, Prod.mk.injEq] at h
        simp only [hs, if_true]
        simp [applyWrites, ← h.2]
      · rename_i hs
        simp only [hs]
        cases hd : env.dec (stripNul (joinData events)) with
        | error e => simp [hd, bind, Except.bind] at h
        | ok n =>
          simp only [hd, bind, Except.bind, pure, Except.pure, Except.ok.injEq, Prod.mk.injEq] at h
          simp [applyWrites, Write.apply, ← h.2]
    · simp only [handleWith, hStringThreadname] at h
      simp only [handleWrites]
      split at h
      · rename_i hs
        simp only [Except.ok.injEq, Prod.mk.injEq] at h
        simp only [hs, if_true]
        simp [applyWrites, ← h.2]
      · rename_i hs
        simp only [hs]
        cases hd : env.dec (stripNul (joinData events)) with
        | error e => simp [hd, bind, Except.bind] at h
        | ok n =>
          simp only [hd, bind, Except.bind, pure, Except.pure, Except.ok.injEq, Prod.mk.injEq] at h
          simp [applyWrites, Write.apply, ← h.2]
    · simp only [handleWith, hVfsLookup] at h
      split at h
      · simp only [Except.ok.injEq, Prod.mk.injEq] at h
        simp [handleWrites, applyWrites, ← h.2]
      · cases hd : parseVnodes env events with
        | error e => simp [hd, bind, Except.bind] at h
        | ok vs =>
          simp only [hd, bind, Except.bind, pure, Except.pure] at h
          split at h
          all_goals
            simp only [Except.ok.injEq, Prod.mk.injEq] at h
            simp [handleWrites, applyWrites, ← h.2]
    · simp only [handleWith, hPerfEvent] at h
      simp only [handleWrites]
      by_cases hc : (enumNamesOf env "SamplerAction" (arg (firstOf events) 0)).contains "SAMPLER_TH_INFO" = true
      · simp only [hc, if_true] at h ⊢
        cases hf : List.filter (namedIs env "PERF_THD_Data") events with
        | nil =>
          simp only [hf, Except.ok.injEq, Prod.mk.injEq] at h
          simp [applyWrites, ← h.2]
        | cons s rest =>
          simp only [hf, Except.ok.injEq, Prod.mk.injEq] at h
          simp [applyWrites, Write.apply, ← h.2]
      · simp only [hc, if_false, Bool.false_eq_true, Except.ok.injEq, Prod.mk.injEq] at h ⊢
        simp [applyWrites, ← h.2]
    · simp only [handleWith, hPerfThdData, Except.ok.injEq, Prod.mk.injEq] at h
      simp [handleWrites, applyWrites, Write.apply, ← h.2]
    · simp only [handleWith] at h
      have := hMachVmfault_tabs nested env t events hnw _ h
      simp only at this
      simp [handleWrites, applyWrites, this]
    · simp only [handleWith] at h
      have := bind_pure_snd _ _ _ _ (show Except.bind _ _ = _ from h)
      simp only at this
      simp [handleWrites, applyWrites, this]
  · have hh' : handNames.contains name = false := by simpa using hh
    rw [handle_generated nested env t name events hh'] at h
    rw [handleWrites_generated env t name events hh', applyWrites_nil]
    cases hd : findDecoder env name with
    | none =>
      simp only [hd, Except.ok.injEq, Prod.mk.injEq] at h
      exact h.2.symm
    | some d =>
      simp only [hd] at h
      split at h
      · cases h
      · cases hr : runGeneratedObj env t d events with
        | error e => simp [hr, bind, Except.bind] at h
        | ok txt =>
          simp only [hr, bind, Except.bind, pure, Except.pure, Except.ok.injEq, Prod.mk.injEq] at h
          exact h.2.symm

/-! ### handlers and the tables they read -/

theorem evalFields_congr (s : Sel) (c c' : Ctx) (h : Agree s c c') (fs : List Expr)
    (hw : fs.all (within s) = true) : evalFields c fs = evalFields c' fs := by
  induction fs with
  | nil => rfl
  | cons f fs ih =>
    simp only [List.all_cons, Bool.and_eq_true] at hw
    simp only [evalFields, eval_congr s c c' h f hw.1, ih hw.2]

/-- The window record `mkWindow` builds from the parsed lookups. -/
def winOf (env : Env) (t : Tabs) (events : List Kevent) (vnodes : List Vnode) : Window :=
  { startArgs := (events.head?.getD default).values, endArgs := (events.getLast?.getD default).values,
    startTid := (events.head?.getD default).tid, startData := (events.head?.getD default).data,
    lookups := vnodes.map fun v => ⟨v.path, v.vnodeId⟩,
    restFirst := (match vnodes with
      | v :: _ => ((parseVnodes env (events.filter fun e => !v.ktraces.contains e)).toOption).getD []
      | [] => []).head?.map fun (v : Vnode) => ⟨v.path, v.vnodeId⟩,
    globalStrings := t.globalStrings.get, threadsPids := t.threadsPids.get, tidsNames := t.tidsNames.get }

theorem mkWindow_eq (env : Env) (t : Tabs) (events : List Kevent) (nl : Bool) :
    mkWindow env t events nl = (if nl then parseVnodes env events else .ok []).map (winOf env t events) := by
  unfold mkWindow
  cases nl
  · rfl
  · simp only [if_true]
    cases parseVnodes env events <;> rfl

theorem agree_winOf (env : Env) (a b : Tabs) (w : List Kevent) (vnodes : List Vnode) (fs : List Val) :
    Agree ownSel { host := env.host, tables := env.tables, win := winOf env a w vnodes, fields := fs }
      { host := env.host, tables := env.tables, win := winOf env b w vnodes, fields := fs } := by
  refine ⟨rfl, fun _ _ => rfl, fun _ => rfl, fun _ => rfl, fun _ _ => rfl, fun _ => rfl, fun _ => rfl,
    fun _ => ⟨rfl, rfl⟩, ?_, ?_, ?_, fun _ => ⟨rfl, rfl, rfl, rfl⟩, fun _ => rfl, fun _ => rfl⟩ <;>
    (intro hh; simp [ownSel] at hh)

/-- A decoder that reads no cross-thread table builds the same dataclass and renders the same text whatever the
    tables hold. -/
theorem runGeneratedObj_congr (env : Env) (a b : Tabs) (d : Decoder) (w : List Kevent) (h : ownOnly d = true) :
    runGeneratedObj env a d w = runGeneratedObj env b d w := by
  simp only [ownOnly, Bool.and_eq_true] at h
  unfold runGeneratedObj
  rw [mkWindow_eq, mkWindow_eq]
  cases (if usesLookups d = true then parseVnodes env w else .ok []) with
  | error e => rfl
  | ok vnodes =>
    simp only [Except.map, bind, Except.bind]
    rw [evalFields_congr ownSel _ _ (agree_winOf env a b w vnodes []) d.fields h.1]
    cases hf : evalFields _ d.fields with
    | error e => rfl
    | ok fs =>
      simp only []
      rw [eval_congr ownSel _ _ (agree_winOf env a b w vnodes fs) d.str h.2]

theorem runGenerated_congr (env : Env) (a b : Tabs) (d : Decoder) (w : List Kevent) (h : ownOnly d = true) :
    runGenerated env a d w = runGenerated env b d w := by
  simp only [runGenerated, runGeneratedObj_congr env a b d w h]


/-- Thread `t`'s view of the tables: the pending new-thread / exec record of thread `t`. -/
def AgreeT (t : Nat) (a b : Tabs) : Prop :=
  a.pendingNewthread.get t = b.pendingNewthread.get t ∧ a.pendingExec.get t = b.pendingExec.get t

theorem AgreeT.refl (t : Nat) (a : Tabs) : AgreeT t a a := ⟨rfl, rfl⟩

theorem Dict.get_set {α : Type} (d : Dict α) (k k' : Nat) (v : α) :
    (d.set k v).get k' = if k' = k then some v else d.get k' := by
  simp only [Dict.get, Dict.set, List.lookup_cons]
  by_cases h : k' = k
  · simp [h]
  · have : (k' == k) = false := by simpa using h
    simp [this, h]

/-- The writes of a handler depend on the tables only through the pending record of the window's own thread. -/
theorem handleWrites_congr (env : Env) (a b : Tabs) (name : String) (w : List Kevent)
    (h : AgreeT (firstOf w).tid a b) : handleWrites env a name w = handleWrites env b name w := by
  unfold handleWrites
  simp only [h.1, h.2]

/-- The thread whose pending record a write replaces. -/
def Write.pendingKey : Write → Option Nat
  | .pendingNewthread k _ => some k
  | .pendingExec k _ => some k
  | _ => none

/-- A handler replaces the pending record of the window's own thread only. -/
theorem handleWrites_pendingKey (env : Env) (a : Tabs) (name : String) (w : List Kevent) :
    (handleWrites env a name w).all (fun x => x.pendingKey == none || x.pendingKey == some (firstOf w).tid) = true := by
  unfold handleWrites
  dsimp only
  split
  case h_5 =>
    cases env.dec (stripNul (firstOf w).data) <;> cases a.pendingNewthread.get (firstOf w).tid <;>
      simp [Write.pendingKey]
  case h_6 =>
    cases env.dec (stripNul (firstOf w).data) <;> cases a.pendingExec.get (firstOf w).tid <;>
      simp [Write.pendingKey]
  all_goals
    repeat' split
    all_goals simp [Write.pendingKey]

theorem apply_agreeT (t : Nat) (a b : Tabs) (x : Write) (h : AgreeT t a b) :
    AgreeT t (x.apply a) (x.apply b) := by
  cases x <;> simp only [Write.apply, AgreeT, Dict.get_set] <;> first | exact h | skip
  · exact ⟨by rw [h.1], h.2⟩
  · exact ⟨h.1, by rw [h.2]⟩

theorem applyWrites_agreeT (t : Nat) (a b : Tabs) (ws : List Write) (h : AgreeT t a b) :
    AgreeT t (applyWrites a ws) (applyWrites b ws) := by
  induction ws generalizing a b with
  | nil => exact h
  | cons x xs ih => exact ih _ _ (apply_agreeT t a b x h)

theorem apply_agreeT_other (t : Nat) (a : Tabs) (x : Write) (h : x.pendingKey ≠ some t) :
    AgreeT t (x.apply a) a := by
  cases x with
  | pendingNewthread k v =>
    simp only [Write.pendingKey, ne_eq, Option.some.injEq] at h
    have h' : ¬ t = k := fun e => h e.symm
    simp [Write.apply, AgreeT, Dict.get_set, h']
  | pendingExec k v =>
    simp only [Write.pendingKey, ne_eq, Option.some.injEq] at h
    have h' : ¬ t = k := fun e => h e.symm
    simp [Write.apply, AgreeT, Dict.get_set, h']
  | _ => exact ⟨rfl, rfl⟩

/-- Writes that replace no pending record of thread `t` leave `t`'s view unchanged. -/
theorem applyWrites_agreeT_other (t t' : Nat) (a : Tabs) (ws : List Write) (hne : t' ≠ t)
    (h : ws.all (fun x => x.pendingKey == none || x.pendingKey == some t') = true) :
    AgreeT t (applyWrites a ws) a := by
  induction ws generalizing a with
  | nil => exact ⟨rfl, rfl⟩
  | cons x xs ih =>
    simp only [List.all_cons, Bool.and_eq_true, Bool.or_eq_true, beq_iff_eq] at h
    have hx : x.pendingKey ≠ some t := by
      rcases h.1 with h1 | h1 <;> rw [h1] <;> simp
      exact hne
    have h1 := ih (x.apply a) (by simpa using h.2)
    have h2 := apply_agreeT_other t a x hx
    exact ⟨h1.1.trans h2.1, h1.2.trans h2.2⟩

end KdVerif.Trace
