import KdVerif.Spec.PyIRCoExpected
import KdVerif.Proofs.TraceTotal
/-
  The expected IR of the composite handlers (`Spec/PyIRCoExpected`), run by the interpreter of `Model/PyIRCo`, is
  `Trace.hPerfThdData`, `Trace.hPerfEvent`, `Trace.hMachVmfault`, `Trace.hDyldLaunch` of the hand model — for every `Env`
  (any code table, any enum tables, any `bytes.decode`), every meaning of the nested `parse_event_list`, all tables and
  every non-empty window of four-word records: same trace (key, `ktraces`, `str()`, payload), same tables afterwards, same
  exception.  Then: `runVia Expected.progs = Trace.run`.
-/
set_option linter.unusedSimpArgs false
namespace KdVerif.PyIRCo
open KdVerif.Trace

theorem toString_str (s : String) : toString s = s := rfl

theorem len4 (l : List Nat) (h : l.length = 4) : ∃ a b c d, l = [a, b, c, d] := by
  match l, h with
  | [a, b, c, d], _ => exact ⟨a, b, c, d, rfl⟩

theorem dict_same_self {α : Type} [BEq α] [LawfulBEq α] (d : Dict α) : d.same d = true := by
  simp [Dict.same]

theorem tabs_same_self (t : Tabs) : t.same t = true := by
  simp [Tabs.same, dict_same_self]

theorem exec_seq (P : Program) (env : Env) (nested : NestedFn) (call : CallFn) (events : List Kevent) (a b : Stmt) (st : St) :
    exec P env nested call events (.seq a b) st =
      match exec P env nested call events a st with
      | (.normal, st') => exec P env nested call events b st'
      | r => r := by
  cases h : exec P env nested call events a st with
  | mk sig st' => cases sig <;> simp [exec, h]

theorem exec_ret (P : Program) (env : Env) (nested : NestedFn) (call : CallFn) (events : List Kevent) (e : Expr) (st : St) :
    exec P env nested call events (.ret e) st =
      match eval P env events st e with
      | .error x => (.err x, st)
      | .ok v => (.ret v, st) := by
  cases h : eval P env events st e <;> simp [exec, h]

theorem attrOf_obj (P : Program) (c : String) (k : List Kevent) (fs : List Val) (n : String) :
    attrOf P (.obj c k fs) n = objAttr P c k fs n := rfl
theorem attrOf_kevent (P : Program) (x : Kevent) (n : String) : attrOf P (.kevent x) n = keventAttr x n := rfl
theorem attrOf_trace (P : Program) (o : TraceOut) (n : String) : attrOf P (.trace o) n = traceAttr o n := rfl

/-! ### perf.py: the `handlers` dict and the function table, looked up -/

section perf
variable (env : Env) (nested : NestedFn) (t : Tabs)

theorem lookup_thdData (events : List Kevent) : runHandler Expected.perf env nested "PERF_THD_Data" t events =
    runBody Expected.perf env nested "PERF_THD_Data" Expected.handleThdData t events := rfl
theorem lookup_event (events : List Kevent) : runHandler Expected.perf env nested "PERF_Event" t events =
    runBody Expected.perf env nested "PERF_Event" Expected.handleEvent t events := rfl

theorem eval_word (P : Program) (e : Kevent) (rest : List Kevent) (st : St) (k x : Nat) (h : e.values[k]? = some x) :
    eval P env (e :: rest) st (Expected.word k) = .ok (.int x) := by
  simp [Expected.word, Expected.first, eval, attrOf, keventAttr, h]

/-- `handle_thd_data` on a window whose first record has its four words -/
theorem exec_thdData (call : CallFn) (s : Kevent) (ss : List Kevent) (h4 : s.values.length = 4) :
    (exec Expected.perf env nested call (s :: ss) Expected.handleThdData { loc := Locals.empty, tabs := t }).1 =
      .ret (.obj "PerfThdData" (s :: ss) [.int (arg s 0), .int (arg s 1), .int (arg s 2),
          .members "KperfTiState" (enumNamesOf env "KperfTiState" (arg s 3 &&& 0xffff))]) ∧
    (exec Expected.perf env nested call (s :: ss) Expected.handleThdData { loc := Locals.empty, tabs := t }).2.tabs =
      { t with threadsPids := t.threadsPids.set (arg s 1) (arg s 0) } := by
  obtain ⟨a, b, c, d, hv⟩ := len4 _ h4
  simp [Expected.handleThdData, exec, eval, evalArgs, Expected.word, Expected.first, attrOf, keventAttr, hv, tableSet,
    mkObj, findClass, Expected.perf, Expected.clsPerfEvent, Expected.clsPerfThdData, defaultsOf, Locals.set, arg, Dict.set]

section attrs
variable (l : List Kevent) (a b c d f : Val)

theorem attr_thdData_pid : objAttr Expected.perf "PerfThdData" l [a, b, c, d] "pid" = .ok a := rfl
theorem attr_thdData_tid : objAttr Expected.perf "PerfThdData" l [a, b, c, d] "tid" = .ok b := rfl
theorem attr_thdData_dqAddr : objAttr Expected.perf "PerfThdData" l [a, b, c, d] "dq_addr" = .ok c := rfl
theorem attr_thdData_runmode : objAttr Expected.perf "PerfThdData" l [a, b, c, d] "runmode" = .ok d := rfl

theorem attr_event_sampleWhat : objAttr Expected.perf "PerfEvent" l [a, b, c, d, f] "sample_what" = .ok a := rfl
theorem attr_event_actionid : objAttr Expected.perf "PerfEvent" l [a, b, c, d, f] "actionid" = .ok b := rfl
theorem attr_event_thInfo : objAttr Expected.perf "PerfEvent" l [a, b, c, d, f] "th_info" = .ok c := rfl
theorem attr_event_csFlags : objAttr Expected.perf "PerfEvent" l [a, b, c, d, f] "cs_flags" = .ok d := rfl
theorem attr_event_csFrames : objAttr Expected.perf "PerfEvent" l [a, b, c, d, f] "cs_frames" = .ok f := rfl

theorem attr_uhdr_flags : objAttr Expected.perf "PerfStkUhdr" l [a, b] "flags" = .ok a := rfl
theorem attr_uhdr_nframes : objAttr Expected.perf "PerfStkUhdr" l [a, b] "nframes" = .ok b := rfl
theorem attr_udata_frames : objAttr Expected.perf "PerfStkUdata" l [a] "frames" = .ok a := rfl

end attrs

/-- `str()` of a `PerfThdData` object -/
theorem render_thdData (l : List Kevent) (a b c : Nat) (names : List String) :
    renderObj Expected.perf "PerfThdData" l [.int a, .int b, .int c, .members "KperfTiState" names] =
      .ok s!"PERF_THD_Data, pid: {a}, tid: {b}, dq_addr: {pyHex c}, runmode: {" | ".intercalate names}" := by
  have hc : findClass Expected.perf "PerfThdData" = some Expected.clsPerfThdData := rfl
  simp [renderObj, hc, Expected.clsPerfThdData, renderPieces, renderPiece, attr_thdData_pid, attr_thdData_tid,
    attr_thdData_dqAddr, attr_thdData_runmode, fmtVal, execS, String.append_assoc, toString_str]

theorem extra_thdData (l : List Kevent) (fs : List Val) : extraOf Expected.perf "PerfThdData" l fs = .ok .none := by
  simp [extraOf]

/-- **`handle_thd_data`** -/
theorem run_thdData (e : Kevent) (rest : List Kevent) (h4 : e.values.length = 4) :
    runHandler Expected.perf env nested "PERF_THD_Data" t (e :: rest) = hPerfThdData env t (e :: rest) := by
  rw [lookup_thdData, runBody]
  obtain ⟨h1, h2⟩ := exec_thdData env nested t (callFuel Expected.perf env nested callDepth) e rest h4
  cases hx : exec Expected.perf env nested (callFuel Expected.perf env nested callDepth) (e :: rest) Expected.handleThdData
      { loc := Locals.empty, tabs := t } with
  | mk sig st =>
    rw [hx] at h1 h2
    simp only at h1 h2
    subst h1
    simp only [finish, extra_thdData, render_thdData, h2, hPerfThdData, firstOf, List.head?_cons, Option.getD_some, mk]

/-! ### `handle_event` -/

theorem call_thdData (s : Kevent) (ss : List Kevent) (h4 : s.values.length = 4) :
    callFuel Expected.perf env nested callDepth "handle_thd_data" (s :: ss) t =
      (.ok (.obj "PerfThdData" (s :: ss) [.int (arg s 0), .int (arg s 1), .int (arg s 2),
          .members "KperfTiState" (enumNamesOf env "KperfTiState" (arg s 3 &&& 0xffff))]),
       { t with threadsPids := t.threadsPids.set (arg s 1) (arg s 0) }) := by
  show (match exec Expected.perf env nested (callFuel Expected.perf env nested 1) (s :: ss) Expected.handleThdData
      { loc := Locals.empty, tabs := t } with
    | (.ret v, st) => (Except.ok v, st.tabs) | (.normal, st) => (.ok .none, st.tabs) | (.err x, st) => (.error x, st.tabs)) = _
  obtain ⟨h1, h2⟩ := exec_thdData env nested t (callFuel Expected.perf env nested 1) s ss h4
  cases hx : exec Expected.perf env nested (callFuel Expected.perf env nested 1) (s :: ss) Expected.handleThdData
      { loc := Locals.empty, tabs := t } with
  | mk sig st =>
    rw [hx] at h1 h2
    simp only at h1 h2
    subst h1
    simp only [h2]

theorem call_uhdr (s : Kevent) (ss : List Kevent) (h4 : s.values.length = 4) :
    callFuel Expected.perf env nested callDepth "handle_stk_uhdr" (s :: ss) t =
      (.ok (.obj "PerfStkUhdr" (s :: ss) [.members "CallstackFlag" (enumNamesOf env "CallstackFlag" (arg s 0)),
          .int (arg s 1)]), t) := by
  obtain ⟨a, b, c, d, hv⟩ := len4 _ h4
  show (match exec Expected.perf env nested (callFuel Expected.perf env nested 1) (s :: ss) Expected.handleStkUhdr
      { loc := Locals.empty, tabs := t } with
    | (.ret v, st) => (Except.ok v, st.tabs) | (.normal, st) => (.ok .none, st.tabs) | (.err x, st) => (.error x, st.tabs)) = _
  simp [Expected.handleStkUhdr, exec, eval, evalArgs, Expected.word, Expected.first, attrOf, keventAttr, hv,
    mkObj, findClass, Expected.perf, Expected.clsPerfEvent, Expected.clsPerfThdData, Expected.clsPerfThdCswitch,
    Expected.clsPerfStkUdata, Expected.clsPerfStkUhdr, defaultsOf, Locals.set, arg]

theorem call_udata (x : Kevent) :
    callFuel Expected.perf env nested callDepth "handle_stk_udata" [x] t =
      (.ok (.obj "PerfStkUdata" [x] [.words x.values]), t) := by
  show (match exec Expected.perf env nested (callFuel Expected.perf env nested 1) [x] Expected.handleStkUdata
      { loc := Locals.empty, tabs := t } with
    | (.ret v, st) => (Except.ok v, st.tabs) | (.normal, st) => (.ok .none, st.tabs) | (.err x, st) => (.error x, st.tabs)) = _
  simp [Expected.handleStkUdata, exec, eval, evalArgs, Expected.first, attrOf, keventAttr,
    mkObj, findClass, Expected.perf, Expected.clsPerfEvent, Expected.clsPerfThdData, Expected.clsPerfThdCswitch,
    Expected.clsPerfStkUdata, defaultsOf, Locals.set]

/-- `[handle_stk_udata(parser, [ev]).frames for ev in l]` -/
theorem mapLoop_udata (l : List Kevent) :
    mapLoop (callFuel Expected.perf env nested callDepth "handle_stk_udata") (fun r => attrOf Expected.perf r "frames") l t =
      (.ok (l.map fun x => Val.words x.values), t) := by
  induction l with
  | nil => rfl
  | cons x xs ih =>
    simp only [mapLoop, call_udata, attrOf, attr_udata_frames]
    rw [show (fun r => attrOf Expected.perf r "frames") = _ from rfl] at ih
    simp only [attrOf] at ih
    rw [ih]; rfl

theorem chainWords_words (l : List Kevent) :
    chainWords (l.map fun x => Val.words x.values) = some ((l.map (·.values)).flatten) := by
  induction l with
  | nil => rfl
  | cons x xs ih => simp [chainWords, ih]

/-- the sample object in local 0 -/
def EvInv (st : St) (evs : List Kevent) (what : List String) (a : Nat) (th fl fr : Val) : Prop :=
  st.loc 0 = some (.obj "PerfEvent" evs [.members "SamplerAction" what, .int a, th, fl, fr])

theorem fieldIdx_event_thInfo : (findClass Expected.perf "PerfEvent").bind (fieldIdx · "th_info") = some 2 := by decide
theorem fieldIdx_event_csFlags : (findClass Expected.perf "PerfEvent").bind (fieldIdx · "cs_flags") = some 3 := by decide
theorem fieldIdx_event_csFrames : (findClass Expected.perf "PerfEvent").bind (fieldIdx · "cs_frames") = some 4 := by decide

theorem evalCond_sampled (events : List Kevent) (st : St) (what : List String) (a : Nat) (th fl fr : Val) (m : String)
    (hi : EvInv st events what a th fl fr) :
    evalCond Expected.perf env events st (Expected.sampled m) = .ok (what.contains m) := by
  have h0 : st.loc 0 = _ := hi
  simp [evalCond, Expected.sampled, eval, h0, attrOf, attr_event_sampleWhat, truthy]

theorem evalCond_namedD (events : List Kevent) (st : St) (n : String) :
    evalCond Expected.perf env events st (Expected.namedD n) = .ok (!(events.filter (namedIs env n)).isEmpty) := by
  simp [evalCond, Expected.namedD, eval, truthy]

/-- the thread-info half of `handle_event` -/
theorem exec_thInfo (events : List Kevent) (hw : Words4 events) (st : St) (what : List String) (a : Nat) (fl fr : Val)
    (hi : EvInv st events what a .none fl fr) :
    ∀ r, exec Expected.perf env nested (callFuel Expected.perf env nested callDepth) events Expected.eventThInfo st = r →
      r.1 = .normal ∧
      (match (if what.contains "SAMPLER_TH_INFO" then events.filter (namedIs env "PERF_THD_Data") else []) with
       | s :: ss =>
         r.2.tabs = { st.tabs with threadsPids := st.tabs.threadsPids.set (arg s 1) (arg s 0) } ∧
         EvInv r.2 events what a (.obj "PerfThdData" (s :: ss) [.int (arg s 0), .int (arg s 1), .int (arg s 2),
            .members "KperfTiState" (enumNamesOf env "KperfTiState" (arg s 3 &&& 0xffff))]) fl fr
       | [] => r.2.tabs = st.tabs ∧ EvInv r.2 events what a .none fl fr) := by
  intro r hr
  subst hr
  have h0 : st.loc 0 = _ := hi
  have hcnd := evalCond_sampled env events st what a .none fl fr "SAMPLER_TH_INFO" hi
  have hin := evalCond_namedD env events st "PERF_THD_Data"
  simp only [Expected.namedD] at hin
  cases hc : what.contains "SAMPLER_TH_INFO"
  · rw [hc] at hcnd
    simp only [Expected.eventThInfo, exec, hcnd]
    exact ⟨trivial, trivial, hi⟩
  · rw [hc] at hcnd
    cases hf : events.filter (namedIs env "PERF_THD_Data") with
    | nil =>
      rw [hf] at hin
      simp only [Expected.eventThInfo, Expected.namedD, exec, hcnd, hin, List.isEmpty_nil, Bool.not_true]
      exact ⟨trivial, trivial, hi⟩
    | cons s ss =>
      have hs : s ∈ events := (List.mem_filter.mp (hf ▸ List.mem_cons_self)).1
      have h4 := hw s hs
      rw [hf] at hin
      simp [Expected.eventThInfo, exec, hcnd, hin, eval, Expected.namedD, hf, call_thdData env nested st.tabs s ss h4,
        Locals.set, h0, fieldIdx_event_thInfo, EvInv]

/-- the words of the window's `PERF_STK_UData` records, chained -/
def udataWords (env : Env) (events : List Kevent) : List Nat :=
  ((events.filter (namedIs env "PERF_STK_UData")).map (·.values)).flatten

/-- the user-stack half of `handle_event` -/
theorem exec_stack (events : List Kevent) (hw : Words4 events) (st : St) (what : List String) (a : Nat) (th : Val)
    (hi : EvInv st events what a th .none .none) :
    ∀ r, exec Expected.perf env nested (callFuel Expected.perf env nested callDepth) events Expected.eventStack st = r →
      r.1 = .normal ∧ r.2.tabs = st.tabs ∧
      (match (if what.contains "SAMPLER_USTACK" then events.filter (namedIs env "PERF_STK_UHdr") else []) with
       | h :: _ =>
         EvInv r.2 events what a th (.members "CallstackFlag" (enumNamesOf env "CallstackFlag" (arg h 0)))
           (.words ((udataWords env events).take (arg h 1)))
       | [] => EvInv r.2 events what a th .none .none) := by
  intro r hr
  subst hr
  have h0 : st.loc 0 = _ := hi
  have hcnd := evalCond_sampled env events st what a th .none .none "SAMPLER_USTACK" hi
  have hin := evalCond_namedD env events st "PERF_STK_UHdr"
  simp only [Expected.namedD] at hin
  cases hc : what.contains "SAMPLER_USTACK"
  · rw [hc] at hcnd
    simp only [Expected.eventStack, exec, hcnd]
    exact ⟨trivial, trivial, hi⟩
  · rw [hc] at hcnd
    cases hf : events.filter (namedIs env "PERF_STK_UHdr") with
    | nil =>
      rw [hf] at hin
      simp only [Expected.eventStack, Expected.namedD, exec, hcnd, hin, List.isEmpty_nil, Bool.not_true]
      exact ⟨trivial, trivial, hi⟩
    | cons s ss =>
      have hs : s ∈ events := (List.mem_filter.mp (hf ▸ List.mem_cons_self)).1
      have h4 := hw s hs
      rw [hf] at hin
      simp [Expected.eventStack, exec, hcnd, hin, eval, Expected.namedD, hf, call_uhdr env nested st.tabs s ss h4,
        mapLoop_udata, chainWords_words, attrOf_obj, attr_uhdr_flags, attr_uhdr_nframes,
        Locals.set, h0, fieldIdx_event_csFlags, fieldIdx_event_csFrames, EvInv, udataWords]

theorem render_event (l : List Kevent) (what : List String) (a : Nat) (th fl : Val) :
    renderObj Expected.perf "PerfEvent" l [.members "SamplerAction" what, .int a, th, fl, .none] =
      .ok s!"PERF_Event, sample_what: {" | ".intercalate what}, actionid: {a}" := by
  have hc : findClass Expected.perf "PerfEvent" = some Expected.clsPerfEvent := rfl
  simp [renderObj, hc, Expected.clsPerfEvent, renderPieces, renderPiece, attr_event_sampleWhat, attr_event_actionid,
    attr_event_csFrames, fmtVal, execS, evalSCond, String.append_assoc, toString_str]

theorem render_event_frames (l : List Kevent) (what : List String) (a : Nat) (th fl : Val) (f : List Nat) :
    renderObj Expected.perf "PerfEvent" l [.members "SamplerAction" what, .int a, th, fl, .words f] =
      .ok (s!"PERF_Event, sample_what: {" | ".intercalate what}, actionid: {a}" ++ s!", frames count: {f.length}") := by
  have hc : findClass Expected.perf "PerfEvent" = some Expected.clsPerfEvent := rfl
  simp [renderObj, hc, Expected.clsPerfEvent, renderPieces, renderPiece, attr_event_sampleWhat, attr_event_actionid,
    attr_event_csFrames, fmtVal, execS, evalSCond, String.append_assoc, toString_str]

theorem extra_event (l : List Kevent) (w a th fl fr : Val) :
    extraOf Expected.perf "PerfEvent" l [w, a, th, fl, fr] =
      match thInfoOfVal Expected.perf th, asOptWords fr, asOptNames fl with
      | some x, some y, some z => .ok (.perf x y z)
      | _, _, _ => .error .unmodelled := by
  simp [extraOf, attr_event_thInfo, attr_event_csFlags, attr_event_csFrames]
  rfl

theorem thInfoOfVal_none : thInfoOfVal Expected.perf .none = some Option.none := rfl

theorem thInfoOfVal_thdData (l : List Kevent) (p q : Nat) (c d : Val) :
    thInfoOfVal Expected.perf (.obj "PerfThdData" l [.int p, .int q, c, d]) = some (some (p, q)) := by
  simp [thInfoOfVal, attr_thdData_pid, attr_thdData_tid]

/-- **`handle_event`** -/
theorem run_event (e : Kevent) (rest : List Kevent) (hw : Words4 (e :: rest)) :
    runHandler Expected.perf env nested "PERF_Event" t (e :: rest) = hPerfEvent env t (e :: rest) := by
  obtain ⟨a0, a1, a2, a3, hv⟩ := len4 _ (hw e (by simp))
  rw [lookup_event, runBody]
  have harg0 : arg e 0 = a0 := by simp [arg, hv]
  have harg1 : arg e 1 = a1 := by simp [arg, hv]
  -- `e = PerfEvent(events, to_sampler_action(args[0]), args[1])`
  have hcons : exec Expected.perf env nested (callFuel Expected.perf env nested callDepth) (e :: rest)
      (.construct 0 "PerfEvent" .events [.flagsOf "SamplerAction" (Expected.word 0), Expected.word 1])
      { loc := Locals.empty, tabs := t } =
      (.normal, { loc := Locals.empty.set 0 (.obj "PerfEvent" (e :: rest)
          [.members "SamplerAction" (enumNamesOf env "SamplerAction" a0), .int a1, .none, .none, .none]), tabs := t }) := by
    simp [exec, eval, evalArgs, Expected.word, Expected.first, attrOf_kevent, keventAttr, hv, mkObj, findClass,
      Expected.perf, Expected.clsPerfEvent, defaultsOf, FDefault.toVal]
  generalize hst1 : ({ loc := Locals.empty.set 0 (.obj "PerfEvent" (e :: rest)
      [.members "SamplerAction" (enumNamesOf env "SamplerAction" a0), .int a1, .none, .none, .none]), tabs := t } : St) = st1
      at hcons
  have hi1 : EvInv st1 (e :: rest) (enumNamesOf env "SamplerAction" a0) a1 .none .none .none := by
    subst hst1; simp [EvInv, Locals.set]
  have ht1 : st1.tabs = t := by subst hst1; rfl
  have h1 := exec_thInfo env nested (e :: rest) hw st1 _ a1 .none .none hi1 _ rfl
  cases hx1 : exec Expected.perf env nested (callFuel Expected.perf env nested callDepth) (e :: rest) Expected.eventThInfo st1 with
  | mk sig1 st2 =>
  rw [hx1] at h1
  obtain ⟨hs1, h1⟩ := h1
  simp only at hs1 h1
  subst hs1
  rw [Expected.handleEvent, exec_seq, hcons]
  simp only
  rw [exec_seq, hx1]
  simp only
  rw [exec_seq]
  unfold hPerfEvent
  simp only [firstOf, List.head?_cons, Option.getD_some, harg0, harg1]
  generalize enumNamesOf env "SamplerAction" a0 = what at *
  -- the two halves, case by case
  cases hc1 : what.contains "SAMPLER_TH_INFO" <;> cases hf1 : List.filter (namedIs env "PERF_THD_Data") (e :: rest) <;>
    simp only [hc1, hf1, if_true, if_false, Bool.false_eq_true] at h1 ⊢ <;> obtain ⟨ht2, hi2⟩ := h1 <;>
    have h2 := exec_stack env nested (e :: rest) hw st2 what a1 _ hi2 _ rfl <;>
    cases hx2 : exec Expected.perf env nested (callFuel Expected.perf env nested callDepth) (e :: rest) Expected.eventStack st2 <;>
    rw [hx2] at h2 <;> obtain ⟨hs2, ht3, h2⟩ := h2 <;> simp only at hs2 ht3 h2 <;> subst hs2 <;>
    cases hc2 : what.contains "SAMPLER_USTACK" <;> cases hf2 : List.filter (namedIs env "PERF_STK_UHdr") (e :: rest) <;>
    simp only [hc2, hf2, if_true, if_false, Bool.false_eq_true] at h2 ⊢ <;>
    simp [exec_ret, hx2, eval, (show _ = _ from h2), finish, extra_event, thInfoOfVal_none, thInfoOfVal_thdData, asOptWords, asOptNames,
      render_event, render_event_frames, ht3, ht2, ht1, mk, udataWords]

end perf
/-! ### mach.py: `handle_mach_vmfault` -/

section mach
variable (env : Env) (nested : NestedFn) (t : Tabs)

theorem lookup_vmfault (events : List Kevent) : runHandler Expected.mach env nested "MACH_vmfault" t events =
    runBody Expected.mach env nested "MACH_vmfault" Expected.handleMachVmfault t events := rfl

section attrs
variable (l : List Kevent) (a b c d f g : Val)
theorem attr_vm_addr : objAttr Expected.mach "MachVmfault" l [a, b, c, d, f, g] "addr" = .ok a := rfl
theorem attr_vm_isKernel : objAttr Expected.mach "MachVmfault" l [a, b, c, d, f, g] "is_kernel" = .ok b := rfl
theorem attr_vm_result : objAttr Expected.mach "MachVmfault" l [a, b, c, d, f, g] "result" = .ok c := rfl
theorem attr_vm_faultType : objAttr Expected.mach "MachVmfault" l [a, b, c, d, f, g] "fault_type" = .ok d := rfl
theorem attr_vm_pid : objAttr Expected.mach "MachVmfault" l [a, b, c, d, f, g] "pid" = .ok f := rfl
theorem attr_vm_callerProt : objAttr Expected.mach "MachVmfault" l [a, b, c, d, f, g] "caller_prot" = .ok g := rfl
end attrs

/-- `MachVmfault.__str__` up to the result -/
def vmHead (addr k r : Nat) : String :=
  s!"MachVmfault, addr: {pyHex addr}, is_kernel: {if k = 0 then "False" else "True"}, result: {r}"

theorem fmt_bool (k : Nat) : fmtVal (.bool (k != 0)) = .ok (if k = 0 then "False" else "True") := by
  by_cases h : k = 0
  · simp [h, fmtVal]
  · have hb : (k != 0) = true := by simpa using h
    simp [h, hb, fmtVal]

theorem render_vm_base (l : List Kevent) (addr k r : Nat) (ft pid prot : Val) :
    renderPieces Expected.mach "MachVmfault" l [.int addr, .bool (k != 0), .int r, ft, pid, prot]
      Expected.clsMachVmfault.str.base = .ok (vmHead addr k r) := by
  have hb := fmt_bool k
  unfold vmHead
  generalize (if k = 0 then "False" else "True") = ks at hb ⊢
  simp only [Expected.clsMachVmfault, renderPieces, renderPiece, attr_vm_addr, attr_vm_isKernel, attr_vm_result, hb]
  simp [fmtVal, String.append_assoc, toString_str]

theorem render_vm_nonzero (l : List Kevent) (addr k r : Nat) (ft pid prot : Val) (hr : r ≠ 0) :
    renderObj Expected.mach "MachVmfault" l [.int addr, .bool (k != 0), .int r, ft, pid, prot] = .ok (vmHead addr k r) := by
  have hc : findClass Expected.mach "MachVmfault" = some Expected.clsMachVmfault := rfl
  simp only [renderObj, hc, render_vm_base]
  have hb : (r == 0) = false := by simpa using hr
  simp [Expected.clsMachVmfault, execS, evalSCond, attr_vm_result, hb]

theorem render_vm_plain (l : List Kevent) (addr k : Nat) (c ft : String) (pid prot : Val)
    (hp : pid = .none ∨ prot = .none) :
    renderObj Expected.mach "MachVmfault" l [.int addr, .bool (k != 0), .int 0, .member c ft, pid, prot] =
      .ok (vmHead addr k 0 ++ s!", type: {ft}") := by
  have hc : findClass Expected.mach "MachVmfault" = some Expected.clsMachVmfault := rfl
  simp only [renderObj, hc, render_vm_base]
  rcases hp with hp | hp <;> subst hp
  · simp [Expected.clsMachVmfault, execS, evalSCond, attr_vm_result, attr_vm_faultType, attr_vm_pid, attr_vm_callerProt,
      renderPieces, renderPiece, toString_str, String.append_assoc]
  · cases pid <;>
    simp [Expected.clsMachVmfault, execS, evalSCond, attr_vm_result, attr_vm_faultType, attr_vm_pid, attr_vm_callerProt,
      renderPieces, renderPiece, toString_str, String.append_assoc]

theorem render_vm_full (l : List Kevent) (addr k : Nat) (c c' ft : String) (pid : Nat) (prot : List String) :
    renderObj Expected.mach "MachVmfault" l [.int addr, .bool (k != 0), .int 0, .member c ft, .int pid, .members c' prot] =
      .ok (vmHead addr k 0 ++ s!", type: {ft}, vm_prot: {" | ".intercalate prot}, pid: {pid}") := by
  have hc : findClass Expected.mach "MachVmfault" = some Expected.clsMachVmfault := rfl
  simp only [renderObj, hc, render_vm_base]
  simp [Expected.clsMachVmfault, execS, evalSCond, attr_vm_result, attr_vm_faultType, attr_vm_pid, attr_vm_callerProt,
    renderPieces, renderPiece, fmtVal, toString_str, String.append_assoc]

theorem extra_vm (l : List Kevent) (a b : Val) (r : Nat) (ft pid prot : Val) :
    extraOf Expected.mach "MachVmfault" l [a, b, .int r, ft, pid, prot] =
      match asOptName ft, asOptNat pid, asOptNames prot with
      | some x, some y, some z => .ok (.vmfault r x y z)
      | _, _, _ => .error .unmodelled := by
  simp [extraOf, attr_vm_result, attr_vm_faultType, attr_vm_pid, attr_vm_callerProt]
  rfl

theorem head_eq (addr k r : Nat) :
    s!"MachVmfault, addr: {pyHex addr}, is_kernel: {if k = 0 then "False" else "True"}, result: {r}" = vmHead addr k r := rfl

theorem mkObj_vm (l : List Kevent) (a b c d f g : Val) :
    mkObj Expected.mach "MachVmfault" l [a, b, c, d, f, g] = .ok (.obj "MachVmfault" l [a, b, c, d, f, g]) := rfl

/-- **`handle_mach_vmfault`** -/
theorem run_vmfault (e : Kevent) (rest : List Kevent) (hw : Words4 (e :: rest)) :
    runHandler Expected.mach env nested "MACH_vmfault" t (e :: rest) = hMachVmfault nested env t (e :: rest) := by
  obtain ⟨a0, a1, a2, a3, hv⟩ := len4 _ (hw e (by simp))
  obtain ⟨l, hl⟩ : ∃ l, (e :: rest).getLast? = some l := ⟨_, List.getLast?_eq_some_getLast (by simp)⟩
  have hlm : l ∈ e :: rest := List.mem_of_getLast? hl
  obtain ⟨b0, b1, b2, b3, hlv⟩ := len4 _ (hw l hlm)
  rw [lookup_vmfault, runBody]
  unfold hMachVmfault vmfaultCore
  simp only [firstOf, lastOf, List.head?_cons, Option.getD_some, hl, head_eq]
  have harg1 : arg e 1 = a1 := by simp [arg, hv]
  have harg2 : arg e 2 = a2 := by simp [arg, hv]
  have hl2 : arg l 2 = b2 := by simp [arg, hlv]
  have hl3 : arg l 3 = b3 := by simp [arg, hlv]
  simp only [harg1, harg2, hl2, hl3]
  have ereal : ∀ st, eval Expected.mach env (e :: rest) st Expected.realEventsE = .ok (.kevents (realEvents (e :: rest))) := by
    intro st; simp [Expected.realEventsE, eval, realEvents]
  by_cases hres : b2 = 0
  · subst hres
    cases hft : enumNameOfValue env "DbgVmFaultType" b3 with
    | none =>
      simp [Expected.handleMachVmfault, exec, evalCond, eval, Expected.lastWord, Expected.word, Expected.first, hl,
        attrOf_kevent, keventAttr, hv, hlv, truthy, Locals.set, hft, finish, tabs_same_self]
      rfl
    | some ft =>
      cases hre : realEvents (e :: rest) with
      | nil =>
        simp [Expected.handleMachVmfault, Expected.vmfaultReal, exec, evalCond, eval, Expected.lastWord, Expected.word,
          Expected.first, hl, attrOf_kevent, keventAttr, hv, hlv, truthy, Locals.set, hft, ereal, hre, evalArgs, mkObj_vm, finish, extra_vm, asOptName, asOptNat, asOptNames,
          render_vm_plain, mk, Except.map] <;> rfl
      | cons r rs =>
        cases hn : nested t (r :: rs) with
        | error err =>
          simp [Expected.handleMachVmfault, Expected.vmfaultReal, exec, evalCond, eval, Expected.lastWord, Expected.word,
            Expected.first, hl, attrOf_kevent, keventAttr, hv, hlv, truthy, Locals.set, hft, ereal, hre, hn, finish,
            tabs_same_self, Except.map]
        | ok res =>
          obtain ⟨o, t'⟩ := res
          cases o with
          | none =>
            simp [Expected.handleMachVmfault, Expected.vmfaultReal, exec, evalCond, eval, Expected.lastWord, Expected.word,
              Expected.first, hl, attrOf_kevent, keventAttr, hv, hlv, truthy, Locals.set, hft, ereal, hre, hn, evalArgs,
              mkObj_vm, finish, extra_vm, asOptName, asOptNat,
              asOptNames, render_vm_plain, mk, Except.map] <;> rfl
          | some out =>
            cases hpp : pidProtOf out with
            | error err =>
              simp [Expected.handleMachVmfault, Expected.vmfaultReal, exec, evalCond, eval, Expected.lastWord,
                Expected.word, Expected.first, hl, attrOf_kevent, attrOf_trace, traceAttr, keventAttr, hv, hlv, truthy,
                Locals.set, hft, ereal, hre, hn, hpp, finish, Except.map] <;> (cases t'.same t <;> rfl)
            | ok pp =>
              obtain ⟨pid, prot⟩ := pp
              cases pid <;> cases prot <;>
              simp [Expected.handleMachVmfault, Expected.vmfaultReal, exec, evalCond, eval, Expected.lastWord,
                Expected.word, Expected.first, hl, attrOf_kevent, attrOf_trace, traceAttr, keventAttr, hv, hlv, truthy,
                Locals.set, hft, ereal, hre, hn, hpp, optNat, optMembers, evalArgs, mkObj_vm, finish, extra_vm, asOptName, asOptNat, asOptNames, render_vm_plain,
                render_vm_full, mk, Except.map] <;> rfl
  · have hb : (b2 != 0) = true := by simpa using hres
    simp [Expected.handleMachVmfault, exec, evalCond, eval, Expected.lastWord, Expected.word, Expected.first, hl,
      attrOf_kevent, keventAttr, hv, hlv, truthy, Locals.set, hb, hres, evalArgs, mkObj_vm, finish, extra_vm, asOptName, asOptNat, asOptNames, render_vm_nonzero, mk,
      Except.map] <;> rfl

end mach

end KdVerif.PyIRCo
