import KdVerif.Model.Basic
/-
  Python `enum` classes as data.  `members` is `E.__members__` in declaration order (aliases
  included); `iter` is what `list(E)` yields on the running interpreter (for `Flag` classes on
  Python ≥ 3.11 only canonical single-bit members).  Both are reflected from the repository.
-/
namespace KdVerif

structure EnumMember where
  name : String
  value : Int
  deriving DecidableEq, Repr, Inhabited

structure EnumDef where
  name : String
  isFlag : Bool
  members : List EnumMember
  iter : List EnumMember
  deriving Repr, Inhabited

/-- `E(x)`: the first declared member with that value (aliases resolve to the first name). -/
def EnumDef.ofValue (e : EnumDef) (x : Int) : Option EnumMember := e.members.find? (·.value = x)

/-- `[m for m in E if m.value & x]` for a natural `x`. -/
def EnumDef.flagsOf (e : EnumDef) (x : Nat) : List EnumMember :=
  e.iter.filter fun m => m.value.toNat &&& x ≠ 0 ∧ 0 ≤ m.value

end KdVerif
