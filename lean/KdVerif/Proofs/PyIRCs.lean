import KdVerif.Spec.PyIRCsExpected
import KdVerif.Model.Callstacks
/-
  The expected IR of `insert_image` and of the frame loop of `feed_generator` (`Spec/PyIRCsExpected`), run by the
  interpreter of `Model/PyIRCs`, is `Callstacks.insertImage` / `Callstacks.lookupAll` — for every pair of lists, with
  the same exception where the model has one.  Core Lean only.
-/
namespace KdVerif.PyIRCs
open Callstacks

theorem run_insertImage (st : Images) (a : Nat) (u : Uuid) :
    run Expected.insertImage [.int a, .uuid u] st =
      match Callstacks.insertImage st a u with
      | .ok st' => .ok (.none, st')
      | .error e => .error e := by
  by_cases hm : a ∈ st.addrs
  · simp [run, Expected.insertImage, exec, eval, Env.ofArgs, hm, Callstacks.insertImage]
  · cases hb : Callstacks.bisect st.addrs a with
    | error e => simp [run, Expected.insertImage, exec, eval, Env.ofArgs, hm, Callstacks.insertImage, hb]
    | ok i =>
      simp [run, Expected.insertImage, exec, eval, Env.ofArgs, Env.set, hm, Callstacks.insertImage, hb, pyInsertPos]


theorem pyIndex_pred {α : Type} (l : List α) (i : Nat) (hi : i ≠ 0) : pyIndex l ((i : Int) - 1) = l[i - 1]? := by
  have h0 : (0 : Int) ≤ (i : Int) - 1 := by omega
  have h1 : ((i : Int) - 1).toNat = i - 1 := by omega
  unfold pyIndex
  rw [if_pos h0, h1]

theorem exec_frameBody (env : Env) (st : Images) (f : Nat) (acc : List FrameV)
    (h1 : env 1 = some (.frames acc)) (h2 : env 2 = some (.int f)) :
    match lookupFrame st f with
    | .error e => exec Expected.frameBody env st = .error e
    | .ok fr => ∃ env', env' 1 = some (.frames (acc ++ [ofFrame fr])) ∧
        exec Expected.frameBody env st = .ok (.normal, env', st) := by
  cases hb : Callstacks.bisect st.addrs f with
  | error e => simp [lookupFrame, hb, Expected.frameBody, exec, eval, h2]
  | ok i =>
    by_cases hi : i = 0
    · subst hi
      simp only [lookupFrame, hb, if_true]
      refine ⟨_, ?_, by
        simp [Expected.frameBody, exec, eval, h2, hb, Env.set, h1]
        rfl⟩
      simp [Env.set, ofFrame]
    · have hgt : ((i : Int) - 1 > -1) := by omega
      simp only [lookupFrame, hb, hi, if_false]
      cases hu : st.uuids[i - 1]? with
      | none =>
        simp [Expected.frameBody, exec, eval, h2, hb, Env.set, hgt, pyIndex_pred _ _ hi, hu]
      | some u =>
        cases ha : st.addrs[i - 1]? with
        | none =>
          simp [Expected.frameBody, exec, eval, h2, hb, Env.set, hgt, pyIndex_pred _ _ hi, hu, ha]
        | some a =>
          refine ⟨_, ?_, by
            simp [Expected.frameBody, exec, eval, h2, hb, Env.set, hgt, pyIndex_pred _ _ hi, hu, ha, h1]
            rfl⟩
          simp [Env.set, ofFrame]


theorem forLoop_frames (st : Images) (cs : List Nat) : ∀ (env : Env) (acc : List FrameV),
    env 1 = some (.frames acc) →
    match lookupAll st cs with
    | .error e => forLoop (fun env st => exec Expected.frameBody env st) 2 cs env st = .error e
    | .ok frs => ∃ env', env' 1 = some (.frames (acc ++ frs.map ofFrame)) ∧
        forLoop (fun env st => exec Expected.frameBody env st) 2 cs env st = .ok (.normal, env', st) := by
  induction cs with
  | nil => intro env acc h; exact ⟨env, by simpa [lookupAll] using h, rfl⟩
  | cons f fs ih =>
    intro env acc h
    have hb := exec_frameBody (env.set 2 (.int f)) st f acc (by simpa [Env.set] using h) (by simp [Env.set])
    cases hl : lookupFrame st f with
    | error e =>
      rw [hl] at hb
      simp [lookupAll, hl, forLoop, hb]
    | ok fr =>
      rw [hl] at hb
      obtain ⟨env1, h1, he⟩ := hb
      have := ih env1 (acc ++ [ofFrame fr]) h1
      cases hr : lookupAll st fs with
      | error e =>
        rw [hr] at this
        simp [lookupAll, hl, hr, forLoop, he, this]
      | ok frs =>
        rw [hr] at this
        obtain ⟨env2, h2, he2⟩ := this
        simp only [lookupAll, hl, hr]
        exact ⟨env2, by simpa using h2, by simp [forLoop, he, he2]⟩

theorem exec_forIn (v : Nat) (it : Expr) (body next : Stmt) (env : Env) (st : Images) :
    exec (.forIn v it body next) env st =
      match eval st env it with
      | .ok (.nats l) =>
        (match forLoop (fun env st => exec body env st) v l env st with
         | .ok (.normal, env', st') => exec next env' st'
         | r => r)
      | .ok _ => .error .unmodelled
      | .error x => .error x := by
  rw [exec]; rfl

theorem run_frameLoop (st : Images) (cs : List Nat) :
    run Expected.frameLoop [.sample cs] st =
      match lookupAll st cs with
      | .ok frs => .ok (.frames (frs.map ofFrame), st)
      | .error e => .error e := by
  have h := forLoop_frames st cs ((Env.ofArgs [.sample cs]).set 1 (.frames [])) [] (by simp [Env.set])
  have hit : eval st ((Env.ofArgs [.sample cs]).set 1 (.frames [])) (.csFrames (.var 0)) = .ok (.nats cs) := by
    simp [eval, Env.set, Env.ofArgs]
  simp only [run, Expected.frameLoop, List.length_cons, List.length_nil, ne_eq, not_true_eq_false, if_false]
  rw [exec, exec_forIn]
  simp only [hit]
  cases hl : lookupAll st cs with
  | error e => rw [hl] at h; simp [h]
  | ok frs =>
    rw [hl] at h
    obtain ⟨env', h1, he⟩ := h
    simp [he, exec, eval, h1]

end KdVerif.PyIRCs
